(* C05 — the property theorems.  Part A (this file): crash recovery of the commit pipeline, for
   EVERY list of operations (block decisions, persistence steps, crashes at any step — also
   during the handshake —, restarts, and restores of the application to one of its own earlier
   commits) and every deterministic application.  Part B (mempool lock clause) is restated at the
   end from C05/MemProofs.v.

   Reading guide: [reach A ops] is the world after running [ops] from the empty node;
   [a_journal (w_app w)] is the list of calls the application received on its consensus
   connection (plus the markers JCrash / JRollback k);  [reported_height j 0] is the height the
   application reports (Info) after journal j: that of its last Commit or restore. *)
From Coq Require Import List ZArith NArith Bool.
From TM Require Import C05.Model C05.Proofs.
Import ListNotations.
Open Scope Z_scope.

(* --- journal_shape, clause by clause ------------------------------------------------------ *)

(* The journal is accepted by the monitor automaton [journal_ok] (Model.v) that the harness also
   runs on the real application's journal. *)
Theorem C05_journal_shape : forall A ops,
  journal_ok (w_store (reach A ops)) (a_journal (w_app (reach A ops))) = true.
Proof. exact journal_accepted. Qed.
Print Assumptions C05_journal_shape.

(* InitChain is sent only while the application reports that it has committed no block. *)
Theorem C05_initchain_only_at_height_0 : forall A ops j1 j2,
  a_journal (w_app (reach A ops)) = j1 ++ JInit :: j2 -> reported_height j1 0 = 0.
Proof. exact initchain_only_at_zero. Qed.
Print Assumptions C05_initchain_only_at_height_0.

(* no_replay_of_committed + no_gap: a block is begun only at the height following the one the
   application reports — a block it has committed is never executed on it again, none is skipped. *)
Theorem C05_no_replay_no_gap : forall A ops j1 h j2,
  a_journal (w_app (reach A ops)) = j1 ++ JBegin h :: j2 -> h = reported_height j1 0 + 1.
Proof. exact begin_is_next_height. Qed.
Print Assumptions C05_no_replay_no_gap.

(* EndBlock h comes right after BeginBlock h and exactly the transactions of the stored block h,
   in block order. *)
Theorem C05_block_txs_in_order : forall A ops j1 h j2,
  a_journal (w_app (reach A ops)) = j1 ++ JEnd h :: j2 ->
  exists j0 b, j1 = j0 ++ JBegin h :: map JDeliver (b_txs b) /\
               load_block (w_store (reach A ops)) h = Some b.
Proof. exact end_follows_txs. Qed.
Print Assumptions C05_block_txs_in_order.

(* Commit h comes right after a complete BeginBlock h, DeliverTx*, EndBlock h of the stored block. *)
Theorem C05_commit_follows_whole_block : forall A ops j1 h j2,
  a_journal (w_app (reach A ops)) = j1 ++ JCommit h :: j2 ->
  exists j0 b, j1 = j0 ++ JBegin h :: map JDeliver (b_txs b) ++ [JEnd h] /\
               load_block (w_store (reach A ops)) h = Some b.
Proof. exact commit_follows_block. Qed.
Print Assumptions C05_commit_follows_whole_block.

(* --- recovery ------------------------------------------------------------------------------ *)

(* recovery_agrees: whenever the node is up between heights (after a completed restart or a
   completed commit) block store, saved state and application agree on the height and the app
   hash; moreover the saved state is the one of a node that applied the stored blocks without
   ever crashing, and the application has no uncommitted execution left. *)
Theorem C05_recovery_agrees : forall A ops, w_pc (reach A ops) = PIdle ->
  let w := reach A ops in
  store_height (w_store w) = s_height (w_state w) /\
  s_height (w_state w) = a_height (w_app w) /\
  s_apphash (w_state w) = enc (a_acc (w_app w)) /\
  w_state w = ref_state A (w_store w) (length (w_store w)) /\
  a_work (w_app w) = a_acc (w_app w).
Proof. exact recovery_agrees. Qed.
Print Assumptions C05_recovery_agrees.

(* at EVERY moment (mid-procedure, right after a crash): state <= store <= state+1,
   app <= store, every #ENDHEIGHT marker is for a stored block; the saved state and the
   application's committed state are those of crash-free executions of a prefix of the store. *)
Theorem C05_cursors_within_one : forall A ops,
  let w := reach A ops in
  s_height (w_state w) <= store_height (w_store w) <= s_height (w_state w) + 1 /\
  0 <= a_height (w_app w) <= store_height (w_store w) /\
  Forall (fun h => h <= store_height (w_store w)) (w_wal w).
Proof. exact cursors. Qed.
Print Assumptions C05_cursors_within_one.

(* unless the application is restored to an older commit of its own, it is never behind the saved
   state: together with the previous theorem the three cursors differ by at most one *)
Theorem C05_app_not_behind_state : forall A ops,
  (forall o, In o ops -> is_rollback o = false) ->
  s_height (w_state (reach A ops)) <= a_height (w_app (reach A ops)).
Proof. exact app_not_behind_state. Qed.
Print Assumptions C05_app_not_behind_state.

Theorem C05_saved_state_is_crash_free : forall A ops,
  let w := reach A ops in
  w_state w = genesis_state \/
  exists n, (n <= length (w_store w))%nat /\ w_state w = ref_state A (w_store w) n.
Proof. exact saved_state_is_crash_free. Qed.
Print Assumptions C05_saved_state_is_crash_free.

Theorem C05_app_state_is_crash_free : forall A ops,
  let w := reach A ops in
  exists n, a_height (w_app w) = Z.of_nat n /\ (n <= length (w_store w))%nat /\
            a_acc (w_app w) = racc A (w_store w) n.
Proof. exact app_state_is_crash_free. Qed.
Print Assumptions C05_app_state_is_crash_free.

(* handshake_total, safety half: no reachable world is a failure — none of the error returns
   and panics of Handshake/ReplayBlocks/replayBlocks/ApplyBlock (app hash asserts, heights out
   of range, missing ABCI responses, "uncovered case") is ever hit. *)
Theorem C05_never_fails : forall A ops c, w_pc (reach A ops) <> PFailed c.
Proof. exact never_fails. Qed.
Print Assumptions C05_never_fails.

(* handshake_total, liveness half: from every reachable crashed world the handshake, left alone,
   terminates with the node up (hence, by C05_recovery_agrees, in agreement). *)
Theorem C05_handshake_total : forall A ops, is_down (w_pc (reach A ops)) = true ->
  exists k, w_pc (run A (MRestart :: repeat MStep k) (reach A ops)) = PIdle.
Proof. exact handshake_total. Qed.
Print Assumptions C05_handshake_total.

(* recovery_progress: whenever the node is up, the next decided block is committed: the
   procedure terminates with the node up and the block appended to the store. *)
Theorem C05_recovery_progress : forall A ops txs, w_pc (reach A ops) = PIdle ->
  exists k, let w' := run A (MCommit txs :: repeat MStep k) (reach A ops) in
    w_pc w' = PIdle /\
    w_store w' = w_store (reach A ops) ++ [make_block (w_state (reach A ops)) txs].
Proof. exact recovery_progress. Qed.
Print Assumptions C05_recovery_progress.

(* --- non-vacuity ---------------------------------------------------------------------------- *)

Definition eapp : appsem :=
  {| ainit := 7%N; abegin := fun a h => (a + Z.to_N h)%N; adeliver := fun a t => ((a + t)%N, (t mod 2)%N) |}.
Definition boot := MRestart :: repeat MStep 2.
Definition full (txs : list N) := MCommit txs :: repeat MStep (7 + length txs).

(* crash after the application committed block 2 but before the state was saved: the restart
   finishes block 2 from the saved responses (mock application), the real application is not
   called again, then block 3 is committed *)
Definition ops1 := boot ++ full [5%N; 6%N] ++ [MCommit [1%N]] ++ repeat MStep 7 ++ [MCrash; MRestart]
                   ++ repeat MStep 2 ++ full [].
Example C05_journal_nonvacuous :
  w_pc (reach eapp ops1) = PIdle /\
  a_journal (w_app (reach eapp ops1)) =
    [JInit; JBegin 1; JDeliver 5%N; JDeliver 6%N; JEnd 1; JCommit 1;
     JBegin 2; JDeliver 1%N; JEnd 2; JCommit 2; JCrash; JBegin 3; JEnd 3; JCommit 3] /\
  w_state (reach eapp ops1) = {| s_height := 3; s_apphash := 25; s_lastres := [] |}.
Proof. vm_compute. auto. Qed.

(* two crashes (one during the handshake's replay), then the application comes back empty:
   InitChain again (it reports height 0) and both blocks are replayed, each once per life *)
Definition ops2 := boot ++ full [5%N; 6%N] ++ [MCommit [1%N]] ++ repeat MStep 4
                   ++ [MCrash; MRestart; MStep; MStep; MCrash; MRollback 0; MRestart] ++ repeat MStep 30.
Example C05_recovery_nonvacuous :
  w_pc (reach eapp ops2) = PIdle /\ store_height (w_store (reach eapp ops2)) = 2 /\
  a_journal (w_app (reach eapp ops2)) =
    [JInit; JBegin 1; JDeliver 5%N; JDeliver 6%N; JEnd 1; JCommit 1; JBegin 2; JDeliver 1%N; JCrash;
     JBegin 2; JDeliver 1%N; JCrash; JRollback 0; JInit; JBegin 1; JDeliver 5%N; JDeliver 6%N; JEnd 1;
     JCommit 1; JBegin 2; JDeliver 1%N; JEnd 2; JCommit 2].
Proof. vm_compute. auto. Qed.

(* a crashed world whose three cursors all differ: store 2, state 1, app 2 *)
Example C05_handshake_nonvacuous :
  let w := reach eapp (boot ++ full [5%N; 6%N] ++ [MCommit [1%N]] ++ repeat MStep 7 ++ [MCrash]) in
  is_down (w_pc w) = true /\ store_height (w_store w) = 2 /\ s_height (w_state w) = 1 /\ a_height (w_app w) = 2.
Proof. vm_compute. auto. Qed.

Example C05_split_nonvacuous :
  exists j1 j2, a_journal (w_app (reach eapp ops2)) = j1 ++ JInit :: j2 /\ j1 <> [].
Proof.
  exists [JInit; JBegin 1; JDeliver 5%N; JDeliver 6%N; JEnd 1; JCommit 1; JBegin 2; JDeliver 1%N; JCrash;
          JBegin 2; JDeliver 1%N; JCrash; JRollback 0].
  eexists. split; [vm_compute; reflexivity|discriminate].
Qed.

(* ============================================================================================
   Part B — the mempool lock clause (model C05/MemModel.v, proofs C05/MemProofs.v): for EVERY
   schedule of k submitter threads, the consensus thread's Commit rounds and the application
   serving the FIFO mempool connection.  V0 = mempool/v0 (CListMempool), V1 = mempool/v1. *)
From TM Require C05.MemModel C05.MemProofs.
Module MemPart.
Import TM.C05.MemModel TM.C05.MemProofs.

(* v0: while the consensus thread is between "FlushSync returned" (CommitSync is the next call)
   and the deferred Unlock after "Update returned", no New-CheckTx request is pending on the
   mempool connection and no step of any thread issues one. *)
Theorem C05_mem_no_new_checktx_during_commit :
  forall (rc : bool) (k : nat) (sched : list ev),
    let s := run V0 rc sched (init k) in
    in_window (cp s) = true ->
    no_new (q s) = true /\ forall i t, step V0 rc s (EIssueNew i t) = None.
Proof. exact no_new_checktx_during_commit. Qed.
Print Assumptions C05_mem_no_new_checktx_during_commit.

(* v0: nothing is issued by a submitter from Lock() to Unlock(). *)
Theorem C05_mem_no_issue_while_locked :
  forall (rc : bool) (k : nat) (sched : list ev),
    let s := run V0 rc sched (init k) in
    cp s <> CIdle -> forall i t, step V0 rc s (EIssueNew i t) = None.
Proof. exact no_issue_while_locked. Qed.
Print Assumptions C05_mem_no_issue_while_locked.

(* v0: the monitors run on the recorded traces of the Go code accept the trace of every schedule. *)
Theorem C05_mem_monitor_holds_v0 :
  forall (rc : bool) (k : nat) (sched : list ev),
    log_ok V0 (trace (run V0 rc sched (init k))) = true.
Proof. exact monitor_holds_v0. Qed.
Print Assumptions C05_mem_monitor_holds_v0.

(* v0, on the application's processing log alone: all rechecks of a block are executed before
   any new-transaction check that follows the block's Commit. *)
Theorem C05_mem_rechecks_precede_new :
  forall (rc : bool) (k : nat) (sched : list ev),
    applog_ok (app_log (run V0 rc sched (init k))) = true.
Proof. exact rechecks_precede_new. Qed.
Print Assumptions C05_mem_rechecks_precede_new.

(* v1 as it is: the clause fails (MemProps.v: C05_mem_v1_refuted_a/_b/_b_flush_gap); every
   failure on every schedule lies in the class of known finding 13 (F13). *)
Theorem C05_mem_v1_except_known :
  forall (rc : bool) (k : nat) (sched : list ev),
    log_ok_except_known V1 (trace (run V1 rc sched (init k))) = true.
Proof. exact monitor_v1_except_known. Qed.
Print Assumptions C05_mem_v1_except_known.

End MemPart.
(* non-vacuity examples and the v1 refutations: C05/MemProps.v (compiled with this file) *)
From TM Require C05.MemProps.

(* ============================================================================================
   Part A, continued — the WHOLE saved state and the WHOLE saved responses (C05/ModelState.v,
   C05/ProofsState.v).  [F : fullsem] supplies everything Model.v abstracts from: an arbitrary
   type [FSt F] for sm.State with updateState as an arbitrary function [upd F : state -> block ->
   responses -> state], state.AppHash = h as [set_hash F], the state changes of the InitChain
   branch as [upd_init F], and arbitrary payloads in the BeginBlock / DeliverTx / EndBlock
   responses of the deterministic application.  [xreach A F ops] = (world, extension) after the
   operations [ops]; [x_st] is the saved state, [x_resp] the last saved responses, [x_acc] the
   responses the running ApplyBlock has built. *)
From TM Require Import C05.ModelState C05.ProofsState.

(* the extended run projects onto the run of Model.v, which the correspondence check executes
   against the Go code on every run *)
Theorem C05_full_model_refines : forall A F ops, fst (xreach A F ops) = reach A ops.
Proof. exact xreach_fst. Qed.
Print Assumptions C05_full_model_refines.

(* clause 5 for the whole state.  For EVERY history (decisions, persistence steps, crashes at any
   point - also during the handshake, repeatedly -, restarts, application restores), every
   deterministic application and every updateState that does not read the BeginBlock response
   ([replay_faithful F]: that, or a mock application that replays the saved BeginBlock response
   too, which consensus/replay_stubs.go does not do - see C05_responses_saved_exact_refuted):
   whenever the node is up between heights, its saved state - as an element of [FSt F]:
   validators, parameters, results hash and all - is the saved state of a node that decided the
   same blocks and never crashed (one start, then only decisions and completed steps). *)
Theorem C05_state_equals_crash_free : forall A F, replay_faithful F -> init_idempotent F ->
  forall ops, w_pc (fst (xreach A F ops)) = PIdle ->
  exists ops', crash_free ops' /\ w_pc (fst (xreach A F ops')) = PIdle /\
    w_store (fst (xreach A F ops')) = w_store (fst (xreach A F ops)) /\
    x_st (snd (xreach A F ops)) = x_st (snd (xreach A F ops')).
Proof. exact state_equals_crash_free. Qed.
Print Assumptions C05_state_equals_crash_free.

(* ... and that state is the fold of updateState / AppHash assignment over the stored blocks with
   the responses of the application's execution of each block ([gref_chain], ModelState.v) *)
Theorem C05_state_is_fold_of_updates : forall A F, replay_faithful F -> init_idempotent F ->
  forall ops, w_pc (fst (xreach A F ops)) = PIdle ->
  x_st (snd (xreach A F ops)) = gref_chain A F (w_store (fst (xreach A F ops))).
Proof. exact state_when_up. Qed.
Print Assumptions C05_state_is_fold_of_updates.

(* at EVERY moment (mid-procedure, crashed, mid-handshake) the saved state is the untouched
   genesis state or the crash-free state of the first n stored blocks, n = the saved height *)
Theorem C05_state_crash_free_at_every_moment : forall A F, replay_faithful F -> init_idempotent F ->
  forall ops,
  let w := fst (xreach A F ops) in let e := snd (xreach A F ops) in
  (w_state w = genesis_state /\ x_st e = st0 F) \/
  exists n, (n <= length (w_store w))%nat /\ s_height (w_state w) = Z.of_nat n /\
            x_st e = gref_chain A F (firstn n (w_store w)).
Proof. exact state_always_crash_free. Qed.
Print Assumptions C05_state_crash_free_at_every_moment.

(* the saved ABCI responses, at every moment: they are for a stored block h = i+1, and their
   DeliverTx responses (codes and payloads) and their EndBlock response are those the
   application gives when it executes that block on top of its commit i ([racc A S i] is its
   state after the first i blocks; it is deterministic, so these are the responses of every
   execution of the block).  The BeginBlock response is the application's, or - after the
   handshake completed the block on the mock application, which re-saves what it replayed - the
   default response of abci.BaseApplication ([bp0 F]).  Their codes are Model.v's [w_resp]. *)
Theorem C05_responses_saved_match_applied : forall A F, replay_faithful F -> init_idempotent F ->
  forall ops h r,
  let w := fst (xreach A F ops) in
  x_resp (snd (xreach A F ops)) = Some (h, r) ->
  exists i b, nth_error (w_store w) i = Some b /\ h = b_height b /\ h = Z.of_nat i + 1 /\
    f_delivers r = f_delivers (gexec_resp A F (racc A (w_store w) i) b) /\
    f_end r = f_end (gexec_resp A F (racc A (w_store w) i) b) /\
    (f_begin r = f_begin (gexec_resp A F (racc A (w_store w) i) b) \/
     (mock_keeps_begin F = false /\ f_begin r = bp0 F)) /\
    w_resp w = Some (h, map fst (f_delivers r)).
Proof. exact responses_saved. Qed.
Print Assumptions C05_responses_saved_match_applied.

(* with a mock application that also replays the saved BeginBlock response (the repair proposed
   in fixes/F74-mock-replay-keeps-begin-block-response.diff) the saved responses are, at every
   moment, exactly the application's responses for that block *)
Theorem C05_responses_saved_exact_after_repair : forall A F, replay_faithful F -> init_idempotent F ->
  mock_keeps_begin F = true -> forall ops h r,
  let w := fst (xreach A F ops) in
  x_resp (snd (xreach A F ops)) = Some (h, r) ->
  exists i b, nth_error (w_store w) i = Some b /\ h = b_height b /\ h = Z.of_nat i + 1 /\
    r = gexec_resp A F (racc A (w_store w) i) b.
Proof. exact responses_saved_exact. Qed.
Print Assumptions C05_responses_saved_exact_after_repair.

(* responses are saved before the state: when a state Save is the next persistence operation
   (ApplyBlock of finalizeCommit, of the handshake's replayBlock on the real or on the mock
   application), the responses updateState was called with are exactly the saved ones, the state
   it was called on is the crash-free state of the preceding height, and DeliverTx / EndBlock
   responses are the application's for that block *)
Theorem C05_state_update_uses_saved_responses : forall A F, replay_faithful F -> init_idempotent F ->
  forall ops k b codes h,
  let w := fst (xreach A F ops) in let e := snd (xreach A F ops) in
  w_pc w = PSaveState k b codes h ->
  x_resp e = Some (b_height b, x_acc e) /\
  exists i, nth_error (w_store w) i = Some b /\ s_height (w_state w) = Z.of_nat i /\
    x_st e = gref_chain A F (firstn i (w_store w)) /\
    f_delivers (x_acc e) = f_delivers (gexec_resp A F (racc A (w_store w) i) b) /\
    f_end (x_acc e) = f_end (gexec_resp A F (racc A (w_store w) i) b).
Proof. exact state_update_uses_saved. Qed.
Print Assumptions C05_state_update_uses_saved_responses.

(* the free instance: let the "state" be the log of all (block, DeliverTx responses, EndBlock
   response) triples with which updateState was called and saved.  After any history, when the
   node is up, the log is the stored chain: every block exactly once, in order, each with the
   responses of its execution - no hypothesis on F. *)
Theorem C05_applied_sequence_once_in_order : forall A F ops,
  w_pc (fst (xreach A (history_sem F) ops)) = PIdle ->
  x_st (snd (xreach A (history_sem F) ops)) =
  applied_from A F (ainit A) (w_store (fst (xreach A (history_sem F) ops))).
Proof. exact applied_once_in_order. Qed.
Print Assumptions C05_applied_sequence_once_in_order.

(* --- non-vacuity and sharpness ------------------------------------------------------------- *)

Definition efull : fullsem :=
  {| BPay := N; DPay := N; EPay := N;
     pbegin := fun a _ => (a + 1)%N;                       (* never 0, the mock's default *)
     pdeliver := fun a t => (a * 2 + t)%N;
     pend := fun a b => (a + Z.to_N (b_height b))%N;
     bp0 := 0%N; ep0 := 0%N; mock_keeps_begin := false;
     FSt := list (Z * list (N * N) * N) * Z;
     upd := fun st b r => (fst st ++ [(b_height b, f_delivers r, f_end r)], EMPTY);
     set_hash := fun st h => (fst st, h);
     upd_init := fun st h => (fst st, h);
     st0 := ([], EMPTY) |}.

Example C05_efull_hypotheses : replay_faithful efull /\ init_idempotent efull.
Proof.
  split.
  - left. intros st b r r' H1 H2. cbn in *. rewrite H1, H2. reflexivity.
  - intros st h. reflexivity.
Qed.

(* ops1 (above): crash after the application committed block 2 and before the state was saved;
   the handshake rebuilds the state from the SAVED responses on the mock application *)
Definition ops1_crash_free := boot ++ full [5%N; 6%N] ++ full [1%N] ++ full [].
Example C05_state_nonvacuous :
  w_pc (fst (xreach eapp efull ops1)) = PIdle /\
  crash_free ops1_crash_free /\
  w_store (fst (xreach eapp efull ops1_crash_free)) = w_store (fst (xreach eapp efull ops1)) /\
  x_st (snd (xreach eapp efull ops1)) = x_st (snd (xreach eapp efull ops1_crash_free)) /\
  x_st (snd (xreach eapp efull ops1)) =
    ([(1, [(1%N, 21%N); (0%N, 32%N)], 20%N); (2, [(1%N, 43%N)], 24%N); (3, [], 28%N)], 25).
Proof.
  split; [vm_compute; reflexivity|]. split.
  - exists (tl ops1_crash_free). split; vm_compute; reflexivity.
  - vm_compute. auto.
Qed.

(* the same with a second crash during the recovery and an application restore (ops2) *)
Example C05_state_nonvacuous_restore :
  w_pc (fst (xreach eapp efull ops2)) = PIdle /\
  x_st (snd (xreach eapp efull ops2)) =
  x_st (snd (xreach eapp efull (boot ++ full [5%N; 6%N] ++ full [1%N]))).
Proof. vm_compute. auto. Qed.

(* right after the mock replay of block 2 the saved responses carry the mock's BeginBlock
   response (0), not the application's (here 19+1 = 20): the second alternative of
   C05_responses_saved_match_applied really occurs *)
Definition ops1_recovered := boot ++ full [5%N; 6%N] ++ [MCommit [1%N]] ++ repeat MStep 7
                             ++ [MCrash; MRestart] ++ repeat MStep 2.
Example C05_responses_nonvacuous :
  w_pc (fst (xreach eapp efull ops1_recovered)) = PIdle /\
  x_resp (snd (xreach eapp efull ops1_recovered)) =
    Some (2, {| f_begin := 0%N; f_delivers := [(1%N, 43%N)]; f_end := 24%N |}) /\
  x_resp (snd (xreach eapp efull (boot ++ full [5%N; 6%N] ++ full [1%N]))) =
    Some (2, {| f_begin := 20%N; f_delivers := [(1%N, 43%N)]; f_end := 24%N |}).
Proof. vm_compute. auto. Qed.

Example C05_state_update_nonvacuous :
  exists k b codes h,
    w_pc (fst (xreach eapp efull (boot ++ full [5%N; 6%N] ++ [MCommit [1%N]] ++ repeat MStep 7
                                  ++ [MCrash; MRestart; MStep]))) = PSaveState k b codes h /\
    k = KMock 22 /\ b_height b = 2.
Proof. do 4 eexists. vm_compute. auto. Qed.

(* sharpness: the hypothesis "updateState does not read the BeginBlock response" is needed.  With
   an updateState that records it, the state rebuilt through the mock application differs from
   the crash-free one (the Go updateState does not read it: state/execution.go). *)
Definition ebegin (keeps : bool) : fullsem :=
  {| BPay := N; DPay := unit; EPay := unit;
     pbegin := fun _ _ => 1%N; pdeliver := fun _ _ => tt; pend := fun _ _ => tt;
     bp0 := 0%N; ep0 := tt; mock_keeps_begin := keeps;
     FSt := list N;
     upd := fun st _ r => st ++ [f_begin r];
     set_hash := fun st _ => st; upd_init := fun st _ => st; st0 := [] |}.

Theorem C05_state_without_begin_irrelevance_refuted :
  exists A F ops ops', init_idempotent F /\
    w_pc (fst (xreach A F ops)) = PIdle /\ crash_free ops' /\ w_pc (fst (xreach A F ops')) = PIdle /\
    w_store (fst (xreach A F ops')) = w_store (fst (xreach A F ops)) /\
    x_st (snd (xreach A F ops)) <> x_st (snd (xreach A F ops')).
Proof.
  exists eapp, (ebegin false), ops1, ops1_crash_free. split; [intros st h; reflexivity|].
  split; [vm_compute; reflexivity|]. split.
  - exists (tl ops1_crash_free). split; vm_compute; reflexivity.
  - split; [vm_compute; reflexivity|]. split; [vm_compute; reflexivity|]. vm_compute. discriminate.
Qed.
Print Assumptions C05_state_without_begin_irrelevance_refuted.

(* the same updateState with the repaired mock application: the states agree *)
Example C05_state_nonvacuous_repaired_mock :
  replay_faithful (ebegin true) /\
  x_st (snd (xreach eapp (ebegin true) ops1)) = x_st (snd (xreach eapp (ebegin true) ops1_crash_free)) /\
  x_st (snd (xreach eapp (ebegin true) ops1)) = [1%N; 1%N; 1%N].
Proof. split; [right; reflexivity|]. vm_compute. auto. Qed.

(* REFUTED for the code as it is: "the saved ABCI responses are the ones the application gave".
   After a crash between the application's Commit and the state Save the handshake completes the
   block on the mock application and ApplyBlock saves the replayed responses again: DeliverTx and
   EndBlock responses are the saved (original) ones, the BeginBlock response is the default of
   abci.BaseApplication - its events are lost from the responses stored for that height
   (/block_results) and from the NewBlock events published by the recovery.  Replayed on the
   real code: see the report / fixes/F74. *)
Theorem C05_responses_saved_exact_refuted :
  exists A F ops h r i b, replay_faithful F /\ init_idempotent F /\
    w_pc (fst (xreach A F ops)) = PIdle /\
    x_resp (snd (xreach A F ops)) = Some (h, r) /\
    nth_error (w_store (fst (xreach A F ops))) i = Some b /\ h = Z.of_nat i + 1 /\
    f_begin r <> f_begin (gexec_resp A F (racc A (w_store (fst (xreach A F ops))) i) b).
Proof.
  exists eapp, efull, ops1_recovered, 2. eexists. exists 1%nat. eexists.
  split; [exact (proj1 C05_efull_hypotheses)|]. split; [exact (proj2 C05_efull_hypotheses)|].
  split; [vm_compute; reflexivity|]. split; [vm_compute; reflexivity|].
  split; [vm_compute; reflexivity|]. split; [reflexivity|]. vm_compute. discriminate.
Qed.
Print Assumptions C05_responses_saved_exact_refuted.

(* ============================================================================================
   Part A, continued — arbitrary genesis initial_height (finding F87; C05/ModelIH.v,
   C05/ProofsIH.v).  Model.v fixes InitialHeight = 1.  [route_ih repaired ih base store state app]
   transcribes the case analysis of consensus/replay.go ReplayBlocks on the REAL heights with the
   initial height as a parameter: [repaired = true] with
   fixes/F87-replay-genesis-state-below-initial-height.diff (the genesis state is compared as
   standing at ih-1), [false] as the code was.  [handshake_ih] carries the chosen replay out on
   the persisted cursors [cur] (store base/height, state height, application height, height of
   the saved responses). *)
From TM Require Import C05.ModelIH C05.ProofsIH.

(* at initial height 1 the transcription is Model.v's dispatch (repaired or not): the theorems
   above are about this very case analysis *)
Theorem C05_ih_route_at_1_is_dispatch : forall (w : world) (app_hash : Z) (repaired : bool),
  dispatch w app_hash =
  pc_of_route w app_hash
    (route_ih repaired 1 (store_base (w_store w)) (store_height (w_store w))
              (s_height (w_state w)) (a_height (w_app w))).
Proof. exact dispatch_is_route. Qed.
Print Assumptions C05_ih_route_at_1_is_dispatch.

(* never_fails + recovery_agrees for EVERY initial height ih >= 1 and EVERY admissible combination
   of the persisted cursors ([cur_ok]: nothing stored, or blocks ih..store, the state at the store
   or one block below - the genesis state counts as below ih -, the application at 0 or at a
   commit in ih..store, the last block's responses saved once the application committed it):
   the repaired handshake picks a replay that can be carried out (no error, no panic, every block
   it loads exists, every block it executes follows the application's commit, the block it
   applies follows the state) and afterwards state = store = application. *)
Theorem C05_ih_handshake_recovers : forall ih c, cur_ok ih c ->
  exists c', handshake_ih true ih c = Some c' /\
             c_store c' = c_store c /\ c_base c' = c_base c /\
             c_state c' = c_store c /\ c_app c' = c_store c.
Proof. exact repaired_recovers. Qed.
Print Assumptions C05_ih_handshake_recovers.

(* in particular at every crash point of the FIRST block (before SaveBlock, block stored,
   responses saved, application committed, state saved; application as it is or restored to 0):
   the three heights end at the initial height *)
Theorem C05_ih_first_block_recovers : forall ih c, 1 <= ih -> In c (first_block_points ih) ->
  exists c', handshake_ih true ih c = Some c' /\
             c_state c' = c_store c' /\ c_app c' = c_store c' /\ c_store c' = c_store c /\
             (c_store c' = ih \/ c_store c = 0).
Proof. exact first_block_recovers. Qed.
Print Assumptions C05_ih_first_block_recovers.

(* the repaired analysis at initial height ih is the analysis at initial height 1 - Model.v's -
   on heights counted from the genesis state's position ih-1 ([relh]; the translation Exec.v
   applies to the observations of the chains with ih > 1), up to "an empty replayBlocks range
   followed by replayBlock on the application is replayBlock on the application" ([norm]) *)
Theorem C05_ih_route_is_relative : forall ih c, cur_ok ih c ->
  norm (route_ih true ih (c_base c) (c_store c) (c_state c) (c_app c)) =
  norm (shift_route (ih - 1)
          (route_ih true 1 (relh ih (c_base c)) (relh ih (c_store c))
                    (relh ih (c_state c)) (relh ih (c_app c)))).
Proof. exact route_relative. Qed.
Print Assumptions C05_ih_route_is_relative.

(* the repair changes nothing for chains that start at 1 and nothing once a block was applied *)
Theorem C05_ih_repair_inert : forall ih bs sr st ap, ih = 1 \/ st <> 0 ->
  route_ih true ih bs sr st ap = route_ih false ih bs sr st ap.
Proof. exact repair_inert. Qed.
Print Assumptions C05_ih_repair_inert.

(* F87, the code as it was: for EVERY initial height > 1, once the first block is stored while
   the state is still the genesis state (any crash between SaveBlock and the state Save of the
   first block, application at 0 or already at ih), every restart ends in the panic
   "StoreBlockHeight > StateBlockHeight + 1" *)
Theorem C05_ih_unrepaired_bricks : forall ih c, 1 < ih ->
  c_store c = ih -> c_base c = ih -> c_state c = 0 -> (c_app c = 0 \/ c_app c = ih) ->
  route_ih false ih (c_base c) (c_store c) (c_state c) (c_app c) = RFail F_store_gt_state1 /\
  handshake_ih false ih c = None.
Proof. exact unrepaired_bricks. Qed.
Print Assumptions C05_ih_unrepaired_bricks.

Example C05_ih_nonvacuous :
  map (handshake_ih true 10) (first_block_points 10) =
  [ Some {| c_base := 0;  c_store := 0;  c_state := 0;  c_app := 0;  c_resp := 0 |};
    Some {| c_base := 10; c_store := 10; c_state := 10; c_app := 10; c_resp := 10 |};
    Some {| c_base := 10; c_store := 10; c_state := 10; c_app := 10; c_resp := 10 |};
    Some {| c_base := 10; c_store := 10; c_state := 10; c_app := 10; c_resp := 10 |};
    Some {| c_base := 10; c_store := 10; c_state := 10; c_app := 10; c_resp := 10 |};
    Some {| c_base := 10; c_store := 10; c_state := 10; c_app := 10; c_resp := 10 |} ] /\
  map (fun c => route_ih true 10 (c_base c) (c_store c) (c_state c) (c_app c)) (first_block_points 10) =
  [ RDone; RLoop 10 9 true; RLoop 10 9 true; RMock; RDone; RLoop 10 10 false ] /\
  (* later heights, huge initial height: store 2^40+1, state 2^40, application restored to 0 *)
  handshake_ih true (2 ^ 40)
    {| c_base := 2 ^ 40; c_store := 2 ^ 40 + 1; c_state := 2 ^ 40; c_app := 0; c_resp := 2 ^ 40 |} =
  Some {| c_base := 2 ^ 40; c_store := 2 ^ 40 + 1; c_state := 2 ^ 40 + 1; c_app := 2 ^ 40 + 1;
          c_resp := 2 ^ 40 + 1 |}.
Proof. vm_compute. auto. Qed.

(* the regression witness: initial height 10, crash right after SaveBlock(10) *)
Example C05_ih_unrepaired_refuted :
  let c := {| c_base := 10; c_store := 10; c_state := 0; c_app := 0; c_resp := 0 |} in
  In c (first_block_points 10) /\
  route_ih false 10 (c_base c) (c_store c) (c_state c) (c_app c) = RFail F_store_gt_state1 /\
  handshake_ih false 10 c = None /\
  map (handshake_ih false 10) (first_block_points 10) =
  [ Some {| c_base := 0; c_store := 0; c_state := 0; c_app := 0; c_resp := 0 |};
    None; None; None;
    Some {| c_base := 10; c_store := 10; c_state := 10; c_app := 10; c_resp := 10 |};
    Some {| c_base := 10; c_store := 10; c_state := 10; c_app := 10; c_resp := 10 |} ] /\
  (* initial height 1: both transcriptions recover *)
  map (handshake_ih false 1) (first_block_points 1) = map (handshake_ih true 1) (first_block_points 1).
Proof. cbv zeta. split; [right; left; reflexivity|]. vm_compute. auto. Qed.
