(* C05, mempool lock clause — proofs about the interleaving model MemModel.v.
   For EVERY schedule (list of labels), any number of submitters, any number of Commit rounds. *)
From Coq Require Import List Arith NArith Bool Lia.
From TM Require Import C05.MemModel.
Import ListNotations.

(* ------------------------------------------------------------------ generic simulation lemma *)

Lemma step0_obs : forall v rc s e s', step0 v rc s e = Some s' -> obs s' = obs s.
Proof.
  intros v rc s e s' H. unfold step0 in H.
  destruct e;
    repeat match type of H with
           | context [match ?x with _ => _ end] => destruct x
           end;
    try discriminate; inversion H; reflexivity.
Qed.

Lemma step_trace : forall v rc s e s', step v rc s e = Some s' -> trace s' = trace s ++ [e].
Proof.
  intros v rc s e s' H. unfold step in H. destruct (step0 v rc s e) as [s0|] eqn:E; [|discriminate].
  inversion H; subst. unfold trace, push_obs. simpl. rewrite (step0_obs _ _ _ _ _ E). reflexivity.
Qed.

Section Sim.
  Context {M : Type}.
  Variable mstep : M -> ev -> M.
  Variable m0 : M.
  Variable v : variant.
  Variable rc : bool.
  Variable I : state -> M -> Prop.
  Hypothesis Hstep : forall s m e s', I s m -> step v rc s e = Some s' -> I s' (mstep m e).

  Lemma run_sim : forall sched s,
      I s (fold_left mstep (trace s) m0) ->
      I (run v rc sched s) (fold_left mstep (trace (run v rc sched s)) m0).
  Proof.
    induction sched as [|e r IH]; intros s H; simpl; [exact H|].
    apply IH. unfold exec. destruct (step v rc s e) as [s'|] eqn:E; [|exact H].
    rewrite (step_trace _ _ _ _ _ E), fold_left_app. simpl. eapply Hstep; eauto.
  Qed.
End Sim.

(* ------------------------------------------------------------------ list facts *)

Definition is_re (r : req) : bool := match r with RRe _ => true | _ => false end.
Definition is_mark (r : req) : bool := match r with RMark => true | _ => false end.
Definition no_re (l : list req) : bool := forallb (fun r => negb (is_re r)) l.
Definition nomark (l : list req) : bool := forallb (fun r => negb (is_mark r)) l.
Fixpoint count_re (l : list req) : nat :=
  match l with [] => 0 | RRe _ :: r => S (count_re r) | _ :: r => count_re r end.
Fixpoint count_chk (l : list req) : nat :=
  match l with [] => 0 | RMark :: r => count_chk r | _ :: r => S (count_chk r) end.
(* rechecks precede new checks *)
Fixpoint okq (l : list req) : bool :=
  match l with [] => true | RNew _ _ :: r => no_re r | _ :: r => okq r end.

Lemma count_re_app : forall a b, count_re (a ++ b) = count_re a + count_re b.
Proof. induction a as [|[]]; intros; simpl; auto. Qed.
Lemma count_chk_app : forall a b, count_chk (a ++ b) = count_chk a + count_chk b.
Proof. induction a as [|[]]; intros; simpl; auto. Qed.
Lemma no_re_count : forall l, no_re l = true -> count_re l = 0.
Proof. induction l as [|[]]; simpl; intros; auto; discriminate. Qed.
Lemma no_re_okq : forall l, no_re l = true -> okq l = true.
Proof. induction l as [|[]]; simpl; intros; auto; discriminate. Qed.
Lemma no_new_okq : forall l, no_new l = true -> okq l = true.
Proof. induction l as [|[]]; simpl; intros; auto; discriminate. Qed.
Lemma okq_app_new : forall l i t, okq l = true -> okq (l ++ [RNew i t]) = true.
Proof.
  induction l as [|[]]; simpl; intros; auto.
  unfold no_re in *. rewrite forallb_app, H. reflexivity.
Qed.
Lemma okq_app_mark : forall l, okq l = true -> okq (l ++ [RMark]) = true.
Proof.
  induction l as [|[]]; simpl; intros; auto.
  unfold no_re in *. rewrite forallb_app, H. reflexivity.
Qed.
Lemma okq_tail : forall x l, okq (x :: l) = true -> okq l = true.
Proof. intros [] l H; simpl in H; auto. apply no_re_okq; auto. Qed.

Lemma holder_not_noholders : forall l i p,
    nth_error l i = Some p -> holds p = true -> noholders l = true -> False.
Proof.
  induction l as [|x l IH]; intros [|i] p E Hp Hn; simpl in *; try discriminate.
  - inversion E; subst. rewrite Hp in Hn. discriminate.
  - apply andb_true_iff in Hn as [_ Hn]. eapply IH; eauto.
Qed.

Lemma noholders_set : forall l i p,
    noholders l = true -> holds p = false -> noholders (set_nth l i p) = true.
Proof.
  induction l as [|x l IH]; intros [|i] p Hn Hp; simpl in *; auto;
    apply andb_true_iff in Hn as [H1 H2]; apply andb_true_iff; split; auto.
  rewrite Hp; reflexivity.
Qed.

Lemma remove1_length : forall t l r, remove1 t l = Some r -> length l = S (length r).
Proof.
  induction l as [|x l IH]; intros r H; simpl in H; [discriminate|].
  destruct (Nat.eqb x t).
  - injection H as <-. reflexivity.
  - destruct (remove1 t l) as [r'|]; [|discriminate]. injection H as <-. simpl. rewrite (IH r'); auto.
Qed.

(* ------------------------------------------------------------------ the v0 invariant *)

Definition locked (c : cpc) : bool := match c with CIdle => false | _ => true end.
Definition todo_len (c : cpc) : nat := match c with CRecheck l => length l | _ => 0 end.
(* between CommitSync requested and mempool.Update returned *)
Definition inwin_pc (c : cpc) : bool :=
  match c with CCommitWait | CCommitted | CRecheck _ | CUpdDone => true | _ => false end.

Definition qshape (c : cpc) (q : list req) : Prop :=
  match c with
  | CIdle | CLocked | CFlushCalled => okq q = true /\ nomark q = true
  | CFlushWait => exists a, q = a ++ [RMark] /\ okq a = true /\ nomark a = true
  | CFlushRet | CFlushed | CCommitWait | CCommitted => q = []
  | CRecheck _ | CUpdDone | CUpdRet => no_new q = true /\ nomark q = true
  end.

Definition Inv0 (s : state) (m : mst) : Prop :=
  wr s = locked (cp s) /\
  (wr s = true -> noholders (subs s) = true) /\
  qshape (cp s) (q s) /\
  m_held m = wr s /\
  m_inwin m = inwin_pc (cp s) /\
  m_outst m = count_re (q s) + todo_len (cp s) /\
  m_pend m = count_chk (q s) /\
  m_bad m = [] /\
  m_errs m = [].

Lemma inv0_init : forall k, Inv0 (init k) m_init.
Proof. intro k. unfold Inv0, init; simpl. repeat split; auto. intro; discriminate. Qed.

Ltac inv_some H := injection H as <-.

Lemma nomark_head_mark : forall a r, RMark :: r = a ++ [RMark] -> nomark a = true -> a = [] /\ r = [].
Proof.
  intros [|x a] r E Hn; simpl in *.
  - inversion E; auto.
  - inversion E; subst. simpl in Hn. discriminate.
Qed.

Ltac idle_new Hq :=
  let Q1 := fresh "Q" in let Q2 := fresh "Q" in
  destruct Hq as [Q1 Q2]; rewrite (no_re_count _ Q1); simpl;
  repeat split; auto; apply no_re_okq; auto.
Ltac idle_re Hq :=
  let Q1 := fresh "Q" in let Q2 := fresh "Q" in
  destruct Hq as [Q1 Q2]; repeat split; auto; lia.

Lemma inv0_step0 : forall rc s m e s',
    Inv0 s m -> step0 V0 rc s e = Some s' -> Inv0 s' (mon_step V0 m e).
Proof.
  intros rc [w c sb qq pl td dn fl h ob] [mh mi mo mp mb me] e s' HI Hs.
  unfold Inv0 in *; simpl in HI.
  destruct HI as (Hw & Hh & Hq & Eh & Ei & Eo & Ep & Eb & Ee). subst mh mi mo mp mb me.
  destruct e; simpl in Hs.
  - (* ELock *)
    destruct c; try discriminate.
    destruct (negb w && noholders sb) eqn:C; [|discriminate]. inv_some Hs.
    apply andb_true_iff in C as [C1 C2]. simpl in *. repeat split; auto; tauto.
  - (* EFlushCall *)
    destruct c; try discriminate. inv_some Hs. simpl in *. repeat split; auto; tauto.
  - (* EFlushReq *)
    destruct c; try discriminate. inv_some Hs. simpl in *. destruct Hq as [Q1 Q2].
    rewrite count_re_app, count_chk_app. simpl. repeat split; auto; try lia.
    exists qq. auto.
  - (* EFlushRet *)
    destruct c; try discriminate. destruct qq as [|[] r]; try discriminate. inv_some Hs.
    simpl in *. destruct Hq as (a & E & Q1 & Q2).
    destruct (nomark_head_mark _ _ E Q2) as [-> ->]. simpl. repeat split; auto.
  - (* EFlushDone *)
    destruct c; try discriminate. inv_some Hs. simpl in *. repeat split; auto.
  - (* ECommitReq *)
    destruct c; try discriminate. inv_some Hs. simpl in *. subst qq. simpl. repeat split; auto.
  - (* ECommitProc *)
    destruct c; try discriminate. inv_some Hs. simpl in *. repeat split; auto.
  - (* EUpdate *)
    destruct c; try discriminate.
    destruct (Nat.eqb n (length (if rc then minus_blk pl blk else []))) eqn:En; [|discriminate].
    apply Nat.eqb_eq in En. inv_some Hs. simpl in *. subst qq.
    destruct (if rc then minus_blk pl blk else []) as [|x l] eqn:Et; simpl in *;
      repeat split; auto; lia.
  - (* EIssueRe *)
    destruct c; try discriminate. destruct (remove1 t todo) as [r|] eqn:Er; [|discriminate].
    apply remove1_length in Er. inv_some Hs. simpl in *. destruct Hq as [Q1 Q2].
    rewrite count_re_app, count_chk_app. simpl.
    unfold no_new, nomark in *. rewrite !forallb_app, Q1, Q2. simpl. repeat split; auto; lia.
  - (* EFlushAsync *)
    destruct c; try discriminate. destruct todo; try discriminate. inv_some Hs.
    simpl in *. repeat split; auto; tauto.
  - (* EUpdRet *)
    destruct c; try discriminate. inv_some Hs. simpl in *. repeat split; auto; tauto.
  - (* EUnlock *)
    destruct c; try discriminate. inv_some Hs. simpl in *. destruct Hq as [Q1 Q2].
    repeat split; auto; try discriminate. apply no_new_okq; auto.
  - (* EPre *)
    unfold sub_at in Hs; simpl in Hs.
    destruct (nth_error sb i) as [[]|] eqn:En; try discriminate.
    destruct w; simpl in Hs; [discriminate|]. inv_some Hs. simpl in *.
    repeat split; auto; try discriminate.
  - (* ERUnlock *)
    unfold sub_at in Hs; simpl in Hs.
    destruct (nth_error sb i) as [[]|] eqn:En; try discriminate; inv_some Hs; simpl in *;
      (repeat split; auto; intro Hw'; exfalso; eapply holder_not_noholders; eauto).
  - (* EIssueNew *)
    unfold sub_at in Hs; simpl in Hs.
    destruct (nth_error sb i) as [[]|] eqn:En; try discriminate.
    destruct (Nat.eqb t t0); [|discriminate]. inv_some Hs. simpl in *.
    destruct w.
    + exfalso. eapply holder_not_noholders; eauto.
    + destruct c; try discriminate. simpl in *. destruct Hq as [Q1 Q2].
      rewrite count_re_app, count_chk_app. simpl.
      unfold nomark in *. rewrite forallb_app, Q2. simpl.
      repeat split; auto; try lia; try discriminate. apply okq_app_new; auto.
  - (* EProcNew *)
    destruct qq as [|[i' t'| |] r]; try discriminate.
    destruct (Nat.eqb i i' && Nat.eqb t t'); [|discriminate]. inv_some Hs. simpl in *.
    destruct c; simpl in *;
      [ idle_new Hq | idle_new Hq | idle_new Hq | | discriminate | discriminate | discriminate
      | discriminate | destruct Hq; discriminate | destruct Hq; discriminate | destruct Hq; discriminate ].
    destruct Hq as (a & E & Q1 & Q2). destruct a as [|x a]; simpl in E; [discriminate|].
    injection E as E1 E2; subst x r. simpl in Q1, Q2.
    rewrite count_re_app, (no_re_count _ Q1). simpl.
    repeat split; auto. exists a. repeat split; auto. apply no_re_okq; auto.
  - (* EProcRe *)
    destruct qq as [|[| t' |] r]; try discriminate.
    destruct (Nat.eqb t t'); [|discriminate]. inv_some Hs. simpl in *.
    destruct c; simpl in *;
      [ idle_re Hq | idle_re Hq | idle_re Hq | | discriminate | discriminate | discriminate
      | discriminate | idle_re Hq | idle_re Hq | idle_re Hq ].
    destruct Hq as (a & E & Q1 & Q2). destruct a as [|x a]; simpl in E; [discriminate|].
    injection E as E1 E2; subst x r. simpl in Q1, Q2. repeat split; auto. exists a. auto.
  - (* EPostNew *) discriminate.
  - (* EPostRe *) discriminate.
Qed.

Lemma inv0_push : forall e s m, Inv0 s m -> Inv0 (push_obs e s) m.
Proof. intros e [] m H. exact H. Qed.

Lemma inv0_step : forall rc s m e s',
    Inv0 s m -> step V0 rc s e = Some s' -> Inv0 s' (mon_step V0 m e).
Proof.
  intros rc s m e s' HI Hs. unfold step in Hs.
  destruct (step0 V0 rc s e) as [s0|] eqn:E; [|discriminate]. inv_some Hs.
  apply inv0_push. eapply inv0_step0; eauto.
Qed.

Lemma inv0_run : forall rc k sched,
    let s := run V0 rc sched (init k) in Inv0 s (mon V0 (trace s)).
Proof.
  intros rc k sched. unfold mon.
  apply (run_sim (mon_step V0) m_init V0 rc Inv0 (inv0_step rc)).
  apply inv0_init.
Qed.

(* ---- theorem 1 (v0): while the consensus thread is between "flush returned" and "Update
   returned / unlock", no New-CheckTx request is pending on the mempool connection and no
   step issues one. *)
Theorem no_new_checktx_during_commit :
  forall (rc : bool) (k : nat) (sched : list ev),
    let s := run V0 rc sched (init k) in
    in_window (cp s) = true ->
    no_new (q s) = true /\ forall i t, step V0 rc s (EIssueNew i t) = None.
Proof.
  intros rc k sched s Hwin.
  pose proof (inv0_run rc k sched) as HI. fold s in HI.
  destruct HI as (Hw & Hh & Hq & _).
  split.
  - destruct (cp s); simpl in *; try discriminate; try (rewrite Hq; reflexivity); tauto.
  - intros i t. unfold step, step0, sub_at.
    destruct (nth_error (subs s) i) as [[]|] eqn:En; auto.
    exfalso. eapply holder_not_noholders; eauto. apply Hh.
    rewrite Hw. destruct (cp s); simpl in *; auto; discriminate.
Qed.

(* the whole write-locked period: nothing is issued (pending requests may exist before the flush) *)
Theorem no_issue_while_locked :
  forall (rc : bool) (k : nat) (sched : list ev),
    let s := run V0 rc sched (init k) in
    cp s <> CIdle -> forall i t, step V0 rc s (EIssueNew i t) = None.
Proof.
  intros rc k sched s Hc i t.
  pose proof (inv0_run rc k sched) as HI. fold s in HI.
  destruct HI as (Hw & Hh & _).
  unfold step, step0, sub_at.
  destruct (nth_error (subs s) i) as [[]|] eqn:En; auto.
  exfalso. eapply holder_not_noholders; eauto. apply Hh.
  rewrite Hw. destruct (cp s); simpl; auto; congruence.
Qed.

(* ---- theorem 2 (v0): the monitors of clauses 31-34 accept the trace of every schedule *)
Theorem monitor_holds_v0 :
  forall (rc : bool) (k : nat) (sched : list ev),
    log_ok V0 (trace (run V0 rc sched (init k))) = true.
Proof.
  intros rc k sched. pose proof (inv0_run rc k sched) as HI. simpl in HI.
  destruct HI as (_ & _ & _ & _ & _ & _ & _ & _ & He). unfold log_ok. rewrite He. reflexivity.
Qed.

(* ---- theorem 3 (v0), on the application's processing log alone *)

Definition ap_step (st : bool * bool) (e : ev) : bool * bool :=
  match e with
  | ECommitProc => (false, snd st)
  | EProcNew _ _ => (true, snd st)
  | EProcRe _ => (fst st, snd st && negb (fst st))
  | _ => st
  end.

Lemma applog_fold : forall l b, applog_ok_from b l = snd (fold_left ap_step l (b, true)).
Proof.
  assert (G : forall l b o, snd (fold_left ap_step l (b, o)) = o && applog_ok_from b l).
  { induction l as [|e l IH]; intros b o; simpl; [rewrite andb_true_r; reflexivity|].
    destruct e; simpl; rewrite ?IH; auto.
    rewrite <- andb_assoc. reflexivity. }
  intros l b. rewrite G. reflexivity.
Qed.

Lemma applog_filter : forall l b, applog_ok_from b (filter is_app l) = applog_ok_from b l.
Proof.
  induction l as [|e l IH]; intro b; simpl; auto.
  destruct e; simpl; rewrite ?IH; auto.
Qed.

Definition pre_commit (c : cpc) : bool :=
  match c with
  | CIdle | CLocked | CFlushCalled | CFlushWait | CFlushRet | CFlushed | CCommitWait => true
  | _ => false
  end.

Definition InvA (s : state) (st : bool * bool) : Prop :=
  (exists m, Inv0 s m) /\ snd st = true /\
  (fst st = true -> count_re (q s) = 0 /\ pre_commit (cp s) = true).

Lemma invA_step : forall rc s st e s',
    InvA s st -> step V0 rc s e = Some s' -> InvA s' (ap_step st e).
Proof.
  intros rc s [sn ok] e s' ((m & HI) & Hok & Hs) Hst. simpl in *. subst ok.
  pose proof (inv0_step _ _ _ _ _ HI Hst) as HI'.
  split; [eauto|].
  unfold step in Hst. destruct (step0 V0 rc s e) as [s0|] eqn:E; [|discriminate]. inv_some Hst.
  destruct HI as (Hw & Hh & Hq & _). clear HI'.
  destruct s as [w c sb qq pl td dn fl h ob]. simpl in *.
  destruct e; simpl in E |- *;
    try (split; [reflexivity|]; intro Hsn; specialize (Hs Hsn); destruct Hs as [Hs1 Hs2]).
  - destruct c; try discriminate. destruct (negb w && noholders sb); [|discriminate]; inv_some E; simpl; auto.
  - destruct c; try discriminate. inv_some E; simpl; auto.
  - destruct c; try discriminate. inv_some E; simpl. rewrite count_re_app. simpl. split; auto; lia.
  - destruct c; try discriminate. destruct qq as [|[] r]; try discriminate. inv_some E; simpl in *; auto.
  - destruct c; try discriminate. inv_some E; simpl; auto.
  - destruct c; try discriminate. inv_some E; simpl; auto.
  - split; [reflexivity|]. intro; discriminate.
  - destruct c; try discriminate.
  - destruct c; try discriminate.
  - destruct c; try discriminate.
  - destruct c; try discriminate.
  - destruct c; try discriminate.
  - unfold sub_at in E; simpl in E. destruct (nth_error sb i) as [[]|]; try discriminate.
    destruct (negb w); [|discriminate]; inv_some E; simpl; auto.
  - unfold sub_at in E; simpl in E. destruct (nth_error sb i) as [[]|]; try discriminate;
      inv_some E; simpl; auto.
  - unfold sub_at in E; simpl in E. destruct (nth_error sb i) as [[]|]; try discriminate.
    destruct (Nat.eqb t t0); [|discriminate]; inv_some E; simpl. rewrite count_re_app. simpl. split; auto; lia.
  - (* EProcNew: sets the flag *)
    split; [reflexivity|]. intros _.
    destruct qq as [|[i' t'| |] r]; try discriminate.
    destruct (Nat.eqb i i' && Nat.eqb t t'); [|discriminate]; inv_some E; simpl.
    destruct c; simpl in *;
      [ destruct Hq; split; auto; apply no_re_count; auto
      | destruct Hq; split; auto; apply no_re_count; auto
      | destruct Hq; split; auto; apply no_re_count; auto
      | | discriminate | discriminate | discriminate | discriminate
      | destruct Hq; discriminate | destruct Hq; discriminate | destruct Hq; discriminate ].
    destruct Hq as (a & Ea & Q1 & Q2). destruct a as [|x a]; simpl in Ea; [discriminate|].
    injection Ea as E1 E2; subst x r. simpl in Q1. rewrite count_re_app, (no_re_count _ Q1). auto.
  - (* EProcRe: the flag must be off *)
    destruct qq as [|[| t' |] r]; try discriminate.
    destruct (Nat.eqb t t'); [|discriminate]; inv_some E; simpl.
    destruct sn; simpl.
    + destruct (Hs eq_refl) as [Hs1 _]. simpl in Hs1. discriminate.
    + split; auto. intro; discriminate.
  - discriminate.
  - discriminate.
Qed.

Theorem rechecks_precede_new :
  forall (rc : bool) (k : nat) (sched : list ev),
    applog_ok (app_log (run V0 rc sched (init k))) = true.
Proof.
  intros rc k sched. unfold applog_ok, app_log. rewrite applog_filter, applog_fold.
  pose proof (run_sim ap_step (false, true) V0 rc InvA (invA_step rc) sched (init k)) as H.
  destruct H as (_ & Hok & _); auto.
  split; [exists m_init; apply inv0_init|]. simpl. split; auto.
Qed.

(* ------------------------------------------------------------------ v1 *)

(* What survives in v1: the lock itself works.  No submitter runs its pre-check phase while the
   consensus thread holds the write lock, hence every failure of clauses 31-33 on a v1 schedule
   is in the class of known finding 13 and clause 34 never fails. *)
Definition Inv1 (s : state) (m : mst) : Prop :=
  m_held m = wr s /\ m_bad m = [] /\ forallb (fun ck : N * bool => snd ck) (m_errs m) = true.

Lemma inv1_step0 : forall rc s m e s',
    Inv1 s m -> step0 V1 rc s e = Some s' -> Inv1 s' (mon_step V1 m e).
Proof.
  intros rc [w c sb qq pl td dn fl h ob] [mh mi mo mp mb me] e s' (Eh & Eb & Ee) Hs.
  simpl in *. subst mh mb.
  unfold step0 in Hs.
  destruct e; simpl in Hs |- *; unfold sub_at in Hs; simpl in Hs;
    repeat match type of Hs with
           | context [match ?x with _ => _ end] => destruct x eqn:?
           end;
    try discriminate; inv_some Hs; unfold Inv1; simpl; auto;
    repeat match goal with
           | |- context [if ?b then _ else _] => destruct b eqn:?
           end; simpl; auto; try discriminate.
Qed.

Lemma inv1_step : forall rc s m e s',
    Inv1 s m -> step V1 rc s e = Some s' -> Inv1 s' (mon_step V1 m e).
Proof.
  intros rc s m e s' HI Hs. unfold step in Hs.
  destruct (step0 V1 rc s e) as [s0|] eqn:E; [|discriminate]. inv_some Hs.
  pose proof (inv1_step0 _ _ _ _ _ HI E) as H. destruct s0; exact H.
Qed.

Theorem monitor_v1_except_known :
  forall (rc : bool) (k : nat) (sched : list ev),
    log_ok_except_known V1 (trace (run V1 rc sched (init k))) = true.
Proof.
  intros rc k sched.
  pose proof (run_sim (mon_step V1) m_init V1 rc Inv1 (inv1_step rc) sched (init k)) as H.
  destruct H as (_ & _ & He); [repeat split; auto|]. exact He.
Qed.
