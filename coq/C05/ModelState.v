(* C05 (part A) — the commit pipeline / handshake model of C05/Model.v extended with the FULL
   sm.State and the FULL ABCI responses.  Definitions only, no proofs (C05/ProofsState.v).

   Model.v carries three fields of sm.State (height, app hash, result codes) and, of the ABCI
   responses, the DeliverTx result codes.  Here the state is an element of an ARBITRARY type [St]
   (validators, next/last validators, consensus parameters, last results hash, last block id and
   time, version, ... whatever sm.State has) and a response carries arbitrary payloads next to
   the codes (events, data, gas, validator updates, consensus parameter updates).  Model.v is
   not copied: the control flow (which persistence operation comes next, which of the handshake's
   cases is taken) is Model.v's [step] / [do_op] itself - the functions that the correspondence
   run evaluates against the Go code - and this file adds what the same Go statements do to the
   values Model.v does not carry.  [fst (xdo_op x o) = do_op A (fst x) o] holds by construction.

   Transcribed statements (state/execution.go ApplyBlock, consensus/replay.go ReplayBlocks,
   consensus/replay_stubs.go mockProxyApp):
   * execBlockOnProxyApp builds abciResponses = {BeginBlock, DeliverTxs[i], EndBlock} from what
     the connection answers.  On the real application the answers are functions of the
     application's working state and the request ([pbegin], [adeliver]+[pdeliver], [pend]: a
     deterministic application).  On the mock application of the handshake BeginBlock answers
     the default response of abci.BaseApplication ([bp0]), DeliverTx number i answers the i-th
     SAVED DeliverTx response, EndBlock the SAVED EndBlock response ([mock_replay]).
   * SaveABCIResponses(height, abciResponses) overwrites the last saved responses ([x_resp]).
   * state, err = updateState(state, blockID, &block.Header, abciResponses, validatorUpdates)
     is [upd]: a pure function of its arguments (validatorUpdates is computed from
     abciResponses.EndBlock; blockID and header are those of the block - finalizeCommit takes
     them from the decided block, replayBlock from the block store where finalizeCommit put
     them).  Its error returns (invalid validator / parameter updates) are not modelled.
   * state.AppHash = appHash is [set_hash]; blockExec.store.Save(state) assigns [x_st].
   * ReplayBlocks after InitChain, when stateBlockHeight == 0: state.AppHash, Validators,
     NextValidators, ConsensusParams, Version, LastResultsHash are set from the InitChain response
     (a constant of the deterministic application) and the state is saved: [upd_init].
   * ExecCommitBlock (replayBlocks' loop) executes a block and drops the responses; neither the
     saved responses nor the state change.
   * a crash loses the responses under construction (volatile); saved state and saved responses
     survive. *)
From Coq Require Import List ZArith NArith Bool.
From TM Require Import C05.Model.
Import ListNotations.
Open Scope Z_scope.

(* a response: payloads of ResponseBeginBlock / ResponseDeliverTx (result code, payload beyond
   the code) / ResponseEndBlock *)
Record fresp (BP DP EP : Type) := { f_begin : BP; f_delivers : list (N * DP); f_end : EP }.
Arguments f_begin {BP DP EP} _.
Arguments f_delivers {BP DP EP} _.
Arguments f_end {BP DP EP} _.
Arguments Build_fresp {BP DP EP} _ _ _.

(* everything Model.v abstracts from, as parameters *)
Record fullsem := {
  BPay : Type; DPay : Type; EPay : Type;
  (* the deterministic application: the payload it returns, as a function of its working state
     at the moment of the call and of the request *)
  pbegin : N -> block -> BPay;
  pdeliver : N -> tx -> DPay;
  pend : N -> block -> EPay;
  (* the default (empty) responses of abci.BaseApplication *)
  bp0 : BPay; ep0 : EPay;
  (* what the handshake's mock application answers to BeginBlock: false = the default response
     (consensus/replay_stubs.go as it is: mockProxyApp does not override BeginBlock), true = the
     saved BeginBlock response (after the proposed repair fixes/F74) *)
  mock_keeps_begin : bool;
  (* sm.State *)
  FSt : Type;
  upd : FSt -> block -> fresp BPay DPay EPay -> FSt;   (* updateState *)
  set_hash : FSt -> Z -> FSt;                          (* state.AppHash = appHash *)
  upd_init : FSt -> Z -> FSt;                          (* the stateBlockHeight == 0 branch after InitChain *)
  st0 : FSt }.                                         (* MakeGenesisState *)

Section Full.
Variable A : appsem.
Variable F : fullsem.

Notation BP := (BPay F).
Notation DP := (DPay F).
Notation EP := (EPay F).
Notation St := (FSt F).
Notation fresp := (fresp (BPay F) (DPay F) (EPay F)).
Notation pbegin := (pbegin F).
Notation pdeliver := (pdeliver F).
Notation pend := (pend F).
Notation bp0 := (bp0 F).
Notation ep0 := (ep0 F).
Notation upd := (upd F).
Notation set_hash := (set_hash F).
Notation upd_init := (upd_init F).
Notation st0 := (st0 F).

Record ext := {
  x_st : St;                        (* the saved sm.State *)
  x_resp : option (Z * fresp);      (* the last saved ABCI responses (height, responses) *)
  x_acc : fresp }.                  (* abciResponses under construction / just built (volatile) *)

Definition acc0 : fresp := {| f_begin := bp0; f_delivers := []; f_end := ep0 |}.

Definition set_acc (e : ext) (r : fresp) : ext :=
  {| x_st := x_st e; x_resp := x_resp e; x_acc := r |}.

(* execBlockOnProxyApp on newMockProxyApp(appHash, saved responses) *)
Definition mock_replay (saved : option (Z * fresp)) (b : block) : fresp :=
  match saved with
  | Some (_, s) => {| f_begin := if mock_keeps_begin F then f_begin s else bp0;
                      f_delivers := firstn (length (b_txs b)) (f_delivers s);
                      f_end := f_end s |}
  | None => acc0
  end.

(* control has just moved to [p] by the handshake's dispatch: in the case "application ran Commit,
   state not saved" the mock application is built from the saved responses and the block is
   "executed" on it (no persistence operation; Model.v goes straight to PSaveResp (KMock _)) *)
Definition after_dispatch (p : pc) (e : ext) : ext :=
  match p with
  | PSaveResp (KMock _) b _ => set_acc e (mock_replay (x_resp e) b)
  | _ => e
  end.

(* what the persistence operation designated by the pc of [w] (the world BEFORE the step) does
   to the extension *)
Definition xstep_ext (w : world) (e : ext) : ext :=
  let a := a_work (w_app w) in
  match w_pc w with
  | PBegin _ b =>
    set_acc e {| f_begin := pbegin a b; f_delivers := []; f_end := f_end (x_acc e) |}
  | PDeliver _ _ (t :: _) _ =>
    set_acc e {| f_begin := f_begin (x_acc e);
                 f_delivers := f_delivers (x_acc e) ++ [(snd (adeliver A a t), pdeliver a t)];
                 f_end := f_end (x_acc e) |}
  | PEnd _ b _ =>
    set_acc e {| f_begin := f_begin (x_acc e); f_delivers := f_delivers (x_acc e); f_end := pend a b |}
  | PSaveResp _ b _ =>
    {| x_st := x_st e; x_resp := Some (b_height b, x_acc e); x_acc := x_acc e |}
  | PSaveState _ b _ h =>
    {| x_st := set_hash (upd (x_st e) b (x_acc e)) h; x_resp := x_resp e; x_acc := x_acc e |}
  | PInitSave h =>
    {| x_st := upd_init (x_st e) h; x_resp := x_resp e; x_acc := x_acc e |}
  | _ => e
  end.

Definition xworld : Type := world * ext.

Definition xstep (x : xworld) : xworld :=
  let w' := step A (fst x) in
  (w', after_dispatch (w_pc w') (xstep_ext (fst x) (snd x))).

Definition xdo_op (x : xworld) (o : mop) : xworld :=
  match o with
  | MStep => xstep x
  | MRestart =>
    let w' := do_op A (fst x) o in
    (w', if is_down (w_pc (fst x)) then after_dispatch (w_pc w') (snd x) else snd x)
  | MCrash => (do_op A (fst x) o, set_acc (snd x) acc0)
  | MCommit _ | MRollback _ => (do_op A (fst x) o, snd x)
  end.

Definition ext0 : ext := {| x_st := st0; x_resp := None; x_acc := acc0 |}.
Definition xworld0 : xworld := (world0 A, ext0).

Definition xrun (ops : list mop) (x : xworld) : xworld := fold_left xdo_op ops x.
Definition xreach (ops : list mop) : xworld := xrun ops xworld0.

(* ---------------------------------------------------------------- the crash-free reference *)

(* DeliverTx responses of a block's transactions executed from working state [acc] *)
Fixpoint gdeliver_all (acc : N) (txs : list tx) : list (N * DP) :=
  match txs with
  | [] => []
  | t :: r => (snd (adeliver A acc t), pdeliver acc t) :: gdeliver_all (fst (adeliver A acc t)) r
  end.

(* the responses the application gives when it executes block [b] on top of its commit [acc] *)
Definition gexec_resp (acc : N) (b : block) : fresp :=
  let a1 := abegin A acc (b_height b) in
  {| f_begin := pbegin acc b;
     f_delivers := gdeliver_all a1 (b_txs b);
     f_end := pend (fst (deliver_all A a1 (b_txs b))) b |}.

(* a node that never crashes: handshake on the empty stores (InitChain, state saved), then
   ApplyBlock of each block in turn on the real application *)
Fixpoint gref_from (acc : N) (st : St) (s : list block) : St :=
  match s with
  | [] => st
  | b :: r =>
    let acc' := fst (exec_block A acc b) in
    gref_from acc' (set_hash (upd st b (gexec_resp acc b)) (enc acc')) r
  end.

Definition gref_chain (s : list block) : St :=
  gref_from (ainit A) (upd_init st0 (enc (ainit A))) s.

End Full.

Arguments x_st {F} _.
Arguments x_resp {F} _.
Arguments x_acc {F} _.
Arguments Build_ext {F} _ _ _.
