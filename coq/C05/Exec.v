(* C05 — executable side of the correspondence check (part A: commit pipeline and handshake).
   The mempool-lock part (B) has its own case type and check in C05/ExecMem.v.
   Depends on Model.v only. *)
From Coq Require Import String List ZArith NArith Bool.
From TM Require Import Common.Hex.
From TM Require Export C05.Model.
(* part B (mempool lock clause): own case type and check, used by harness/overlay/state/verif_c05_mem_test.go;
   required here (not imported) so that it is built and audited with this file *)
From TM Require C05.ExecMem.
Import ListNotations.
Open Scope Z_scope.

(* the recording application of the harness (harness/overlay/consensus/verif_c05_test.go, c05App) *)
Definition PM : N := 1000003.
Definition capp : appsem :=
  {| ainit := 7%N;
     abegin := fun a h => ((a * 33 + Z.to_N h) mod PM)%N;
     adeliver := fun a t => let a' := ((a * 33 + t + 1) mod PM)%N in
                            (a', if (a' mod 7 =? 0)%N then 1%N else 0%N) |}.

(* what the harness does to the node *)
Inductive hop :=
| HCommit (txs : list N) (budget : option nat)  (* finalizeCommit of the next block; crash before persistence operation number budget+1 *)
| HRestart (budget : option nat)                (* new node objects on the surviving stores: Handshake (+ state reload) *)
| HKill                                         (* crash between heights *)
| HRollback (k : Z).                            (* application restored to its commit k while the node is down *)

(* what it observed afterwards *)
Record obs := {
  o_outcome : N;        (* 0 completed, 1 crashed (injected), 2 failed (error/panic of the node) *)
  o_store_h : Z; o_state_h : Z; o_state_hash : Z; o_app_h : Z; o_app_hash : Z;
  o_wal : list Z;       (* #ENDHEIGHT markers in the WAL *)
  o_resp_h : Z;         (* height of the last saved ABCI responses, 0 if none *)
  o_ref : bool;         (* saved sm.State equals the crash-free reference node's state of that height *)
  o_trace : list N }.   (* persistence operations completed during the op (codes below) *)

Inductive case :=
| CRun (chain : list (list N))               (* the decided blocks' transactions, by height *)
       (ops : list (hop * obs))
       (journal : list jev)                  (* the application's call journal at the end *)
| CRunAt (ih : Z)                            (* the same on a chain whose genesis initial_height is ih: *)
         (chain : list (list N))             (* chain = transactions of heights ih, ih+1, ...; ops and *)
         (ops : list (hop * obs))            (* journal carry the REAL heights *)
         (journal : list jev).

Definition pc_code (p : pc) : N :=
  match p with
  | PSaveBlock _ => 1 | PWalEnd _ => 2 | PBegin _ _ => 3 | PDeliver _ _ _ _ => 4 | PEnd _ _ _ => 5
  | PSaveResp _ _ _ => 6 | PCommit _ _ _ => 7 | PSaveState _ _ _ _ => 8 | PInitChain => 9
  | PInitSave _ => 8 | _ => 0
  end%N.

Fixpoint steps (fuel : nat) (w : world) (tr : list N) : world * list N :=
  match fuel with
  | O => (w, tr)
  | S f => if is_terminal (w_pc w) then (w, tr)
           else steps f (step capp w) (tr ++ [pc_code (w_pc w)])
  end.

Definition run_budget (b : option nat) (w : world) : world * list N :=
  match b with
  | None => steps (100 * 100)%nat w []
  | Some n => let '(w', tr) := steps n w [] in
              if is_terminal (w_pc w') then (w', tr) else (do_op capp w' MCrash, tr)
  end.

Definition run_hop (w : world) (o : hop) : world * list N :=
  match o with
  | HCommit txs b => run_budget b (do_op capp w (MCommit txs))
  | HRestart b => run_budget b (do_op capp w MRestart)
  | HKill => (do_op capp w MCrash, [])
  | HRollback k => (do_op capp w (MRollback k), [])
  end.

Definition outcome_of (p : pc) : N :=
  match p with PIdle => 0 | PDown => 1 | PFailed _ => 2 | _ => 3 end%N.

Definition mism (b : bool) (code : N) : verdict := if b then V_ok else V_mismatch code.
Definition viol (b : bool) (clause : N) : verdict := if b then V_ok else V_violation clause.

Definition list_Z_eqb (a b : list Z) : bool :=
  Nat.eqb (length a) (length b) && forallb (fun '(x, y) => Z.eqb x y) (combine a b).

Definition jev_eqb (a b : jev) : bool :=
  match a, b with
  | JInit, JInit => true | JCrash, JCrash => true
  | JBegin x, JBegin y => x =? y | JEnd x, JEnd y => x =? y | JCommit x, JCommit y => x =? y
  | JRollback x, JRollback y => x =? y
  | JDeliver x, JDeliver y => (x =? y)%N
  | _, _ => false
  end.
Definition journal_eqb (a b : list jev) : bool :=
  Nat.eqb (length a) (length b) && forallb (fun '(x, y) => jev_eqb x y) (combine a b).

Definition budget_unused (o : hop) (ob : obs) : bool :=
  (* the op was not interrupted by an injected crash *)
  negb (o_outcome ob =? 1)%N.

Definition is_proc (o : hop) : bool := match o with HCommit _ _ | HRestart _ => true | _ => false end.

(* monitors on one observation of the implementation *)
Definition obs_monitors (o : hop) (ob : obs) : list verdict :=
  let completed := (o_outcome ob =? 0)%N && is_proc o in
  [ (* 4: after a completed restart / commit the three cursors agree, and the two hashes as soon
       as the application has committed a block (before that it reports no hash) *)
    viol (negb completed ||
          ((o_store_h ob =? o_state_h ob) && (o_state_h ob =? o_app_h ob)
           && ((o_app_h ob =? 0) || (o_state_hash ob =? o_app_hash ob)))) 4;
    (* 5: … and the saved state is the one of a node that never crashed *)
    viol (negb completed || o_ref ob) 5;
    (* 6: a restart / the next commit that was not interrupted must not fail *)
    viol (negb (is_proc o && (o_outcome ob =? 2)%N)) 6;
    (* 7: an #ENDHEIGHT marker exists only for stored blocks *)
    viol (forallb (fun h => h <=? o_store_h ob) (o_wal ob)) 7;
    (* 8: at every moment (also right after a crash) state <= store <= state+1 and app <= store *)
    viol ((o_state_h ob <=? o_store_h ob) && (o_store_h ob <=? o_state_h ob + 1)
          && (o_app_h ob <=? o_store_h ob)) 8 ].

(* which clause of the journal property fails first: 1 InitChain at height <> 0,
   2 a block begun that is not the successor of the application's last commit (replay or gap),
   3 anything else (order of calls, transactions not those of the block in block order) *)
Fixpoint jfail (chain : list block) (s : Z * jphase) (j : list jev) : N :=
  match j with
  | [] => 0%N
  | e :: r =>
    match jstep chain s e with
    | Some s' => jfail chain s' r
    | None => match e, snd s with
              | JInit, JIdle => 1%N
              | JBegin _, JIdle => 2%N
              | _, _ => 3%N
              end
    end
  end.

Definition chain_blocks (chain : list (list N)) : list block :=
  map (fun '(i, txs) => {| b_height := Z.of_nat i + 1; b_txs := txs; b_apphash := 0; b_lastres := [] |})
      (combine (seq 0 (length chain)) chain).

Fixpoint run_all (w : world) (ops : list (hop * obs)) : list verdict :=
  match ops with
  | [] => []
  | (o, ob) :: r =>
    let '(w', tr) := run_hop w o in
    let st := w_state w' in let a := w_app w' in
    obs_monitors o ob ++
    [ mism (outcome_of (w_pc w') =? o_outcome ob)%N 11;
      mism (store_height (w_store w') =? o_store_h ob) 12;
      mism (s_height st =? o_state_h ob) 13;
      mism (s_apphash st =? o_state_hash ob) 14;
      mism (a_height a =? o_app_h ob) 15;
      mism (app_info_hash a =? o_app_hash ob) 16;
      mism (list_Z_eqb (w_wal w') (o_wal ob)) 17;
      mism (match w_resp w' with Some (h, _) => h | None => 0 end =? o_resp_h ob) 18;
      mism (list_N_eqb tr (o_trace ob)) 20 ]
    ++ run_all w' r
  end.

Fixpoint final_world (w : world) (ops : list (hop * obs)) : world :=
  match ops with [] => w | (o, _) :: r => final_world (fst (run_hop w o)) r end.

Definition check_run (chain : list (list N)) (ops : list (hop * obs)) (journal : list jev) : verdict :=
  let jf := jfail (chain_blocks chain) (0, JIdle) journal in
  first_of (
    [ viol (negb (jf =? 1)%N) 1; viol (negb (jf =? 2)%N) 2; viol (negb (jf =? 3)%N) 3 ]
    ++ run_all (world0 capp) ops
    ++ [ mism (journal_eqb (a_journal (w_app (final_world (world0 capp) ops))) journal) 19 ]).

(* Chains with genesis initial_height ih: the genesis state (LastBlockHeight 0) stands just below
   the first block, i.e. at ih-1, and "the next height after h" is ih for h = 0.  The clauses of
   the property (agreement of the three heights, state <= store <= state+1, a block is begun only
   at the height following the one the application reports, InitChain only at 0) are read with
   heights counted from that position: 0 stays 0, a height h >= ih becomes h-(ih-1); a height
   strictly between 0 and ih cannot be the height of anything and becomes negative (every
   monitor and comparison then fails on it). *)
Definition rel (ih h : Z) : Z :=
  if h =? 0 then 0 else if ih <=? h then h - (ih - 1) else -1 - Z.abs h.

Definition rel_obs (ih : Z) (o : obs) : obs :=
  {| o_outcome := o_outcome o;
     o_store_h := rel ih (o_store_h o); o_state_h := rel ih (o_state_h o);
     o_state_hash := o_state_hash o;
     o_app_h := rel ih (o_app_h o); o_app_hash := o_app_hash o;
     o_wal := map (rel ih) (o_wal o); o_resp_h := rel ih (o_resp_h o);
     o_ref := o_ref o; o_trace := o_trace o |}.

Definition rel_hop (ih : Z) (o : hop) : hop :=
  match o with HRollback k => HRollback (rel ih k) | _ => o end.

Definition rel_jev (ih : Z) (e : jev) : jev :=
  match e with
  | JBegin h => JBegin (rel ih h) | JEnd h => JEnd (rel ih h) | JCommit h => JCommit (rel ih h)
  | JRollback k => JRollback (rel ih k)
  | _ => e
  end.

Definition check (c : case) : verdict :=
  match c with
  | CRun chain ops journal => check_run chain ops journal
  | CRunAt ih chain ops journal =>
    if ih <? 1 then V_mismatch 11
    else check_run chain (map (fun '(o, ob) => (rel_hop ih o, rel_obs ih ob)) ops) (map (rel_jev ih) journal)
  end.
