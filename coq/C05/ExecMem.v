(* C05, mempool lock clause — executable side of the correspondence check.
   The Go harness (harness/overlay/state/verif_c05_mem_test.go) drives the real
   BlockExecutor.Commit with the real mempools (v0 CListMempool, v1 TxMempool) concurrently with
   submitter goroutines and records one global event list.  [check]
     (a) evaluates the clause's monitors (MemModel.mon, which do not use the model) on the
         recorded list: V_violation 31..34, or V_known 13 for errors in the class of finding F13;
     (b) replays the recorded list through the interleaving model: it must be a possible trace of
         [step] for that variant (V_mismatch 41), the harness must not have seen errors, panics
         or timeouts (42) and the replay must end in a quiescent model state (43).
   Depends on MemModel.v only. *)
From Coq Require Import List Arith NArith Bool.
From TM Require Import Common.Hex.
From TM Require Export C05.MemModel.   (* the cases files use the event constructors *)
Import ListNotations.

(* v1?  config.Recheck  number of submitters  recorded events  anomalies seen by the harness *)
Inductive case := Case (v1 : bool) (rc : bool) (k : nat) (tr : list ev) (anom : nat).

Definition mism (b : bool) (code : N) : verdict := if b then V_ok else V_mismatch code.
Definition viol (b : bool) (clause : N) : verdict := if b then V_ok else V_violation clause.

(* RUnlock cannot be observed from outside the mempool.  The replay places it directly after
   the last observable action under the read lock (v0: the CheckTxAsync call, v1: the pre-check;
   the harness never submits transactions that are rejected before the application is asked).
   Releasing early only enables more steps, so every real trace stays replayable. *)
Definition expand (v : variant) (e : ev) : list ev :=
  match v, e with
  | V0, EIssueNew i _ => [e; ERUnlock i]
  | V1, EPre i _ => [e; ERUnlock i]
  | _, _ => [e]
  end.

Definition idle (p : spc) : bool := match p with SIdle => true | _ => false end.
Definition quiescent (s : state) : bool :=
  match cp s with CIdle => true | _ => false end
  && isnil (q s) && forallb idle (subs s) && isnil (w_todo s) && negb (wr s).

Definition verdict_of_err (ck : N * bool) : verdict :=
  if snd ck then V_known 13 else V_violation (fst ck).

Definition check (c : case) : verdict :=
  match c with
  | Case b rc k tr anom =>
    let v := if b then V1 else V0 in
    let fin := run_strict v rc (flat_map (expand v) tr) (init k) in
    first_of (map verdict_of_err (mon_errs v tr) ++
      [ viol (applog_ok (filter is_app tr) || b) 35;
        mism (match fin with Some _ => true | None => false end) 41;
        mism (Nat.eqb anom 0) 42;
        mism (match fin with Some s => quiescent s | None => true end) 43 ])
  end.
