(* C05 (part A) — the handshake's case analysis on the three heights for an ARBITRARY genesis
   initial_height (finding F87).  Definitions only; proofs in C05/ProofsIH.v.

   Model.v fixes InitialHeight = 1.  There "the state stands at height h" and "the next block is
   h+1" coincide also for the genesis state (LastBlockHeight 0, first block 1).  With
   initial_height ih > 1 the genesis state still has LastBlockHeight 0 while the first block is
   stored under ih.  This file transcribes consensus/replay.go ReplayBlocks from the switch on
   the heights to the choice of what is replayed, with REAL heights and ih as a parameter, twice:
   [repaired = false] is the code as it was (compares the store height with LastBlockHeight+1),
   [repaired = true] the code with fixes/F87-replay-genesis-state-below-initial-height.diff
   (after the InitChain branch: if stateBlockHeight == 0 && state.InitialHeight > 1 then
   stateBlockHeight = state.InitialHeight - 1).  [route_ih _ 1] is Model.v's [dispatch]
   (ProofsIH.v, dispatch_is_route). *)
From Coq Require Import List ZArith NArith Bool.
From TM Require Import C05.Model.
Import ListNotations.
Open Scope Z_scope.

(* what ReplayBlocks decides to do *)
Inductive route :=
| RFail (c : N)                           (* error return / panic (codes of Model.v) *)
| RDone                                   (* assertAppHashEqualsOneFromState; nothing to replay *)
| RLoop (first final : Z) (mutate : bool) (* replayBlocks: ExecCommitBlock first..final on the application,
                                             then replayBlock(store height) on it if mutate *)
| RLast                                   (* replayBlock(store height) on the real application *)
| RMock.                                  (* LoadLastABCIResponse(store height); replayBlock on the mock *)

(* replayBlocks: firstBlock := appBlockHeight + 1; if firstBlock == 1 { firstBlock = state.InitialHeight } *)
Definition first_block (ih app_h : Z) : Z := if app_h + 1 =? 1 then ih else app_h + 1.

Definition route_ih (repaired : bool) (ih base store_h state_h app_h : Z) : route :=
  let state_h := if repaired && (state_h =? 0) && (1 <? ih) then ih - 1 else state_h in
  if store_h =? 0 then RDone
  else if (app_h =? 0) && (ih <? base) then RFail F_app_too_low
  else if (0 <? app_h) && (app_h <? base - 1) then RFail F_app_too_low
  else if store_h <? app_h then RFail F_app_too_high
  else if store_h <? state_h then RFail F_state_gt_store
  else if state_h + 1 <? store_h then RFail F_store_gt_state1
  else if store_h =? state_h then
    (if app_h <? store_h then RLoop (first_block ih app_h) store_h false
     else if app_h =? store_h then RDone
     else RFail F_uncovered)
  else if store_h =? state_h + 1 then
    (if app_h <? state_h then RLoop (first_block ih app_h) (store_h - 1) true
     else if app_h =? state_h then RLast
     else if app_h =? store_h then RMock
     else RFail F_uncovered)
  else RFail F_uncovered.

(* Model.v's dispatch, given the route *)
Definition pc_of_route (w : world) (app_hash : Z) (r : route) : pc :=
  match r with
  | RFail c => PFailed c
  | RDone => if app_hash =? s_apphash (w_state w) then PIdle else PFailed F_hash_state
  | RLoop first final mutate => loop_next w first EMPTY final mutate
  | RLast => enter_replay_last w
  | RMock =>
    let store_h := store_height (w_store w) in
    match w_resp w with
    | None => PFailed F_no_resp
    | Some (rh, codes) =>
      if negb (rh =? store_h) then PFailed F_no_resp
      else match load_block (w_store w) store_h with
           | None => PFailed F_no_block
           | Some b =>
             if negb (validate_block (w_state w) b) then PFailed F_apply_invalid
             else if (length codes <? length (b_txs b))%nat then PFailed F_mock_short
             else PSaveResp (KMock app_hash) b (firstn (length (b_txs b)) codes)
           end
    end
  end.

(* ---------------------------------------------------------------- the persisted cursors and
   what carrying out a route does to them (real heights) *)
Record cur := {
  c_base : Z; c_store : Z;    (* block store base and height (0, 0: empty) *)
  c_state : Z;                (* saved state's LastBlockHeight *)
  c_app : Z;                  (* the application's committed height (Info) *)
  c_resp : Z }.               (* height of the last saved ABCI responses, 0: none *)

(* the height of the block that follows height h on this chain (state/validation.go validateBlock,
   consensus/state.go updateToState: InitialHeight when LastBlockHeight == 0) *)
Definition next (ih h : Z) : Z := if h =? 0 then ih else h + 1.

(* replayBlock(store height) = ApplyBlock of the last stored block: validateBlock wants it to be
   the block that follows the state; on the real application it must also follow the
   application's commit (else the application executes a block out of turn: clause 2) *)
Definition exec_last (ih : Z) (real : bool) (c : cur) : option cur :=
  if negb (c_store c =? next ih (c_state c)) then None
  else if real && negb (c_store c =? next ih (c_app c)) then None
  else if negb real && negb (c_resp c =? c_store c) then None
  else Some {| c_base := c_base c; c_store := c_store c; c_state := c_store c;
               c_app := c_store c; c_resp := c_store c |}.

Definition exec_route (ih : Z) (r : route) (c : cur) : option cur :=
  match r with
  | RFail _ => None
  | RDone => Some c
  | RLoop first final mutate =>
    (* every block first..final must be loadable and the first one must follow the application *)
    let c1 :=
      if final <? first then Some c
      else if (c_base c <=? first) && (final <=? c_store c) && (first =? next ih (c_app c))
      then Some {| c_base := c_base c; c_store := c_store c; c_state := c_state c;
                   c_app := final; c_resp := c_resp c |}
      else None in
    match c1 with
    | None => None
    | Some c1 => if mutate then exec_last ih true c1 else Some c1
    end
  | RLast => exec_last ih true c
  | RMock => exec_last ih false c
  end.

Definition handshake_ih (repaired : bool) (ih : Z) (c : cur) : option cur :=
  exec_route ih (route_ih repaired ih (c_base c) (c_store c) (c_state c) (c_app c)) c.

(* the cursors a node of a chain with initial height ih can be found with (no pruning): nothing
   stored yet, or blocks ih..store, the state at the store or one block below it (the genesis
   state below ih), the application at one of its commits <= store, and the responses of the last
   block saved whenever the application has committed it *)
Definition cur_ok (ih : Z) (c : cur) : Prop :=
  1 <= ih /\
  ((c_store c = 0 /\ c_base c = 0 /\ c_state c = 0 /\ c_app c = 0) \/
   (c_base c = ih /\ ih <= c_store c /\
    (c_state c = 0 \/ ih <= c_state c) /\
    (c_state c = c_store c \/ next ih (c_state c) = c_store c) /\
    (c_app c = 0 \/ ih <= c_app c <= c_store c) /\
    (c_app c = c_store c -> c_resp c = c_store c))).

(* the persisted cursors at the crash points of the FIRST block's finalizeCommit (and of the
   recovery from them), with the application as it is or restored to its empty commit 0 *)
Definition first_block_points (ih : Z) : list cur :=
  [ {| c_base := 0;  c_store := 0;  c_state := 0;  c_app := 0;  c_resp := 0 |};   (* before SaveBlock *)
    {| c_base := ih; c_store := ih; c_state := 0;  c_app := 0;  c_resp := 0 |};   (* block stored ... EndBlock *)
    {| c_base := ih; c_store := ih; c_state := 0;  c_app := 0;  c_resp := ih |};  (* responses saved *)
    {| c_base := ih; c_store := ih; c_state := 0;  c_app := ih; c_resp := ih |};  (* application committed *)
    {| c_base := ih; c_store := ih; c_state := ih; c_app := ih; c_resp := ih |};  (* state saved *)
    {| c_base := ih; c_store := ih; c_state := ih; c_app := 0;  c_resp := ih |} ]. (* ... application back at 0 *)
