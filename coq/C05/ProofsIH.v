(* C05 (part A) — proofs about C05/ModelIH.v: the handshake at an arbitrary initial height. *)
From Coq Require Import List ZArith NArith Bool Lia.
From TM Require Import C05.Model C05.ModelIH.
Import ListNotations.
Open Scope Z_scope.

Ltac zb :=
  repeat match goal with
         | H : context [?a =? ?b] |- _ => destruct (Z.eqb_spec a b)
         | H : context [?a <? ?b] |- _ => destruct (Z.ltb_spec a b)
         | H : context [?a <=? ?b] |- _ => destruct (Z.leb_spec a b)
         | |- context [?a =? ?b] => destruct (Z.eqb_spec a b)
         | |- context [?a <? ?b] => destruct (Z.ltb_spec a b)
         | |- context [?a <=? ?b] => destruct (Z.leb_spec a b)
         end.

(* one comparison at a time, contradictory branches closed at once *)
Ltac zb1 :=
  match goal with
  | |- context [?a =? ?b] => destruct (Z.eqb_spec a b); try lia
  | |- context [?a <? ?b] => destruct (Z.ltb_spec a b); try lia
  | |- context [?a <=? ?b] => destruct (Z.leb_spec a b); try lia
  end; cbn [andb negb orb].

(* ---------------------------------------------------------------- the tie to Model.v *)

(* at initial height 1 the transcription is Model.v's dispatch, repaired or not: the repair does
   not touch chains that start at 1, and everything proved about Model.v is about this route *)
Lemma dispatch_is_route : forall (w : world) (app_hash : Z) (repaired : bool),
  dispatch w app_hash =
  pc_of_route w app_hash
    (route_ih repaired 1 (store_base (w_store w)) (store_height (w_store w))
              (s_height (w_state w)) (a_height (w_app w))).
Proof.
  intros w hash rp. unfold dispatch, route_ih, first_block.
  replace (1 <? 1) with false by reflexivity. rewrite andb_false_r.
  set (sh := store_height (w_store w)). set (bs := store_base (w_store w)).
  set (st := s_height (w_state w)). set (ah := a_height (w_app w)).
  destruct (sh =? 0); [reflexivity|].
  destruct ((ah =? 0) && (1 <? bs)); [reflexivity|].
  destruct ((0 <? ah) && (ah <? bs - 1)); [reflexivity|].
  destruct (sh <? ah); [reflexivity|].
  destruct (sh <? st); [reflexivity|].
  destruct (st + 1 <? sh); [reflexivity|].
  assert (F : forall x, 0 <= x -> (if x + 1 =? 1 then 1 else x + 1) = x + 1).
  { intros x Hx. destruct (Z.eqb_spec (x + 1) 1); lia. }
  destruct (sh =? st).
  - destruct (Z.ltb_spec ah sh); [|destruct (ah =? sh); reflexivity].
    cbn [pc_of_route].
    destruct (Z.eqb_spec (ah + 1) 1) as [E|E]; [|reflexivity]. rewrite E. reflexivity.
  - destruct (sh =? st + 1); [|reflexivity].
    destruct (Z.ltb_spec ah st).
    + cbn [pc_of_route].
      destruct (Z.eqb_spec (ah + 1) 1) as [E|E]; [|reflexivity]. rewrite E. reflexivity.
    + destruct (ah =? st); [reflexivity|]. destruct (ah =? sh); reflexivity.
Qed.

(* ---------------------------------------------------------------- the repaired handshake *)

(* never_fails / recovery_agrees at an arbitrary initial height: from EVERY admissible
   combination of the persisted cursors the repaired case analysis picks a replay that can be
   carried out, and afterwards state, store and application stand at the store's height *)
Ltac route_is ih sr st ap R :=
  assert (route_ih true ih ih sr st ap = R) as ->
    by (unfold route_ih, first_block; cbn [andb];
        match goal with
        | |- context [(?a =? 0) && (1 <? ?c)] =>
          destruct (Z.eqb_spec a 0); destruct (Z.ltb_spec 1 c); try lia
        end; cbn [andb]; cbv beta zeta iota; repeat zb1; reflexivity).

Ltac znext :=
  repeat match goal with
         | |- context [if ?a =? ?b then _ else _] => destruct (Z.eqb_spec a b); try lia
         end.

Ltac run_route :=
  cbn [exec_route];
  repeat (try unfold exec_last, next; cbn [c_base c_store c_state c_app c_resp andb negb];
          first [ match goal with
                  | |- context [if ?a =? ?b then _ else _] => destruct (Z.eqb_spec a b); try lia
                  end
                | zb1 ]);
  cbn [c_base c_store c_state c_app c_resp andb negb];
  eexists; (split; [reflexivity|]); cbn [c_base c_store c_state c_app c_resp]; repeat split; lia.

Lemma repaired_recovers : forall ih c, cur_ok ih c ->
  exists c', handshake_ih true ih c = Some c' /\
             c_store c' = c_store c /\ c_base c' = c_base c /\
             c_state c' = c_store c /\ c_app c' = c_store c.
Proof.
  intros ih [bs sr st ap rs] (Hih & H). unfold handshake_ih.
  cbn [c_base c_store c_state c_app c_resp] in *.
  destruct H as [(-> & -> & -> & ->)|(-> & Hs & Hst & Hss & Hap & Hrs)].
  - eexists. split; [reflexivity|]. cbn. auto.
  - unfold next in Hss.
    destruct (Z.eq_dec st sr) as [E|E].
    + (* the state is at the store *)
      subst st. destruct (Z.eq_dec ap 0) as [A0|A0]; [subst ap|destruct (Z.eq_dec ap sr) as [A1|A1]; [subst ap|]].
      * route_is ih sr sr 0 (RLoop ih sr false). run_route.
      * route_is ih sr sr sr RDone. run_route.
      * route_is ih sr sr ap (RLoop (ap + 1) sr false). run_route.
    + destruct Hss as [Hss|Hss]; [contradiction|].
      destruct (Z.eqb_spec st 0) as [S0|S0].
      * (* the genesis state, the first block stored *)
        subst st sr. destruct (Z.eq_dec ap 0) as [A0|A0].
        { subst ap. destruct (Z.eq_dec ih 1) as [I1|I1].
          - subst ih. route_is 1 1 0 0 RLast. run_route.
          - route_is ih ih 0 0 (RLoop ih (ih - 1) true). run_route. }
        { assert (ap = ih) by lia. subst ap. specialize (Hrs eq_refl). subst rs.
          route_is ih ih 0 ih RMock. run_route. }
      * (* one block above the state *)
        subst sr. destruct (Z.eq_dec ap 0) as [A0|A0];
          [subst ap|destruct (Z.eq_dec ap st) as [A1|A1]; [subst ap|destruct (Z.eq_dec ap (st + 1)) as [A2|A2]]].
        { route_is ih (st + 1) st 0 (RLoop ih (st + 1 - 1) true). run_route. }
        { route_is ih (st + 1) st st RLast. run_route. }
        { subst ap. specialize (Hrs eq_refl). subst rs. route_is ih (st + 1) st (st + 1) RMock. run_route. }
        { route_is ih (st + 1) st ap (RLoop (ap + 1) (st + 1 - 1) true). run_route. }
Qed.

(* the crash points of the first block are admissible cursors ... *)
Lemma first_block_points_ok : forall ih, 1 <= ih -> Forall (cur_ok ih) (first_block_points ih).
Proof.
  intros ih H. unfold first_block_points.
  assert (N0 : (ih =? 0) = false) by (apply Z.eqb_neq; lia).
  repeat apply Forall_cons; try apply Forall_nil; (split; [exact H|]);
    cbn [c_base c_store c_state c_app c_resp]; unfold next; cbn [c_base c_store c_state c_app c_resp].
  - left. auto.
  - right. repeat split; auto; lia.
  - right. repeat split; auto; lia.
  - right. repeat split; auto; lia.
  - right. rewrite N0. repeat split; auto; lia.
  - right. rewrite N0. repeat split; auto; lia.
Qed.

(* ... so: for every initial height and every crash point of the first block (application as it
   is or restored to 0) the repaired handshake succeeds and leaves state = store = application,
   at the initial height as soon as the block had been stored *)
Lemma first_block_recovers : forall ih c, 1 <= ih -> In c (first_block_points ih) ->
  exists c', handshake_ih true ih c = Some c' /\
             c_state c' = c_store c' /\ c_app c' = c_store c' /\ c_store c' = c_store c /\
             (c_store c' = ih \/ c_store c = 0).
Proof.
  intros ih c H Hin.
  pose proof (first_block_points_ok ih H) as F. rewrite Forall_forall in F.
  destruct (repaired_recovers ih c (F _ Hin)) as (c' & E & h1 & h2 & h3 & h4).
  exists c'. repeat split; try congruence.
  rewrite h1. unfold first_block_points in Hin. cbn [In] in Hin.
  repeat (destruct Hin as [<-|Hin]; [cbn; auto|]). contradiction.
Qed.

(* the code as it was: with initial height > 1, once the first block is stored and the state is
   still the genesis state, every restart hits panic "StoreBlockHeight > StateBlockHeight + 1" *)
Lemma unrepaired_bricks : forall ih c, 1 < ih ->
  c_store c = ih -> c_base c = ih -> c_state c = 0 -> (c_app c = 0 \/ c_app c = ih) ->
  route_ih false ih (c_base c) (c_store c) (c_state c) (c_app c) = RFail F_store_gt_state1 /\
  handshake_ih false ih c = None.
Proof.
  intros ih [bs sr st ap rs] H. cbn [c_base c_store c_state c_app c_resp]. intros -> -> -> Ha.
  assert (R : route_ih false ih ih ih 0 ap = RFail F_store_gt_state1).
  { unfold route_ih. cbn [andb]. destruct Ha as [-> | ->]; repeat zb1; reflexivity. }
  split; [exact R|]. unfold handshake_ih. cbn [c_base c_store c_state c_app c_resp]. rewrite R. reflexivity.
Qed.

(* the repair changes nothing for chains that start at 1 and nothing once a block was applied *)
Lemma repair_inert : forall ih bs sr st ap, ih = 1 \/ st <> 0 ->
  route_ih true ih bs sr st ap = route_ih false ih bs sr st ap.
Proof.
  intros ih bs sr st ap H. unfold route_ih. cbn [andb].
  destruct H as [-> | H].
  - replace (1 <? 1) with false by reflexivity. rewrite andb_false_r. reflexivity.
  - destruct (Z.eqb_spec st 0); [contradiction|]. reflexivity.
Qed.

(* ---------------------------------------------------------------- heights counted from ih-1

   The repaired case analysis at initial height ih IS the analysis at initial height 1 (= Model.v's
   dispatch) on heights counted from the genesis state's position ih-1 - the translation that
   C05/Exec.v applies to the observations of chains with ih > 1.  "Up to [norm]": replayBlocks
   with an empty range followed by replayBlock on the real application (what the code does at
   ih > 1 for the genesis state with the application at 0) is replayBlock on the real
   application (what it does at ih = 1). *)
Definition relh (ih h : Z) : Z := if h =? 0 then 0 else h - (ih - 1).

Definition shift_route (off : Z) (r : route) : route :=
  match r with RLoop f l m => RLoop (f + off) (l + off) m | _ => r end.

Definition norm (r : route) : route :=
  match r with
  | RLoop f l true => if l <? f then RLast else r
  | _ => r
  end.

Ltac rel_case :=
  unfold relh;
  repeat match goal with
         | |- context [if ?a =? 0 then 0 else _] => destruct (Z.eqb_spec a 0); try lia
         end;
  unfold route_ih, first_block;
  replace (1 <? 1) with false by reflexivity; rewrite ?andb_false_r;
  cbn [andb];
  repeat match goal with
         | |- context [(?a =? 0) && (1 <? ?c)] =>
           destruct (Z.eqb_spec a 0); destruct (Z.ltb_spec 1 c); try lia; cbn [andb]
         end;
  cbv beta zeta iota;
  repeat (first [ match goal with
                  | |- context [if ?a =? ?b then _ else _] => destruct (Z.eqb_spec a b); try lia
                  end
                | zb1 ]);
  cbn [shift_route norm]; repeat zb1; try reflexivity; try (f_equal; lia).

Lemma route_relative : forall ih c, cur_ok ih c ->
  norm (route_ih true ih (c_base c) (c_store c) (c_state c) (c_app c)) =
  norm (shift_route (ih - 1)
          (route_ih true 1 (relh ih (c_base c)) (relh ih (c_store c))
                    (relh ih (c_state c)) (relh ih (c_app c)))).
Proof.
  intros ih [bs sr st ap rs] (Hih & H). cbn [c_base c_store c_state c_app c_resp] in *.
  destruct H as [(-> & -> & -> & ->)|(-> & Hs & Hst & Hss & Hap & Hrs)].
  - reflexivity.
  - unfold next in Hss.
    destruct (Z.eq_dec st sr) as [E|E].
    + subst st. destruct (Z.eq_dec ap 0) as [A0|A0]; [subst ap|destruct (Z.eq_dec ap sr) as [A1|A1]; [subst ap|]].
      * rel_case.
      * rel_case.
      * rel_case.
    + destruct Hss as [Hss|Hss]; [contradiction|].
      destruct (Z.eqb_spec st 0) as [S0|S0].
      * subst st sr. destruct (Z.eq_dec ap 0) as [A0|A0].
        { subst ap. destruct (Z.eq_dec ih 1) as [I1|I1]; [subst ih|]; rel_case. }
        { assert (ap = ih) by lia. subst ap. rel_case. }
      * subst sr. destruct (Z.eq_dec ap 0) as [A0|A0];
          [subst ap|destruct (Z.eq_dec ap st) as [A1|A1]; [subst ap|destruct (Z.eq_dec ap (st + 1)) as [A2|A2]]].
        { rel_case. }
        { rel_case. }
        { subst ap. rel_case. }
        { rel_case. }
Qed.
