(* C05, mempool lock clause — interleaving model of
     state/execution.go  BlockExecutor.Commit
     mempool/v0/clist_mempool.go  Lock / Unlock / FlushAppConn / CheckTx / Update / recheckTxs
     mempool/v1/mempool.go        Lock / Unlock / FlushAppConn / CheckTx / Update /
                                  recheckTransactions / addNewTransaction / handleRecheckResult
     abci/client/socket_client.go (FIFO request queue; FlushSync returns when everything queued
                                  before it was answered; local_client.go is the special case in
                                  which every request is served in the step after it was issued).
   NO proofs in this file.

   Threads: one consensus thread executing Commit rounds, k submitter threads executing
   Mempool.CheckTx, (v1) the recheck tasks spawned by Update, and the application serving the
   mempool connection in FIFO order.  One label per atomic action; the labels are exactly the
   events the Go harness records (harness/overlay/state/verif_c05_mem_test.go), except
   [ERUnlock], which no hook can observe (see ExecMem.expand).

   Transactions and thread ids are natural numbers.  The application accepts every transaction
   (rejections change the pool contents only, never the lock discipline).  The RW lock has no
   writer preference (a superset of Go's sync.RWMutex behaviours).  The pool is a multiset: v0
   adds a transaction in the request's callback, whose order relative to other submitters is
   not observable, so the rechecks of one round may be issued in any order.  FlushAsync puts nothing on
   the modelled queue (nobody waits for it and the application never sees it). *)
From Coq Require Import List Arith NArith Bool.
Import ListNotations.

Inductive variant := V0 | V1.

(* requests on the mempool connection *)
Inductive req :=
| RNew (i t : nat)        (* CheckTx(New) of transaction t by submitter i *)
| RRe (t : nat)           (* CheckTx(Recheck) *)
| RMark.                  (* the Flush request of FlushSync; its caller waits for it *)

(* program points of the consensus thread inside BlockExecutor.Commit *)
Inductive cpc :=
| CIdle                   (* not in Commit *)
| CLocked                 (* mempool.Lock() returned *)
| CFlushCalled            (* inside mempool.FlushAppConn (v1: mutex released) *)
| CFlushWait              (* proxyAppConn.FlushSync: Flush queued, waiting *)
| CFlushRet               (* FlushSync returned (v1: mutex not yet re-acquired) *)
| CFlushed                (* FlushAppConn returned *)
| CCommitWait             (* proxyApp.CommitSync sent *)
| CCommitted              (* application executed Commit *)
| CRecheck (todo : list nat)  (* v0 only: inside Update/recheckTxs, CheckTxAsync still to issue *)
| CUpdDone                (* Update body finished *)
| CUpdRet.                (* mempool.Update returned; deferred Unlock pending *)

(* program points of a submitter inside Mempool.CheckTx *)
Inductive spc :=
| SIdle
| SPre (t : nat)          (* holds the read lock, pre-checks done *)
| SPost                   (* v0: CheckTxAsync issued, read lock still held *)
| SOut (t : nat)          (* v1: read lock released, CheckTxSync not yet called *)
| SWait (t : nat)         (* v1: inside CheckTxSync *)
| SGot (t : nat).         (* v1: CheckTxSync returned, addNewTransaction not yet run *)

(* labels = recorded events *)
Inductive ev :=
| ELock                       (* consensus: mempool.Lock() *)
| EFlushCall                  (* consensus: enters mempool.FlushAppConn (v1: Unlock) *)
| EFlushReq                   (* consensus: FlushSync queues the Flush request *)
| EFlushRet                   (* connection: Flush answered, FlushSync returns *)
| EFlushDone                  (* consensus: FlushAppConn returns (v1: Lock again) *)
| ECommitReq                  (* consensus: proxyApp.CommitSync called *)
| ECommitProc                 (* application: Commit executed *)
| EUpdate (blk : list nat) (n : nat)  (* consensus: mempool.Update(block txs); n rechecks follow *)
| EIssueRe (t : nat)          (* CheckTx(Recheck) issued (v0: consensus thread, v1: task) *)
| EFlushAsync                 (* FlushAsync after the rechecks *)
| EUpdRet                     (* consensus: mempool.Update returned *)
| EUnlock                     (* consensus: mempool.Unlock() *)
| EPre (i t : nat)            (* submitter i: read lock taken, pre-check of t run *)
| ERUnlock (i : nat)          (* submitter i: RUnlock *)
| EIssueNew (i t : nat)       (* submitter i: CheckTxAsync / CheckTxSync (New) issued *)
| EProcNew (i t : nat)        (* application: CheckTx(New) executed *)
| EProcRe (t : nat)           (* application: CheckTx(Recheck) executed *)
| EPostNew (i t : nat)        (* v1 submitter i: addNewTransaction under the write lock *)
| EPostRe (t : nat).          (* v1 task: handleRecheckResult under the write lock *)

Record state := mk {
  wr : bool;                  (* write lock held *)
  cp : cpc;
  subs : list spc;            (* submitter i is element i; readers = submitters at SPre/SPost *)
  q : list req;               (* mempool connection, head served first *)
  pool : list nat;            (* transactions in the mempool *)
  w_todo : list nat;          (* v1: spawned recheck tasks that have not yet called CheckTxSync *)
  w_done : list nat;          (* v1: recheck tasks whose CheckTxSync returned *)
  w_flush : nat;              (* v1: FlushAsync calls still to be made by recheck goroutines *)
  ht : nat;                   (* number of completed Commit rounds *)
  obs : list ev               (* every executed label, latest first *)
}.

Definition init (k : nat) : state :=
  mk false CIdle (repeat SIdle k) [] [] [] [] 0 0 [].

Definition holds (p : spc) : bool :=
  match p with SPre _ | SPost => true | _ => false end.
Definition noholders (l : list spc) : bool := forallb (fun p => negb (holds p)) l.

Fixpoint set_nth {A} (l : list A) (i : nat) (x : A) : list A :=
  match l, i with
  | [], _ => []
  | _ :: r, O => x :: r
  | y :: r, S j => y :: set_nth r j x
  end.

Fixpoint remove1 (t : nat) (l : list nat) : option (list nat) :=
  match l with
  | [] => None
  | x :: r => if Nat.eqb x t then Some r
              else match remove1 t r with Some r' => Some (x :: r') | None => None end
  end.

Definition minus_blk (pool blk : list nat) : list nat :=
  filter (fun t => negb (existsb (Nat.eqb t) blk)) pool.

Definition set_wr b s := mk b (cp s) (subs s) (q s) (pool s) (w_todo s) (w_done s) (w_flush s) (ht s) (obs s).
Definition set_cp c s := mk (wr s) c (subs s) (q s) (pool s) (w_todo s) (w_done s) (w_flush s) (ht s) (obs s).
Definition set_subs l s := mk (wr s) (cp s) l (q s) (pool s) (w_todo s) (w_done s) (w_flush s) (ht s) (obs s).
Definition set_q l s := mk (wr s) (cp s) (subs s) l (pool s) (w_todo s) (w_done s) (w_flush s) (ht s) (obs s).
Definition set_pool l s := mk (wr s) (cp s) (subs s) (q s) l (w_todo s) (w_done s) (w_flush s) (ht s) (obs s).
Definition set_todo l s := mk (wr s) (cp s) (subs s) (q s) (pool s) l (w_done s) (w_flush s) (ht s) (obs s).
Definition set_done l s := mk (wr s) (cp s) (subs s) (q s) (pool s) (w_todo s) l (w_flush s) (ht s) (obs s).
Definition set_flush n s := mk (wr s) (cp s) (subs s) (q s) (pool s) (w_todo s) (w_done s) n (ht s) (obs s).
Definition set_ht n s := mk (wr s) (cp s) (subs s) (q s) (pool s) (w_todo s) (w_done s) (w_flush s) n (obs s).
Definition push_obs e s := mk (wr s) (cp s) (subs s) (q s) (pool s) (w_todo s) (w_done s) (w_flush s) (ht s) (e :: obs s).

Definition sub_at (s : state) (i : nat) : option spc := nth_error (subs s) i.
Definition set_sub i p s := set_subs (set_nth (subs s) i p) s.

(* One atomic action, without the bookkeeping of [obs].  [rc] = config.Recheck. *)
Definition step0 (v : variant) (rc : bool) (s : state) (e : ev) : option state :=
  match e with
  (* ---- BlockExecutor.Commit, consensus thread ---- *)
  | ELock =>                                   (* blockExec.mempool.Lock() *)
    match cp s with
    | CIdle => if negb (wr s) && noholders (subs s) then Some (set_cp CLocked (set_wr true s)) else None
    | _ => None end
  | EFlushCall =>                              (* FlushAppConn; v1: txmp.mtx.Unlock() first *)
    match cp s with
    | CLocked => Some (set_cp CFlushCalled (match v with V0 => s | V1 => set_wr false s end))
    | _ => None end
  | EFlushReq =>                               (* proxyAppConn.FlushSync(): queue Flush *)
    match cp s with
    | CFlushCalled => Some (set_cp CFlushWait (set_q (q s ++ [RMark]) s))
    | _ => None end
  | EFlushRet =>                               (* everything queued before the Flush was answered *)
    match cp s, q s with
    | CFlushWait, RMark :: r => Some (set_cp CFlushRet (set_q r s))
    | _, _ => None end
  | EFlushDone =>                              (* v1: deferred txmp.mtx.Lock() *)
    match cp s with
    | CFlushRet =>
      match v with
      | V0 => Some (set_cp CFlushed s)
      | V1 => if negb (wr s) && noholders (subs s) then Some (set_cp CFlushed (set_wr true s)) else None
      end
    | _ => None end
  | ECommitReq =>                              (* blockExec.proxyApp.CommitSync() *)
    match cp s with CFlushed => Some (set_cp CCommitWait s) | _ => None end
  | ECommitProc =>                             (* the application executes Commit *)
    match cp s with CCommitWait => Some (set_cp CCommitted s) | _ => None end
  | EUpdate blk n =>                           (* blockExec.mempool.Update(...) *)
    match cp s with
    | CCommitted =>
      let pool' := minus_blk (pool s) blk in
      let todo := if rc then pool' else [] in
      if Nat.eqb n (length todo) then
        match v with
        | V0 => Some (set_cp (match todo with [] => CUpdDone | _ => CRecheck todo end) (set_pool pool' s))
        | V1 => Some (set_cp CUpdDone
                        (set_flush (w_flush s + match todo with [] => 0 | _ => 1 end)
                           (set_todo (w_todo s ++ todo) (set_pool pool' s))))
        end
      else None
    | _ => None end
  | EIssueRe t =>
    match v with
    | V0 =>                                    (* recheckTxs loop, inside Update *)
      match cp s with
      | CRecheck todo =>                       (* any order: the list order of the pool is not observable *)
        match remove1 t todo with
        | Some r => Some (set_cp (CRecheck r) (set_q (q s ++ [RRe t]) s))
        | None => None end
      | _ => None end
    | V1 =>                                    (* task of the goroutine started by recheckTransactions *)
      match remove1 t (w_todo s) with
      | Some r => Some (set_todo r (set_q (q s ++ [RRe t]) s))
      | None => None end
    end
  | EFlushAsync =>
    match v with
    | V0 => match cp s with CRecheck [] => Some (set_cp CUpdDone s) | _ => None end
    | V1 => match w_flush s with S n => Some (set_flush n s) | O => None end
    end
  | EUpdRet =>
    match cp s with CUpdDone => Some (set_cp CUpdRet s) | _ => None end
  | EUnlock =>                                 (* deferred blockExec.mempool.Unlock() *)
    match cp s with
    | CUpdRet => Some (set_ht (S (ht s)) (set_cp CIdle (set_wr false s)))
    | _ => None end
  (* ---- Mempool.CheckTx, submitter i ---- *)
  | EPre i t =>                                (* RLock(); size / preCheck / cache *)
    match sub_at s i with
    | Some SIdle => if negb (wr s) then Some (set_sub i (SPre t) s) else None
    | _ => None end
  | ERUnlock i =>
    match v, sub_at s i with
    | V0, Some SPost => Some (set_sub i SIdle s)       (* deferred RUnlock at return *)
    | V0, Some (SPre _) => Some (set_sub i SIdle s)    (* rejected before CheckTxAsync *)
    | V1, Some (SPre t) => Some (set_sub i (SOut t) s) (* RUnlock at the end of the first phase *)
    | _, _ => None end
  | EIssueNew i t =>
    match v, sub_at s i with
    | V0, Some (SPre t') =>                    (* proxyAppConn.CheckTxAsync under the read lock *)
      if Nat.eqb t t' then Some (set_sub i SPost (set_q (q s ++ [RNew i t]) s)) else None
    | V1, Some (SOut t') =>                    (* proxyAppConn.CheckTxSync outside the lock *)
      if Nat.eqb t t' then Some (set_sub i (SWait t) (set_q (q s ++ [RNew i t]) s)) else None
    | _, _ => None end
  (* ---- the application serving the mempool connection ---- *)
  | EProcNew i t =>
    match q s with
    | RNew i' t' :: r =>
      if Nat.eqb i i' && Nat.eqb t t' then
        match v with
        | V0 => Some (set_pool (pool s ++ [t]) (set_q r s))   (* resCbFirstTime in the callback *)
        | V1 => match sub_at s i with
                | Some (SWait t'') => if Nat.eqb t t'' then Some (set_sub i (SGot t) (set_q r s)) else None
                | _ => None end
        end
      else None
    | _ => None end
  | EProcRe t =>
    match q s with
    | RRe t' :: r =>
      if Nat.eqb t t' then
        match v with
        | V0 => Some (set_q r s)                          (* resCbRecheck: accepted, nothing to do *)
        | V1 => Some (set_done (w_done s ++ [t]) (set_q r s))
        end
      else None
    | _ => None end
  (* ---- v1: results are applied under the write lock ---- *)
  | EPostNew i t =>
    match v, sub_at s i with
    | V1, Some (SGot t') =>
      if Nat.eqb t t' && negb (wr s) && noholders (subs s)
      then Some (set_sub i SIdle (set_pool (pool s ++ [t]) s)) else None
    | _, _ => None end
  | EPostRe t =>
    match v with
    | V1 => match remove1 t (w_done s) with
            | Some r => if negb (wr s) && noholders (subs s) then Some (set_done r s) else None
            | None => None end
    | V0 => None end
  end.

Definition step (v : variant) (rc : bool) (s : state) (e : ev) : option state :=
  match step0 v rc s e with Some s' => Some (push_obs e s') | None => None end.

(* schedules: labels that are not enabled are ignored ... *)
Definition exec (v : variant) (rc : bool) (s : state) (e : ev) : state :=
  match step v rc s e with Some s' => s' | None => s end.
Definition run (v : variant) (rc : bool) (sched : list ev) (s : state) : state :=
  fold_left (exec v rc) sched s.

(* ... or make the run fail (used to replay recorded traces) *)
Fixpoint run_strict (v : variant) (rc : bool) (sched : list ev) (s : state) : option state :=
  match sched with
  | [] => Some s
  | e :: r => match step v rc s e with Some s' => run_strict v rc r s' | None => None end
  end.

Definition trace (s : state) : list ev := rev (obs s).    (* chronological *)

(* the application's processing log and the issue log are projections of the trace *)
Definition is_app (e : ev) : bool :=
  match e with EProcNew _ _ | EProcRe _ | ECommitProc | EFlushRet => true | _ => false end.
Definition is_issue (e : ev) : bool :=
  match e with EIssueNew _ _ | EIssueRe _ | EFlushReq | EFlushAsync | ECommitReq => true | _ => false end.
Definition app_log (s : state) : list ev := filter is_app (trace s).
Definition issue_log (s : state) : list ev := filter is_issue (trace s).

(* ------------------------------------------------------------------------------------------
   Monitors on an event list (the model's trace or the trace recorded from the Go code).
   They do not use the model.

   clause 31  a new-transaction CheckTx was issued on / executed by the mempool connection
              between the request of the application's Commit and the return of Update
   clause 32  a new-transaction CheckTx was executed by the application while rechecks announced
              by an Update were still outstanding
   clause 33  Commit was requested while a CheckTx request was unanswered (flush did not drain)
   clause 34  a submitter ran its pre-check phase (read lock) while the consensus thread held
              the write lock
   Each error carries [true] iff it lies in the class of known finding 13: variant v1, clause
   31/32/33, and the submitter concerned ran its pre-check phase while the consensus thread did
   not hold the lock (so the lock itself worked: the check was merely issued, or the rechecks
   were merely dispatched, outside it). *)
Record mst := mkm {
  m_held : bool;            (* consensus thread holds the write lock *)
  m_inwin : bool;           (* between CommitSync requested and Update returned *)
  m_outst : nat;            (* rechecks announced by Update and not yet executed *)
  m_pend : nat;             (* CheckTx requests issued and not yet executed *)
  m_bad : list nat;         (* submitters whose current pre-check ran under the write lock *)
  m_errs : list (N * bool)  (* (clause, in known class 13), latest first *)
}.
Definition m_init := mkm false false 0 0 [] [].

Definition isV1 (v : variant) := match v with V1 => true | V0 => false end.
Definition mem (i : nat) (l : list nat) := existsb (Nat.eqb i) l.
Definition rm (i : nat) (l : list nat) := filter (fun j => negb (Nat.eqb j i)) l.
Definition isnil {A} (l : list A) := match l with [] => true | _ => false end.

Definition add_err (c : N) (k : bool) (m : mst) :=
  mkm (m_held m) (m_inwin m) (m_outst m) (m_pend m) (m_bad m) ((c, k) :: m_errs m).

Definition mon_step (v : variant) (m : mst) (e : ev) : mst :=
  match e with
  | ELock => mkm true (m_inwin m) (m_outst m) (m_pend m) (m_bad m) (m_errs m)
  | EFlushCall => mkm (if isV1 v then false else m_held m) (m_inwin m) (m_outst m) (m_pend m) (m_bad m) (m_errs m)
  | EFlushDone => mkm (if isV1 v then true else m_held m) (m_inwin m) (m_outst m) (m_pend m) (m_bad m) (m_errs m)
  | EUnlock => mkm false (m_inwin m) (m_outst m) (m_pend m) (m_bad m) (m_errs m)
  | ECommitReq =>
    let m' := mkm (m_held m) true (m_outst m) (m_pend m) (m_bad m) (m_errs m) in
    if Nat.eqb (m_pend m) 0 then m' else add_err 33%N (isV1 v && isnil (m_bad m)) m'
  | EUpdate _ n => mkm (m_held m) (m_inwin m) (m_outst m + n) (m_pend m) (m_bad m) (m_errs m)
  | EUpdRet => mkm (m_held m) false (m_outst m) (m_pend m) (m_bad m) (m_errs m)
  | EPre i _ =>
    if m_held m
    then add_err 34%N false (mkm (m_held m) (m_inwin m) (m_outst m) (m_pend m) (i :: m_bad m) (m_errs m))
    else mkm (m_held m) (m_inwin m) (m_outst m) (m_pend m) (rm i (m_bad m)) (m_errs m)
  | EIssueNew i _ =>
    let m' := mkm (m_held m) (m_inwin m) (m_outst m) (S (m_pend m)) (m_bad m) (m_errs m) in
    if m_inwin m then add_err 31%N (isV1 v && negb (mem i (m_bad m))) m' else m'
  | EProcNew i _ =>
    let m' := mkm (m_held m) (m_inwin m) (m_outst m) (pred (m_pend m)) (m_bad m) (m_errs m) in
    if m_inwin m then add_err 31%N (isV1 v && negb (mem i (m_bad m))) m'
    else if Nat.eqb (m_outst m) 0 then m'
    else add_err 32%N (isV1 v && negb (mem i (m_bad m))) m'
  | EIssueRe _ => mkm (m_held m) (m_inwin m) (m_outst m) (S (m_pend m)) (m_bad m) (m_errs m)
  | EProcRe _ => mkm (m_held m) (m_inwin m) (pred (m_outst m)) (pred (m_pend m)) (m_bad m) (m_errs m)
  | _ => m
  end.

Definition mon (v : variant) (tr : list ev) : mst := fold_left (mon_step v) tr m_init.
Definition mon_errs (v : variant) (tr : list ev) : list (N * bool) := rev (m_errs (mon v tr)).
(* no clause fails *)
Definition log_ok (v : variant) (tr : list ev) : bool := isnil (m_errs (mon v tr)).
(* no clause fails outside the class of known finding 13 *)
Definition log_ok_except_known (v : variant) (tr : list ev) : bool :=
  forallb (fun ck => snd ck) (m_errs (mon v tr)).

(* Monitor on the application's processing log alone: within one block interval (between two
   Commits) the application never executes a recheck after a new-transaction check, i.e. every
   New executed after Commit h comes after all rechecks of round h. *)
Fixpoint applog_ok_from (seen_new : bool) (l : list ev) : bool :=
  match l with
  | [] => true
  | ECommitProc :: r => applog_ok_from false r
  | EProcNew _ _ :: r => applog_ok_from true r
  | EProcRe _ :: r => negb seen_new && applog_ok_from seen_new r
  | _ :: r => applog_ok_from seen_new r
  end.
Definition applog_ok (l : list ev) : bool := applog_ok_from false l.

(* the window of the clause, as a set of program points of the consensus thread *)
Definition in_window (c : cpc) : bool :=
  match c with
  | CFlushRet | CFlushed | CCommitWait | CCommitted | CRecheck _ | CUpdDone | CUpdRet => true
  | _ => false
  end.
Definition is_new (r : req) : bool := match r with RNew _ _ => true | _ => false end.
Definition no_new (l : list req) : bool := forallb (fun r => negb (is_new r)) l.
