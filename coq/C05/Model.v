(* C05 (part A) — crash recovery of the commit pipeline.  Gallina transcription, no proofs.

   What is modelled (and where it comes from):
   * consensus/state.go finalizeCommit: ValidateBlock; SaveBlock if store height < block height;
     WAL #ENDHEIGHT; ApplyBlock.
   * state/execution.go ApplyBlock (validateBlock; BeginBlock, DeliverTx*, EndBlock;
     SaveABCIResponses; app Commit under the mempool lock; state Save) and ExecCommitBlock
     (BeginBlock, DeliverTx*, EndBlock, Commit only).
   * consensus/replay.go Handshaker.Handshake / ReplayBlocks / replayBlocks / replayBlock /
     newMockProxyApp, case by case and in the order of the checks, with the panics
     (assertAppHashEquals…, "uncovered case", store/state height panics) and error returns as
     failure codes.
   * the persistent components: block store (list of blocks), WAL #ENDHEIGHT markers, state
     store (height, app hash, hash of last results = here the result codes themselves), the last
     saved ABCI responses, and the application (committed height + state, snapshots of earlier
     commits, and its call journal, which is ghost state used by the theorems/monitors).
   * a crash can happen before every persistence operation ("effective step"): block store
     write, WAL marker, every ABCI call on the consensus connection, SaveABCIResponses, state
     Save.  The program counter [pc] always designates the NEXT effective step; the code between
     two effective steps (validation, dispatch on the three heights, asserts) runs atomically
     with the step that precedes it.  A crash loses the pc and the application's uncommitted
     execution; everything else survives.

   Simplifications (listed in props/C05.json): InitialHeight = 1, no pruning (store base is 1 as
   soon as there is a block) — the store-base conditions of ReplayBlocks are transcribed with
   that base; the node's volatile copy of sm.State is identified with the saved one (it is
   assigned only from values that were just saved); validator sets, consensus parameters and
   events are not part of the model state (the harness compares the full sm.State of the
   recovered node with a crash-free reference node). *)
From Coq Require Import List ZArith NArith Bool.
Import ListNotations.
Open Scope Z_scope.

Definition tx := N.

(* A deterministic application: initial state, BeginBlock, DeliverTx (new state, result code). *)
Record appsem := { ainit : N; abegin : N -> Z -> N; adeliver : N -> tx -> N * N }.

(* app hashes: -1 = empty byte string, otherwise the big-endian value of the 8 bytes *)
Definition EMPTY : Z := -1.
Definition enc (acc : N) : Z := Z.of_N acc.

Inductive jev :=
| JInit | JBegin (h : Z) | JDeliver (t : tx) | JEnd (h : Z) | JCommit (h : Z)
| JCrash               (* the node crashed: the application dropped its uncommitted execution *)
| JRollback (k : Z).   (* the application was restored to its own commit of height k *)

Record app := {
  a_height : Z; a_acc : N;           (* last commit *)
  a_snaps : list (Z * N);            (* earlier commits, newest first *)
  a_work : N; a_cur : Z;             (* uncommitted execution: working state, height in progress *)
  a_journal : list jev }.

Record block := { b_height : Z; b_txs : list tx; b_apphash : Z; b_lastres : list N }.

Record nstate := { s_height : Z; s_apphash : Z; s_lastres : list N }.

(* who is executing a block *)
Inductive xctx :=
| KFinal                           (* finalizeCommit -> ApplyBlock, real app *)
| KLast                            (* handshake replayBlock -> ApplyBlock, real app *)
| KMock (hash : Z)                 (* handshake replayBlock -> ApplyBlock on the mock app *)
| KLoop (final : Z) (mutate : bool). (* handshake replayBlocks: ExecCommitBlock loop *)

Inductive pc :=
| PDown | PFailed (c : N) | PIdle
| PSaveBlock (b : block) | PWalEnd (b : block)
| PBegin (k : xctx) (b : block)
| PDeliver (k : xctx) (b : block) (rest : list tx) (codes : list N)
| PEnd (k : xctx) (b : block) (codes : list N)
| PSaveResp (k : xctx) (b : block) (codes : list N)
| PCommit (k : xctx) (b : block) (codes : list N)
| PSaveState (k : xctx) (b : block) (codes : list N) (hash : Z)
| PInitChain
| PInitSave (hash : Z).

Record world := {
  w_store : list block;
  w_wal : list Z;
  w_state : nstate;
  w_resp : option (Z * list N);
  w_app : app;
  w_pc : pc }.

Inductive mop :=
| MCommit (txs : list tx)   (* consensus decided the next block (proposal made from the current state) *)
| MRestart                  (* node start: handshake *)
| MStep                     (* the next persistence operation of the running procedure completes *)
| MCrash                    (* the node process dies *)
| MRollback (k : Z).        (* while the node is down the application comes back at its commit k *)

(* failure codes *)
Definition F_apply_invalid : N := 20.   (* ApplyBlock: validateBlock error *)
Definition F_hash_block : N := 31.      (* assertAppHashEqualsOneFromBlock *)
Definition F_hash_state : N := 33.      (* assertAppHashEqualsOneFromState *)
Definition F_no_block : N := 34.        (* LoadBlock returned nil *)
Definition F_app_too_low : N := 42.     (* ErrAppBlockHeightTooLow *)
Definition F_app_too_high : N := 43.    (* ErrAppBlockHeightTooHigh *)
Definition F_state_gt_store : N := 44.  (* panic StateBlockHeight > StoreBlockHeight *)
Definition F_store_gt_state1 : N := 45. (* panic StoreBlockHeight > StateBlockHeight+1 *)
Definition F_no_resp : N := 46.         (* LoadLastABCIResponse error *)
Definition F_mock_short : N := 47.      (* mock app indexes past the saved DeliverTx responses *)
Definition F_uncovered : N := 48.       (* panic "uncovered case!" *)

Section App.
Variable A : appsem.

(* ---------------------------------------------------------------- the application *)

Definition app0 : app :=
  {| a_height := 0; a_acc := ainit A; a_snaps := []; a_work := ainit A; a_cur := 0; a_journal := [] |}.

Definition jadd (a : app) (e : jev) : list jev := a_journal a ++ [e].

Definition app_init (a : app) : app :=
  {| a_height := a_height a; a_acc := a_acc a; a_snaps := a_snaps a;
     a_work := ainit A; a_cur := a_cur a; a_journal := jadd a JInit |}.

Definition app_begin (a : app) (h : Z) : app :=
  {| a_height := a_height a; a_acc := a_acc a; a_snaps := a_snaps a;
     a_work := abegin A (a_work a) h; a_cur := h; a_journal := jadd a (JBegin h) |}.

Definition app_deliver (a : app) (t : tx) : app * N :=
  let '(w, c) := adeliver A (a_work a) t in
  ({| a_height := a_height a; a_acc := a_acc a; a_snaps := a_snaps a;
      a_work := w; a_cur := a_cur a; a_journal := jadd a (JDeliver t) |}, c).

Definition app_end (a : app) (h : Z) : app :=
  {| a_height := a_height a; a_acc := a_acc a; a_snaps := a_snaps a;
     a_work := a_work a; a_cur := a_cur a; a_journal := jadd a (JEnd h) |}.

(* Commit: persists the working state as the commit of the height in progress *)
Definition app_commit (a : app) : app * Z :=
  if 0 <? a_cur a then
    ({| a_height := a_cur a; a_acc := a_work a; a_snaps := (a_height a, a_acc a) :: a_snaps a;
        a_work := a_work a; a_cur := 0; a_journal := jadd a (JCommit (a_cur a)) |}, enc (a_work a))
  else
    ({| a_height := a_height a; a_acc := a_acc a; a_snaps := a_snaps a;
        a_work := a_work a; a_cur := 0; a_journal := jadd a (JCommit 0) |}, enc (a_work a)).

Definition app_crash (a : app) : app :=
  {| a_height := a_height a; a_acc := a_acc a; a_snaps := a_snaps a;
     a_work := a_acc a; a_cur := 0; a_journal := jadd a JCrash |}.

Fixpoint snap_find (l : list (Z * N)) (k : Z) : option N :=
  match l with
  | [] => None
  | (h, x) :: r => if h =? k then Some x else snap_find r k
  end.

Fixpoint snap_drop (l : list (Z * N)) (k : Z) : list (Z * N) :=
  match l with
  | [] => []
  | (h, x) :: r => if h <? k then (h, x) :: r else snap_drop r k
  end.

(* restore the application's own commit of height k (k < current height) *)
Definition app_rollback (a : app) (k : Z) : app :=
  match snap_find (a_snaps a) k with
  | Some x =>
    {| a_height := k; a_acc := x; a_snaps := snap_drop (a_snaps a) k;
       a_work := x; a_cur := 0; a_journal := jadd a (JRollback k) |}
  | None => a
  end.

(* Info: last block height and app hash (empty while nothing was committed) *)
Definition app_info_hash (a : app) : Z := if a_height a =? 0 then EMPTY else enc (a_acc a).

(* ---------------------------------------------------------------- stores *)

Definition store_height (s : list block) : Z := Z.of_nat (length s).
Definition store_base (s : list block) : Z := match s with [] => 0 | _ => 1 end.
Definition load_block (s : list block) (h : Z) : option block :=
  if h <=? 0 then None else nth_error s (Z.to_nat (h - 1)).

Definition list_N_eqb (a b : list N) : bool :=
  Nat.eqb (length a) (length b) && forallb (fun '(x, y) => N.eqb x y) (combine a b).

(* state/validation.go validateBlock, the fields that are modelled *)
Definition validate_block (st : nstate) (b : block) : bool :=
  (b_height b =? s_height st + 1) && (b_apphash b =? s_apphash st)
  && list_N_eqb (b_lastres b) (s_lastres st).

(* State.MakeBlock by the proposer from the current state *)
Definition make_block (st : nstate) (txs : list tx) : block :=
  {| b_height := s_height st + 1; b_txs := txs; b_apphash := s_apphash st; b_lastres := s_lastres st |}.

(* ---------------------------------------------------------------- world updates *)

Definition set_pc (w : world) (p : pc) : world :=
  {| w_store := w_store w; w_wal := w_wal w; w_state := w_state w; w_resp := w_resp w;
     w_app := w_app w; w_pc := p |}.
Definition set_app (w : world) (a : app) (p : pc) : world :=
  {| w_store := w_store w; w_wal := w_wal w; w_state := w_state w; w_resp := w_resp w;
     w_app := a; w_pc := p |}.
Definition set_state (w : world) (st : nstate) (p : pc) : world :=
  {| w_store := w_store w; w_wal := w_wal w; w_state := st; w_resp := w_resp w;
     w_app := w_app w; w_pc := p |}.

Definition next_deliver (k : xctx) (b : block) (rest : list tx) (codes : list N) : pc :=
  match rest with [] => PEnd k b codes | _ :: _ => PDeliver k b rest codes end.

(* ApplyBlock entered (by finalizeCommit or replayBlock) with the real app: validateBlock first *)
Definition enter_apply (w : world) (k : xctx) (b : block) (fail : N) : pc :=
  if validate_block (w_state w) b then PBegin k b else PFailed fail.

(* replayBlock(state, storeHeight, real app) *)
Definition enter_replay_last (w : world) : pc :=
  match load_block (w_store w) (store_height (w_store w)) with
  | Some b => enter_apply w KLast b F_apply_invalid
  | None => PFailed F_no_block
  end.

Definition hash_nonempty (h : Z) : bool := negb (h =? EMPTY).

(* replayBlocks: head of the loop `for i := …; i <= finalBlock; i++` with the local appHash;
   after the loop: replayBlock if mutateState, then assertAppHashEqualsOneFromState *)
Definition loop_next (w : world) (i : Z) (hash : Z) (final : Z) (mutate : bool) : pc :=
  if i <=? final then
    match load_block (w_store w) i with
    | None => PFailed F_no_block
    | Some b =>
      if hash_nonempty hash && negb (hash =? b_apphash b) then PFailed F_hash_block
      else PBegin (KLoop final mutate) b
    end
  else if mutate then enter_replay_last w
  else if hash =? s_apphash (w_state w) then PIdle else PFailed F_hash_state.

(* ReplayBlocks after the InitChain part: the switch on the three heights *)
Definition dispatch (w : world) (app_hash : Z) : pc :=
  let store_h := store_height (w_store w) in
  let base := store_base (w_store w) in
  let state_h := s_height (w_state w) in
  let app_h := a_height (w_app w) in
  if store_h =? 0 then
    (if app_hash =? s_apphash (w_state w) then PIdle else PFailed F_hash_state)
  else if (app_h =? 0) && (1 <? base) then PFailed F_app_too_low
  else if (0 <? app_h) && (app_h <? base - 1) then PFailed F_app_too_low
  else if store_h <? app_h then PFailed F_app_too_high
  else if store_h <? state_h then PFailed F_state_gt_store
  else if state_h + 1 <? store_h then PFailed F_store_gt_state1
  else if store_h =? state_h then
    (if app_h <? store_h then loop_next w (app_h + 1) EMPTY store_h false
     else if app_h =? store_h then
       (if app_hash =? s_apphash (w_state w) then PIdle else PFailed F_hash_state)
     else PFailed F_uncovered)
  else if store_h =? state_h + 1 then
    (if app_h <? state_h then loop_next w (app_h + 1) EMPTY (store_h - 1) true
     else if app_h =? state_h then enter_replay_last w
     else if app_h =? store_h then
       match w_resp w with
       | None => PFailed F_no_resp
       | Some (rh, codes) =>
         if negb (rh =? store_h) then PFailed F_no_resp
         else match load_block (w_store w) store_h with
              | None => PFailed F_no_block
              | Some b =>
                if negb (validate_block (w_state w) b) then PFailed F_apply_invalid
                else if (length codes <? length (b_txs b))%nat then PFailed F_mock_short
                else PSaveResp (KMock app_hash) b (firstn (length (b_txs b)) codes)
              end
       end
     else PFailed F_uncovered)
  else PFailed F_uncovered.

(* Handshake: Info, then InitChain iff the application reports height 0 *)
Definition start_handshake (w : world) : pc :=
  if a_height (w_app w) =? 0 then PInitChain else dispatch w (app_info_hash (w_app w)).

(* finalizeCommit up to its first persistence operation *)
Definition start_commit (w : world) (txs : list tx) : pc :=
  let b := make_block (w_state w) txs in
  if negb (validate_block (w_state w) b) then PFailed F_apply_invalid
  else if store_height (w_store w) <? b_height b then PSaveBlock b else PWalEnd b.

(* the procedure is finished: where does control go *)
Definition finished (k : xctx) : pc := PIdle.

(* one persistence operation, then the code up to the next one *)
Definition step (w : world) : world :=
  match w_pc w with
  | PDown | PFailed _ | PIdle => w
  | PSaveBlock b =>
    {| w_store := w_store w ++ [b]; w_wal := w_wal w; w_state := w_state w; w_resp := w_resp w;
       w_app := w_app w; w_pc := PWalEnd b |}
  | PWalEnd b =>
    let w1 := {| w_store := w_store w; w_wal := w_wal w ++ [b_height b]; w_state := w_state w;
                 w_resp := w_resp w; w_app := w_app w; w_pc := PIdle |} in
    set_pc w1 (enter_apply w1 KFinal b F_apply_invalid)
  | PBegin k b =>
    set_app w (app_begin (w_app w) (b_height b)) (next_deliver k b (b_txs b) [])
  | PDeliver k b rest codes =>
    match rest with
    | [] => set_pc w (PEnd k b codes)
    | t :: rest' =>
      let '(a, c) := app_deliver (w_app w) t in
      set_app w a (next_deliver k b rest' (codes ++ [c]))
    end
  | PEnd k b codes =>
    set_app w (app_end (w_app w) (b_height b))
            (match k with KLoop _ _ => PCommit k b codes | _ => PSaveResp k b codes end)
  | PSaveResp k b codes =>
    {| w_store := w_store w; w_wal := w_wal w; w_state := w_state w;
       w_resp := Some (b_height b, codes); w_app := w_app w;
       w_pc := match k with KMock h => PSaveState k b codes h | _ => PCommit k b codes end |}
  | PCommit k b codes =>
    let '(a, h) := app_commit (w_app w) in
    match k with
    | KLoop final mutate =>
      let w1 := set_app w a PIdle in
      set_pc w1 (loop_next w1 (b_height b + 1) h final mutate)
    | _ => set_app w a (PSaveState k b codes h)
    end
  | PSaveState k b codes h =>
    set_state w {| s_height := b_height b; s_apphash := h; s_lastres := codes |} (finished k)
  | PInitChain =>
    let a := app_init (w_app w) in
    let h := enc (ainit A) in
    let w1 := set_app w a PIdle in
    if s_height (w_state w) =? 0 then set_pc w1 (PInitSave h)
    else set_pc w1 (dispatch w1 h)
  | PInitSave h =>
    let st := {| s_height := s_height (w_state w); s_apphash := h; s_lastres := s_lastres (w_state w) |} in
    let w1 := set_state w st PIdle in
    set_pc w1 (dispatch w1 h)
  end.

Definition is_down (p : pc) : bool := match p with PDown | PFailed _ => true | _ => false end.
Definition is_idle (p : pc) : bool := match p with PIdle => true | _ => false end.
Definition is_terminal (p : pc) : bool := is_down p || is_idle p.

Definition do_op (w : world) (o : mop) : world :=
  match o with
  | MCommit txs => if is_idle (w_pc w) then set_pc w (start_commit w txs) else w
  | MRestart => if is_down (w_pc w) then set_pc w (start_handshake w) else w
  | MStep => step w
  | MCrash => set_app w (app_crash (w_app w)) PDown
  | MRollback k =>
    if is_down (w_pc w) && (0 <=? k) && (k <? a_height (w_app w))
    then set_app w (app_rollback (w_app w) k) (w_pc w) else w
  end.

Definition genesis_state : nstate := {| s_height := 0; s_apphash := EMPTY; s_lastres := [] |}.

Definition world0 : world :=
  {| w_store := []; w_wal := []; w_state := genesis_state; w_resp := None; w_app := app0; w_pc := PDown |}.

Definition run (ops : list mop) (w : world) : world := fold_left do_op ops w.

(* ---------------------------------------------------------------- monitor of the journal

   The automaton reads the application's journal and knows the chain (block store).  State:
   the application's committed height and what it is in the middle of. *)
Inductive jphase :=
| JIdle
| JIn (h : Z) (delivered : list tx)     (* after BeginBlock h *)
| JEnded (h : Z).                        (* after EndBlock h *)

Definition list_tx_eqb (a b : list tx) : bool := list_N_eqb a b.

Definition jstep (chain : list block) (s : Z * jphase) (e : jev) : option (Z * jphase) :=
  let '(ah, ph) := s in
  match e, ph with
  | JInit, JIdle => if ah =? 0 then Some (ah, JIdle) else None       (* InitChain only at height 0 *)
  | JBegin h, JIdle => if h =? ah + 1 then Some (ah, JIn h []) else None   (* no replay, no gap *)
  | JDeliver t, JIn h d => Some (ah, JIn h (d ++ [t]))
  | JEnd h', JIn h d =>
    if h' =? h then
      match load_block chain h with
      | Some b => if list_tx_eqb d (b_txs b) then Some (ah, JEnded h) else None  (* the block's txs, in order *)
      | None => None
      end
    else None
  | JCommit h', JEnded h => if h' =? h then Some (h, JIdle) else None
  | JCrash, _ => Some (ah, JIdle)
  | JRollback k, JIdle => if (0 <=? k) && (k <=? ah) then Some (k, JIdle) else None
  | _, _ => None
  end.

Fixpoint jrun (chain : list block) (s : Z * jphase) (j : list jev) : option (Z * jphase) :=
  match j with
  | [] => Some s
  | e :: r => match jstep chain s e with Some s' => jrun chain s' r | None => None end
  end.

Definition journal_ok (chain : list block) (j : list jev) : bool :=
  match jrun chain (0, JIdle) j with Some _ => true | None => false end.

(* the crash-free reference: executing a block / a chain on the application *)
Fixpoint deliver_all (acc : N) (txs : list tx) : N * list N :=
  match txs with
  | [] => (acc, [])
  | t :: r => let '(a, c) := adeliver A acc t in
              let '(a', cs) := deliver_all a r in (a', c :: cs)
  end.

Definition exec_block (acc : N) (b : block) : N * list N :=
  deliver_all (abegin A acc (b_height b)) (b_txs b).

Fixpoint exec_chain (acc : N) (codes : list N) (s : list block) : N * list N :=
  match s with
  | [] => (acc, codes)
  | b :: r => let '(a, c) := exec_block acc b in exec_chain a c r
  end.

(* state of a node that applied the first n blocks of the chain without ever crashing *)
Definition ref_state (s : list block) (n : nat) : nstate :=
  let '(a, c) := exec_chain (ainit A) [] (firstn n s) in
  {| s_height := Z.of_nat n; s_apphash := enc a; s_lastres := c |}.

End App.
