(* C16 — executable side of the correspondence check: the case types written by the Go harness
   (harness/overlay/p2p/conn/verif_c16_conn_test.go, .../verif_c16_fault_test.go, .../verif_c16_coalesce_test.go,
   harness/overlay/p2p/verif_c16_upgrade_test.go),
   the comparison of the model with what the implementation returned, and the property monitors
   evaluated on the implementation's own answers.  Depends on Model.v and ModelAuth.v (definitions,
   no proofs) only.

   The model cannot run ChaCha20-Poly1305, X25519, merlin, HKDF or ed25519.  It is run with
   *symbolic* instances: a sealed frame is the term [Sym key-id nonce plaintext] (opens only
   under that key and nonce), everything the harness did not obtain from a Seal call of the
   real code is [Junk].  The harness tells, for every 1044-byte block it lets the reader see,
   which sealed frame it is byte-for-byte (table lookup) or that it is none. *)
From Coq Require Import String List ZArith NArith Bool.
From TM Require Import Common.Hex Generated.Consts C16.Model C16.ModelAuth.
Import ListNotations.
Open Scope Z_scope.

(* ------------------------------------------------------------------ symbolic AEAD *)
Inductive scipher := Sym (kid : N) (nonce : bytes) (plain : bytes) | Junk.
Definition sseal (k : N) (nonce plain : bytes) : scipher := Sym k nonce plain.
Definition sopen (k : N) (nonce : bytes) (c : scipher) : option bytes :=
  match c with
  | Sym k' n' p => if (k =? k')%N && bytes_eqb nonce n' then Some p else None
  | Junk => None
  end.
Definition no_stale (_ : bytes) : bytes := [].

Definition nonce_of_ctr (c : N) : bytes := [0; 0; 0; 0]%N ++ le_enc 8 c.
Definition ctr_of_nonce (n : bytes) : N := le_dec (firstn 8 (skipn 4 n)).

(* ------------------------------------------------------------------ cases *)
(* what one io.ReadFull of the reader gets *)
Inductive ev :=
| EG (i : nat)            (* the i-th data frame the writer sealed in this case (0-based) *)
| EO (kid : N) (ctr : N)  (* another genuinely sealed frame: key 1 = the opposite direction,
                             key 0 = same direction (the handshake's AuthSig frame), sealed
                             under counter ctr *)
| EF (ctr : N) (hdr : N)  (* a frame sealed by the harness with the writer's own AEAD under
                             counter ctr whose plaintext is the 4-byte length header hdr
                             followed by zeros (a peer that holds the keys but does not use
                             Write); only used with hdr > dataMaxSize *)
| EJ                      (* 1044 bytes that no Seal call produced (edited, random, misaligned) *)
| EE (len : Z).           (* fewer than 1044 bytes, then EOF *)

(* one Read of the implementation: buffer size, n, error class (0 nil, 1 io, 2 decrypt,
   3 chunk length, 4 panic, 5 other), bytes returned, bytes taken from the wire so far *)
Definition readt := (Z * Z * N * string * Z)%type.

Inductive case :=
(* two real SecretConnections after a real handshake.  hs_ok: both handshakes succeeded and
   each RemotePubKey is the other's key.  send0/recv0: writer's sendNonce, reader's recvNonce
   (hex) and buf0 = len(reader.recvBuffer) when the data phase starts.  writes; per Write
   (n, frames handed to the conn, 0 ok / 1 error / 2 panic); for every frame the counter under
   which the reader's AEAD opens it (-1: none within the window) ; the blocks delivered; Reads. *)
| CStream (hs_ok : bool) (send0 recv0 : string) (buf0 : Z) (writes : list string)
          (wres_i : list (Z * Z * N)) (fnonce_i : list Z) (evs : list ev) (reads : list readt)
(* incrNonce on a chosen nonce: result (None = panic) *)
| CIncr (nonce : string) (res_i : option string)
(* frame layout: one Write of [data] from nonce [send0]; for every sealed frame the length of
   the sealed frame, the length of its plaintext and the first 4+chunk bytes of the plaintext *)
| CFrame (send0 : string) (data : string) (frames_i : list (Z * Z * string))
(* a wire-compatible peer that does not size its Writes as the Go code does (harness
   verif_c16_coalesce_test.go): it performs the handshake by hand with the package's helpers and
   calls sc.Write on its end with [peer_writes] from the zero nonce; their concatenation is the
   delimited AuthSigMessage [auth] followed by application data - message and data in one Write
   (one sealed frame), the message split over two Writes, ...  The honest side runs the real
   MakeSecretConnection over the untouched wire (closed after the last frame), then Reads.
   hs_ok: it accepted and RemotePubKey() is the peer's key; buf_i = len(sc.recvBuffer) and
   recv_i = the counter of sc.recvNonce when MakeSecretConnection returned; reads: buffer size, n,
   error class (as in readt), bytes returned. *)
| CCoalesce (hs_ok : bool) (auth : string) (peer_writes : list string) (buf_i recv_i : Z)
            (reads : list (Z * Z * N * string))
(* handshake of the real MakeSecretConnection (victim) against a scripted peer.
   eph: 0 peer sends the ephemeral key it uses, 1 a low-order point, 2 a key it does not use
   (other ephemeral), 3 its key truncated to [ephlen] bytes, 4 nothing (EOF), 5 not a BytesValue,
   6 a low-order point, after which the peer carries on over the all-zero shared secret (send /
   receive keys and challenge derived from zero, genuine AuthSig under them with its own key);
   auth: 0 genuine, 1 signature over the challenge of another session (replay), 2 claims a
   third party's key (own signature), 3 secp256k1 key, 4 signature with a flipped bit,
   5 sealed frame edited in transit, 6 nothing (EOF), 7 sealed garbage, 8 sealed under the
   keys of another session (spliced), 9 claims the victim's own key (own signature),
   10-13 a well-formed AuthSig with a third party's key and a malformed signature (empty, the
   peer's signature cut to 63 bytes, extended to 65 bytes, 64 zero bytes), 14-17 the same with
   the peer's own key.
   impl: 0 accepted / 1 failed before trying to read the AuthSig message / 2 failed later; whether
   RemotePubKey() is the key the peer claimed *)
| CHandshake (eph : N) (ephlen : Z) (auth : N) (res_i : N) (rem_is_claimed : bool)
(* transport.upgrade - called directly (harness c16_upgrade) or through the real
   MultiplexTransport.Dial / Listen+Accept over loopback TCP (harness c16_dial): identities are
   small numbers (1-3 nodes with keys; 10-19 near-miss ids of node 2's id that belong to no key:
   shared prefixes, one character changed, upper case).  key: identity whose key authenticated the
   connection (None: secret connection failed); dialed: identity dialled; ni: identity in the
   NodeInfo the peer sent (None: exchange failed); valid: NodeInfo otherwise valid; own;
   compat.  impl: 0 ok, 1 auth failure without an id (secret connection or NodeInfo exchange
   failed), 2 auth failure with an id (dialled-id or NodeInfo-id mismatch), 4 NodeInfo invalid,
   6 self, 7 incompatible; on ok, whether the ids the transport reports are those of [key] *)
| CUpgrade (key : option N) (dialed : option N) (ni : option N) (valid : bool) (own : N)
           (compat : bool) (res_i : N) (ids_ok : bool)
(* two real SecretConnections after a real handshake over a transport that FAILS.  The writer's
   net.Conn is wrapped: the k-th conn.Write of the data phase succeeds (script entry -1) or
   returns an error after passing on the first m >= 0 bytes (entry m: 0 nothing, 1..1043 a part,
   1044 all of it); the caller goes on calling Write.  hs_ok/send0/recv0/buf0/writes as in CStream.
   wres_i: per Write (n, conn.Write calls made, 0 ok / 1 error / 2 panic, counter of sendNonce
   afterwards).  frames_i: per conn.Write call (counter under which the reader's AEAD opens the
   buffer handed over, -1: none in the window; bytes handed over; bytes that reached the wire).
   xor_i: pairs i < j of conn.Write calls whose bytes on the wire satisfy, on a common prefix of
   >= 16 bytes, c_i xor c_j = p_i xor p_j for the plaintext prefixes the harness knows (length
   header and chunk): the same keystream twice, seen without any key.
   The reader's net.Conn delivers the bytes that reached the wire with short reads and injected
   read errors at byte offsets (each once); evs is what the successive io.ReadFull(conn, 1044)
   calls get under that schedule (EG i: exactly the buffer of conn.Write call i; EJ: other 1044
   bytes; EE l: l bytes, then an error).  reads: as in CStream plus what the bytes taken during
   that Read are (-1 none taken, i: exactly the buffer of conn.Write call i, -2 anything else). *)
| CFault (hs_ok : bool) (send0 recv0 : string) (buf0 : Z) (writes : list string)
         (script : list Z) (wres_i : list (Z * Z * N * N)) (frames_i : list (Z * Z * Z))
         (xor_i : list (nat * nat)) (evs : list ev) (reads : list (readt * Z)).

Definition mism (b : bool) (code : N) : verdict := if b then V_ok else V_mismatch code.
Definition viol (b : bool) (clause : N) : verdict := if b then V_ok else V_violation clause.

Definition list_eqb {A} (eqb : A -> A -> bool) (a b : list A) : bool :=
  Nat.eqb (List.length a) (List.length b) && forallb (fun '(x, y) => eqb x y) (combine a b).

Definition list_eqb2 {A B} (eqb : A -> B -> bool) (a : list A) (b : list B) : bool :=
  Nat.eqb (List.length a) (List.length b) && forallb (fun '(x, y) => eqb x y) (combine a b).

Fixpoint is_prefix (a b : bytes) : bool :=
  match a, b with
  | [], _ => true
  | x :: a', y :: b' => (x =? y)%N && is_prefix a' b'
  | _ :: _, [] => false
  end.

Definition sealed_sz : Z := sc_aead_size_overhead + sc_total_frame_size.

(* ---- stream *)
Definition rcode (r : rres) : N :=
  match r with ROk _ => 0 | RErrIO => 1 | RErrDecrypt => 2 | RErrLen => 3 | RPanic => 4 end%N.

Definition ev_cipher (frames : list scipher) (e : ev) : conn_ev scipher :=
  match e with
  | EG i => match nth_error frames i with Some c => EvBlock c | None => EvBlock Junk end
  | EO kid ctr => EvBlock (Sym kid (nonce_of_ctr ctr) [])
  | EF ctr hdr => EvBlock (Sym 0%N (nonce_of_ctr ctr) (le_enc 4 hdr ++ repeat 0%N data_max_size))
  | EJ => EvBlock Junk
  | EE _ => EvErr
  end.
Definition ev_size (e : ev) : Z := match e with EE l => l | _ => sealed_sz end.

(* model reads, with the number of wire bytes consumed so far *)
Fixpoint model_reads (st : rstate) (conn : list (conn_ev scipher)) (sizes : list Z) (pos : Z)
    (caps : list Z) : list (N * bytes * Z) :=
  match caps with
  | [] => []
  | cap :: caps' =>
    let '(st', r, conn') := read N scipher sopen 0%N st (Z.to_nat cap) conn in
    let used := (List.length conn - List.length conn')%nat in
    let pos' := pos + fold_left Z.add (firstn used sizes) 0 in
    (rcode r, rres_data r, pos') :: model_reads st' conn' (skipn used sizes) pos' caps'
  end.

(* monitor on the implementation's reads (clauses 2 and 3): walk the reads with the wire
   positions the harness observed.  j = number of frames accepted so far.
   A read that took exactly one block off the wire:
     - returned no error  => the block must be the j-th genuine frame (else clause 3)
     - returned an error  => the block must NOT be the j-th genuine frame (else clause 2)
   A read that took a short tail must fail (clause 3).
   result: 0 fine, 2 / 3 the clause violated *)
Fixpoint walk_reads (evs : list ev) (j : nat) (pos : Z) (reads : list readt) : N :=
  match reads with
  | [] => 0%N
  | (_, _, err, _, pos') :: rest =>
    let delta := pos' - pos in
    if delta =? 0 then walk_reads evs j pos' rest
    else
      let idx := Z.to_nat (pos / sealed_sz) in
      if (delta =? sealed_sz) && (pos mod sealed_sz =? 0) then
        let expected := match nth_error evs idx with
                        | Some (EG i) => Nat.eqb i j | _ => false end in
        if (err =? 0)%N then
          if expected then walk_reads evs (S j) pos' rest else 3%N
        else
          if expected then 2%N else walk_reads evs j pos' rest
      else
        if (err =? 0)%N then 3%N else walk_reads evs j pos' rest
  end.

(* the delivered blocks are exactly the writer's frames, in order, nothing else *)
Fixpoint untouched (evs : list ev) (i : nat) : bool :=
  match evs with
  | [] => true
  | EG k :: r => Nat.eqb k i && untouched r (S i)
  | _ => false
  end.

Definition read_n (r : readt) : Z := let '(_, n, _, _, _) := r in n.
Definition read_err (r : readt) : N := let '(_, _, e, _, _) := r in e.
Definition read_data (r : readt) : bytes := let '(_, _, _, d, _) := r in unhex d.
Definition read_cap (r : readt) : Z := let '(c, _, _, _, _) := r in c.
Definition read_pos (r : readt) : Z := let '(_, _, _, _, p) := r in p.

Fixpoint nodup_z (l : list Z) : bool :=
  match l with [] => true | x :: r => negb (existsb (Z.eqb x) r) && nodup_z r end.

Definition wcode (w : wres scipher) : N := if w_panic w then 2%N else 0%N.

(* ---- transport faults *)
Definition to_tout (z : Z) : tout := if z <? 0 then TOk else TErr (Z.to_nat z).
Definition wcode_t (w : wres_t scipher) : N :=
  if wt_panic w then 2%N else if wt_err w then 1%N else 0%N.
Definition reached (o : tout) : Z :=
  match o with TOk => sealed_sz | TErr m => Z.min (Z.of_nat m) sealed_sz end.

(* monitor (clause 4): after every Write sendNonce has moved by the number of frames that were
   sealed and handed to the conn during it, whether or not the conn took them *)
Fixpoint nonce_steps (cur : Z) (l : list (Z * Z * N * N)) : bool :=
  match l with
  | [] => true
  | (_, calls, code, after) :: r =>
    ((code =? 2)%N || (Z.of_N after =? cur + calls)) && nonce_steps (Z.of_N after) r
  end.

(* monitor (clause 2): Write reports an error only when a conn.Write of it failed (the last one
   it made), and a Write without error accepted all its bytes.  start = conn.Write calls so far *)
Fixpoint write_errors_ok (script : list Z) (start : Z) (ws : list bytes) (l : list (Z * Z * N * N))
  : bool :=
  match ws, l with
  | d :: ws', (n, calls, code, _) :: r =>
    (if (code =? 0)%N then n =? Z.of_nat (List.length d)
     else if (code =? 1)%N then
       (0 <? calls) && (0 <=? nth (Z.to_nat (start + calls - 1)) script (-1))
       && (0 <=? n) && (n <=? Z.of_nat (List.length d))
     else true)
    && write_errors_ok script (start + calls) ws' r
  | _, _ => true
  end.

(* the plaintext carried by the frames handed to the conn, from the implementation's own call
   counts: the i-th Write made [calls] conn.Write calls = the first calls*dataMaxSize bytes *)
Fixpoint handed_plain (ws : list bytes) (l : list (Z * Z * N * N)) : bytes :=
  match ws, l with
  | d :: ws', (_, calls, _, _) :: r =>
    firstn (Z.to_nat (calls * sc_data_max_size)) d ++ handed_plain ws' r
  | _, _ => []
  end.

(* monitor (clause 2) for a wire on which every frame arrived whole and in sequence and the
   reader's conn failed only between frames ([budget] times): a Read fails only without having
   taken a byte - at the end of the wire, or at most [budget] times before it *)
Fixpoint clean_reads (pos budget wire_len : Z) (reads : list readt) : bool :=
  match reads with
  | [] => true
  | r :: rest =>
    let pos' := read_pos r in
    if (read_err r =? 0)%N then clean_reads pos' budget wire_len rest
    else if negb (pos' =? pos) then false
    else if pos' =? wire_len then clean_reads pos' budget wire_len rest
    else if 0 <? budget then clean_reads pos' (budget - 1) wire_len rest
    else false
  end.

(* monitor on the reads (clauses 2 and 3) from what each Read took off the wire.  j = frames
   accepted so far.  A Read that took bytes and returned no error must have taken exactly the
   buffer of conn.Write call j (else 3); a Read that took exactly that buffer must not fail (2) *)
Fixpoint walk_reads_f (j : Z) (pos : Z) (reads : list (readt * Z)) : N :=
  match reads with
  | [] => 0%N
  | (r, what) :: rest =>
    let pos' := read_pos r in
    if pos' =? pos then walk_reads_f j pos' rest
    else if (read_err r =? 0)%N then
      if what =? j then walk_reads_f (j + 1) pos' rest else 3%N
    else
      if what =? j then 2%N else walk_reads_f j pos' rest
  end.

(* ---- handshake with toy (symbolic, injective) primitives *)
Definition t_eph_pub (n : N) : bytes := repeat n 32.
Definition t_dh (n : N) (p : bytes) : option bytes :=
  if (le_dec p =? 0)%N then None else Some (le_enc 32 (n * le_dec p)).
Definition t_transcript (lo hi d : bytes) : bytes := lo ++ hi ++ d.
Definition t_hkdf (d : bytes) : bytes := (1%N :: firstn 31 d) ++ (2%N :: firstn 31 d) ++ d.
Definition t_pub_of (sk : N) : bytes := le_enc 32 sk.
Definition t_sign (sk : N) (m : bytes) : bytes := le_enc 32 sk ++ m.
Definition t_verify (pk m s : bytes) : bool := bytes_eqb s (pk ++ m).

Definition hs_code (r : hs_result) : N :=
  match r with
  | HsOk _ => 0
  | HsErr HsEphIO | HsErr HsLowOrder => 1
  | HsErr _ => 2
  end%N.

(* identities: victim long-term 11 / ephemeral 5; peer long-term 12 / ephemeral 7;
   third party long-term 13; unused ephemeral 9; the other session's victim ephemeral 6 *)
Definition model_handshake (eph : N) (ephlen : Z) (auth : N) : hs_result * bool :=
  let v_eph := 5%N in let p_eph := 7%N in
  let eph_in : option bytes :=
    match eph with
    | 0 => Some (t_eph_pub p_eph)
    | 1 | 6 => Some (repeat 0%N 32)
    | 2 => Some (t_eph_pub 9)
    | 3 => Some (firstn (Z.to_nat ephlen) (t_eph_pub p_eph))
    | _ => None
    end%N in
  (* the peer's own view: it received the victim's ephemeral key *)
  let p_view := hs_transcript N t_eph_pub t_dh p_eph (Some (t_eph_pub v_eph)) in
  let v_view := hs_transcript N t_eph_pub t_dh v_eph eph_in in
  let p_send_key := match p_view with
                    | Some (_, _, d, least) => snd (derive_secrets t_hkdf d least)
                    | None => [] end in
  let v_recv_key := match v_view with
                    | Some (_, _, d, least) => fst (derive_secrets t_hkdf d least)
                    | None => [] end in
  let p_chal := match p_view with Some (lo, hi, d, _) => t_transcript lo hi d | None => [] end in
  let other_chal := match hs_transcript N t_eph_pub t_dh p_eph (Some (t_eph_pub 6)) with
                    | Some (lo, hi, d, _) => t_transcript lo hi d | None => [] end in
  let msg : option authmsg :=
    match auth with
    | 0 => Some {| am_type := KEd25519; am_key := t_pub_of 12; am_sig := t_sign 12 p_chal |}
    | 1 => Some {| am_type := KEd25519; am_key := t_pub_of 12; am_sig := t_sign 12 other_chal |}
    | 2 => Some {| am_type := KEd25519; am_key := t_pub_of 13; am_sig := t_sign 12 p_chal |}
    | 3 => Some {| am_type := KSecp256k1; am_key := t_pub_of 12; am_sig := t_sign 12 p_chal |}
    | 4 => Some {| am_type := KEd25519; am_key := t_pub_of 12; am_sig := 99%N :: t_sign 12 p_chal |}
    | 9 => Some {| am_type := KEd25519; am_key := t_pub_of 11; am_sig := t_sign 12 p_chal |}
    (* a genuine key (10-13 a third party's, 14-17 the peer's own) with a malformed signature:
       empty, cut by one byte, one byte too long, all zero *)
    | 10 | 11 | 12 | 13 | 14 | 15 | 16 | 17 =>
      let pk := if (auth <? 14)%N then t_pub_of 13 else t_pub_of 12 in
      let good := t_sign 12 p_chal in
      let bad := match ((auth - 10) mod 4)%N with
                 | 0 => []
                 | 1 => removelast good
                 | 2 => good ++ [0]
                 | _ => repeat 0 (List.length good)
                 end%N in
      Some {| am_type := KEd25519; am_key := pk; am_sig := bad |}
    | _ => None       (* 5 edited frame, 6 EOF, 7 sealed garbage, 8 other session's keys *)
    end%N in
  let auth_in := if bytes_eqb p_send_key v_recv_key then msg else None in
  let r := make_secret_connection N N t_eph_pub t_dh t_transcript t_hkdf t_verify 11%N v_eph
             eph_in auth_in in
  let claimed := match auth with 2 | 10 | 11 | 12 | 13 => t_pub_of 13 | 9 => t_pub_of 11
                 | _ => t_pub_of 12 end%N in
  (r, match r with HsOk s => bytes_eqb (s_rem_pub s) claimed | _ => false end).

(* the handshake clause on the script alone: a peer that is accepted must have sent the
   ephemeral key it really uses (same exchange), an ed25519 key, and a signature made with the
   private key of the key it claims over the challenge of this very session, unmodified *)
Definition hs_script_honest (eph : N) (ephlen : Z) (auth : N) : bool :=
  ((eph =? 0)%N || ((eph =? 3)%N && (32 <=? ephlen))) && (auth =? 0)%N.

(* ---- upgrade *)
Definition up_code (r : up_result) : N :=
  match r with
  | UpOk _ _ => 0 | UpErr UpSecretConn => 1 | UpErr UpDialedID => 2 | UpErr UpHandshake => 1
  | UpErr UpNodeInfoInvalid => 4 | UpErr UpNodeInfoID => 2 | UpErr UpSelf => 6
  | UpErr UpIncompatible => 7
  end%N.
Definition idb (n : N) : bytes := [n].
Definition opt_eqb (a b : option N) : bool :=
  match a, b with Some x, Some y => (x =? y)%N | None, None => true | _, _ => false end.

Definition check (c : case) : verdict :=
  match c with
  | CStream hs_ok send0 recv0 buf0 writes wres_i fnonce_i evs reads =>
    let ws := map unhex writes in
    let mw := run_writes N scipher sseal no_stale 0%N (unhex send0) ws in
    let frames := flat_map (fun w => w_sent w) mw in
    let conn := map (ev_cipher frames) evs in
    let st0 := {| r_buf := []; r_nonce := unhex recv0 |} in
    let mr := model_reads st0 conn (map ev_size evs) 0 (map read_cap reads) in
    let all_data := flat_map read_data reads in
    let stream := concat ws in
    let c0 := Z.of_N (ctr_of_nonce (unhex send0)) in
    let nframes := Z.of_nat (List.length fnonce_i) in
    let w := walk_reads evs 0 0 reads in
    let wire_len := fold_left Z.add (map ev_size evs) 0 in
    first_of [
      (* the handshake between two honest ends succeeds and identifies the other end *)
      viol hs_ok 8;
      (* 1: what Read returned, concatenated, is a prefix of what was written *)
      viol (is_prefix all_data stream) 1;
      viol (forallb (fun r => (0 <=? read_n r) && (read_n r <=? read_cap r) &&
                              (read_n r =? Z.of_nat (List.length (read_data r)))) reads) 1;
      (* 2/3: frame by frame *)
      viol (negb (w =? 2)%N) 2;
      viol (negb (w =? 3)%N) 3;
      (* 2: on an untouched stream an error appears only after everything was returned *)
      viol (negb (untouched evs 0 && (nframes =? Z.of_nat (List.length evs))
                  && existsb (fun r => negb (read_err r =? 0)%N) reads)
            || (Z.of_nat (List.length all_data) =? Z.of_nat (List.length stream))) 2;
      (* 2: a Write accepts all its bytes *)
      viol (list_eqb Z.eqb (map (fun '(n, _, _) => n) wres_i)
                     (map (fun d => Z.of_nat (List.length d)) ws)) 2;
      (* 4: the frames were sealed under pairwise different nonces: counter c0, c0+1, ... *)
      viol (nodup_z fnonce_i) 4;
      viol (list_eqb Z.eqb fnonce_i (map (fun i => c0 + Z.of_nat i) (seq 0 (List.length fnonce_i)))) 4;
      (* model vs implementation *)
      mism (buf0 =? 0) 10;
      mism (list_eqb (fun (a b : Z * Z * N) => let '(n, f, e) := a in let '(n', f', e') := b in
                        (n =? n') && (f =? f') && (e =? e')%N)
              (map (fun w => (Z.of_nat (w_n w), Z.of_nat (List.length (w_sent w)), wcode w)) mw)
              wres_i) 11;
      mism (nframes =? Z.of_nat (List.length frames)) 12;
      mism (list_eqb2 (fun (a : N * bytes * Z) (r : readt) =>
                        let '(e, d, _) := a in (e =? read_err r)%N && bytes_eqb d (read_data r))
              mr reads) 13;
      mism (list_eqb2 (fun (a : N * bytes * Z) (r : readt) =>
                        let '(_, _, p) := a in p =? read_pos r) mr reads) 14;
      mism (forallb (fun r => read_pos r <=? wire_len) reads) 14 ]
  | CFault hs_ok send0 recv0 buf0 writes script wres_i frames_i xor_i evs readsf =>
    let ws := map unhex writes in
    let mw := run_writes_t N scipher sseal no_stale 0%N (unhex send0) ws (map to_tout script) in
    let mwire := flat_map (fun w => wt_wire w) mw in
    let frames := map (fun x : bytes * scipher * tout => snd (fst x)) mwire in
    let conn := map (ev_cipher frames) evs in
    let reads := map fst readsf in
    let st0 := {| r_buf := []; r_nonce := unhex recv0 |} in
    let mr := model_reads st0 conn (map ev_size evs) 0 (map read_cap reads) in
    let all_data := flat_map read_data reads in
    let handed := handed_plain ws wres_i in
    let c0 := Z.of_N (ctr_of_nonce (unhex send0)) in
    let fn := map (fun f : Z * Z * Z => let '(c, _, _) := f in c) frames_i in
    let w := walk_reads_f 0 0 readsf in
    let wire_len := fold_left Z.add (map ev_size evs) 0 in
    let evs_data := filter (fun e => match e with EE 0 => false | _ => true end) evs in
    let clean := forallb (fun f : Z * Z * Z => let '(_, h, g) := f in g =? h) frames_i
                 && untouched evs_data 0
                 && Nat.eqb (List.length evs_data) (List.length frames_i) in
    first_of [
      viol hs_ok 8;
      (* 4: every sealed frame handed to the conn - delivered, cut short or refused - was sealed
         under its own counter: c0, c0+1, ... across failed conn.Writes and the Writes after them *)
      viol (nodup_z fn) 4;
      viol (list_eqb Z.eqb fn (map (fun i => c0 + Z.of_nat i) (seq 0 (List.length fn)))) 4;
      (* 4: no two frames on the wire under the same keystream (seen without keys) *)
      viol (match xor_i with [] => true | _ => false end) 4;
      (* 4: sendNonce moves past every frame sealed, also the one whose conn.Write failed *)
      viol (nonce_steps c0 wres_i) 4;
      (* 1: what Read returned is a prefix of the plaintext of the frames handed to the conn *)
      viol (is_prefix all_data handed) 1;
      viol (forallb (fun r => (0 <=? read_n r) && (read_n r <=? read_cap r) &&
                              (read_n r =? Z.of_nat (List.length (read_data r)))) reads) 1;
      (* 2/3: frame by frame *)
      viol (negb (w =? 2)%N) 2;
      viol (negb (w =? 3)%N) 3;
      (* 2: Write fails only with the transport, otherwise accepts all its bytes *)
      viol (write_errors_ok script 0 ws wres_i) 2;
      (* 2: when every frame reached the wire whole and the reader's conn only ever failed
         between frames (short reads, timeouts at frame boundaries), a reader that has hit the
         end of the wire has returned every byte *)
      viol (negb (clean && existsb (fun r => negb (read_err r =? 0)%N && (read_pos r =? wire_len)) reads)
            || (Z.of_nat (List.length all_data) =? Z.of_nat (List.length handed))) 2;
      (* 2: ... and until then no Read fails except the conn's own failures between frames *)
      viol (negb clean || clean_reads 0 (Z.of_nat (List.length evs) - Z.of_nat (List.length evs_data))
                                      wire_len reads) 2;
      (* model vs implementation *)
      mism (buf0 =? 0) 10;
      mism (list_eqb2 (fun (a : Z * Z * N) (b : Z * Z * N * N) =>
                        let '(n, f, e) := a in let '(n', f', e', _) := b in
                        (n =? n') && (f =? f') && (e =? e')%N)
              (map (fun w => (Z.of_nat (wt_n w), Z.of_nat (List.length (wt_wire w)), wcode_t w)) mw)
              wres_i) 20;
      mism (list_eqb2 (fun (w : wres_t scipher) (b : Z * Z * N * N) =>
                        let '(_, _, _, after) := b in (ctr_of_nonce (wt_nonce w) =? after)%N)
              mw wres_i) 21;
      mism (list_eqb2 (fun (x : bytes * scipher * tout) (f : Z * Z * Z) =>
                        let '(_, handed_len, got) := f in
                        (handed_len =? sealed_sz) && (got =? reached (snd x)))
              mwire frames_i) 22;
      mism (list_eqb2 (fun (a : N * bytes * Z) (r : readt) =>
                        let '(e, d, _) := a in (e =? read_err r)%N && bytes_eqb d (read_data r))
              mr reads) 13;
      mism (list_eqb2 (fun (a : N * bytes * Z) (r : readt) =>
                        let '(_, _, p) := a in p =? read_pos r) mr reads) 14;
      mism (forallb (fun r => read_pos r <=? wire_len) reads) 14 ]
  | CIncr nonce res_i =>
    let nb := unhex nonce in
    let ctr := ctr_of_nonce nb in
    first_of [
      (* 4: the counter moves to counter+1 and never wraps; the first four bytes stay *)
      viol (match res_i with
            | None => (ctr =? max_uint64)%N
            | Some r => negb (ctr =? max_uint64)%N && (ctr_of_nonce (unhex r) =? ctr + 1)%N
                        && bytes_eqb (firstn 4 (unhex r)) (firstn 4 nb)
                        && Nat.eqb (List.length (unhex r)) 12
            end) 4;
      mism (match incr_nonce nb, res_i with
            | None, None => true
            | Some a, Some b => bytes_eqb a (unhex b)
            | _, _ => false end) 15 ]
  | CCoalesce hs_ok auth peer_writes buf_i recv_i reads =>
    let ws := map unhex peer_writes in
    let authb := unhex auth in
    let stream := concat ws in
    let data := skipn (List.length authb) stream in
    let mw := run_writes N scipher sseal no_stale 0%N (nonce_of_ctr 0) ws in
    let conn := map (@EvBlock scipher) (flat_map (fun w => w_sent w) mw) in
    let '(st1, body, conn1) :=
      read_delimited N scipher sopen 0%N {| r_buf := []; r_nonce := nonce_of_ctr 0 |} conn in
    let '(mrs, _, _) := run_reads N scipher sopen 0%N st1 conn1
                          (map (fun '(cp, _, _, _) => Z.to_nat cp) reads) in
    let rdata := fun (r : Z * Z * N * string) => let '(_, _, _, d) := r in unhex d in
    let rerr := fun (r : Z * Z * N * string) => let '(_, _, e, _) := r in e in
    let all_data := flat_map rdata reads in
    first_of [
      (* 8: a peer that follows the protocol on the wire is accepted and identified *)
      viol hs_ok 8;
      (* 1: what the Reads return, concatenated, is a prefix of the bytes the peer wrote behind
         its AuthSig message - across the handshake / data boundary *)
      viol (is_prefix all_data data) 1;
      viol (forallb (fun '(cp, n, _, d) => (0 <=? n) && (n <=? cp) &&
                                           (n =? Z.of_nat (List.length (unhex d)))) reads) 1;
      (* 2: the wire is untouched: an error is seen only once every byte has been returned *)
      viol (negb (existsb (fun r => negb (rerr r =? 0)%N) reads)
            || (Z.of_nat (List.length all_data) =? Z.of_nat (List.length data))) 2;
      (* harness sanity: the peer's Writes begin with the delimited message *)
      mism (is_prefix authb stream) 23;
      (* model vs implementation: the message body the delimited reader extracts, the reader's
         state when the handshake is over, every Read *)
      mism (match body with
            | Some b => bytes_eqb (put_uvarint (N.of_nat (List.length b)) ++ b) authb
            | None => false end) 23;
      mism (buf_i =? Z.of_nat (List.length (r_buf st1))) 24;
      mism (recv_i =? Z.of_N (ctr_of_nonce (r_nonce st1))) 24;
      mism (list_eqb2 (fun (a : rres) (r : Z * Z * N * string) =>
                         (rcode a =? rerr r)%N && bytes_eqb (rres_data a) (rdata r)) mrs reads) 25 ]
  | CFrame send0 data frames_i =>
    let w := write N scipher sseal no_stale 0%N (unhex send0) (unhex data) in
    first_of [
      mism (list_eqb2 (fun (c : seal_call scipher) (f : Z * Z * string) =>
                        let '(slen, plen, pre) := f in
                        (slen =? sealed_sz) && (plen =? sc_total_frame_size) &&
                        is_prefix (unhex pre) (sl_plain c) &&
                        (* the prefix reported covers header and chunk *)
                        (N.of_nat (List.length (unhex pre)) =? 4 + le_dec (firstn 4 (sl_plain c)))%N)
              (w_calls w) frames_i) 16 ]
  | CHandshake eph ephlen auth res_i rem_is_claimed =>
    let '(r, claimed_m) := model_handshake eph ephlen auth in
    first_of [
      (* 6: a low-order point must be refused (whatever the peer does next: it knows the shared
         secret, zero, without holding any ephemeral private key) *)
      viol (negb ((res_i =? 0)%N && ((eph =? 1) || (eph =? 6))%N)) 6;
      (* 5: accepted => the peer proved possession of the claimed key over this exchange *)
      viol (negb (res_i =? 0)%N || hs_script_honest eph ephlen auth) 5;
      viol (negb (res_i =? 0)%N || rem_is_claimed) 5;
      (* 8: an honest peer is accepted *)
      viol (negb (hs_script_honest eph ephlen auth) || (res_i =? 0)%N) 8;
      mism (hs_code r =? res_i)%N 17;
      mism (Bool.eqb claimed_m rem_is_claimed) 18 ]
  | CUpgrade key dialed ni valid own compat res_i ids_ok =>
    let r := upgrade (fun x => x) (option_map idb key) (option_map idb dialed) (option_map idb ni)
                     valid (idb own) compat in
    first_of [
      (* 7: an upgraded connection's id is the id of the authenticated key, equals the dialled
         id and the id the peer reports about itself *)
      viol (negb (res_i =? 0)%N ||
            (match key with Some _ => true | None => false end
             && match dialed with Some d => opt_eqb key (Some d) | None => true end
             && opt_eqb key ni && ids_ok)) 7;
      mism (up_code r =? res_i)%N 19 ]
  end.
