(* C16 — composition: the AuthSig exchange of MakeSecretConnection running through
   SecretConnection.Write / Read (ModelAuth.v) on top of the frame/stream lemmas of Proofs.v;
   the nonces of handshake and data phase; the frame layout. *)
From Coq Require Import List ZArith NArith Bool Lia.
From TM Require Import Common.Hex Generated.Consts C16.Model C16.Proofs C16.ModelAuth.
Import ListNotations.
Open Scope N_scope.

(* ------------------------------------------------------------------ lists *)
Lemma app_split_len : forall (d r b r0 : bytes), d ++ r = b ++ r0 -> (length d <= length b)%nat ->
  b = d ++ skipn (length d) b /\ r = skipn (length d) b ++ r0.
Proof.
  induction d as [|x d IH]; intros r b r0 E L.
  - cbn in *. auto.
  - destruct b as [|y b]; [cbn in L; lia|].
    cbn [app] in E. injection E as -> E. cbn [length] in L.
    destruct (IH _ _ _ E ltac:(lia)) as [E1 E2].
    cbn [length skipn app]. split; [f_equal; exact E1 | exact E2].
Qed.

Lemma take_facts : forall (l X : bytes) cap, l <> [] -> (1 <= cap)%nat ->
  let n := Nat.min cap (length l) in
  firstn n l <> [] /\ (length (firstn n l) <= cap)%nat /\
  l ++ X = firstn n l ++ skipn n l ++ X.
Proof.
  intros l X cap Hl Hc n. split; [|split].
  - intro E. apply (f_equal (@length N)) in E. rewrite firstn_length in E. cbn in E.
    destruct l; [congruence|]. cbn [length] in *. subst n. lia.
  - rewrite firstn_length. subst n. lia.
  - rewrite app_assoc, firstn_skipn. reflexivity.
Qed.

Lemma chunks_len_le : forall chunks : list bytes, Forall chunk_ok chunks ->
  (length chunks <= length (concat chunks))%nat.
Proof.
  induction 1 as [|ch l H _ IH]; cbn [concat length]; [lia|].
  rewrite app_length. unfold chunk_ok in H. lia.
Qed.

Lemma app_eq_len : forall {A} (a a' b b' : list A), length a = length a' ->
  a ++ b = a' ++ b' -> a = a' /\ b = b'.
Proof.
  induction a as [|x a IH]; intros [|y a'] b b' L E; cbn in *; try discriminate; auto.
  injection E as -> E. injection L as L. destruct (IH _ _ _ L E) as [-> ->]. auto.
Qed.

Lemma skipn_add : forall {A} a b (l : list A), skipn a (skipn b l) = skipn (a + b) l.
Proof.
  intros A a b. revert a. induction b as [|b IH]; intros a l.
  - rewrite Nat.add_0_r. reflexivity.
  - destruct l as [|x l]; [rewrite !skipn_nil; reflexivity|].
    cbn [skipn]. rewrite IH. replace (a + S b)%nat with (S (a + b)) by lia. reflexivity.
Qed.

(* ------------------------------------------------------------------ uvarint *)
Lemma put_uvarint_f_nonempty : forall f x, put_uvarint_f f x <> [].
Proof. intros [|f] x; cbn [put_uvarint_f]; [|destruct (x <? 128)]; discriminate. Qed.

Lemma put_uvarint_f_length : forall f x, (1 <= length (put_uvarint_f f x) <= S f)%nat.
Proof.
  induction f as [|f IH]; intro x; cbn [put_uvarint_f]; [cbn; lia|].
  destruct (x <? 128); cbn [length]; [lia|]. specialize (IH (x / 128)). lia.
Qed.

(* ================================================================== the two reader loops,
   over any invariant that makes sc.Read deliver the next bytes of a known stream [rem]:
   [Bad] and [CanFail] are instantiated to (False, False) for the untouched wire and to
   (a wrong block opens, True) for an arbitrary wire *)
Section Loops.
Variables key cipher : Type.
Variable open : key -> bytes -> cipher -> option bytes.
Variable k : key.
Variable Inv : rstate -> list (conn_ev cipher) -> bytes -> Prop.
Variables Bad CanFail : Prop.
Hypothesis step : forall st conn rem cap st' r conn',
  Inv st conn rem -> rem <> [] -> (1 <= cap)%nat ->
  read key cipher open k st cap conn = (st', r, conn') ->
  Bad \/ (CanFail /\ rres_ok r = false) \/
  (exists d rem', r = ROk d /\ d <> [] /\ (length d <= cap)%nat /\ rem = d ++ rem' /\
                  Inv st' conn' rem').

Lemma read_uvarint_loop_S : forall n i x s last st conn,
  read_uvarint_loop key cipher open (S n) i x s last k st conn =
  let '(st', r, conn') := read key cipher open k st 1 conn in
  match r with
  | ROk d =>
    let b := hd last d in
    if b <? 128 then
      if (i =? 9)%nat && (1 <? b) then (st', UvOverflow, conn')
      else (st', UvOk (x + b * 2 ^ s), conn')
    else read_uvarint_loop key cipher open n (S i) (x + (b mod 128) * 2 ^ s) (s + 7) b k st' conn'
  | _ => (st', UvErr r, conn')
  end.
Proof. reflexivity. Qed.

Lemma step_uv : forall f L rem0 st conn st' r conn',
  Inv st conn (put_uvarint_f f L ++ rem0) ->
  read key cipher open k st 1 conn = (st', r, conn') ->
  Bad \/ (CanFail /\ rres_ok r = false) \/
  (exists b rem', r = ROk [b] /\ put_uvarint_f f L ++ rem0 = b :: rem' /\ Inv st' conn' rem').
Proof.
  intros f L rem0 st conn st' r conn' I Er.
  assert (Hne : put_uvarint_f f L ++ rem0 <> []).
  { intro X. apply app_eq_nil in X. destruct X as [X _]. exact (put_uvarint_f_nonempty _ _ X). }
  destruct (step _ _ _ _ _ _ _ I Hne (le_n 1) Er)
    as [B | [CF | (d & rem' & -> & Hd & Hl & Hrem & I')]]; [left; exact B | right; left; exact CF |].
  right. right. destruct d as [|b [|b' d]]; [congruence | | cbn in Hl; lia].
  exists b, rem'. auto.
Qed.

Lemma uv_loop_spec : forall f i x s last L rem0 st conn st' res conn',
  (i + f = 9)%nat -> L < 2 * 128 ^ N.of_nat f ->
  Inv st conn (put_uvarint_f f L ++ rem0) ->
  read_uvarint_loop key cipher open (S f) i x s last k st conn = (st', res, conn') ->
  Bad \/ (CanFail /\ exists r, res = UvErr r /\ rres_ok r = false) \/
  (res = UvOk (x + L * 2 ^ s) /\ Inv st' conn' rem0).
Proof.
  induction f as [|f IH]; intros i x s last L rem0 st conn st' res conn' Hi HL I E;
    rewrite read_uvarint_loop_S in E;
    destruct (read key cipher open k st 1 conn) as [[st1 r] conn1] eqn:Er;
    destruct (step_uv _ _ _ _ _ _ _ _ I Er) as [B | [[CF Hr] | (b & rem' & -> & Hrem & I')]].
  - left; exact B.
  - right. left. split; [exact CF|]. exists r. destruct r; cbn in Hr; try discriminate;
      injection E as <- <- <-; auto.
  - cbn [put_uvarint_f app] in Hrem. injection Hrem as <- <-.
    change (2 * 128 ^ N.of_nat 0) with 2 in HL.
    cbn [hd] in E.
    replace (L <? 128) with true in E by (symmetry; apply N.ltb_lt; lia).
    replace (1 <? L) with false in E by (symmetry; apply N.ltb_ge; lia).
    rewrite andb_false_r in E. injection E as <- <- <-. right. right. auto.
  - left; exact B.
  - right. left. split; [exact CF|]. exists r. destruct r; cbn in Hr; try discriminate;
      injection E as <- <- <-; auto.
  - cbn [hd] in E. cbn [put_uvarint_f] in Hrem.
    destruct (L <? 128) eqn:EL.
    + cbn [app] in Hrem. injection Hrem as <- <-. rewrite EL in E.
      replace (i =? 9)%nat with false in E by (symmetry; apply Nat.eqb_neq; lia).
      cbn [andb] in E. injection E as <- <- <-. right. right. auto.
    + cbn [app] in Hrem. injection Hrem as <- <-.
      apply N.ltb_ge in EL.
      replace (L mod 128 + 128 <? 128) with false in E by (symmetry; apply N.ltb_ge; apply N.le_add_l).
      assert (Hm : (L mod 128 + 128) mod 128 = L mod 128).
      { replace (L mod 128 + 128) with (L mod 128 + 1 * 128) by lia.
        rewrite N.mod_add by discriminate. apply N.mod_mod. discriminate. }
      rewrite Hm in E.
      assert (HL' : L / 128 < 2 * 128 ^ N.of_nat f).
      { apply N.div_lt_upper_bound; [discriminate|].
        rewrite Nat2N.inj_succ, N.pow_succ_r' in HL. lia. }
      destruct (IH (S i) _ _ _ (L / 128) rem0 _ _ _ _ _ ltac:(lia) HL' I' E)
        as [B | [CFc | [Eres I'']]]; [left; exact B | right; left; exact CFc |].
      right. right. split; [|exact I'']. rewrite Eres. f_equal.
      rewrite N.pow_add_r. change (2 ^ 7) with 128.
      pose proof (N.div_mod' L 128) as D. set (q := L / 128) in *. set (m := L mod 128) in *.
      clearbody q m. rewrite D. ring.
Qed.

Lemma read_full_loop_S : forall f w acc st conn,
  read_full_loop key cipher open (S f) (S w) acc k st conn =
  let '(st', r, conn') := read key cipher open k st (S w) conn in
  match r with
  | ROk d => read_full_loop key cipher open f (S w - length d) (acc ++ d) k st' conn'
  | _ => (st', FErr r, conn')
  end.
Proof. reflexivity. Qed.

Lemma read_full_loop_0 : forall f acc st conn,
  read_full_loop key cipher open f 0 acc k st conn = (st, FOk acc, conn).
Proof. intros [|f]; reflexivity. Qed.

Lemma full_loop_spec : forall fuel body acc rem0 st conn st' res conn',
  (length body <= fuel)%nat ->
  Inv st conn (body ++ rem0) ->
  read_full_loop key cipher open fuel (length body) acc k st conn = (st', res, conn') ->
  Bad \/ (CanFail /\ exists r, res = FErr r /\ rres_ok r = false) \/
  (res = FOk (acc ++ body) /\ Inv st' conn' rem0).
Proof.
  induction fuel as [|f IH]; intros body acc rem0 st conn st' res conn' Hf I E.
  - destruct body; [|cbn in Hf; lia]. cbn in E. injection E as <- <- <-.
    right. right. rewrite app_nil_r. auto.
  - destruct body as [|b0 body'] eqn:Eb.
    + cbn in E. injection E as <- <- <-. right. right. rewrite app_nil_r. auto.
    + rewrite <- Eb in *.
      assert (Hl : length body = S (length body')) by (rewrite Eb; reflexivity).
      rewrite Hl in E. rewrite read_full_loop_S in E. rewrite <- Hl in E.
      destruct (read key cipher open k st (length body) conn) as [[st1 r] conn1] eqn:Er.
      eapply step in Er; [| exact I | rewrite Eb; discriminate | lia].
      destruct Er as [B | [[CF Hr] | (d & rem' & -> & Hd & Hld & Hrem & I')]]; [left; exact B | |].
      * right. left. split; [exact CF|]. exists r. destruct r; cbn in Hr; try discriminate;
          injection E as <- <- <-; auto.
      * symmetry in Hrem. destruct (app_split_len _ _ _ _ Hrem Hld) as [S1 S2].
        rewrite S2 in I'.
        assert (Hw : (length body - length d)%nat = length (skipn (length d) body))
          by (rewrite skipn_length; reflexivity).
        rewrite Hw in E.
        assert (Hd1 : (1 <= length d)%nat) by (destruct d; [congruence | cbn; lia]).
        assert (Hf' : (length (skipn (length d) body) <= f)%nat) by (rewrite skipn_length; lia).
        destruct (IH _ _ _ _ _ _ _ _ Hf' I' E) as [B | [CFc | [Eres I'']]];
          [left; exact B | right; left; exact CFc |].
        right. right. split; [|exact I'']. rewrite Eres, <- app_assoc, <- S1. reflexivity.
Qed.

Lemma delimited_spec : forall body rem0 st conn st' res conn',
  N.of_nat (length body) <= max_msg_size ->
  Inv st conn (put_uvarint (N.of_nat (length body)) ++ body ++ rem0) ->
  read_delimited key cipher open k st conn = (st', res, conn') ->
  Bad \/ (CanFail /\ res = None) \/ (res = Some body /\ Inv st' conn' rem0).
Proof.
  intros body rem0 st conn st' res conn' HL I E.
  unfold read_delimited, read_uvarint, max_varint_len64 in E.
  destruct (read_uvarint_loop key cipher open 10 0 0 0 0 k st conn) as [[st1 r] conn1] eqn:Eu.
  unfold max_msg_size in HL.
  apply (uv_loop_spec 9 0%nat 0 0 0 (N.of_nat (length body)) (body ++ rem0)) in Eu;
    [| reflexivity | change (2 * 128 ^ N.of_nat 9) with 18446744073709551616; lia | exact I].
  destruct Eu as [B | [[CF (r0 & -> & _)] | [-> I1]]]; [left; exact B | |].
  - injection E as <- <- <-. right. left. auto.
  - rewrite N.pow_0_r, N.mul_1_r, N.add_0_l in E.
    replace (max_native_int <=? N.of_nat (length body)) with false in E
      by (symmetry; apply N.leb_gt; unfold max_native_int; lia).
    replace (max_msg_size <? N.of_nat (length body)) with false in E
      by (symmetry; apply N.ltb_ge; unfold max_msg_size; lia).
    rewrite Nat2N.id in E. unfold read_full in E.
    destruct (read_full_loop key cipher open (length body + length conn1) (length body) [] k st1 conn1)
      as [[st2 fr] conn2] eqn:Ef.
    apply (full_loop_spec _ body [] rem0) in Ef; [| lia | exact I1].
    destruct Ef as [B | [[CF (r0 & -> & _)] | [-> I2]]]; [left; exact B | |].
    + injection E as <- <- <-. right. left. auto.
    + injection E as <- <- <-. right. right. auto.
Qed.
End Loops.

(* ================================================================== one Read of a session whose
   frames carry [chunks] from counter c0: the untouched wire and the arbitrary wire *)
Section Steps.
Variables key cipher : Type.
Variable seal : key -> bytes -> bytes -> cipher.
Variable open : key -> bytes -> cipher -> option bytes.
Variable pool : bytes -> bytes.
Variable k : key.
Variable pre : bytes.
Hypothesis Hpre : length pre = 4%nat.
Hypothesis open_seal : forall n p, open k n (seal k n p) = Some p.
Variable c0 : N.
Variable chunks : list bytes.
Hypothesis Hchunks : Forall chunk_ok chunks.
Hypothesis Hbound : c0 + N.of_nat (length chunks) <= max_uint64.

Notation sent := (sent key cipher seal pool k pre c0 chunks).
Notation rinv := (rinv pre c0 chunks).

(* the reader is j frames into the untouched wire (followed by [tail]); [rem] is what it has
   not yet handed out *)
Definition linv (tail : list (conn_ev cipher)) (st : rstate) (conn : list (conn_ev cipher))
    (rem : bytes) : Prop :=
  exists j del, rinv st j del /\ conn = map EvBlock (skipn j sent) ++ tail /\
                rem = r_buf st ++ concat (skipn j chunks).

(* the reader has taken exactly the first j frames off [conn0], whatever follows *)
Definition sinv (conn0 : list (conn_ev cipher)) (st : rstate) (conn : list (conn_ev cipher))
    (rem : bytes) : Prop :=
  exists j del, rinv st j del /\ conn0 = map EvBlock (firstn j sent) ++ conn /\
                rem = r_buf st ++ concat (skipn j chunks).

(* a block opens under the counter of frame j although it is not frame j *)
Definition WrongBlockOpens : Prop :=
  exists j c p, (j < length chunks)%nat /\
    open k (nonce_of pre (c0 + N.of_nat j)) c = Some p /\ nth_error sent j <> Some c.

Lemma chunk_at : forall st j del, rinv st j del -> r_buf st = [] ->
  r_buf st ++ concat (skipn j chunks) <> [] ->
  exists ch, nth_error chunks j = Some ch /\ ch <> [] /\
             skipn j chunks = ch :: skipn (S j) chunks.
Proof.
  intros st j del I Hb Hne. rewrite Hb in Hne. cbn [app] in Hne.
  destruct (nth_error chunks j) as [ch|] eqn:E.
  - exists ch. split; [reflexivity|]. split; [|apply skipn_nth_cons; exact E].
    rewrite Forall_forall in Hchunks. specialize (Hchunks ch (nth_error_In _ _ E)).
    unfold chunk_ok in Hchunks. destruct ch; [cbn in Hchunks; lia | discriminate].
  - exfalso. apply Hne. apply nth_error_None in E. rewrite skipn_all2 by exact E. reflexivity.
Qed.

Lemma live_step : forall tail st conn rem cap st' r conn',
  linv tail st conn rem -> rem <> [] -> (1 <= cap)%nat ->
  read key cipher open k st cap conn = (st', r, conn') ->
  False \/ (False /\ rres_ok r = false) \/
  (exists d rem', r = ROk d /\ d <> [] /\ (length d <= cap)%nat /\ rem = d ++ rem' /\
                  linv tail st' conn' rem').
Proof.
  intros tail st conn rem cap st' r conn' (j & del & I & Ec & Er) Hne Hcap E.
  right. right. subst rem.
  destruct (buf_cases st) as [Hb|Hb].
  - destruct (chunk_at _ _ _ I Hb Hne) as (ch & Ech & Hch & Esk).
    pose proof (sent_nth key cipher seal pool k pre Hpre c0 chunks Hbound _ _ Ech) as Es.
    rewrite (skipn_nth_cons _ _ _ Es) in Ec. cbn [map app] in Ec. subst conn.
    rewrite (read_accept key cipher seal open pool k pre Hpre open_seal c0 chunks Hchunks Hbound
               st j del cap _ ch _ I Hb Ech Es) in E.
    injection E as <- <- <-.
    destruct (take_facts ch (concat (skipn (S j) chunks)) cap Hch Hcap) as (T1 & T2 & T3).
    eexists _, _. split; [reflexivity|]. split; [exact T1|]. split; [exact T2|].
    split.
    + rewrite Hb, Esk. cbn [app concat]. exact T3.
    + exists (S j), (del ++ firstn (Nat.min cap (length ch)) ch).
      split; [exact (rinv_accept pre c0 chunks st j del cap ch I Hb Ech)|].
      split; reflexivity.
  - rewrite read_buf in E by exact Hb. injection E as <- <- <-.
    destruct (take_facts (r_buf st) (concat (skipn j chunks)) cap Hb Hcap) as (T1 & T2 & T3).
    eexists _, _. split; [reflexivity|]. split; [exact T1|]. split; [exact T2|].
    split; [exact T3|].
    exists j, (del ++ firstn (Nat.min cap (length (r_buf st))) (r_buf st)).
    split; [exact (rinv_buf pre c0 chunks st j del cap I)|]. split; [exact Ec | reflexivity].
Qed.

Variable cipher_eq_dec : forall a b : cipher, {a = b} + {a <> b}.

Lemma safe_step : forall conn0 st conn rem cap st' r conn',
  sinv conn0 st conn rem -> rem <> [] -> (1 <= cap)%nat ->
  read key cipher open k st cap conn = (st', r, conn') ->
  WrongBlockOpens \/ (True /\ rres_ok r = false) \/
  (exists d rem', r = ROk d /\ d <> [] /\ (length d <= cap)%nat /\ rem = d ++ rem' /\
                  sinv conn0 st' conn' rem').
Proof.
  intros conn0 st conn rem cap st' r conn' (j & del & I & Ec & Er) Hne Hcap E.
  subst rem.
  destruct (buf_cases st) as [Hb|Hb].
  - destruct (chunk_at _ _ _ I Hb Hne) as (ch & Ech & Hch & Esk).
    pose proof (sent_nth key cipher seal pool k pre Hpre c0 chunks Hbound _ _ Ech) as Es.
    destruct conn as [|[c|] conn1].
    + unfold read in E. rewrite Hb in E. cbn in E. injection E as <- <- <-. right. left. auto.
    + destruct (cipher_eq_dec c (seal k (nonce_of pre (c0 + N.of_nat j))
                                   (mk_frame ch (pool (nonce_of pre (c0 + N.of_nat j)))))) as [->|Ne].
      * rewrite (read_accept key cipher seal open pool k pre Hpre open_seal c0 chunks Hchunks Hbound
                   st j del cap _ ch _ I Hb Ech Es) in E.
        injection E as <- <- <-. right. right.
        destruct (take_facts ch (concat (skipn (S j) chunks)) cap Hch Hcap) as (T1 & T2 & T3).
        eexists _, _. split; [reflexivity|]. split; [exact T1|]. split; [exact T2|].
        split.
        -- rewrite Hb, Esk. cbn [app concat]. exact T3.
        -- exists (S j), (del ++ firstn (Nat.min cap (length ch)) ch).
           split; [exact (rinv_accept pre c0 chunks st j del cap ch I Hb Ech)|].
           split; [|reflexivity].
           rewrite (firstn_succ_nth _ _ _ Es), map_app, <- app_assoc. exact Ec.
      * unfold read in E. rewrite Hb in E. change (0 <? length (@nil N))%nat with false in E.
        cbv iota in E. rewrite (ri_nonce _ _ _ _ _ _ I) in E.
        destruct (open k (nonce_of pre (c0 + N.of_nat j)) c) as [p|] eqn:Eo.
        -- left. exists j, c, p. split; [apply nth_error_Some; congruence|].
           split; [exact Eo|]. rewrite Es. congruence.
        -- injection E as <- <- <-. right. left. auto.
    + unfold read in E. rewrite Hb in E. cbn in E. injection E as <- <- <-. right. left. auto.
  - rewrite read_buf in E by exact Hb. injection E as <- <- <-. right. right.
    destruct (take_facts (r_buf st) (concat (skipn j chunks)) cap Hb Hcap) as (T1 & T2 & T3).
    eexists _, _. split; [reflexivity|]. split; [exact T1|]. split; [exact T2|].
    split; [exact T3|].
    exists j, (del ++ firstn (Nat.min cap (length (r_buf st))) (r_buf st)).
    split; [exact (rinv_buf pre c0 chunks st j del cap I)|]. split; [exact Ec | reflexivity].
Qed.

(* nothing left to hand out: every frame was taken, the buffer is empty *)
Lemma inv_done : forall st j del, rinv st j del -> r_buf st ++ concat (skipn j chunks) = [] ->
  st = {| r_buf := []; r_nonce := nonce_of pre (c0 + N.of_nat (length chunks)) |} /\
  j = length chunks.
Proof.
  intros st j del I E. apply app_eq_nil in E. destruct E as [Hb Hc].
  assert (Hj : j = length chunks).
  { destruct (nth_error chunks j) as [ch|] eqn:Ech.
    - exfalso. rewrite (skipn_nth_cons _ _ _ Ech) in Hc. cbn [concat] in Hc.
      apply app_eq_nil in Hc. destruct Hc as [Hc _]. subst ch.
      rewrite Forall_forall in Hchunks. specialize (Hchunks [] (nth_error_In _ _ Ech)).
      unfold chunk_ok in Hchunks. cbn in Hchunks. lia.
    - apply nth_error_None in Ech. pose proof (ri_j _ _ _ _ _ _ I). lia. }
  split; [|exact Hj].
  pose proof (ri_nonce _ _ _ _ _ _ I) as Hn. destruct st as [b n]. cbn in *. subst. reflexivity.
Qed.
End Steps.

(* ================================================================== shareAuthSignature over the stream *)
Definition P0 : bytes := [0; 0; 0; 0].
Lemma P0_len : length P0 = 4%nat. Proof. reflexivity. Qed.

(* a wrong block opening under one of the first counters is a forgery against any longer wire:
   [wire0] carries the counters c0.., [wire1] only counters past them *)
Lemma wrong_block_forgery :
  forall (key cipher : Type) (seal : key -> bytes -> bytes -> cipher)
         (open : key -> bytes -> cipher -> option bytes) (pool : bytes -> bytes) (k : key)
         (chunks chunks1 : list bytes),
    N.of_nat (length chunks) + N.of_nat (length chunks1) <= max_uint64 ->
    WrongBlockOpens key cipher seal open pool k P0 0 chunks ->
    AeadForgeryOn open k
      (wire key cipher seal pool k P0 0 chunks ++
       wire key cipher seal pool k P0 (N.of_nat (length chunks)) chunks1).
Proof.
  intros key cipher seal open pool k chunks chunks1 Hb (j & c & p & Hj & Eo & Hn).
  exists (nonce_of P0 (0 + N.of_nat j)), c, p. split; [exact Eo|].
  intro Hin. apply in_app_or in Hin. destruct Hin as [Hin|Hin].
  - apply (wire_in key cipher seal pool k P0 P0_len 0 chunks ltac:(lia) j c ltac:(lia)) in Hin.
    destruct Hin as (ch & Ech & Ec). apply Hn.
    rewrite (sent_nth key cipher seal pool k P0 P0_len 0 chunks ltac:(lia) _ _ Ech). congruence.
  - unfold wire in Hin. apply in_map_iff in Hin. destruct Hin as (s & E & Hs).
    injection E as En _.
    destruct (seal_chunks_in key cipher seal pool k P0 P0_len 0 [] ltac:(cbn; lia) _ _ _ Hs)
      as (i & ch & E1 & E2 & _).
    assert (Hi : (i < length chunks1)%nat) by (apply nth_error_Some; congruence).
    rewrite E2 in En.
    apply nonce_of_inj in En; [lia | apply le_max_lt; lia | apply le_max_lt; lia].
Qed.

Section AuthOverStream.
Variables key cipher : Type.
Variable seal : key -> bytes -> bytes -> cipher.
Variable open : key -> bytes -> cipher -> option bytes.
Variable pool : bytes -> bytes.
Variable enc : authmsg -> bytes.
Variable dec : bytes -> option authmsg.
Variable k : key.

Notation auth_send := (auth_send key cipher seal pool enc).
Notation auth_recv := (auth_recv key cipher open dec).
Notation wire_bytes := (auth_wire_bytes enc).

Lemma wire_bytes_len : forall m, N.of_nat (length (enc m)) <= max_msg_size ->
  1 <= N.of_nat (length (wire_bytes m)) <= 1048586.
Proof.
  intros m H. unfold auth_wire_bytes, put_uvarint. rewrite app_length.
  pose proof (put_uvarint_f_length 9 (N.of_nat (length (enc m)))). unfold max_msg_size in H. lia.
Qed.

(* the writer half: one Write from counter 0, no panic, the chunks are the message *)
Lemma auth_send_spec : forall m, N.of_nat (length (enc m)) <= max_msg_size ->
  let w := auth_send k m in
  exists chunks, Forall chunk_ok chunks /\ 1 <= N.of_nat (length chunks) <= 1048586 /\
    concat chunks = wire_bytes m /\
    w_sent w = sent key cipher seal pool k P0 0 chunks /\
    w_wire w = wire key cipher seal pool k P0 0 chunks /\
    w_calls w = seal_chunks key cipher seal pool k P0 0 chunks /\
    w_panic w = false /\ w_n w = length (wire_bytes m) /\
    w_nonce w = nonce_of P0 (N.of_nat (length chunks)).
Proof.
  intros m Hm w.
  destruct (write_spec_ex key cipher seal pool k P0 P0_len (wire_bytes m) 0 ltac:(unfold max_uint64; lia))
    as (chunks & extra & S).
  change (nonce_of P0 0) with zero_nonce in S. fold (auth_send k m) in S. fold w in S.
  destruct S as [S1 S2 S3 S3w S4 S5 (rest & D1 & D2) S7 S8].
  pose proof (wire_bytes_len m Hm) as Hlen.
  pose proof (chunks_len_le chunks S1) as Hcl.
  assert (Hcc : (length (concat chunks) <= length (wire_bytes m))%nat).
  { rewrite D1, app_length. lia. }
  assert (Hp : w_panic w = false).
  { destruct (w_panic w) eqn:P; [|reflexivity]. destruct (S8 eq_refl) as [_ X].
    unfold max_uint64 in X. lia. }
  destruct (S7 Hp) as [-> Hn]. specialize (D2 Hp). subst rest. rewrite app_nil_r in D1.
  rewrite app_nil_r in S3.
  exists chunks. split; [exact S1|]. split.
  { split; [|lia]. destruct chunks; [|cbn [length]; lia]. cbn [concat] in D1. rewrite D1 in Hlen.
    cbn [length N.of_nat] in Hlen. lia. }
  split; [symmetry; exact D1|]. split; [exact S2|]. split; [exact S3w|]. split; [exact S3|].
  split; [exact Hp|]. split; [rewrite S5, <- D1; reflexivity|].
  rewrite Hn. reflexivity.
Qed.

Hypothesis open_seal : forall n p, open k n (seal k n p) = Some p.

(* (1a) untouched wire: the reader decodes exactly what the writer encoded, whatever the length
   of the message (one frame or many), leaves its buffer empty, its counter where the writer's
   is, and the rest of the conn untouched *)
Lemma authsig_roundtrip : forall (m : authmsg) (tail : list (conn_ev cipher)),
  N.of_nat (length (enc m)) <= max_msg_size ->
  let w := auth_send k m in
  w_panic w = false /\ w_n w = length (wire_bytes m) /\
  (1 <= length (w_sent w))%nat /\
  w_nonce w = nonce_of P0 (N.of_nat (length (w_sent w))) /\
  auth_recv k (map EvBlock (w_sent w) ++ tail)
    = ({| r_buf := []; r_nonce := w_nonce w |}, dec (enc m), tail).
Proof.
  intros m tail Hm w.
  destruct (auth_send_spec m Hm) as (chunks & C1 & C2 & C3 & C4 & C5 & C6 & C7 & C8 & C9).
  fold w in C4, C5, C6, C7, C8, C9.
  assert (Hb : 0 + N.of_nat (length chunks) <= max_uint64) by (unfold max_uint64; lia).
  split; [exact C7|]. split; [exact C8|].
  assert (Hls : length (w_sent w) = length chunks) by (rewrite C4; apply sent_length).
  split; [lia|]. split; [rewrite Hls; exact C9|].
  unfold ModelAuth.auth_recv.
  destruct (read_delimited key cipher open k {| r_buf := []; r_nonce := zero_nonce |}
              (map EvBlock (w_sent w) ++ tail)) as [[st1 r1] conn1] eqn:E.
  apply (delimited_spec key cipher open k
           (linv key cipher seal pool k P0 0 chunks tail) False False
           (live_step key cipher seal open pool k P0 P0_len open_seal 0 chunks C1 Hb tail)
           (enc m) []) in E; [| exact Hm |].
  - destruct E as [[] | [[[] _] | [-> (j & del & I & Ec & Er)]]].
    symmetry in Er.
    destruct (inv_done P0 P0_len 0 chunks C1 Hb _ _ _ I Er) as [-> ->].
    rewrite skipn_all2 in Ec by (rewrite sent_length; lia). cbn [map app] in Ec. subst conn1.
    rewrite C9. reflexivity.
  - exists 0%nat, []. split; [apply (rinv_init P0 P0_len 0 chunks Hb)|].
    cbn [skipn r_buf app]. split; [rewrite C4; reflexivity|].
    rewrite app_nil_r, C3. reflexivity.
Qed.

Variable cipher_eq_dec : forall a b : cipher, {a = b} + {a <> b}.

(* the whole writing session of the peer: the AuthSig message, then whatever it writes *)
Definition peer_session (m : authmsg) (ws : list bytes) : list (wres cipher) :=
  run_writes key cipher seal pool k zero_nonce (wire_bytes m :: ws).

Lemma peer_session_split : forall m ws, N.of_nat (length (enc m)) <= max_msg_size ->
  peer_session m ws = auth_send k m :: run_writes key cipher seal pool k (w_nonce (auth_send k m)) ws.
Proof.
  intros m ws Hm. unfold peer_session. cbn [run_writes].
  fold (auth_send k m).
  destruct (auth_send_spec m Hm) as (chunks & _ & _ & _ & _ & _ & _ & C7 & _).
  rewrite C7. reflexivity.
Qed.

(* (1b) arbitrary wire: if the delimited reader returns a message at all, the blocks it took off
   the conn are exactly the writer's frames, in order, none missing, none added, and the message
   is the one the writer encoded - or a block that is not on the writer's wire (handshake and
   everything written afterwards) opened: an AEAD forgery *)
Lemma authsig_tamper : forall (m : authmsg) (ws : list bytes) conn st' m' conn',
  N.of_nat (length (enc m)) <= max_msg_size ->
  let w := auth_send k m in
  auth_recv k conn = (st', Some m', conn') ->
  AeadForgeryOn open k (all_wire (peer_session m ws)) \/
  (conn = map EvBlock (w_sent w) ++ conn' /\ dec (enc m) = Some m' /\
   st' = {| r_buf := []; r_nonce := w_nonce w |}).
Proof.
  intros m ws conn st' m' conn' Hm w E.
  destruct (auth_send_spec m Hm) as (chunks & C1 & C2 & C3 & C4 & C5 & C6 & C7 & C8 & C9).
  fold w in C4, C5, C6, C7, C8, C9.
  assert (Hb : 0 + N.of_nat (length chunks) <= max_uint64) by (unfold max_uint64; lia).
  unfold ModelAuth.auth_recv in E.
  destruct (read_delimited key cipher open k {| r_buf := []; r_nonce := zero_nonce |} conn)
    as [[st1 r1] conn1] eqn:Ed.
  injection E as <- Em <-.
  apply (delimited_spec key cipher open k
           (sinv key cipher seal pool k P0 0 chunks conn)
           (WrongBlockOpens key cipher seal open pool k P0 0 chunks) True
           (safe_step key cipher seal open pool k P0 P0_len open_seal 0 chunks C1 Hb cipher_eq_dec conn)
           (enc m) []) in Ed; [| exact Hm |].
  - destruct Ed as [B | [[_ ->] | [-> (j & del & I & Ec & Er)]]]; [| discriminate |].
    + left. rewrite (peer_session_split m ws Hm). fold w.
      unfold all_wire. cbn [flat_map]. rewrite C5, C9.
      assert (Hc9 : N.of_nat (length chunks) <= max_uint64) by (unfold max_uint64; lia).
      destruct (run_writes_spec key cipher seal pool k P0 P0_len ws (N.of_nat (length chunks)) Hc9)
        as (chunks1 & extra1 & T).
      destruct T as [T1 T2 T3 T3w T4 T5 T6].
      fold (@all_wire cipher (run_writes key cipher seal pool k (nonce_of P0 (N.of_nat (length chunks))) ws)).
      rewrite T3w.
      apply (wrong_block_forgery key cipher seal open pool k chunks chunks1 T4 B).
    + right. symmetry in Er.
      destruct (inv_done P0 P0_len 0 chunks C1 Hb _ _ _ I Er) as [-> ->].
      rewrite firstn_all2 in Ec by (rewrite sent_length; lia).
      split; [rewrite C4; exact Ec|]. split; [exact Em|]. rewrite C9. reflexivity.
  - exists 0%nat, []. split; [apply (rinv_init P0 P0_len 0 chunks Hb)|].
    cbn [firstn map r_buf app skipn]. split; [reflexivity|].
    rewrite app_nil_r, C3. reflexivity.
Qed.

(* contrapositive, the form the handshake uses: a conn that does not start with exactly the
   writer's frames yields no message *)
Lemma authsig_tamper_rejected : forall (m : authmsg) (ws : list bytes) conn,
  N.of_nat (length (enc m)) <= max_msg_size ->
  (forall rest, conn <> map EvBlock (w_sent (auth_send k m)) ++ rest) ->
  AeadForgeryOn open k (all_wire (peer_session m ws)) \/
  snd (fst (auth_recv k conn)) = None.
Proof.
  intros m ws conn Hm Hne.
  destruct (auth_recv k conn) as [[st' [m'|]] conn'] eqn:E; [|right; reflexivity].
  destruct (authsig_tamper m ws conn st' m' conn' Hm E) as [F | (Ec & _)]; [left; exact F|].
  exfalso. exact (Hne _ Ec).
Qed.
End AuthOverStream.

(* ================================================================== handshake frames, then data *)
Section SessionAfterHandshake.
Variables key cipher : Type.
Variable seal : key -> bytes -> bytes -> cipher.
Variable open : key -> bytes -> cipher -> option bytes.
Variable pool : bytes -> bytes.
Variable enc : authmsg -> bytes.
Variable dec : bytes -> option authmsg.
Variable k : key.

Notation auth_send := (auth_send key cipher seal pool enc).
Notation auth_recv := (auth_recv key cipher open dec).
Notation wire_bytes := (auth_wire_bytes enc).
Notation peer_session := (peer_session key cipher seal pool enc k).

(* ---- writer side, over a transport that may fail *)
Lemma write_loop_t_nil : forall f nonce outs,
  write_loop_t key cipher seal pool f k nonce [] outs = wt_stop cipher nonce outs.
Proof. intros [|f] nonce outs; reflexivity. Qed.

Lemma write_loop_t_no_panic : forall fuel data c outs, c + N.of_nat fuel <= max_uint64 ->
  wt_panic (write_loop_t key cipher seal pool fuel k (nonce_of P0 c) data outs) = false.
Proof.
  induction fuel as [|f IH]; intros data c outs Hc; [reflexivity|].
  cbn [write_loop_t]. destruct (0 <? length data)%nat; [|reflexivity].
  rewrite (incr_nonce_of P0 c P0_len) by (apply le_max_lt; lia).
  replace (c =? max_uint64) with false by (symmetry; apply N.eqb_neq; lia).
  destruct outs as [|[|m] outs']; cbn [tl wt_panic]; try reflexivity; apply IH; lia.
Qed.

Lemma write_t_first_call : forall data outs, data <> [] ->
  (1 <= length (wt_calls (write_t key cipher seal pool k zero_nonce data outs)))%nat.
Proof.
  intros data outs Hd. unfold write_t. cbn [write_loop_t].
  replace (0 <? length data)%nat with true
    by (symmetry; apply Nat.ltb_lt; destruct data; [congruence | cbn; lia]).
  change zero_nonce with (nonce_of P0 0).
  rewrite (incr_nonce_of P0 0 P0_len) by reflexivity.
  change (0 =? max_uint64) with false. cbv iota.
  destruct outs as [|[|m] outs']; cbn [wt_calls length]; lia.
Qed.

(* a message that fits one frame (the real AuthSigMessage: about 100 bytes) is one Seal call *)
Lemma write_t_small : forall data outs, (1 <= length data <= data_max_size)%nat ->
  length (wt_calls (write_t key cipher seal pool k zero_nonce data outs)) = 1%nat.
Proof.
  intros data outs [H1 H2]. unfold write_t. cbn [write_loop_t].
  replace (0 <? length data)%nat with true by (symmetry; apply Nat.ltb_lt; lia).
  replace (data_max_size <? length data)%nat with false by (symmetry; apply Nat.ltb_ge; lia).
  change zero_nonce with (nonce_of P0 0).
  rewrite (incr_nonce_of P0 0 P0_len) by reflexivity.
  change (0 =? max_uint64) with false. cbv iota.
  destruct outs as [|[|m] outs']; cbn [tl]; rewrite ?write_loop_t_nil; reflexivity.
Qed.

(* (2) the AuthSig frames use the first counters 0 .. m0-1 of the direction, the application's
   first Write starts at m0, and over the whole session - handshake Write, then any Writes, the
   transport failing wherever it likes - the Seal calls carry the counters 0, 1, 2, ... in order:
   no counter of the handshake is used again *)
Lemma first_data_after_handshake : forall (m : authmsg) (ws : list bytes) (outs : list tout),
  N.of_nat (length (enc m)) <= max_msg_size ->
  let w0 := write_t key cipher seal pool k zero_nonce (wire_bytes m) outs in
  let m0 := length (wt_calls w0) in
  let W := run_writes_t key cipher seal pool k zero_nonce (wire_bytes m :: ws) outs in
  wt_panic w0 = false /\ (1 <= m0)%nat /\
  ((length (wire_bytes m) <= data_max_size)%nat -> m0 = 1%nat) /\
  map sl_nonce (wt_calls w0) = map (nonce_of P0) (nseq 0 m0) /\
  wt_nonce w0 = nonce_of P0 (N.of_nat m0) /\
  W = w0 :: run_writes_t key cipher seal pool k (nonce_of P0 (N.of_nat m0)) ws (wt_outs w0) /\
  all_calls_t W = wt_calls w0 ++ all_calls_t (tl W) /\
  map sl_nonce (all_calls_t W) = map (nonce_of P0) (nseq 0 (length (all_calls_t W))) /\
  map sl_nonce (all_calls_t (tl W))
    = map (nonce_of P0) (nseq (N.of_nat m0) (length (all_calls_t (tl W)))) /\
  NoDup (map sl_nonce (all_calls_t W)).
Proof.
  intros m ws outs Hm w0 m0 W.
  pose proof (wire_bytes_len enc m Hm) as Hlen.
  assert (Hne : wire_bytes m <> []).
  { intro X. rewrite X in Hlen. cbn in Hlen. lia. }
  assert (Hp : wt_panic w0 = false).
  { unfold w0, write_t. change zero_nonce with (nonce_of P0 0).
    apply write_loop_t_no_panic. unfold max_uint64. lia. }
  destruct (write_t_spec_ex key cipher seal pool k P0 P0_len (wire_bytes m) 0 outs
              ltac:(unfold max_uint64; lia)) as (ch0 & ex0 & S).
  change (nonce_of P0 0) with zero_nonce in S. fold w0 in S.
  destruct S as [S1 S2 S3 S4 S7 S8]. destruct (S7 Hp) as [-> Hn]. rewrite app_nil_r in S2.
  assert (Hm0 : m0 = length ch0) by (unfold m0; rewrite S2; apply seal_chunks_length).
  assert (HW : W = w0 :: run_writes_t key cipher seal pool k (nonce_of P0 (N.of_nat m0)) ws (wt_outs w0)).
  { unfold W. cbn [run_writes_t]. fold w0. rewrite Hp, Hn, Hm0. reflexivity. }
  destruct (nonce_unique_t key cipher seal pool k P0 P0_len 0 (wire_bytes m :: ws) outs
              ltac:(unfold max_uint64; lia)) as (ND & _ & _).
  change (nonce_of P0 0) with zero_nonce in ND. fold W in ND.
  destruct (run_writes_t_spec key cipher seal pool k P0 P0_len (wire_bytes m :: ws) 0 outs
              ltac:(unfold max_uint64; lia)) as (chs & exs & T).
  change (nonce_of P0 0) with zero_nonce in T. fold W in T.
  assert (Hall : all_calls_t W = wt_calls w0 ++ all_calls_t (tl W)).
  { rewrite HW. reflexivity. }
  assert (Hseq : map sl_nonce (all_calls_t W) = map (nonce_of P0) (nseq 0 (length (all_calls_t W)))).
  { rewrite (sst_calls _ _ _ _ _ _ _ _ _ _ T), seal_chunks_nonces, seal_chunks_length. reflexivity. }
  split; [exact Hp|]. split; [apply write_t_first_call; exact Hne|].
  split; [intro Hs; apply write_t_small; lia|].
  split; [rewrite S2, seal_chunks_nonces, <- Hm0; reflexivity|].
  split; [rewrite Hn, Hm0; reflexivity|].
  split; [exact HW|]. split; [exact Hall|]. split; [exact Hseq|]. split; [|exact ND].
  rewrite Hall, map_app, app_length, nseq_app, map_app in Hseq.
  assert (Hl : length (map sl_nonce (wt_calls w0)) = length (map (nonce_of P0) (nseq 0 (length (wt_calls w0))))).
  { rewrite !map_length. clear. generalize 0. induction (length (wt_calls w0)); intro c; cbn; auto. }
  exact (proj2 (app_eq_len _ _ _ _ Hl Hseq)).
Qed.
End SessionAfterHandshake.

(* ---- reader side: the data phase starts exactly where the handshake's frames end *)
Section SessionReader.
Variables key cipher : Type.
Variable seal : key -> bytes -> bytes -> cipher.
Variable open : key -> bytes -> cipher -> option bytes.
Variable pool : bytes -> bytes.
Variable enc : authmsg -> bytes.
Variable dec : bytes -> option authmsg.
Variable k : key.
Hypothesis open_seal : forall n p, open k n (seal k n p) = Some p.

Notation auth_send := (auth_send key cipher seal pool enc).
Notation auth_recv := (auth_recv key cipher open dec).
Notation wire_bytes := (auth_wire_bytes enc).
Notation peer_session := (peer_session key cipher seal pool enc k).

(* untouched wire carrying the AuthSig frames followed by the data frames: the message comes
   out, the reader's buffer is empty and its counter is the number of AuthSig frames, and the
   Reads of the data phase return a prefix of exactly the application's Writes (the bytes of the
   AuthSig message do not leak into the data, none of the data is eaten by the handshake) *)
Lemma session_after_handshake : forall (m : authmsg) (ws : list bytes) (caps : list nat)
    st1 am conn1 rs st2 conn2,
  N.of_nat (length (enc m)) <= max_msg_size ->
  let W := peer_session m ws in
  no_panic W ->
  auth_recv k (map EvBlock (all_sent W)) = (st1, am, conn1) ->
  run_reads key cipher open k st1 conn1 caps = (rs, st2, conn2) ->
  am = dec (enc m) /\
  st1 = reader_init (nonce_of P0 (N.of_nat (length (w_sent (auth_send k m))))) /\
  (exists rest, concat ws = concat (map rres_data rs) ++ rest) /\
  Forall (fun r => rres_ok r = true \/ r = RErrIO) rs /\
  (In RErrIO rs -> concat (map rres_data rs) = concat ws).
Proof.
  intros m ws caps st1 am conn1 rs st2 conn2 Hm W NP E1 E2.
  unfold W in *. rewrite (peer_session_split key cipher seal pool enc k m ws Hm) in *.
  set (w := auth_send k m) in *.
  unfold all_sent in E1. cbn [flat_map] in E1. rewrite map_app in E1.
  destruct (authsig_roundtrip key cipher seal open pool enc dec k open_seal m
              (map EvBlock (flat_map (@w_sent cipher) (run_writes key cipher seal pool k (w_nonce w) ws))) Hm)
    as (R1 & R2 & R3 & R4 & R5).
  fold w in R1, R2, R3, R4, R5. rewrite R5 in E1. injection E1 as <- <- <-.
  split; [reflexivity|]. rewrite R4. split; [reflexivity|].
  rewrite R4 in E2, NP.
  assert (Hc : N.of_nat (length (w_sent w)) <= max_uint64).
  { destruct (auth_send_spec key cipher seal pool enc k m Hm) as (chunks & _ & C2 & _ & C4 & _).
    fold w in C4. rewrite C4, sent_length. unfold max_uint64. lia. }
  apply (stream_roundtrip key cipher seal open pool k P0 P0_len open_seal
           (N.of_nat (length (w_sent w))) ws caps rs st2 conn2 Hc); [|exact E2].
  intros x Hx. apply NP. right. exact Hx.
Qed.

Variable cipher_eq_dec : forall a b : cipher, {a = b} + {a <> b}.

(* arbitrary wire: if the handshake's reader got a message, it is the peer's, and whatever the
   Reads of the data phase return afterwards is a prefix of the application's Writes - or a block
   that is nowhere on the peer's wire (handshake and data) opened *)
Lemma session_after_handshake_tamper : forall (m : authmsg) (ws : list bytes)
    (conn : list (conn_ev cipher)) (caps : list nat) st1 m' conn1 rs st2 conn2,
  N.of_nat (length (enc m)) <= max_msg_size ->
  let W := peer_session m ws in
  auth_recv k conn = (st1, Some m', conn1) ->
  run_reads key cipher open k st1 conn1 caps = (rs, st2, conn2) ->
  AeadForgeryOn open k (all_wire W) \/
  (dec (enc m) = Some m' /\ conn = map EvBlock (w_sent (auth_send k m)) ++ conn1 /\
   exists rest, concat ws = concat (map rres_data rs) ++ rest).
Proof.
  intros m ws conn caps st1 m' conn1 rs st2 conn2 Hm W E1 E2.
  destruct (authsig_tamper key cipher seal open pool enc dec k open_seal cipher_eq_dec
              m ws conn st1 m' conn1 Hm E1) as [F | (Ec & Em & ->)]; [left; exact F|].
  unfold W. rewrite (peer_session_split key cipher seal pool enc k m ws Hm).
  set (w := auth_send k m) in *.
  destruct (auth_send_spec key cipher seal pool enc k m Hm)
    as (chunks & C1 & C2 & C3 & C4 & C5 & C6 & C7 & C8 & C9).
  fold w in C4, C5, C6, C7, C8, C9. rewrite C9 in *.
  assert (Hc9 : N.of_nat (length chunks) <= max_uint64) by (unfold max_uint64; lia).
  destruct (run_writes_spec key cipher seal pool k P0 P0_len ws (N.of_nat (length chunks)) Hc9)
    as (chunks1 & extra1 & T).
  destruct T as [T1 T2 T3 T3w T4 T5 (rest1 & T6 & _)].
  set (all := chunks ++ chunks1).
  assert (Hall : Forall chunk_ok all) by (apply Forall_app; split; assumption).
  assert (Hb : 0 + N.of_nat (length all) <= max_uint64).
  { unfold all. rewrite app_length, Nat2N.inj_add. lia. }
  assert (I0 : rinv P0 0 all {| r_buf := []; r_nonce := nonce_of P0 (N.of_nat (length chunks)) |}
                 (length chunks) (concat chunks)).
  { constructor; cbn [r_buf r_nonce].
    - reflexivity.
    - unfold all. rewrite app_length. lia.
    - unfold all. rewrite firstn_app, Nat.sub_diag, firstn_all. cbn [firstn].
      rewrite !app_nil_r. reflexivity. }
  destruct (run_reads_inv key cipher seal open pool k P0 P0_len open_seal cipher_eq_dec 0 all Hall Hb
              caps _ _ _ _ _ _ _ I0 E2) as [F | (j' & I')].
  - left. unfold all_wire. cbn [flat_map].
    fold (@all_wire cipher (run_writes key cipher seal pool k (nonce_of P0 (N.of_nat (length chunks))) ws)).
    rewrite C5, T3w. unfold AeadForgery, wire in F. unfold wire, all in *.
    rewrite (seal_chunks_app key cipher seal pool k P0 P0_len), map_app in F. exact F.
  - right. split; [exact Em|]. split; [exact Ec|].
    destruct (rinv_prefix _ _ _ _ _ _ I') as (r1 & E).
    unfold all in E. rewrite concat_app, <- app_assoc in E. apply app_inv_head in E.
    exists (r1 ++ rest1). rewrite T6, E, app_assoc. reflexivity.
Qed.
End SessionReader.

(* ================================================================== MakeSecretConnection over the stream *)
Section HandshakeOverStream.
Variables epriv lpriv cipher : Type.
Variable eph_pub : epriv -> bytes.
Variable dh : epriv -> bytes -> option bytes.
Variable transcript : bytes -> bytes -> bytes -> bytes.
Variable hkdf : bytes -> bytes.
Variable pub_of : lpriv -> bytes.
Variable sign : lpriv -> bytes -> bytes.
Variable verify : bytes -> bytes -> bytes -> bool.
Variable seal : bytes -> bytes -> bytes -> cipher.
Variable open : bytes -> bytes -> cipher -> option bytes.
Variable pool : bytes -> bytes.
Variable enc : authmsg -> bytes.
Variable dec : bytes -> option authmsg.

Notation msc := (make_secret_connection epriv lpriv eph_pub dh transcript hkdf verify).
Notation mscs := (msc_stream epriv lpriv cipher eph_pub dh transcript hkdf pub_of sign verify
                    seal open pool enc dec).
Notation hst := (hs_transcript epriv eph_pub dh).
Notation hao := (hs_auth_out epriv lpriv eph_pub dh transcript pub_of sign).
Notation auth_send := (auth_send bytes cipher seal pool enc).
Notation auth_recv := (auth_recv bytes cipher open dec).

(* msc_stream once the ephemeral exchange and the DH went through: the own Write does not depend
   on the conn, the outcome is make_secret_connection on what auth_recv decoded *)
Lemma mscs_unfold : forall loc eph eph_in conn lo hi d least,
  hst eph eph_in = Some (lo, hi, d, least) ->
  let mine := {| am_type := KEd25519; am_key := pub_of loc; am_sig := sign loc (transcript lo hi d) |} in
  let krecv := fst (derive_secrets hkdf d least) in
  let ksend := snd (derive_secrets hkdf d least) in
  hao loc eph eph_in = Some mine /\
  mscs loc eph eph_in conn =
    (msc loc eph eph_in (snd (fst (auth_recv krecv conn))),
     Some (auth_send ksend mine), Some (fst (fst (auth_recv krecv conn))),
     snd (auth_recv krecv conn)).
Proof.
  intros loc eph eph_in conn lo hi d least H mine krecv ksend.
  assert (Ho : hao loc eph eph_in = Some mine).
  { unfold hs_auth_out, hs_signed_challenge. rewrite H. reflexivity. }
  split; [exact Ho|].
  unfold msc_stream. rewrite H, Ho. unfold krecv, ksend.
  destruct (derive_secrets hkdf d least) as [r s]. cbn [fst snd].
  destruct (auth_recv r conn) as [[st a] c']. reflexivity.
Qed.

(* before that point nothing is written or read in this phase *)
Lemma mscs_early : forall loc eph eph_in conn,
  hst eph eph_in = None ->
  mscs loc eph eph_in conn = (msc loc eph eph_in None, None, None, conn) /\
  exists e, msc loc eph eph_in None = HsErr e.
Proof.
  intros loc eph eph_in conn H. unfold msc_stream. rewrite H. split; [reflexivity|].
  unfold make_secret_connection, hs_transcript in *.
  destruct eph_in as [v|]; [|eexists; reflexivity].
  destruct (sort32 (eph_pub eph) (pad32 v)) as [lo hi].
  destruct (dh eph (pad32 v)); [discriminate | eexists; reflexivity].
Qed.

(* make_secret_connection in terms of the transcript *)
Lemma msc_of_transcript : forall loc eph eph_in auth_in lo hi d least,
  hst eph eph_in = Some (lo, hi, d, least) ->
  msc loc eph eph_in auth_in =
  match auth_in with
  | None => HsErr HsAuthIO
  | Some am =>
    match am_type am with
    | KEd25519 =>
      if verify (am_key am) (transcript lo hi d) (am_sig am) then
        HsOk {| s_send_key := snd (derive_secrets hkdf d least);
                s_recv_key := fst (derive_secrets hkdf d least);
                s_challenge := transcript lo hi d; s_rem_pub := am_key am;
                s_loc_is_least := least; s_lo := lo; s_hi := hi; s_dh := d |}
      else HsErr HsBadSig
    | _ => HsErr HsKeyType
    end
  end.
Proof.
  intros loc eph eph_in auth_in lo hi d least H.
  unfold make_secret_connection, hs_transcript in *.
  destruct eph_in as [v|]; [|discriminate].
  destruct (sort32 (eph_pub eph) (pad32 v)) as [lo0 hi0].
  destruct (dh eph (pad32 v)) as [d0|]; [|discriminate].
  injection H as <- <- <- <-.
  destruct (derive_secrets hkdf d0 (bytes_eqb (eph_pub eph) lo0)) as [r s]. reflexivity.
Qed.

Hypothesis open_seal : forall k n p, open k n (seal k n p) = Some p.

(* (1) honest pair, untouched wire.  B got as far as shareAuthSignature and wrote wB; A's conn
   delivers B's sealed frames (then [tail]).  A's outcome is make_secret_connection on exactly
   the AuthSigMessage B built - decoded from the bytes - so the theorems that take the decoded
   message as input speak about the byte path; A's reader is left with an empty buffer at the
   counter B's writer is at, [tail] untouched. *)
Hypothesis dh_comm : forall a b, dh a (eph_pub b) = dh b (eph_pub a).
Hypothesis eph_pub_len : forall a, length (eph_pub a) = 32%nat.

Lemma handshake_over_stream : forall locA locB ephA ephB connB tail resB wB stB restB mB,
  eph_pub ephA <> eph_pub ephB ->
  mscs locB ephB (Some (eph_pub ephA)) connB = (resB, Some wB, stB, restB) ->
  hao locB ephB (Some (eph_pub ephA)) = Some mB ->
  N.of_nat (length (enc mB)) <= max_msg_size ->
  exists wA,
    mscs locA ephA (Some (eph_pub ephB)) (map EvBlock (w_sent wB) ++ tail) =
      (msc locA ephA (Some (eph_pub ephB)) (dec (enc mB)), Some wA,
       Some {| r_buf := []; r_nonce := w_nonce wB |}, tail) /\
    w_panic wB = false /\
    w_nonce wB = nonce_of P0 (N.of_nat (length (w_sent wB))) /\
    (1 <= length (w_sent wB))%nat.
Proof.
  intros locA locB ephA ephB connB tail resB wB stB restB mB Hne EB HB Hm.
  pose proof (honest_agree epriv eph_pub dh hkdf dh_comm eph_pub_len ephA ephB Hne) as HA.
  destruct (hst ephB (Some (eph_pub ephA))) as [[[[lo' hi'] d'] least']|] eqn:TB.
  2:{ destruct (mscs_early locB ephB _ connB TB) as [X _]. rewrite X in EB. discriminate. }
  destruct (hst ephA (Some (eph_pub ephB))) as [[[[lo hi] d] least]|] eqn:TA; [|contradiction].
  destruct HA as (-> & -> & -> & -> & K1 & K2).
  destruct (mscs_unfold locB ephB _ connB _ _ _ _ TB) as [HoB XB].
  rewrite XB in EB. injection EB as _ <- _ _.
  rewrite HoB in HB. injection HB as <-.
  destruct (mscs_unfold locA ephA _ (map EvBlock
             (w_sent (auth_send (snd (derive_secrets hkdf d' least'))
                {| am_type := KEd25519; am_key := pub_of locB; am_sig := sign locB (transcript lo' hi' d') |}))
             ++ tail) _ _ _ _ TA) as [HoA XA].
  rewrite K1 in XA.
  set (kB := snd (derive_secrets hkdf d' least')) in *.
  set (mB := {| am_type := KEd25519; am_key := pub_of locB; am_sig := sign locB (transcript lo' hi' d') |}) in *.
  destruct (authsig_roundtrip bytes cipher seal open pool enc dec kB (open_seal kB) mB tail Hm)
    as (R1 & R2 & R3 & R4 & R5).
  rewrite R5 in XA. cbn [fst snd] in XA.
  eexists. split; [exact XA|]. auto.
Qed.

(* ... and with a signature scheme that verifies its own signatures, A accepts and the identity
   it records is B's long-term key: an honest handshake succeeds on the byte path *)
Hypothesis dec_enc : forall m, dec (enc m) = Some m.
Hypothesis sign_ok : forall l msg, verify (pub_of l) msg (sign l msg) = true.

Lemma honest_handshake_over_stream_ok :
  forall locA locB ephA ephB connB tail resB wB stB restB mB,
  eph_pub ephA <> eph_pub ephB ->
  mscs locB ephB (Some (eph_pub ephA)) connB = (resB, Some wB, stB, restB) ->
  hao locB ephB (Some (eph_pub ephA)) = Some mB ->
  N.of_nat (length (enc mB)) <= max_msg_size ->
  exists s wA,
    mscs locA ephA (Some (eph_pub ephB)) (map EvBlock (w_sent wB) ++ tail) =
      (HsOk s, Some wA, Some {| r_buf := []; r_nonce := w_nonce wB |}, tail) /\
    s_rem_pub s = pub_of locB /\
    msc locA ephA (Some (eph_pub ephB)) (hao locB ephB (Some (eph_pub ephA))) = HsOk s.
Proof.
  intros locA locB ephA ephB connB tail resB wB stB restB mB Hne EB HB Hm.
  destruct (handshake_over_stream locA locB ephA ephB connB tail resB wB stB restB mB Hne EB HB Hm)
    as (wA & X & _).
  rewrite dec_enc in X.
  pose proof (honest_agree epriv eph_pub dh hkdf dh_comm eph_pub_len ephA ephB Hne) as HA.
  destruct (hst ephB (Some (eph_pub ephA))) as [[[[lo' hi'] d'] least']|] eqn:TB.
  2:{ destruct (mscs_early locB ephB _ connB TB) as [Y _]. rewrite Y in EB. discriminate. }
  destruct (hst ephA (Some (eph_pub ephB))) as [[[[lo hi] d] least]|] eqn:TA; [|contradiction].
  destruct HA as (-> & -> & -> & -> & _).
  destruct (mscs_unfold locB ephB _ connB _ _ _ _ TB) as [HoB _].
  rewrite HoB in HB. injection HB as <-.
  rewrite (msc_of_transcript locA ephA _ _ _ _ _ _ TA) in X.
  cbn [am_type am_key am_sig] in X. rewrite sign_ok in X.
  eexists _, wA. split; [exact X|]. split; [reflexivity|].
  rewrite HoB, (msc_of_transcript locA ephA _ _ _ _ _ _ TA).
  cbn [am_type am_key am_sig]. rewrite sign_ok. reflexivity.
Qed.

(* (1, tamper) any wire.  The party's receive key is krecv; whoever holds it as send key (the
   honest peer) wrote the AuthSig message mP and afterwards ws.  If MakeSecretConnection accepts,
   the conn began with exactly the peer's sealed AuthSig frames - every one of them, unmodified,
   in order, nothing inserted - and the key it records is the key in mP; or a block that is
   nowhere on the peer's wire opened (forgery).  So a wire modified anywhere in those frames makes
   the handshake fail with the error of shareAuthSignature: no peer key is accepted. *)
Variable cipher_eq_dec : forall a b : cipher, {a = b} + {a <> b}.

Lemma handshake_over_stream_tamper : forall loc eph eph_in conn s w st conn' (mP : authmsg) ws,
  mscs loc eph eph_in conn = (HsOk s, w, st, conn') ->
  N.of_nat (length (enc mP)) <= max_msg_size ->
  let krecv := s_recv_key s in
  AeadForgeryOn open krecv (all_wire (peer_session bytes cipher seal pool enc krecv mP ws)) \/
  (conn = map EvBlock (w_sent (auth_send krecv mP)) ++ conn' /\
   exists am, dec (enc mP) = Some am /\ s_rem_pub s = am_key am /\ am_type am = KEd25519 /\
     verify (am_key am) (s_challenge s) (am_sig am) = true /\
     st = Some {| r_buf := []; r_nonce := w_nonce (auth_send krecv mP) |}).
Proof.
  intros loc eph eph_in conn s w st conn' mP ws E Hm krecv.
  destruct (hst eph eph_in) as [[[[lo hi] d] least]|] eqn:T.
  2:{ destruct (mscs_early loc eph eph_in conn T) as [X (e & Y)]. rewrite X, Y in E. discriminate. }
  destruct (mscs_unfold loc eph eph_in conn _ _ _ _ T) as [_ X].
  rewrite X in E. clear X.
  destruct (auth_recv (fst (derive_secrets hkdf d least)) conn) as [[st1 a] c1] eqn:Er.
  cbn [fst snd] in E. injection E as E <- <- <-.
  pose proof (msc_ok epriv lpriv eph_pub dh transcript hkdf verify _ _ _ _ _ E)
    as (am & -> & Ht & Hk & Hv & Htr & _ & _ & Hkeys).
  rewrite T in Htr. injection Htr as H1 H2 H3 H4.
  assert (Hkr : krecv = fst (derive_secrets hkdf d least)).
  { unfold krecv. rewrite H3, H4, <- Hkeys. reflexivity. }
  rewrite <- Hkr in Er.
  destruct (authsig_tamper bytes cipher seal open pool enc dec krecv (open_seal krecv) cipher_eq_dec
              mP ws conn st1 am c1 Hm Er) as [F | (Ec & Em & ->)]; [left; exact F|].
  right. split; [exact Ec|]. exists am. auto 7.
Qed.

Lemma handshake_over_stream_rejects : forall loc eph eph_in conn lo hi d least (mP : authmsg) ws,
  hst eph eph_in = Some (lo, hi, d, least) ->
  N.of_nat (length (enc mP)) <= max_msg_size ->
  let krecv := fst (derive_secrets hkdf d least) in
  (forall rest, conn <> map EvBlock (w_sent (auth_send krecv mP)) ++ rest) ->
  AeadForgeryOn open krecv (all_wire (peer_session bytes cipher seal pool enc krecv mP ws)) \/
  fst (fst (fst (mscs loc eph eph_in conn))) = HsErr HsAuthIO.
Proof.
  intros loc eph eph_in conn lo hi d least mP ws T Hm krecv Hne.
  destruct (mscs_unfold loc eph eph_in conn _ _ _ _ T) as [_ X]. rewrite X. cbn [fst].
  fold krecv.
  destruct (authsig_tamper_rejected bytes cipher seal open pool enc dec krecv (open_seal krecv)
              cipher_eq_dec mP ws conn Hm Hne) as [F | N0]; [left; exact F|].
  right. rewrite N0. rewrite (msc_of_transcript loc eph eph_in None _ _ _ _ T). reflexivity.
Qed.
End HandshakeOverStream.

(* ================================================================== the model's loop bound of io.ReadFull is never hit *)
Section Fuel.
Variables key cipher : Type.
Variable open : key -> bytes -> cipher -> option bytes.
Variable k : key.

Lemma read_conn_len : forall st cap conn st' r conn',
  read key cipher open k st cap conn = (st', r, conn') ->
  (length conn' <= length conn)%nat /\
  ((1 <= cap)%nat -> r = ROk [] -> (S (length conn') <= length conn)%nat).
Proof.
  intros st cap conn st' r conn' E. unfold read in E.
  destruct (0 <? length (r_buf st))%nat eqn:Eb.
  - injection E as <- <- <-. split; [lia|]. intros Hc X. exfalso.
    apply Nat.ltb_lt in Eb. injection X as X. apply (f_equal (@length N)) in X.
    rewrite firstn_length in X. cbn in X. lia.
  - destruct conn as [|[c|] conn0].
    + injection E as <- <- <-. split; [lia | discriminate].
    + destruct (open k (r_nonce st) c) as [frame|].
      * destruct (incr_nonce (r_nonce st)) as [n'|].
        -- destruct (N.of_nat data_max_size <? le_dec (firstn 4 frame));
             injection E as <- <- <-; cbn [length]; split; try lia; try discriminate; intros; lia.
        -- injection E as <- <- <-. cbn [length]. split; [lia | discriminate].
      * injection E as <- <- <-. cbn [length]. split; [lia | discriminate].
    + injection E as <- <- <-. cbn [length]. split; [lia | discriminate].
Qed.

Lemma read_full_loop_fuel : forall fuel want acc st conn,
  (want + length conn <= fuel)%nat ->
  snd (fst (read_full_loop key cipher open fuel want acc k st conn)) <> FFuel.
Proof.
  induction fuel as [|f IH]; intros want acc st conn Hf.
  - destruct want; [cbn; discriminate | lia].
  - destruct want as [|w]; [cbn; discriminate|].
    rewrite read_full_loop_S.
    destruct (read key cipher open k st (S w) conn) as [[st1 r] conn1] eqn:Er.
    destruct (read_conn_len _ _ _ _ _ _ Er) as [L1 L2].
    destruct r as [d| | | |]; try (cbn; discriminate).
    apply IH. destruct d as [|b d].
    + specialize (L2 ltac:(lia) eq_refl). cbn [length]. lia.
    + cbn [length]. lia.
Qed.

Lemma read_full_fuel : forall st want conn,
  snd (fst (read_full key cipher open k st want conn)) <> FFuel.
Proof. intros. unfold read_full. apply read_full_loop_fuel. lia. Qed.
End Fuel.

(* ================================================================== frame layout *)
Lemma skipn_repeat : forall {A} (x : A) n m, skipn n (repeat x m) = repeat x (m - n).
Proof.
  induction n as [|n IH]; intros [|m]; cbn [skipn repeat Nat.sub]; auto.
Qed.

(* frame = pool.Get(1028): a buffer of exactly totalFrameSize bytes with whatever was in it *)
Lemma mk_frame_full : forall chunk stale, (length chunk <= data_max_size)%nat ->
  length stale = total_frame_size ->
  mk_frame chunk stale =
  le_enc 4 (N.of_nat (length chunk)) ++ chunk ++ skipn (data_len_size + length chunk) stale.
Proof.
  intros chunk stale Hc Hs. unfold mk_frame. apply firstn_all2.
  rewrite !app_length, le_enc_length, skipn_length, Hs, total_frame_size_eq, data_len_size_4. lia.
Qed.

Lemma frame_layout : forall chunk stale, (length chunk <= data_max_size)%nat ->
  let f := mk_frame chunk stale in
  firstn 4 f = le_enc 4 (N.of_nat (length chunk)) /\
  le_dec (firstn 4 f) = N.of_nat (length chunk) /\
  le_dec (firstn 4 f) <= N.of_nat data_max_size /\
  frame_chunk f = chunk /\
  (length f <= total_frame_size)%nat /\
  (length stale = total_frame_size ->
     length f = total_frame_size /\
     f = le_enc 4 (N.of_nat (length chunk)) ++ chunk ++ skipn (data_len_size + length chunk) stale) /\
  (stale = repeat 0 total_frame_size ->
     f = le_enc 4 (N.of_nat (length chunk)) ++ chunk ++ repeat 0 (data_max_size - length chunk)).
Proof.
  intros chunk stale Hc f.
  pose proof (frame_parse_len chunk stale Hc) as P1.
  pose proof (frame_parse_chunk chunk stale Hc) as P2.
  split.
  { unfold f. destruct (mk_frame_shape chunk stale Hc) as [tail ->].
    apply firstn_app_len. apply le_enc_length. }
  split; [exact P1|]. split; [fold f in P1; rewrite P1; lia|].
  split; [unfold frame_chunk; fold f in P1, P2; rewrite P1, Nat2N.id; exact P2|].
  split; [unfold f, mk_frame; rewrite firstn_length; lia|].
  split.
  - intro Hs. pose proof (mk_frame_full chunk stale Hc Hs) as E. fold f in E. split; [|exact E].
    rewrite E, !app_length, le_enc_length, skipn_length, Hs, total_frame_size_eq, data_len_size_4. lia.
  - intro Hs. unfold f. rewrite mk_frame_full by (try exact Hc; rewrite Hs; apply repeat_length).
    rewrite Hs, skipn_repeat. reflexivity.
Qed.

Lemma frame_sizes :
  total_frame_size = (data_len_size + data_max_size)%nat /\
  sealed_frame_size = (total_frame_size + 16)%nat /\
  Z.of_nat data_len_size = 4%Z /\ Z.of_nat data_max_size = 1024%Z /\
  Z.of_nat total_frame_size = 1028%Z /\ Z.of_nat sealed_frame_size = 1044%Z.
Proof. repeat split; reflexivity. Qed.

(* every frame a Write seals has this layout, carries a chunk of 1..1024 bytes, and the chunks
   are the data, in order *)
Section WriteLayout.
Variables key cipher : Type.
Variable seal : key -> bytes -> bytes -> cipher.
Variable pool : bytes -> bytes.
Variable k : key.
Variable pre : bytes.
Hypothesis Hpre : length pre = 4%nat.

Definition frame_ok (s : seal_call cipher) : Prop :=
  let ch := frame_chunk (sl_plain s) in
  chunk_ok ch /\
  sl_plain s = mk_frame ch (pool (sl_nonce s)) /\
  le_dec (firstn 4 (sl_plain s)) = N.of_nat (length ch) /\
  sl_out s = seal k (sl_nonce s) (sl_plain s).

Lemma seal_chunks_layout : forall chunks c, Forall chunk_ok chunks ->
  Forall frame_ok (seal_chunks key cipher seal pool k pre c chunks) /\
  map (fun s => frame_chunk (sl_plain s)) (seal_chunks key cipher seal pool k pre c chunks) = chunks.
Proof.
  induction chunks as [|ch r IH]; intros c F; [split; [constructor | reflexivity]|].
  inversion F as [|? ? Hok F']; subst. destruct (IH (c + 1) F') as [I1 I2].
  destruct (frame_layout ch (pool (nonce_of pre c)) (proj2 Hok)) as (_ & L2 & _ & L4 & _).
  cbn [seal_chunks map sl_plain]. split.
  - constructor; [|exact I1]. unfold frame_ok. cbn [sl_plain sl_nonce sl_out].
    rewrite L4. auto.
  - f_equal; [exact L4 | exact I2].
Qed.

Lemma write_frames_layout : forall (data : bytes) (c : N), c <= max_uint64 ->
  let w := write key cipher seal pool k (nonce_of pre c) data in
  w_panic w = false ->
  Forall frame_ok (w_calls w) /\
  concat (map (fun s => frame_chunk (sl_plain s)) (w_calls w)) = data /\
  w_sent w = map sl_out (w_calls w) /\
  w_n w = length data.
Proof.
  intros data c Hc w Hp.
  destruct (write_spec_ex key cipher seal pool k pre Hpre data c Hc) as (chunks & extra & S).
  fold w in S. destruct S as [S1 S2 S3 S3w S4 S5 (rest & D1 & D2) S7 S8].
  destruct (S7 Hp) as [-> _]. specialize (D2 Hp). subst rest.
  rewrite app_nil_r in S3, D1.
  destruct (seal_chunks_layout chunks c S1) as [L1 L2].
  rewrite S3, L2, S2, S5, <- D1. auto.
Qed.
End WriteLayout.

(* ================================================================== a handshake frame may carry data
   A wire-compatible peer need not size its Writes as the Go code does: the delimited AuthSig
   message and the first bytes of the application stream may share a Write (and so a sealed frame),
   or the message may be spread over several Writes.  Whatever the split, the reader takes the
   message off the stream and not one byte more: what follows it stays in recvBuffer / on the
   conn and is what the data-phase Reads return. *)
Section CarryData.
Variables key cipher : Type.
Variable seal : key -> bytes -> bytes -> cipher.
Variable open : key -> bytes -> cipher -> option bytes.
Variable pool : bytes -> bytes.
Variable enc : authmsg -> bytes.
Variable dec : bytes -> option authmsg.
Variable k : key.
Hypothesis open_seal : forall n p, open k n (seal k n p) = Some p.

Notation auth_recv := (auth_recv key cipher open dec).
Notation wire_bytes := (auth_wire_bytes enc).

(* the peer's Writes [ws], from the zero nonce, spell  uvarint(len) ++ enc m ++ stream  in any
   split whatsoever *)
Lemma handshake_frame_may_carry_data : forall (m : authmsg) (ws : list bytes) (stream : bytes)
    (caps : list nat) st1 am conn1 rs st2 conn2,
  N.of_nat (length (enc m)) <= max_msg_size ->
  concat ws = wire_bytes m ++ stream ->
  let W := run_writes key cipher seal pool k zero_nonce ws in
  no_panic W ->
  auth_recv k (map EvBlock (all_sent W)) = (st1, am, conn1) ->
  run_reads key cipher open k st1 conn1 caps = (rs, st2, conn2) ->
  am = dec (enc m) /\
  (exists j, (j <= length (all_sent W))%nat /\ r_nonce st1 = nonce_of P0 (N.of_nat j) /\
             conn1 = map EvBlock (skipn j (all_sent W))) /\
  (exists rest, stream = concat (map rres_data rs) ++ rest) /\
  Forall (fun r => rres_ok r = true \/ r = RErrIO) rs /\
  (In RErrIO rs -> concat (map rres_data rs) = stream).
Proof.
  intros m ws stream caps st1 am conn1 rs st2 conn2 Hm Hws W NP E1 E2.
  destruct (run_writes_spec key cipher seal pool k P0 P0_len ws 0 ltac:(unfold max_uint64; lia))
    as (chunks & extra & S).
  change (nonce_of P0 0) with zero_nonce in S. fold W in S.
  destruct S as [S1 S2 S3 S3w S4 S5 (rest0 & D1 & D2)].
  specialize (D2 NP). subst rest0. rewrite app_nil_r in D1.
  fold (sent key cipher seal pool k P0 0 chunks) in S2.
  unfold ModelAuth.auth_recv in E1.
  destruct (read_delimited key cipher open k {| r_buf := []; r_nonce := zero_nonce |}
              (map EvBlock (all_sent W))) as [[st1' r1] conn1'] eqn:Ed.
  injection E1 as -> <- ->.
  apply (delimited_spec key cipher open k
           (linv key cipher seal pool k P0 0 chunks []) False False
           (live_step key cipher seal open pool k P0 P0_len open_seal 0 chunks S1 S4 [])
           (enc m) stream) in Ed; [| exact Hm |].
  2:{ exists 0%nat, []. split; [apply (rinv_init P0 P0_len 0 chunks S4)|].
      cbn [skipn r_buf app]. split; [rewrite app_nil_r, S2; reflexivity|].
      rewrite <- D1, Hws. unfold auth_wire_bytes. rewrite <- app_assoc. reflexivity. }
  destruct Ed as [[] | [[[] _] | [-> (j & del & I & Ec & Er)]]].
  rewrite app_nil_r in Ec. subst conn1.
  destruct (run_reads_genuine key cipher seal open pool k P0 P0_len open_seal 0 chunks S1 S4
              caps st1 j del rs st2 conn2 I E2) as (j' & I' & C' & F' & D').
  assert (Hdel : del = wire_bytes m).
  { pose proof (ri_data _ _ _ _ _ _ I) as X.
    assert (Y : concat chunks = del ++ stream).
    { rewrite <- (firstn_skipn j chunks), concat_app, <- X, Er, app_assoc. reflexivity. }
    rewrite <- D1, Hws in Y. apply app_inv_tail in Y. symmetry. exact Y. }
  split; [reflexivity|]. split.
  { exists j. split; [rewrite S2, sent_length; exact (ri_j _ _ _ _ _ _ I)|].
    split; [exact (ri_nonce _ _ _ _ _ _ I)|]. rewrite S2. reflexivity. }
  split.
  { destruct (rinv_prefix _ _ _ _ _ _ I') as (r1 & X).
    rewrite <- D1, Hws, Hdel, <- app_assoc in X. apply app_inv_head in X. exists r1. exact X. }
  split; [exact F'|].
  intro HIO. specialize (D' HIO). rewrite <- D1, Hws, Hdel in D'. apply app_inv_head in D'. exact D'.
Qed.

(* the case of the hand-rolled peer: ONE Write of  message ++ extra  that fits a frame.  The
   reader comes out of the handshake with exactly [extra] in recvBuffer, counter 1, and the conn
   where that frame ended *)
Section OneFrame.
Variable m : authmsg.
Variable extra : bytes.
Variable tail : list (conn_ev cipher).
Let data0 : bytes := wire_bytes m ++ extra.
Let c0 : cipher := seal k zero_nonce (mk_frame data0 (pool zero_nonce)).
Hypothesis Hfit : (length data0 <= data_max_size)%nat.

Let st_after (n : nat) : rstate := {| r_buf := skipn n data0; r_nonce := nonce_of P0 1 |}.

Definition inv1 (st : rstate) (conn : list (conn_ev cipher)) (rem : bytes) : Prop :=
  (st = {| r_buf := []; r_nonce := zero_nonce |} /\ conn = EvBlock c0 :: tail /\ rem = data0) \/
  (exists n, (1 <= n)%nat /\ st = st_after n /\ conn = tail /\ rem = skipn n data0).

Lemma inv1_step : forall st conn rem cap st' r conn',
  inv1 st conn rem -> rem <> [] -> (1 <= cap)%nat ->
  read key cipher open k st cap conn = (st', r, conn') ->
  False \/ (False /\ rres_ok r = false) \/
  (exists d rem', r = ROk d /\ d <> [] /\ (length d <= cap)%nat /\ rem = d ++ rem' /\
                  inv1 st' conn' rem').
Proof.
  intros st conn rem cap st' r conn' I Hne Hcap E. right. right.
  destruct I as [(-> & -> & ->) | (n & Hn & -> & -> & ->)].
  - unfold read in E. cbn [r_buf r_nonce length] in E.
    change (0 <? 0)%nat with false in E. cbv iota in E.
    unfold c0 in E. rewrite open_seal in E.
    change zero_nonce with (nonce_of P0 0) in E.
    rewrite (incr_nonce_of P0 0 P0_len) in E by reflexivity.
    change (0 =? max_uint64) with false in E. cbv iota in E.
    rewrite (frame_parse_len _ _ Hfit) in E.
    replace (N.of_nat data_max_size <? N.of_nat (length data0)) with false in E
      by (symmetry; apply N.ltb_ge; lia).
    rewrite Nat2N.id, (frame_parse_chunk _ _ Hfit) in E.
    destruct (take_facts data0 [] cap Hne Hcap) as (T1 & T2 & T3).
    rewrite !app_nil_r in T3.
    set (n := Nat.min cap (length data0)) in *.
    assert (Hn : (1 <= n)%nat).
    { unfold n. destruct data0; [congruence | cbn [length]; lia]. }
    assert (Est : st' = st_after n /\ r = ROk (firstn n data0) /\ conn' = tail).
    { destruct (n <? length data0)%nat eqn:En; injection E as <- <- <-; unfold st_after;
        repeat split.
      apply Nat.ltb_ge in En. rewrite skipn_all2 by exact En. reflexivity. }
    destruct Est as (-> & -> & ->).
    exists (firstn n data0), (skipn n data0). split; [reflexivity|]. split; [exact T1|].
    split; [exact T2|]. split; [exact T3|]. right. exists n. auto.
  - rewrite read_buf in E by exact Hne. cbn [r_buf r_nonce] in E. injection E as <- <- <-.
    destruct (take_facts (skipn n data0) [] cap Hne Hcap) as (T1 & T2 & T3).
    rewrite !app_nil_r in T3.
    set (n' := Nat.min cap (length (skipn n data0))) in *.
    eexists _, _. split; [reflexivity|]. split; [exact T1|]. split; [exact T2|].
    split; [exact T3|]. right. exists (n' + n)%nat. split; [lia|].
    unfold st_after. rewrite !skipn_add. auto.
Qed.

Lemma recv_one_frame : N.of_nat (length (enc m)) <= max_msg_size ->
  auth_recv k (EvBlock c0 :: tail)
    = ({| r_buf := extra; r_nonce := nonce_of P0 1 |}, dec (enc m), tail).
Proof.
  intro Hm. unfold ModelAuth.auth_recv.
  destruct (read_delimited key cipher open k {| r_buf := []; r_nonce := zero_nonce |}
              (EvBlock c0 :: tail)) as [[st1 r1] conn1] eqn:Ed.
  apply (delimited_spec key cipher open k inv1 False False inv1_step (enc m) extra) in Ed;
    [| exact Hm |].
  2:{ left. split; [reflexivity|]. split; [reflexivity|].
      unfold data0, auth_wire_bytes. rewrite <- app_assoc. reflexivity. }
  destruct Ed as [[] | [[[] _] | [-> I]]].
  destruct I as [(_ & _ & X) | (n & Hn & -> & -> & X)].
  - exfalso. apply (f_equal (@length N)) in X. unfold data0, auth_wire_bytes in X.
    rewrite !app_length in X.
    pose proof (put_uvarint_f_length 9 (N.of_nat (length (enc m)))) as L.
    unfold put_uvarint in X. lia.
  - unfold st_after. rewrite <- X. reflexivity.
Qed.

Lemma write_one_frame : (1 <= length data0)%nat ->
  let w := write key cipher seal pool k zero_nonce data0 in
  w_sent w = [c0] /\ w_nonce w = nonce_of P0 1 /\ w_panic w = false /\ w_n w = length data0.
Proof.
  intros H1 w. unfold w, write. cbn [write_loop].
  replace (0 <? length data0)%nat with true by (symmetry; apply Nat.ltb_lt; lia).
  replace (data_max_size <? length data0)%nat with false by (symmetry; apply Nat.ltb_ge; lia).
  change zero_nonce with (nonce_of P0 0).
  rewrite (incr_nonce_of P0 0 P0_len) by reflexivity.
  change (0 =? max_uint64) with false. cbv iota.
  assert (Hnil : forall f n, write_loop key cipher seal pool f k n [] =
            {| w_n := 0; w_calls := []; w_sent := []; w_wire := []; w_nonce := n; w_panic := false |})
    by (intros [|f] n; reflexivity).
  rewrite Hnil. cbn [w_sent w_nonce w_panic w_n]. rewrite Nat.add_0_r. auto.
Qed.

Lemma frame_keeps_rest : N.of_nat (length (enc m)) <= max_msg_size ->
  let w := write key cipher seal pool k zero_nonce data0 in
  w_panic w = false /\ length (w_sent w) = 1%nat /\ w_nonce w = nonce_of P0 1 /\
  auth_recv k (map EvBlock (w_sent w) ++ tail)
    = ({| r_buf := extra; r_nonce := nonce_of P0 1 |}, dec (enc m), tail).
Proof.
  intros Hm w.
  assert (H1 : (1 <= length data0)%nat).
  { unfold data0, auth_wire_bytes, put_uvarint. rewrite !app_length.
    pose proof (put_uvarint_f_length 9 (N.of_nat (length (enc m)))). lia. }
  destruct (write_one_frame H1) as (W1 & W2 & W3 & _). fold w in W1, W2, W3.
  rewrite W1. cbn [map app length]. repeat split; auto. apply recv_one_frame. exact Hm.
Qed.
End OneFrame.
End CarryData.
