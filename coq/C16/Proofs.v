(* C16 — proofs: little-endian nonces, frame layout, Write/Read invariants, handshake, upgrade. *)
From Coq Require Import List ZArith NArith Bool Lia.
From TM Require Import Common.Hex Generated.Consts C16.Model.
Import ListNotations.
Open Scope N_scope.

(* ------------------------------------------------------------------ lists *)
Lemma firstn_app_len : forall {A} (a b : list A) n, length a = n -> firstn n (a ++ b) = a.
Proof.
  intros A a b n <-. rewrite firstn_app, Nat.sub_diag, firstn_all. cbn. apply app_nil_r.
Qed.
Lemma skipn_app_len : forall {A} (a b : list A) n, length a = n -> skipn n (a ++ b) = b.
Proof.
  intros A a b n <-. rewrite skipn_app, Nat.sub_diag, skipn_all. reflexivity.
Qed.
Lemma firstn_succ_nth : forall {A} (l : list A) j x,
  nth_error l j = Some x -> firstn (S j) l = firstn j l ++ [x].
Proof.
  induction l as [|a l IH]; intros [|j] x E; cbn in *; try discriminate.
  - injection E as <-. reflexivity.
  - f_equal. apply IH. exact E.
Qed.
Lemma concat_firstn_prefix : forall (l : list bytes) j,
  exists rest, concat l = concat (firstn j l) ++ rest.
Proof.
  intros l j. exists (concat (skipn j l)).
  rewrite <- concat_app, firstn_skipn. reflexivity.
Qed.

(* ------------------------------------------------------------------ constants *)
Lemma data_len_size_4 : data_len_size = 4%nat. Proof. reflexivity. Qed.
Lemma total_frame_size_eq : total_frame_size = (data_len_size + data_max_size)%nat.
Proof. reflexivity. Qed.
Lemma data_max_size_small : N.of_nat data_max_size < 2 ^ 32. Proof. reflexivity. Qed.

(* ------------------------------------------------------------------ little endian *)
Lemma le_enc_length : forall n c, length (le_enc n c) = n.
Proof. induction n; intro c; cbn [le_enc length]; [reflexivity | f_equal; apply IHn]. Qed.

Lemma le_dec_enc : forall n c, le_dec (le_enc n c) = c mod 256 ^ N.of_nat n.
Proof.
  induction n as [|n IH]; intro c.
  - cbn [le_enc le_dec]. change (256 ^ N.of_nat 0) with 1. rewrite N.mod_1_r. reflexivity.
  - cbn [le_enc le_dec]. rewrite IH, Nat2N.inj_succ, N.pow_succ_r'.
    rewrite N.mod_mul_r by (try apply N.pow_nonzero; discriminate). reflexivity.
Qed.

Definition nonce_of (pre : bytes) (c : N) : bytes := pre ++ le_enc 8 c.

Lemma zero_nonce_is : zero_nonce = nonce_of [0; 0; 0; 0] 0.
Proof. reflexivity. Qed.

Lemma nonce_of_inj : forall pre c c', c < 2 ^ 64 -> c' < 2 ^ 64 ->
  nonce_of pre c = nonce_of pre c' -> c = c'.
Proof.
  intros pre c c' Hc Hc' E. unfold nonce_of in E. apply app_inv_head in E.
  apply (f_equal le_dec) in E. rewrite !le_dec_enc in E.
  change (256 ^ N.of_nat 8) with (2 ^ 64) in E.
  rewrite !N.mod_small in E by assumption. exact E.
Qed.

Lemma incr_nonce_of : forall pre c, length pre = 4%nat -> c < 2 ^ 64 ->
  incr_nonce (nonce_of pre c) =
  if c =? max_uint64 then None else Some (nonce_of pre (c + 1)).
Proof.
  intros pre c Hp Hc. unfold incr_nonce, nonce_of.
  rewrite (skipn_app_len pre _ 4 Hp), (firstn_app_len pre _ 4 Hp).
  rewrite firstn_all2 by (rewrite le_enc_length; lia).
  rewrite le_dec_enc. change (256 ^ N.of_nat 8) with (2 ^ 64).
  rewrite N.mod_small by assumption. reflexivity.
Qed.

Lemma max_uint64_lt : max_uint64 < 2 ^ 64. Proof. reflexivity. Qed.

(* ------------------------------------------------------------------ frames *)
Lemma mk_frame_shape : forall chunk stale, (length chunk <= data_max_size)%nat ->
  exists tail, mk_frame chunk stale = le_enc 4 (N.of_nat (length chunk)) ++ chunk ++ tail.
Proof.
  intros chunk stale Hl. unfold mk_frame.
  set (hd := le_enc 4 (N.of_nat (length chunk))).
  set (tl := skipn (data_len_size + length chunk) stale).
  exists (firstn (total_frame_size - length (hd ++ chunk)) tl).
  rewrite (app_assoc hd chunk tl), firstn_app.
  rewrite firstn_all2.
  - rewrite <- app_assoc. reflexivity.
  - rewrite app_length. unfold hd. rewrite le_enc_length, total_frame_size_eq, data_len_size_4. lia.
Qed.

Lemma frame_parse_len : forall chunk stale, (length chunk <= data_max_size)%nat ->
  le_dec (firstn 4 (mk_frame chunk stale)) = N.of_nat (length chunk).
Proof.
  intros chunk stale Hl. destruct (mk_frame_shape chunk stale Hl) as [tail ->].
  rewrite firstn_app_len by apply le_enc_length.
  rewrite le_dec_enc. change (256 ^ N.of_nat 4) with (2 ^ 32).
  apply N.mod_small. pose proof data_max_size_small. lia.
Qed.

Lemma frame_parse_chunk : forall chunk stale, (length chunk <= data_max_size)%nat ->
  firstn (length chunk) (skipn data_len_size (mk_frame chunk stale)) = chunk.
Proof.
  intros chunk stale Hl. destruct (mk_frame_shape chunk stale Hl) as [tail ->].
  rewrite data_len_size_4, skipn_app_len by apply le_enc_length.
  apply firstn_app_len. reflexivity.
Qed.

Lemma data_max_size_pos : (1 <= data_max_size)%nat.
Proof. apply Nat.leb_le. reflexivity. Qed.

Lemma le_max_lt : forall c, c <= max_uint64 -> c < 2 ^ 64.
Proof.
  intros c H. unfold max_uint64 in H. change (2 ^ 64) with 18446744073709551616. lia.
Qed.

Fixpoint nseq (c : N) (n : nat) : list N :=
  match n with O => [] | S n' => c :: nseq (c + 1) n' end.

Lemma nseq_in : forall n c x, In x (nseq c n) -> c <= x < c + N.of_nat n.
Proof.
  induction n as [|n IH]; intros c x H; cbn [nseq] in H; [contradiction|].
  destruct H as [<- | H]; [lia|]. apply IH in H. lia.
Qed.
Lemma nseq_nodup : forall n c, NoDup (nseq c n).
Proof.
  induction n as [|n IH]; intro c; cbn [nseq]; constructor; [|apply IH].
  intro H. apply nseq_in in H. lia.
Qed.
Lemma nseq_app : forall n m c, nseq c (n + m) = nseq c n ++ nseq (c + N.of_nat n) m.
Proof.
  induction n as [|n IH]; intros m c.
  - cbn. rewrite N.add_0_r. reflexivity.
  - cbn [Nat.add nseq app]. rewrite IH.
    replace (c + 1 + N.of_nat n) with (c + N.of_nat (S n)) by lia. reflexivity.
Qed.

(* ================================================================== the stream *)
Section StreamProofs.
Variables key cipher : Type.
Variable seal : key -> bytes -> bytes -> cipher.
Variable open : key -> bytes -> cipher -> option bytes.
Variable pool : bytes -> bytes.
Variable k : key.
Variable pre : bytes.
Hypothesis Hpre : length pre = 4%nat.

Definition chunk_ok (ch : bytes) : Prop := (1 <= length ch <= data_max_size)%nat.

(* the Seal calls for a list of chunks, from counter c *)
Fixpoint seal_chunks (c : N) (chunks : list bytes) : list (seal_call cipher) :=
  match chunks with
  | [] => []
  | ch :: r =>
    let n := nonce_of pre c in
    {| sl_nonce := n; sl_plain := mk_frame ch (pool n); sl_out := seal k n (mk_frame ch (pool n)) |}
      :: seal_chunks (c + 1) r
  end.

Lemma seal_chunks_app : forall a b c,
  seal_chunks c (a ++ b) = seal_chunks c a ++ seal_chunks (c + N.of_nat (length a)) b.
Proof.
  induction a as [|x a IH]; intros b c.
  - cbn. rewrite N.add_0_r. reflexivity.
  - cbn [app seal_chunks length]. rewrite IH.
    replace (c + 1 + N.of_nat (length a)) with (c + N.of_nat (S (length a))) by lia. reflexivity.
Qed.
Lemma seal_chunks_nonces : forall chunks c,
  map sl_nonce (seal_chunks c chunks) = map (nonce_of pre) (nseq c (length chunks)).
Proof.
  induction chunks as [|ch r IH]; intro c; cbn [seal_chunks map length nseq]; [reflexivity|].
  f_equal. apply IH.
Qed.
Lemma seal_chunks_length : forall chunks c, length (seal_chunks c chunks) = length chunks.
Proof. induction chunks; intro c; cbn [seal_chunks length]; [reflexivity | f_equal; auto]. Qed.

(* what one Write does, in terms of the chunks it cuts *)
Record write_spec (c : N) (data : bytes) (w : wres cipher) (chunks extra : list bytes) : Prop := {
  ws_ok : Forall chunk_ok chunks;
  ws_sent : w_sent w = map sl_out (seal_chunks c chunks);
  ws_calls : w_calls w = seal_chunks c (chunks ++ extra);
  ws_wire : w_wire w = map (fun s => (sl_nonce s, sl_out s)) (seal_chunks c chunks);
  ws_bound : c + N.of_nat (length chunks) <= max_uint64;
  ws_n : w_n w = length (concat chunks);
  ws_data : exists rest, data = concat chunks ++ rest /\ (w_panic w = false -> rest = []);
  ws_fine : w_panic w = false ->
            extra = [] /\ w_nonce w = nonce_of pre (c + N.of_nat (length chunks));
  ws_panic : w_panic w = true ->
             length extra = 1%nat /\ c + N.of_nat (length chunks) = max_uint64
}.

Lemma write_loop_spec : forall fuel data c, c <= max_uint64 -> (length data < fuel)%nat ->
  exists chunks extra,
    write_spec c data (write_loop key cipher seal pool fuel k (nonce_of pre c) data) chunks extra.
Proof.
  induction fuel as [|f IH]; intros data c Hc Hf; [lia|].
  cbn [write_loop].
  destruct (0 <? length data)%nat eqn:E0.
  2:{ apply Nat.ltb_ge in E0. destruct data; [|cbn in E0; lia].
      exists [], []. constructor; cbn; auto; try lia.
      - exists []. auto.
      - intros _. rewrite N.add_0_r. auto. }
  apply Nat.ltb_lt in E0.
  set (chunk := if (data_max_size <? length data)%nat then firstn data_max_size data else data).
  set (rest := if (data_max_size <? length data)%nat then skipn data_max_size data else []).
  assert (Hsplit : data = chunk ++ rest).
  { unfold chunk, rest. destruct (data_max_size <? length data)%nat.
    - symmetry. apply firstn_skipn.
    - symmetry. apply app_nil_r. }
  assert (Hok : chunk_ok chunk).
  { unfold chunk_ok, chunk. pose proof data_max_size_pos.
    destruct (data_max_size <? length data)%nat eqn:E.
    - apply Nat.ltb_lt in E. rewrite firstn_length. lia.
    - apply Nat.ltb_ge in E. lia. }
  assert (Hrest : (length rest < f)%nat).
  { unfold chunk_ok in Hok. apply (f_equal (@length N)) in Hsplit. rewrite app_length in Hsplit. lia. }
  rewrite (incr_nonce_of pre c Hpre (le_max_lt c Hc)).
  destruct (c =? max_uint64) eqn:Ec.
  - apply N.eqb_eq in Ec.
    exists [], [chunk]. constructor; cbn [w_sent w_calls w_wire w_n w_panic w_nonce]; auto.
    + rewrite N.add_0_r. lia.
    + exists data. split; [reflexivity | discriminate].
    + discriminate.
    + intros _. split; [reflexivity | cbn; lia].
  - apply N.eqb_neq in Ec.
    assert (Hc1 : c + 1 <= max_uint64) by lia.
    destruct (IH rest (c + 1) Hc1 Hrest) as (chunks & extra & S).
    set (r := write_loop key cipher seal pool f k (nonce_of pre (c + 1)) rest) in *.
    exists (chunk :: chunks), extra.
    destruct S as [S1 S2 S3 S3w S4 S5 S6 S7 S8].
    constructor; cbn [w_sent w_calls w_wire w_n w_panic w_nonce].
    + constructor; assumption.
    + cbn [seal_chunks map sl_out]. f_equal. exact S2.
    + cbn [app seal_chunks]. f_equal. exact S3.
    + cbn [seal_chunks map sl_out sl_nonce]. f_equal. exact S3w.
    + cbn [length]. lia.
    + cbn [concat]. rewrite app_length, S5. reflexivity.
    + destruct S6 as (rr & E1 & E2). exists rr. split; [|exact E2].
      cbn [concat]. rewrite <- app_assoc, <- E1. exact Hsplit.
    + intro P. destruct (S7 P) as [-> ->]. split; [reflexivity|]. f_equal. cbn [length]. lia.
    + intro P. destruct (S8 P) as [X Y]. split; [exact X | cbn [length]; lia].
Qed.

Lemma write_spec_ex : forall data c, c <= max_uint64 ->
  exists chunks extra, write_spec c data (write key cipher seal pool k (nonce_of pre c) data) chunks extra.
Proof. intros. apply write_loop_spec; [assumption | lia]. Qed.

(* a whole writing session *)
Definition all_calls (W : list (wres cipher)) : list (seal_call cipher) := flat_map (@w_calls cipher) W.
Definition all_sent (W : list (wres cipher)) : list cipher := flat_map (@w_sent cipher) W.
Definition all_wire (W : list (wres cipher)) : list (bytes * cipher) := flat_map (@w_wire cipher) W.
Definition no_panic (W : list (wres cipher)) : Prop := forall w, In w W -> w_panic w = false.

Record session_spec (c : N) (ws : list bytes) (W : list (wres cipher)) (chunks extra : list bytes) : Prop := {
  ss_ok : Forall chunk_ok chunks;
  ss_sent : all_sent W = map sl_out (seal_chunks c chunks);
  ss_calls : all_calls W = seal_chunks c (chunks ++ extra);
  ss_wire : all_wire W = map (fun s => (sl_nonce s, sl_out s)) (seal_chunks c chunks);
  ss_bound : c + N.of_nat (length chunks) <= max_uint64;
  ss_extra : c + N.of_nat (length (chunks ++ extra)) <= max_uint64 + 1;
  ss_data : exists rest, concat ws = concat chunks ++ rest /\ (no_panic W -> rest = [])
}.

Lemma run_writes_spec : forall ws c, c <= max_uint64 ->
  exists chunks extra,
    session_spec c ws (run_writes key cipher seal pool k (nonce_of pre c) ws) chunks extra.
Proof.
  induction ws as [|d ws IH]; intros c Hc.
  - exists [], []. constructor; unfold all_sent, all_calls, all_wire;
      cbn [run_writes flat_map seal_chunks map app length concat N.of_nat]; auto; try lia.
    exists []. auto.
  - cbn [run_writes].
    destruct (write_spec_ex d c Hc) as (ch1 & ex1 & S).
    set (w := write key cipher seal pool k (nonce_of pre c) d) in *.
    destruct S as [S1 S2 S3 S3w S4 S5 S6 S7 S8].
    destruct (w_panic w) eqn:P.
    + destruct (S8 eq_refl) as [X Y].
      exists ch1, ex1. constructor; unfold all_sent, all_calls, all_wire; cbn [flat_map]; rewrite ?app_nil_r; auto.
      * rewrite app_length, X. lia.
      * destruct S6 as (rr & E1 & _). exists (rr ++ concat ws). split.
        -- cbn [concat]. rewrite E1, app_assoc. reflexivity.
        -- intro NP. specialize (NP w (or_introl eq_refl)). congruence.
    + destruct (S7 eq_refl) as [-> Hn]. rewrite Hn.
      destruct (IH (c + N.of_nat (length ch1)) S4) as (ch2 & ex2 & T).
      set (W' := run_writes key cipher seal pool k (nonce_of pre (c + N.of_nat (length ch1))) ws) in *.
      destruct T as [T1 T2 T3 T3w T4 T5 T6].
      exists (ch1 ++ ch2), ex2. constructor; unfold all_sent, all_calls, all_wire in *; cbn [flat_map].
      * apply Forall_app; split; assumption.
      * rewrite seal_chunks_app, map_app, S2, T2. reflexivity.
      * rewrite <- app_assoc, seal_chunks_app, S3, T3, app_nil_r. reflexivity.
      * rewrite seal_chunks_app, map_app, S3w, T3w. reflexivity.
      * rewrite app_length, Nat2N.inj_add. lia.
      * rewrite !app_length, !Nat2N.inj_add. rewrite app_length, Nat2N.inj_add in T5. lia.
      * destruct S6 as (rr & E1 & E2). specialize (E2 eq_refl). subst rr.
        destruct T6 as (r2 & F1 & F2). exists r2. split.
        -- cbn [concat]. rewrite E1, app_nil_r, F1, concat_app, app_assoc. reflexivity.
        -- intro NP. apply F2. intros x Hx. apply NP. right. exact Hx.
Qed.

(* nonces of all Seal calls of a session are pairwise different *)
Lemma session_nonces_nodup : forall ws c, c <= max_uint64 ->
  NoDup (map sl_nonce (all_calls (run_writes key cipher seal pool k (nonce_of pre c) ws))).
Proof.
  intros ws c Hc. destruct (run_writes_spec ws c Hc) as (chunks & extra & S).
  rewrite (ss_calls _ _ _ _ _ S), seal_chunks_nonces.
  pose proof (ss_extra _ _ _ _ _ S) as B.
  set (n := length (chunks ++ extra)) in *.
  assert (Hin : forall x, In x (nseq c n) -> x <= max_uint64).
  { intros x Hx. apply nseq_in in Hx. lia. }
  pose proof (nseq_nodup n c) as ND. revert Hin ND. generalize (nseq c n). intro l.
  induction l as [|x l IHl]; intros Hin ND; cbn [map]; constructor.
  - intro H. apply in_map_iff in H. destruct H as (y & E & Hy).
    apply nonce_of_inj in E; [| apply le_max_lt; apply Hin; right; exact Hy
                              | apply le_max_lt; apply Hin; left; reflexivity].
    subst y. inversion ND; contradiction.
  - apply IHl; [intros; apply Hin; right; assumption | inversion ND; assumption].
Qed.

(* ------------------------------------------------------------------ the writer over a failing transport *)
Lemma seal_chunks_nodup : forall l c, c + N.of_nat (length l) <= max_uint64 + 1 ->
  NoDup (map sl_nonce (seal_chunks c l)).
Proof.
  intros l c B. rewrite seal_chunks_nonces.
  set (n := length l) in *.
  assert (Hin : forall x, In x (nseq c n) -> x <= max_uint64).
  { intros x Hx. apply nseq_in in Hx. lia. }
  pose proof (nseq_nodup n c) as ND. revert Hin ND. generalize (nseq c n). intro l0.
  induction l0 as [|x l0 IHl]; intros Hin ND; cbn [map]; constructor.
  - intro H. apply in_map_iff in H. destruct H as (y & E & Hy).
    apply nonce_of_inj in E; [| apply le_max_lt; apply Hin; right; exact Hy
                              | apply le_max_lt; apply Hin; left; reflexivity].
    subst y. inversion ND; contradiction.
  - apply IHl; [intros; apply Hin; right; assumption | inversion ND; assumption].
Qed.

Definition call_nc (s : seal_call cipher) : bytes * cipher := (sl_nonce s, sl_out s).

(* what one Write does over a transport with scripted outcomes, in terms of the chunks it seals:
   [chunks] were sealed and handed to conn.Write (the last one possibly failing there), [extra]
   is the chunk sealed just before an overflow panic *)
Record write_spec_t (c : N) (w : wres_t cipher) (chunks extra : list bytes) : Prop := {
  wst_ok : Forall chunk_ok chunks;
  wst_calls : wt_calls w = seal_chunks c (chunks ++ extra);
  wst_wire : map fst (wt_wire w) = map call_nc (seal_chunks c chunks);
  wst_bound : c + N.of_nat (length chunks) <= max_uint64;
  wst_fine : wt_panic w = false ->
             extra = [] /\ wt_nonce w = nonce_of pre (c + N.of_nat (length chunks));
  wst_panic : wt_panic w = true ->
              length extra = 1%nat /\ c + N.of_nat (length chunks) = max_uint64
}.

Lemma write_loop_t_spec : forall fuel data c outs, c <= max_uint64 -> (length data < fuel)%nat ->
  exists chunks extra,
    write_spec_t c (write_loop_t key cipher seal pool fuel k (nonce_of pre c) data outs) chunks extra.
Proof.
  induction fuel as [|f IH]; intros data c outs Hc Hf; [lia|].
  cbn [write_loop_t].
  destruct (0 <? length data)%nat eqn:E0.
  2:{ exists [], []. constructor; cbn; auto; try lia.
      intros _. rewrite N.add_0_r. auto. }
  apply Nat.ltb_lt in E0.
  set (chunk := if (data_max_size <? length data)%nat then firstn data_max_size data else data).
  set (rest := if (data_max_size <? length data)%nat then skipn data_max_size data else []).
  assert (Hsplit : data = chunk ++ rest).
  { unfold chunk, rest. destruct (data_max_size <? length data)%nat.
    - symmetry. apply firstn_skipn.
    - symmetry. apply app_nil_r. }
  assert (Hok : chunk_ok chunk).
  { unfold chunk_ok, chunk. pose proof data_max_size_pos.
    destruct (data_max_size <? length data)%nat eqn:E.
    - apply Nat.ltb_lt in E. rewrite firstn_length. lia.
    - apply Nat.ltb_ge in E. lia. }
  assert (Hrest : (length rest < f)%nat).
  { unfold chunk_ok in Hok. apply (f_equal (@length N)) in Hsplit. rewrite app_length in Hsplit. lia. }
  rewrite (incr_nonce_of pre c Hpre (le_max_lt c Hc)).
  destruct (c =? max_uint64) eqn:Ec.
  - apply N.eqb_eq in Ec.
    exists [], [chunk]. constructor; cbn [wt_calls wt_wire wt_n wt_panic wt_nonce wt_err wt_outs]; auto.
    + rewrite N.add_0_r. lia.
    + discriminate.
    + intros _. split; [reflexivity | cbn; lia].
  - apply N.eqb_neq in Ec.
    assert (Hc1 : c + 1 <= max_uint64) by lia.
    assert (Hgo : forall outs',
      exists chunks extra,
        write_spec_t c
          (let r := write_loop_t key cipher seal pool f k (nonce_of pre (c + 1)) rest outs' in
           {| wt_n := length chunk + wt_n r;
              wt_calls := {| sl_nonce := nonce_of pre c;
                             sl_plain := mk_frame chunk (pool (nonce_of pre c));
                             sl_out := seal k (nonce_of pre c) (mk_frame chunk (pool (nonce_of pre c))) |}
                          :: wt_calls r;
              wt_wire := (nonce_of pre c, seal k (nonce_of pre c) (mk_frame chunk (pool (nonce_of pre c))), TOk)
                         :: wt_wire r;
              wt_nonce := wt_nonce r; wt_panic := wt_panic r; wt_err := wt_err r;
              wt_outs := wt_outs r |}) chunks extra).
    { intro outs'.
      destruct (IH rest (c + 1) outs' Hc1 Hrest) as (chunks & extra & S).
      set (r := write_loop_t key cipher seal pool f k (nonce_of pre (c + 1)) rest outs') in *.
      exists (chunk :: chunks), extra.
      destruct S as [S1 S2 S3 S4 S7 S8].
      constructor; cbn [wt_calls wt_wire wt_n wt_panic wt_nonce wt_err wt_outs].
      + constructor; assumption.
      + cbn [app seal_chunks]. f_equal. exact S2.
      + cbn [seal_chunks map fst]. unfold call_nc at 1. cbn [sl_nonce sl_out]. f_equal. exact S3.
      + cbn [length]. lia.
      + intro P. destruct (S7 P) as [-> ->]. split; [reflexivity|]. f_equal. cbn [length]. lia.
      + intro P. destruct (S8 P) as [X Y]. split; [exact X | cbn [length]; lia]. }
    destruct outs as [|[|m] outs'].
    + cbn [tl]. apply Hgo.
    + cbn [tl]. apply Hgo.
    + exists [chunk], []. constructor; cbn [wt_calls wt_wire wt_n wt_panic wt_nonce wt_err wt_outs].
      * constructor; [exact Hok | constructor].
      * reflexivity.
      * reflexivity.
      * cbn [length]. lia.
      * intros _. split; [reflexivity|]. f_equal.
      * discriminate.
Qed.

Lemma write_t_spec_ex : forall data c outs, c <= max_uint64 ->
  exists chunks extra,
    write_spec_t c (write_t key cipher seal pool k (nonce_of pre c) data outs) chunks extra.
Proof. intros. apply write_loop_t_spec; [assumption | lia]. Qed.

Definition all_calls_t (W : list (wres_t cipher)) : list (seal_call cipher) :=
  flat_map (@wt_calls cipher) W.
Definition all_wire_t (W : list (wres_t cipher)) : list (bytes * cipher * tout) :=
  flat_map (@wt_wire cipher) W.

Record session_spec_t (c : N) (W : list (wres_t cipher)) (chunks extra : list bytes) : Prop := {
  sst_ok : Forall chunk_ok chunks;
  sst_calls : all_calls_t W = seal_chunks c (chunks ++ extra);
  sst_wire : map fst (all_wire_t W) = map call_nc (seal_chunks c chunks);
  sst_bound : c + N.of_nat (length chunks) <= max_uint64;
  sst_extra : (length extra <= 1)%nat
}.

Lemma run_writes_t_spec : forall ws c outs, c <= max_uint64 ->
  exists chunks extra,
    session_spec_t c (run_writes_t key cipher seal pool k (nonce_of pre c) ws outs) chunks extra.
Proof.
  induction ws as [|d ws IH]; intros c outs Hc.
  - exists [], []. constructor; unfold all_calls_t, all_wire_t;
      cbn [run_writes_t flat_map seal_chunks map app length N.of_nat]; auto; try lia.
  - cbn [run_writes_t].
    destruct (write_t_spec_ex d c outs Hc) as (ch1 & ex1 & S).
    set (w := write_t key cipher seal pool k (nonce_of pre c) d outs) in *.
    destruct S as [S1 S2 S3 S4 S7 S8].
    destruct (wt_panic w) eqn:P.
    + destruct (S8 eq_refl) as [X Y].
      exists ch1, ex1. constructor; unfold all_calls_t, all_wire_t; cbn [flat_map];
        rewrite ?app_nil_r; auto. lia.
    + destruct (S7 eq_refl) as [-> Hn]. rewrite Hn.
      destruct (IH (c + N.of_nat (length ch1)) (wt_outs w) S4) as (ch2 & ex2 & T).
      set (W' := run_writes_t key cipher seal pool k (nonce_of pre (c + N.of_nat (length ch1))) ws (wt_outs w)) in *.
      destruct T as [T1 T2 T3 T4 T5].
      exists (ch1 ++ ch2), ex2. constructor; unfold all_calls_t, all_wire_t in *; cbn [flat_map].
      * apply Forall_app; split; assumption.
      * rewrite <- app_assoc, seal_chunks_app, S2, T2, app_nil_r. reflexivity.
      * rewrite seal_chunks_app, !map_app, S3, T3. reflexivity.
      * rewrite app_length, Nat2N.inj_add. lia.
      * exact T5.
Qed.

(* with a transport that never fails (empty script) this is the Write of Model.write_loop *)
Lemma write_loop_t_nofault : forall fuel nonce data,
  let w := write_loop_t key cipher seal pool fuel k nonce data [] in
  let w0 := write_loop key cipher seal pool fuel k nonce data in
  wt_n w = w_n w0 /\ wt_calls w = w_calls w0 /\ map fst (wt_wire w) = w_wire w0 /\
  wt_nonce w = w_nonce w0 /\ wt_panic w = w_panic w0 /\ wt_err w = false /\ wt_outs w = [].
Proof.
  induction fuel as [|f IH]; intros nonce data; cbn [write_loop_t write_loop].
  - cbn. auto 10.
  - destruct (0 <? length data)%nat; [|cbn; auto 10].
    destruct (incr_nonce nonce) as [nonce'|]; [|cbn; auto 10].
    cbn [tl].
    match goal with |- context [write_loop_t _ _ _ _ f k nonce' ?r []] =>
      destruct (IH nonce' r) as (H1 & H2 & H3 & H4 & H5 & H6 & H7) end.
    cbn [wt_n wt_calls wt_wire wt_nonce wt_panic wt_err wt_outs w_n w_calls w_wire w_nonce w_panic map fst].
    rewrite H1, H2, H3, H4, H5, H6, H7. auto 10.
Qed.

(* ------------------------------------------------------------------ the reader *)
Hypothesis open_seal : forall n p, open k n (seal k n p) = Some p.
Variable cipher_eq_dec : forall a b : cipher, {a = b} + {a <> b}.

Variable c0 : N.
Variable chunks : list bytes.
Hypothesis Hchunks : Forall chunk_ok chunks.
Hypothesis Hbound : c0 + N.of_nat (length chunks) <= max_uint64.

Definition sent : list cipher := map sl_out (seal_chunks c0 chunks).
Definition wire : list (bytes * cipher) :=
  map (fun s => (sl_nonce s, sl_out s)) (seal_chunks c0 chunks).

(* a (nonce, ciphertext) that opens under k although the writer never put it on the wire *)
Definition AeadForgery : Prop :=
  exists n c p, open k n c = Some p /\ ~ In (n, c) wire.

Lemma seal_chunks_nth : forall l c j ch, nth_error l j = Some ch ->
  nth_error (seal_chunks c l) j =
  Some {| sl_nonce := nonce_of pre (c + N.of_nat j);
          sl_plain := mk_frame ch (pool (nonce_of pre (c + N.of_nat j)));
          sl_out := seal k (nonce_of pre (c + N.of_nat j))
                      (mk_frame ch (pool (nonce_of pre (c + N.of_nat j)))) |}.
Proof.
  induction l as [|x l IH]; intros c [|j] ch E; cbn [nth_error] in E; try discriminate.
  - injection E as ->. cbn [seal_chunks nth_error]. rewrite N.add_0_r. reflexivity.
  - cbn [seal_chunks nth_error]. rewrite (IH (c + 1) j ch E).
    replace (c + 1 + N.of_nat j) with (c + N.of_nat (S j)) by lia. reflexivity.
Qed.

Lemma seal_chunks_in : forall l c s, In s (seal_chunks c l) ->
  exists i ch, nth_error l i = Some ch /\ sl_nonce s = nonce_of pre (c + N.of_nat i) /\
               sl_out s = seal k (sl_nonce s) (mk_frame ch (pool (sl_nonce s))).
Proof.
  induction l as [|x l IH]; intros c s H; cbn [seal_chunks] in H; [contradiction|].
  destruct H as [<- | H].
  - exists 0%nat, x. cbn. rewrite N.add_0_r. auto.
  - destruct (IH _ _ H) as (i & ch & E1 & E2 & E3). exists (S i), ch. cbn [nth_error].
    repeat split; auto. rewrite E2. f_equal. lia.
Qed.

Lemma wire_in : forall j c, (j <= length chunks)%nat ->
  In (nonce_of pre (c0 + N.of_nat j), c) wire ->
  exists ch, nth_error chunks j = Some ch /\
    c = seal k (nonce_of pre (c0 + N.of_nat j))
          (mk_frame ch (pool (nonce_of pre (c0 + N.of_nat j)))).
Proof.
  intros j c Hj H. unfold wire in H. apply in_map_iff in H. destruct H as (s & E & Hs).
  injection E as En Ec.
  destruct (seal_chunks_in _ _ _ Hs) as (i & ch & E1 & E2 & E3).
  assert (Hi : (i < length chunks)%nat) by (apply nth_error_Some; congruence).
  rewrite E2 in En. apply nonce_of_inj in En; [| apply le_max_lt; lia | apply le_max_lt; lia].
  assert (i = j) by lia. subst i. exists ch. split; [exact E1|].
  rewrite <- Ec, E3, E2. reflexivity.
Qed.

Lemma sent_nth : forall j ch, nth_error chunks j = Some ch ->
  nth_error sent j = Some (seal k (nonce_of pre (c0 + N.of_nat j))
                             (mk_frame ch (pool (nonce_of pre (c0 + N.of_nat j))))).
Proof.
  intros j ch E. unfold sent. rewrite nth_error_map, (seal_chunks_nth _ _ _ _ E). reflexivity.
Qed.

Lemma in_wire_dec : forall n c, {In (n, c) wire} + {~ In (n, c) wire}.
Proof.
  intros n c. apply in_dec. intros [a b] [a' b'].
  destruct (list_eq_dec N.eq_dec a a') as [->|Na]; [|right; congruence].
  destruct (cipher_eq_dec b b') as [->|Nb]; [left; reflexivity | right; congruence].
Qed.

(* reader state after j frames were accepted and [del] was returned *)
Record rinv (st : rstate) (j : nat) (del : bytes) : Prop := {
  ri_nonce : r_nonce st = nonce_of pre (c0 + N.of_nat j);
  ri_j : (j <= length chunks)%nat;
  ri_data : del ++ r_buf st = concat (firstn j chunks)
}.

Lemma buf_test : forall b : bytes, (0 <? length b)%nat = false <-> b = [].
Proof.
  intro b. destruct b; cbn; split; intro H; try reflexivity; try discriminate.
Qed.

(* Read served from recvBuffer *)
Lemma read_buf : forall st cap conn, r_buf st <> [] ->
  read key cipher open k st cap conn =
  ({| r_buf := skipn (Nat.min cap (length (r_buf st))) (r_buf st); r_nonce := r_nonce st |},
   ROk (firstn (Nat.min cap (length (r_buf st))) (r_buf st)), conn).
Proof.
  intros st cap conn H. unfold read.
  destruct (0 <? length (r_buf st))%nat eqn:E; [reflexivity|].
  apply buf_test in E. contradiction.
Qed.

(* Read of the frame that is next in sequence *)
Lemma read_accept : forall st j del cap conn' ch c,
  rinv st j del -> r_buf st = [] -> nth_error chunks j = Some ch -> nth_error sent j = Some c ->
  read key cipher open k st cap (EvBlock c :: conn') =
  ({| r_buf := skipn (Nat.min cap (length ch)) ch; r_nonce := nonce_of pre (c0 + N.of_nat (S j)) |},
   ROk (firstn (Nat.min cap (length ch)) ch), conn').
Proof.
  intros st j del cap conn' ch c I Hb Hch Hc.
  rewrite (sent_nth _ _ Hch) in Hc. injection Hc as <-.
  assert (Hj : (j < length chunks)%nat) by (apply nth_error_Some; congruence).
  assert (Hok : chunk_ok ch).
  { rewrite Forall_forall in Hchunks. apply Hchunks. eapply nth_error_In; eauto. }
  unfold read. rewrite Hb. change (0 <? length (@nil N))%nat with false. cbv iota.
  rewrite (ri_nonce _ _ _ I), open_seal.
  rewrite (incr_nonce_of pre _ Hpre) by (apply le_max_lt; lia).
  replace (c0 + N.of_nat j =? max_uint64) with false by (symmetry; apply N.eqb_neq; lia).
  destruct Hok as [Hok1 Hok2].
  rewrite (frame_parse_len _ _ Hok2).
  replace (N.of_nat data_max_size <? N.of_nat (length ch)) with false
    by (symmetry; apply N.ltb_ge; lia).
  rewrite Nat2N.id, (frame_parse_chunk _ _ Hok2).
  replace (c0 + N.of_nat j + 1) with (c0 + N.of_nat (S j)) by lia.
  destruct (Nat.min cap (length ch) <? length ch)%nat eqn:E; [reflexivity|].
  apply Nat.ltb_ge in E. rewrite skipn_all2 by exact E. reflexivity.
Qed.

(* Read of anything else: refused, nothing changes — or a forgery is exhibited *)
Lemma read_reject : forall st j del cap conn' c,
  rinv st j del -> r_buf st = [] -> nth_error sent j <> Some c ->
  AeadForgery \/
  read key cipher open k st cap (EvBlock c :: conn') = (st, RErrDecrypt, conn').
Proof.
  intros st j del cap conn' c I Hb Hc.
  unfold read. rewrite Hb. change (0 <? length (@nil N))%nat with false. cbv iota.
  destruct (open k (r_nonce st) c) as [p|] eqn:Eo; [|right; reflexivity].
  left. rewrite (ri_nonce _ _ _ I) in Eo.
  destruct (in_wire_dec (nonce_of pre (c0 + N.of_nat j)) c) as [Hin|Hnin].
  - exfalso. destruct (wire_in _ _ (ri_j _ _ _ I) Hin) as (ch & E1 & E2).
    apply Hc. rewrite (sent_nth _ _ E1). f_equal. symmetry. exact E2.
  - exists (nonce_of pre (c0 + N.of_nat j)), c, p. split; assumption.
Qed.

Lemma rinv_buf : forall st j del cap, rinv st j del ->
  rinv {| r_buf := skipn (Nat.min cap (length (r_buf st))) (r_buf st); r_nonce := r_nonce st |} j
       (del ++ firstn (Nat.min cap (length (r_buf st))) (r_buf st)).
Proof.
  intros st j del cap [I1 I2 I3]. constructor; cbn [r_buf r_nonce]; auto.
  rewrite <- app_assoc, firstn_skipn. exact I3.
Qed.

Lemma rinv_accept : forall st j del cap ch,
  rinv st j del -> r_buf st = [] -> nth_error chunks j = Some ch ->
  rinv {| r_buf := skipn (Nat.min cap (length ch)) ch; r_nonce := nonce_of pre (c0 + N.of_nat (S j)) |}
       (S j) (del ++ firstn (Nat.min cap (length ch)) ch).
Proof.
  intros st j del cap ch [I1 I2 I3] Hb Hch. constructor; cbn [r_buf r_nonce]; auto.
  - apply Nat.le_succ_l. apply nth_error_Some. congruence.
  - rewrite <- app_assoc, firstn_skipn, (firstn_succ_nth _ _ _ Hch), concat_app.
    cbn [concat]. rewrite app_nil_r, <- I3, Hb, app_nil_r. reflexivity.
Qed.

(* one Read, whatever is on the wire *)
Lemma read_step : forall st j del cap conn st' r conn',
  rinv st j del -> read key cipher open k st cap conn = (st', r, conn') ->
  AeadForgery \/
  (rres_ok r = false /\ st' = st /\ rinv st' j (del ++ rres_data r)) \/
  (rres_ok r = true /\ exists j', rinv st' j' (del ++ rres_data r)).
Proof.
  intros st j del cap conn st' r conn' I E.
  destruct (r_buf st) as [|b0 bs] eqn:Hb.
  2:{ rewrite read_buf in E by congruence. injection E as <- <- <-.
      right. right. split; [reflexivity|]. exists j. exact (rinv_buf st j del cap I). }
  assert (Hstay : rinv st j (del ++ [])) by (rewrite app_nil_r; exact I).
  destruct conn as [|[c|] conn0].
  - unfold read in E. rewrite Hb in E. cbn in E. injection E as <- <- <-.
    right. left. auto.
  - destruct (nth_error chunks j) as [ch|] eqn:Ech.
    + destruct (cipher_eq_dec c (seal k (nonce_of pre (c0 + N.of_nat j))
                                   (mk_frame ch (pool (nonce_of pre (c0 + N.of_nat j)))))) as [->|Ne].
      * rewrite (read_accept st j del cap conn0 ch _ I Hb Ech (sent_nth _ _ Ech)) in E.
        injection E as <- <- <-. right. right. split; [reflexivity|].
        exists (S j). exact (rinv_accept st j del cap ch I Hb Ech).
      * destruct (read_reject st j del cap conn0 c I Hb) as [F|E'].
        -- rewrite (sent_nth _ _ Ech). congruence.
        -- left. exact F.
        -- rewrite E' in E. injection E as <- <- <-. right. left. auto.
    + destruct (read_reject st j del cap conn0 c I Hb) as [F|E'].
      * unfold sent. rewrite nth_error_map. 
        assert (X : nth_error (seal_chunks c0 chunks) j = None).
        { apply nth_error_None. rewrite seal_chunks_length. apply nth_error_None. exact Ech. }
        rewrite X. discriminate.
      * left. exact F.
      * rewrite E' in E. injection E as <- <- <-. right. left. auto.
  - unfold read in E. rewrite Hb in E. cbn in E. injection E as <- <- <-.
    right. left. auto.
Qed.

Lemma run_reads_cons : forall st conn cap caps,
  run_reads key cipher open k st conn (cap :: caps) =
  let '(st', r, conn') := read key cipher open k st cap conn in
  let '(rs, st'', conn'') := run_reads key cipher open k st' conn' caps in
  (r :: rs, st'', conn'').
Proof. reflexivity. Qed.

(* any sequence of Reads on any wire *)
Lemma run_reads_inv : forall caps st j del conn rs st' conn',
  rinv st j del -> run_reads key cipher open k st conn caps = (rs, st', conn') ->
  AeadForgery \/ exists j', rinv st' j' (del ++ concat (map rres_data rs)).
Proof.
  induction caps as [|cap caps IH]; intros st j del conn rs st' conn' I E.
  - cbn in E. injection E as <- <- <-. right. exists j. cbn. rewrite app_nil_r. exact I.
  - rewrite run_reads_cons in E.
    destruct (read key cipher open k st cap conn) as [[st1 r] conn1] eqn:E1.
    destruct (run_reads key cipher open k st1 conn1 caps) as [[rs2 st2] conn2] eqn:E2.
    injection E as <- <- <-.
    destruct (read_step _ _ _ _ _ _ _ _ I E1) as [F | [(_ & _ & I1) | (_ & j1 & I1)]];
      [left; exact F | |].
    + destruct (IH _ _ _ _ _ _ _ I1 E2) as [F | (j2 & I2)]; [left; exact F|].
      right. exists j2. cbn [map concat]. rewrite app_assoc. exact I2.
    + destruct (IH _ _ _ _ _ _ _ I1 E2) as [F | (j2 & I2)]; [left; exact F|].
      right. exists j2. cbn [map concat]. rewrite app_assoc. exact I2.
Qed.

Lemma rinv_prefix : forall st j del, rinv st j del ->
  exists rest, concat chunks = del ++ rest.
Proof.
  intros st j del [_ _ I3]. destruct (concat_firstn_prefix chunks j) as (rest & E).
  exists (r_buf st ++ rest). rewrite E, <- I3, app_assoc. reflexivity.
Qed.

Lemma rinv_init : rinv {| r_buf := []; r_nonce := nonce_of pre c0 |} 0 [].
Proof. constructor; cbn; [rewrite N.add_0_r; reflexivity | lia | reflexivity]. Qed.

Lemma buf_cases : forall st : rstate, r_buf st = [] \/ r_buf st <> [].
Proof. intro st. destruct (r_buf st); [left; reflexivity | right; discriminate]. Qed.

Lemma sent_length : length sent = length chunks.
Proof. unfold sent. rewrite map_length. apply seal_chunks_length. Qed.

Lemma skipn_nth_cons : forall {A} (l : list A) j x,
  nth_error l j = Some x -> skipn j l = x :: skipn (S j) l.
Proof.
  induction l as [|a l IH]; intros [|j] x E; cbn in E; try discriminate.
  - injection E as ->. reflexivity.
  - cbn [skipn]. apply IH. exact E.
Qed.

(* the untouched wire, closed after the last frame: conn = the frames not yet consumed *)
Lemma run_reads_genuine : forall caps st j del rs st' conn',
  rinv st j del ->
  run_reads key cipher open k st (map EvBlock (skipn j sent)) caps = (rs, st', conn') ->
  exists j', rinv st' j' (del ++ concat (map rres_data rs)) /\ conn' = map EvBlock (skipn j' sent) /\ Forall (fun r => rres_ok r = true \/ r = RErrIO) rs /\ (In RErrIO rs -> del ++ concat (map rres_data rs) = concat chunks).
Proof.
  induction caps as [|cap caps IH]; intros st j del rs st' conn' I E.
  - cbn in E. injection E as <- <- <-. exists j. cbn [map concat]. rewrite app_nil_r.
    split; [exact I|]. split; [reflexivity|]. split; [constructor|]. intros [].
  - rewrite run_reads_cons in E.
    destruct (read key cipher open k st cap (map EvBlock (skipn j sent))) as [[st1 r] conn1] eqn:E1.
    destruct (run_reads key cipher open k st1 conn1 caps) as [[rs2 st2] conn2] eqn:E2.
    injection E as <- <- <-.
    destruct (buf_cases st) as [Hb|Hb].
    2:{ rewrite read_buf in E1 by exact Hb. injection E1 as <- <- <-.
        destruct (IH _ _ _ _ _ _ (rinv_buf st j del cap I) E2) as (j2 & I2 & C2 & F2 & D2).
        exists j2. cbn [map concat rres_data]. rewrite app_assoc.
        split; [exact I2|]. split; [exact C2|]. split.
        - constructor; [left; reflexivity | exact F2].
        - intros [X|X]; [discriminate | auto]. }
    destruct (nth_error chunks j) as [ch|] eqn:Ech.
    + pose proof (sent_nth _ _ Ech) as Es.
      rewrite (skipn_nth_cons _ _ _ Es) in E1. cbn [map] in E1.
      rewrite (read_accept st j del cap _ ch _ I Hb Ech Es) in E1. injection E1 as <- <- <-.
      destruct (IH _ _ _ _ _ _ (rinv_accept st j del cap ch I Hb Ech) E2) as (j2 & I2 & C2 & F2 & D2).
      exists j2. cbn [map concat rres_data]. rewrite app_assoc.
      split; [exact I2|]. split; [exact C2|]. split.
      * constructor; [left; reflexivity | exact F2].
      * intros [X|X]; [discriminate | auto].
    + assert (Hj : j = length chunks).
      { apply nth_error_None in Ech. pose proof (ri_j _ _ _ I). lia. }
      assert (Hnil : skipn j sent = []) by (apply skipn_all2; rewrite sent_length; lia).
      rewrite Hnil in E1. cbn [map] in E1.
      unfold read in E1. rewrite Hb in E1. change (0 <? length (@nil N))%nat with false in E1.
      cbv iota in E1. injection E1 as <- <- <-.
      change (@nil (conn_ev cipher)) with (map (@EvBlock cipher) []) in E2. rewrite <- Hnil in E2.
      destruct (IH _ _ _ _ _ _ I E2) as (j2 & I2 & C2 & F2 & D2).
      exists j2. cbn [map concat rres_data app].
      split; [exact I2|]. split; [exact C2|]. split.
      * constructor; [right; reflexivity | exact F2].
      * intros _.
        assert (Hdel : del = concat chunks).
        { pose proof (ri_data _ _ _ I) as X. rewrite Hb, app_nil_r, Hj, firstn_all in X. exact X. }
        pose proof (ri_data _ _ _ I2) as Y.
        destruct (concat_firstn_prefix chunks j2) as (rest & Z).
        rewrite <- Y, <- Hdel in Z.
        assert (W : del ++ [] = del ++ (concat (map rres_data rs2) ++ r_buf st2 ++ rest)).
        { rewrite app_nil_r. rewrite Z at 1. rewrite <- !app_assoc. reflexivity. }
        apply app_inv_head in W. symmetry in W. apply app_eq_nil in W. destruct W as [W _].
        rewrite W, app_nil_r. exact Hdel.
Qed.
End StreamProofs.

Arguments all_calls_t {cipher} W.
Arguments all_wire_t {cipher} W.
Arguments call_nc {cipher} s.
Arguments all_calls {cipher} W.
Arguments all_sent {cipher} W.
Arguments all_wire {cipher} W.
Arguments no_panic {cipher} W.

(* a (nonce, ciphertext) that opens under k although it is not one of [wire] *)
Definition AeadForgeryOn {key cipher : Type} (open : key -> bytes -> cipher -> option bytes)
    (k : key) (wire : list (bytes * cipher)) : Prop :=
  exists n c p, open k n c = Some p /\ ~ In (n, c) wire.

Definition reader_init (nonce : bytes) : rstate := {| r_buf := []; r_nonce := nonce |}.

Section Final.
Variables key cipher : Type.
Variable seal : key -> bytes -> bytes -> cipher.
Variable open : key -> bytes -> cipher -> option bytes.
Variable pool : bytes -> bytes.
Variable k : key.
Variable pre : bytes.
Hypothesis Hpre : length pre = 4%nat.
Hypothesis open_seal : forall n p, open k n (seal k n p) = Some p.

Lemma stream_roundtrip : forall c0 ws caps rs st' conn', c0 <= max_uint64 ->
  let W := run_writes key cipher seal pool k (nonce_of pre c0) ws in
  no_panic W ->
  run_reads key cipher open k (reader_init (nonce_of pre c0)) (map EvBlock (all_sent W)) caps
    = (rs, st', conn') ->
  (exists rest, concat ws = concat (map rres_data rs) ++ rest) /\
  Forall (fun r => rres_ok r = true \/ r = RErrIO) rs /\
  (In RErrIO rs -> concat (map rres_data rs) = concat ws).
Proof.
  intros c0 ws caps rs st' conn' Hc W NP E.
  destruct (run_writes_spec key cipher seal pool k pre Hpre ws c0 Hc) as (chunks & extra & S).
  fold W in S. destruct S as [S1 S2 S3 S3w S4 S5 S6].
  destruct S6 as (rest & D1 & D2). specialize (D2 NP). subst rest. rewrite app_nil_r in D1.
  rewrite S2 in E.
  destruct (run_reads_genuine key cipher seal open pool k pre Hpre open_seal c0 chunks S1 S4
              caps (reader_init (nonce_of pre c0)) 0%nat [] rs st' conn'
              (rinv_init pre Hpre c0 chunks S4) E) as (j' & I & _ & F & D).
  cbn [app] in I, D. split; [|split].
  - rewrite D1. eapply rinv_prefix. exact I.
  - exact F.
  - intro H. rewrite D1. auto.
Qed.

Variable cipher_eq_dec : forall a b : cipher, {a = b} + {a <> b}.

Lemma tamper_evident : forall c0 ws conn caps rs st' conn', c0 <= max_uint64 ->
  let W := run_writes key cipher seal pool k (nonce_of pre c0) ws in
  run_reads key cipher open k (reader_init (nonce_of pre c0)) conn caps = (rs, st', conn') ->
  (exists rest, concat ws = concat (map rres_data rs) ++ rest)
  \/ AeadForgeryOn open k (all_wire W).
Proof.
  intros c0 ws conn caps rs st' conn' Hc W E.
  destruct (run_writes_spec key cipher seal pool k pre Hpre ws c0 Hc) as (chunks & extra & S).
  fold W in S. destruct S as [S1 S2 S3 S3w S4 S5 S6].
  destruct (run_reads_inv key cipher seal open pool k pre Hpre open_seal cipher_eq_dec c0 chunks S1 S4
              caps (reader_init (nonce_of pre c0)) 0%nat [] conn rs st' conn'
              (rinv_init pre Hpre c0 chunks S4) E) as [F | (j' & I)].
  - right. unfold AeadForgeryOn. rewrite S3w. exact F.
  - left. cbn [app] in I. destruct (rinv_prefix _ _ _ _ _ _ I) as (r1 & E1).
    destruct S6 as (r2 & E2 & _). exists (r1 ++ r2). rewrite E2, E1, app_assoc. reflexivity.
Qed.
End Final.

(* ------------------------------------------------------------------ more on the stream *)
Section Final2.
Variables key cipher : Type.
Variable seal : key -> bytes -> bytes -> cipher.
Variable open : key -> bytes -> cipher -> option bytes.
Variable pool : bytes -> bytes.
Variable k : key.
Variable pre : bytes.
Hypothesis Hpre : length pre = 4%nat.
Hypothesis open_seal : forall n p, open k n (seal k n p) = Some p.
Variable cipher_eq_dec : forall a b : cipher, {a = b} + {a <> b}.

(* after any history, a Read that has to go to the wire accepts exactly the frame that is next
   in the writer's sequence; any other block is refused and leaves the reader as it was *)
Lemma tamper_detected : forall c0 ws conn caps rs st conn1 cap c rest st' r conn2,
  c0 <= max_uint64 ->
  let W := run_writes key cipher seal pool k (nonce_of pre c0) ws in
  run_reads key cipher open k (reader_init (nonce_of pre c0)) conn caps = (rs, st, conn1) ->
  r_buf st = [] ->
  read key cipher open k st cap (EvBlock c :: rest) = (st', r, conn2) ->
  AeadForgeryOn open k (all_wire W) \/
  exists j, r_nonce st = nonce_of pre (c0 + N.of_nat j) /\
    ((nth_error (all_sent W) j = Some c /\ rres_ok r = true /\
      r_nonce st' = nonce_of pre (c0 + N.of_nat (S j)))
     \/ (nth_error (all_sent W) j <> Some c /\ r = RErrDecrypt /\ st' = st)).
Proof.
  intros c0 ws conn caps rs st conn1 cap c rest st' r conn2 Hc W E Hb Er.
  destruct (run_writes_spec key cipher seal pool k pre Hpre ws c0 Hc) as (chunks & extra & S).
  fold W in S. destruct S as [S1 S2 S3 S3w S4 S5 S6].
  destruct (run_reads_inv key cipher seal open pool k pre Hpre open_seal cipher_eq_dec c0 chunks S1 S4
              caps (reader_init (nonce_of pre c0)) 0%nat [] conn rs st conn1
              (rinv_init pre Hpre c0 chunks S4) E) as [F | (j & I)].
  { left. unfold AeadForgeryOn. rewrite S3w. exact F. }
  assert (Hdec : {nth_error (all_sent W) j = Some c} + {nth_error (all_sent W) j <> Some c}).
  { destruct (nth_error (all_sent W) j) as [x|]; [|right; discriminate].
    destruct (cipher_eq_dec x c) as [->|N]; [left; reflexivity | right; congruence]. }
  destruct Hdec as [Y|Nn].
  - right. exists j. split; [apply (ri_nonce _ _ _ _ _ _ I)|]. left.
    rewrite S2 in Y.
    destruct (nth_error chunks j) as [ch|] eqn:Ech.
    + rewrite (read_accept key cipher seal open pool k pre Hpre open_seal c0 chunks S1 S4
                 st j _ cap rest ch c I Hb Ech Y) in Er.
      injection Er as <- <- <-. rewrite <- S2 in Y. auto.
    + exfalso. apply nth_error_None in Ech.
      assert (X : nth_error (map sl_out (seal_chunks key cipher seal pool k pre c0 chunks)) j = None).
      { apply nth_error_None. rewrite map_length, seal_chunks_length. exact Ech. }
      unfold sent in Y. congruence.
  - rewrite S2 in Nn.
    destruct (read_reject key cipher seal open pool k pre Hpre cipher_eq_dec c0 chunks S4
                st j _ cap rest c I Hb Nn) as [F | Er'].
    + left. unfold AeadForgeryOn. rewrite S3w. exact F.
    + right. exists j. split; [apply (ri_nonce _ _ _ _ _ _ I)|]. right.
      rewrite Er' in Er. injection Er as <- <- <-. rewrite S2. auto.
Qed.

(* every Seal call of a session uses its own nonce *)
Lemma nonce_unique : forall c0 ws, c0 <= max_uint64 ->
  NoDup (map sl_nonce (all_calls (run_writes key cipher seal pool k (nonce_of pre c0) ws))).
Proof. intros. apply session_nonces_nodup; assumption. Qed.
End Final2.

(* ------------------------------------------------------------------ the writer over a failing transport *)
(* what a writing session looks like from outside, field by field *)
Definition wt_view {cipher} (w : wres_t cipher) :=
  (wt_n w, wt_calls w, map fst (wt_wire w), wt_nonce w, wt_panic w, wt_err w).
Definition w_view {cipher} (w : wres cipher) :=
  (w_n w, w_calls w, w_wire w, w_nonce w, w_panic w, false).

(* the chunk a reader takes out of a frame's plaintext, and the plaintext stream carried by
   the frames handed to the transport *)
Definition frame_chunk (frame : bytes) : bytes :=
  firstn (N.to_nat (le_dec (firstn 4 frame))) (skipn data_len_size frame).
Definition handed_stream {cipher} (W : list (wres_t cipher)) : bytes :=
  concat (map (fun s => frame_chunk (sl_plain s)) (firstn (length (all_wire_t W)) (all_calls_t W))).

Section Final3.
Variables key cipher : Type.
Variable seal : key -> bytes -> bytes -> cipher.
Variable open : key -> bytes -> cipher -> option bytes.
Variable pool : bytes -> bytes.
Variable k : key.
Variable pre : bytes.
Hypothesis Hpre : length pre = 4%nat.

(* every Seal call of a session uses its own nonce, whatever the transport does with the frames;
   the frames handed to the transport are the Seal outputs under counters c0, c0+1, ... *)
Lemma nonce_unique_t : forall c0 ws outs, c0 <= max_uint64 ->
  let W := run_writes_t key cipher seal pool k (nonce_of pre c0) ws outs in
  NoDup (map sl_nonce (all_calls_t W)) /\
  map (fun x : bytes * cipher * tout => fst (fst x)) (all_wire_t W)
    = map (nonce_of pre) (nseq c0 (length (all_wire_t W))) /\
  exists last, (length last <= 1)%nat /\
    map (fun s => (sl_nonce s, sl_out s)) (all_calls_t W) = map fst (all_wire_t W) ++ last.
Proof.
  intros c0 ws outs Hc W.
  destruct (run_writes_t_spec key cipher seal pool k pre Hpre ws c0 outs Hc) as (chunks & extra & S).
  fold W in S. destruct S as [S1 S2 S3 S4 S5].
  assert (HL : length (all_wire_t W) = length chunks).
  { rewrite <- (map_length fst), S3, map_length. apply seal_chunks_length. }
  split; [|split].
  - rewrite S2. apply seal_chunks_nodup; try exact Hpre. rewrite app_length, Nat2N.inj_add. lia.
  - rewrite HL, <- (seal_chunks_nonces key cipher seal pool k pre chunks c0).
    rewrite <- (map_map fst fst), S3, map_map. reflexivity.
  - exists (map call_nc (seal_chunks key cipher seal pool k pre (c0 + N.of_nat (length chunks)) extra)).
    split.
    + rewrite map_length, seal_chunks_length. exact S5.
    + rewrite S2, S3, seal_chunks_app, map_app; [reflexivity | exact Hpre].
Qed.

(* the state after a Write: sendNonce has moved past every frame that was sealed, also past the
   one whose conn.Write failed *)
Lemma nonce_advances : forall c d outs, c <= max_uint64 ->
  let w := write_t key cipher seal pool k (nonce_of pre c) d outs in
  wt_panic w = false ->
  wt_nonce w = nonce_of pre (c + N.of_nat (length (wt_calls w))) /\
  length (wt_wire w) = length (wt_calls w).
Proof.
  intros c d outs Hc w P.
  destruct (write_t_spec_ex key cipher seal pool k pre Hpre d c outs Hc) as (chunks & extra & S).
  fold w in S. destruct S as [S1 S2 S3 S4 S7 S8].
  destruct (S7 P) as [-> Hn]. rewrite app_nil_r in S2.
  rewrite S2, seal_chunks_length. split; [exact Hn|].
  rewrite <- (map_length fst), S3, map_length. apply seal_chunks_length.
Qed.

Lemma no_fault_same : forall ws nonce,
  map wt_view (run_writes_t key cipher seal pool k nonce ws []) =
  map w_view (run_writes key cipher seal pool k nonce ws).
Proof.
  induction ws as [|d ws IH]; intro nonce; [reflexivity|].
  cbn [run_writes_t run_writes map]. unfold write_t, write.
  destruct (write_loop_t_nofault key cipher seal pool k (S (length d)) nonce d)
    as (H1 & H2 & H3 & H4 & H5 & H6 & H7).
  set (w := write_loop_t key cipher seal pool (S (length d)) k nonce d []) in *.
  set (w0 := write_loop key cipher seal pool (S (length d)) k nonce d) in *.
  f_equal.
  - unfold wt_view, w_view. rewrite H1, H2, H3, H4, H5, H6. reflexivity.
  - rewrite H5. destruct (w_panic w0); [reflexivity|]. rewrite H7, H4. apply IH.
Qed.

Hypothesis open_seal : forall n p, open k n (seal k n p) = Some p.
Variable cipher_eq_dec : forall a b : cipher, {a = b} + {a <> b}.

Lemma seal_chunks_plain : forall chunks c, Forall (chunk_ok) chunks ->
  map (fun s => frame_chunk (sl_plain s)) (seal_chunks key cipher seal pool k pre c chunks) = chunks.
Proof.
  induction chunks as [|ch r IH]; intros c F; [reflexivity|].
  inversion F as [|? ? [H1 H2] F']; subst.
  cbn [seal_chunks map sl_plain]. f_equal; [|apply IH; exact F'].
  unfold frame_chunk. rewrite (frame_parse_len _ _ H2), Nat2N.id. apply frame_parse_chunk. exact H2.
Qed.

(* the reader of a session whose writer's transport failed here and there: whatever reaches it,
   it returns a prefix of the plaintext carried by the frames handed to the transport *)
Lemma tamper_evident_t : forall c0 ws outs conn caps rs st' conn', c0 <= max_uint64 ->
  let W := run_writes_t key cipher seal pool k (nonce_of pre c0) ws outs in
  run_reads key cipher open k (reader_init (nonce_of pre c0)) conn caps = (rs, st', conn') ->
  (exists rest, handed_stream W = concat (map rres_data rs) ++ rest)
  \/ AeadForgeryOn open k (map fst (all_wire_t W)).
Proof.
  intros c0 ws outs conn caps rs st' conn' Hc W E.
  destruct (run_writes_t_spec key cipher seal pool k pre Hpre ws c0 outs Hc) as (chunks & extra & S).
  fold W in S. destruct S as [S1 S2 S3 S4 S5].
  assert (HL : length (all_wire_t W) = length chunks).
  { rewrite <- (map_length fst), S3, map_length. apply seal_chunks_length. }
  destruct (run_reads_inv key cipher seal open pool k pre Hpre open_seal cipher_eq_dec c0 chunks S1 S4
              caps (reader_init (nonce_of pre c0)) 0%nat [] conn rs st' conn'
              (rinv_init pre Hpre c0 chunks S4) E) as [F | (j' & I)].
  - right. unfold AeadForgeryOn. rewrite S3. exact F.
  - left. cbn [app] in I. destruct (rinv_prefix _ _ _ _ _ _ I) as (r1 & E1).
    exists r1. unfold handed_stream. rewrite HL, S2, seal_chunks_app by exact Hpre.
    rewrite firstn_app_len by apply seal_chunks_length.
    rewrite (seal_chunks_plain chunks c0 S1). exact E1.
Qed.
End Final3.

Lemma nonce_no_wrap : forall pre c, length pre = 4%nat -> c <= max_uint64 ->
  match incr_nonce (nonce_of pre c) with
  | None => c = max_uint64
  | Some n' => n' = nonce_of pre (c + 1) /\ c + 1 <= max_uint64
  end.
Proof.
  intros pre c Hp Hc. rewrite (incr_nonce_of pre c Hp (le_max_lt c Hc)).
  destruct (c =? max_uint64) eqn:E.
  - apply N.eqb_eq. exact E.
  - apply N.eqb_neq in E. split; [reflexivity | lia].
Qed.

(* ------------------------------------------------------------------ handshake *)
Lemma bytes_lt_antisym : forall a b, bytes_lt a b = true -> bytes_lt b a = false.
Proof.
  induction a as [|x a IH]; intros [|y b] H; cbn [bytes_lt] in *; try discriminate; try reflexivity.
  destruct (x <? y) eqn:E1.
  - apply N.ltb_lt in E1. replace (y <? x) with false by (symmetry; apply N.ltb_ge; lia). reflexivity.
  - destruct (y <? x) eqn:E2; [discriminate|]. apply IH. exact H.
Qed.
Lemma bytes_lt_total : forall a b, length a = length b ->
  bytes_lt a b = false -> bytes_lt b a = false -> a = b.
Proof.
  induction a as [|x a IH]; intros [|y b] L H1 H2; cbn [bytes_lt length] in *; try discriminate;
    try reflexivity.
  destruct (x <? y) eqn:E1; [discriminate|]. destruct (y <? x) eqn:E2; [discriminate|].
  apply N.ltb_ge in E1. apply N.ltb_ge in E2. assert (x = y) by lia. subst y.
  f_equal. apply IH; [lia | assumption | assumption].
Qed.
Lemma sort32_comm : forall a b, length a = length b -> sort32 a b = sort32 b a.
Proof.
  intros a b L. unfold sort32.
  destruct (bytes_lt a b) eqn:E1.
  - rewrite (bytes_lt_antisym _ _ E1). reflexivity.
  - destruct (bytes_lt b a) eqn:E2; [reflexivity|].
    rewrite (bytes_lt_total a b L E1 E2). reflexivity.
Qed.
Lemma pad32_id : forall v, length v = 32%nat -> pad32 v = v.
Proof. intros v L. unfold pad32. apply firstn_app_len. exact L. Qed.

Definition SigForgery (verify : bytes -> bytes -> bytes -> bool) (pk : bytes) (signed : list bytes) : Prop :=
  exists m s, verify pk m s = true /\ ~ In m signed.
Definition TranscriptCollision (transcript : bytes -> bytes -> bytes -> bytes) : Prop :=
  exists a b c a' b' c', (a, b, c) <> (a', b', c') /\ transcript a b c = transcript a' b' c'.

Section HandshakeProofs.
Variables epriv lpriv : Type.
Variable eph_pub : epriv -> bytes.
Variable dh : epriv -> bytes -> option bytes.
Variable transcript : bytes -> bytes -> bytes -> bytes.
Variable hkdf : bytes -> bytes.
Variable pub_of : lpriv -> bytes.
Variable sign : lpriv -> bytes -> bytes.
Variable verify : bytes -> bytes -> bytes -> bool.

Notation msc := (make_secret_connection epriv lpriv eph_pub dh transcript hkdf verify).
Notation hst := (hs_transcript epriv eph_pub dh).
Notation hsc := (hs_signed_challenge epriv eph_pub dh transcript).

(* what a successful MakeSecretConnection established *)
Lemma msc_ok : forall loc eph eph_in auth_in s,
  msc loc eph eph_in auth_in = HsOk s ->
  exists am, auth_in = Some am /\ am_type am = KEd25519 /\ s_rem_pub s = am_key am /\
    verify (am_key am) (s_challenge s) (am_sig am) = true /\
    hst eph eph_in = Some (s_lo s, s_hi s, s_dh s, s_loc_is_least s) /\
    s_challenge s = transcript (s_lo s) (s_hi s) (s_dh s) /\
    hsc eph eph_in = Some (s_challenge s) /\
    (s_recv_key s, s_send_key s) = derive_secrets hkdf (s_dh s) (s_loc_is_least s).
Proof.
  intros loc eph eph_in auth_in s H. unfold make_secret_connection in H.
  unfold hs_signed_challenge, hs_transcript.
  destruct eph_in as [v|]; [|discriminate].
  destruct (sort32 (eph_pub eph) (pad32 v)) as [lo hi] eqn:Es.
  destruct (dh eph (pad32 v)) as [dhs|]; [|discriminate].
  destruct (derive_secrets hkdf dhs (bytes_eqb (eph_pub eph) lo)) as [rk sk] eqn:Ed.
  destruct auth_in as [am|]; [|discriminate].
  destruct (am_type am) eqn:Et; try discriminate.
  destruct (verify (am_key am) (transcript lo hi dhs) (am_sig am)) eqn:Ev; [|discriminate].
  injection H as <-. cbn [s_lo s_hi s_dh s_loc_is_least s_challenge s_rem_pub s_recv_key s_send_key].
  exists am. rewrite Ed. repeat split; auto.
Qed.

Definition signed_by (sessions : list (epriv * option bytes)) : list bytes :=
  flat_map (fun '(e, i) => match hsc e i with Some ch => [ch] | None => [] end) sessions.

Lemma bytes_eq_dec : forall a b : bytes, {a = b} + {a <> b}.
Proof. apply list_eq_dec. apply N.eq_dec. Qed.

(* authentication *)
Lemma auth : forall loc eph eph_in auth_in s (sessionsB : list (epriv * option bytes)),
  msc loc eph eph_in auth_in = HsOk s ->
  (exists ephB inB least, In (ephB, inB) sessionsB /\
      hst ephB inB = Some (s_lo s, s_hi s, s_dh s, least))
  \/ SigForgery verify (s_rem_pub s) (signed_by sessionsB)
  \/ TranscriptCollision transcript.
Proof.
  intros loc eph eph_in auth_in s sessionsB H.
  destruct (msc_ok _ _ _ _ _ H) as (am & _ & _ & Ek & Ev & _ & Ec & _ & _).
  destruct (in_dec bytes_eq_dec (s_challenge s) (signed_by sessionsB)) as [Hin|Hnin].
  2:{ right. left. exists (s_challenge s), (am_sig am). rewrite Ek. auto. }
  unfold signed_by in Hin. apply in_flat_map in Hin. destruct Hin as ([eB iB] & HB & Hc).
  unfold hs_signed_challenge in Hc.
  destruct (hst eB iB) as [[[[lo hi] d] least]|] eqn:Et; [|contradiction].
  destruct Hc as [Hc|[]].
  assert (Dec : {(lo, hi, d) = (s_lo s, s_hi s, s_dh s)} + {(lo, hi, d) <> (s_lo s, s_hi s, s_dh s)}).
  { destruct (bytes_eq_dec lo (s_lo s)) as [->|]; [|right; congruence].
    destruct (bytes_eq_dec hi (s_hi s)) as [->|]; [|right; congruence].
    destruct (bytes_eq_dec d (s_dh s)) as [->|]; [left; reflexivity | right; congruence]. }
  destruct Dec as [E|N].
  - left. exists eB, iB, least. split; [exact HB|]. injection E as <- <- <-. exact Et.
  - right. right. exists lo, hi, d, (s_lo s), (s_hi s), (s_dh s). split; [exact N|].
    rewrite Hc, Ec. reflexivity.
Qed.

(* a low-order point is refused *)
Lemma low_order_rejected : forall loc eph v auth_in,
  dh eph (pad32 v) = None -> msc loc eph (Some v) auth_in = HsErr HsLowOrder.
Proof.
  intros loc eph v auth_in H. unfold make_secret_connection.
  destruct (sort32 (eph_pub eph) (pad32 v)). rewrite H. reflexivity.
Qed.

(* two honest ends that received each other's ephemeral key *)
Hypothesis dh_comm : forall a b, dh a (eph_pub b) = dh b (eph_pub a).
Hypothesis eph_pub_len : forall a, length (eph_pub a) = 32%nat.

Lemma honest_agree : forall ephA ephB, eph_pub ephA <> eph_pub ephB ->
  match hst ephA (Some (eph_pub ephB)), hst ephB (Some (eph_pub ephA)) with
  | Some (lo, hi, d, least), Some (lo', hi', d', least') =>
      lo = lo' /\ hi = hi' /\ d = d' /\ least = negb least' /\
      fst (derive_secrets hkdf d least) = snd (derive_secrets hkdf d' least') /\
      snd (derive_secrets hkdf d least) = fst (derive_secrets hkdf d' least')
  | None, None => True
  | _, _ => False
  end.
Proof.
  intros a b Hne. unfold hs_transcript.
  rewrite !pad32_id by apply eph_pub_len.
  rewrite (sort32_comm (eph_pub b) (eph_pub a)) by (rewrite !eph_pub_len; reflexivity).
  rewrite (dh_comm b a).
  destruct (sort32 (eph_pub a) (eph_pub b)) as [lo hi] eqn:Es.
  destruct (dh a (eph_pub b)) as [d|]; [|exact I].
  assert (Hl : bytes_eqb (eph_pub a) lo = negb (bytes_eqb (eph_pub b) lo)).
  { unfold sort32 in Es. destruct (bytes_lt (eph_pub a) (eph_pub b)); injection Es as <- <-.
    - rewrite bytes_eqb_refl. destruct (bytes_eqb (eph_pub b) (eph_pub a)) eqn:E; [|reflexivity].
      apply bytes_eqb_eq in E. congruence.
    - rewrite bytes_eqb_refl. destruct (bytes_eqb (eph_pub a) (eph_pub b)) eqn:E; [|reflexivity].
      apply bytes_eqb_eq in E. congruence. }
  rewrite Hl. repeat split; auto.
  - unfold derive_secrets. destruct (bytes_eqb (eph_pub b) lo); reflexivity.
  - unfold derive_secrets. destruct (bytes_eqb (eph_pub b) lo); reflexivity.
Qed.
End HandshakeProofs.

Open Scope N_scope.

(* ------------------------------------------------------------------ upgrade *)
Lemma upgrade_ids :
  forall (id_of : bytes -> bytes) sc dialed ni valid own compat conn_id ni_id,
    upgrade id_of sc dialed ni valid own compat = UpOk conn_id ni_id ->
    exists rem_pub, sc = Some rem_pub /\ conn_id = id_of rem_pub /\
      ni = Some ni_id /\ ni_id = conn_id /\
      (forall d, dialed = Some d -> d = conn_id) /\
      own <> ni_id /\ valid = true /\ compat = true.
Proof.
  intros id_of sc dialed ni valid own compat conn_id ni_id H.
  unfold upgrade in H.
  destruct sc as [rp|]; [|discriminate].
  destruct (match dialed with Some d => negb (bytes_eqb (id_of rp) d) | None => false end) eqn:Ed;
    [discriminate|].
  destruct ni as [n|]; [|discriminate].
  destruct valid; cbn in H; [|discriminate].
  destruct (bytes_eqb (id_of rp) n) eqn:E1; cbn in H; [|discriminate].
  destruct (bytes_eqb own n) eqn:E2; [discriminate|].
  destruct compat; cbn in H; [|discriminate].
  injection H as <- <-.
  apply bytes_eqb_eq in E1.
  exists rp. repeat split; auto.
  - intros d ->. apply negb_false_iff in Ed. apply bytes_eqb_eq in Ed. auto.
  - intro E. subst own. rewrite bytes_eqb_refl in E2. discriminate.
Qed.
