(* C16 — Peer links are mutually authenticated and tamper-evident.
   Gallina transcription of p2p/conn/secret_connection.go (Write, Read, incrNonce, sort32,
   deriveSecrets, MakeSecretConnection) and of p2p/transport.go upgrade.  No proofs here.

   What is abstract (Section variables; ideal in the theorems, see Props.v):
     seal/open     ChaCha20-Poly1305 (cipher.AEAD Seal/Open with a 12-byte nonce, no AD)
     pool          the stale contents of the pooled buffer a frame is assembled in
                   (pool.Get does not zero: the padding of a frame is whatever was there)
     eph_pub, dh   X25519 base-point and scalar multiplication (dh = None: the "low order
                   point" error of curve25519.X25519)
     transcript    merlin transcript  lo, hi, dh |-> 32-byte challenge
     hkdf          HKDF-SHA256(dh) |-> 2*32+32 bytes
     sign/verify   ed25519
     id_of         PubKeyToID (hex of the first 20 bytes of SHA-256 of the key)
   What is exact: chunking, the frame layout (4-byte little-endian length, chunk, rest of the
   pooled buffer), the nonce layout (4 untouched bytes, 64-bit little-endian counter) and its
   overflow panic, recvBuffer carry-over, the order of the checks in Read, MakeSecretConnection
   and upgrade.

   The underlying net.Conn of the reader is modelled by what io.ReadFull(conn, sealedFrame)
   returns, call after call: a full block of totalFrameSize+aeadSizeOverhead bytes
   ([EvBlock c]) or an error ([EvErr]: EOF, short read, timeout).  Whatever an adversary does
   to the byte stream (edit, drop, duplicate, reorder, cut inside a frame, splice) reaches Read
   as such a sequence; the harness does the chopping.  The writer's net.Conn is modelled by the
   result of every conn.Write(sealedFrame), call after call: [TOk] or [TErr m] (an error after
   m bytes); [write_loop_t] is Write over such a transport, [write_loop] the case without
   failures. *)
From Coq Require Import List ZArith NArith Bool.
From TM Require Import Common.Hex Generated.Consts.
Import ListNotations.
Open Scope N_scope.

(* ------------------------------------------------------------------ constants (generated) *)
Definition data_len_size : nat := Z.to_nat sc_data_len_size.
Definition data_max_size : nat := Z.to_nat sc_data_max_size.
Definition total_frame_size : nat := Z.to_nat sc_total_frame_size.
Definition sealed_frame_size : nat := Z.to_nat (sc_aead_size_overhead + sc_total_frame_size).
Definition max_uint64 : N := 18446744073709551615.

(* ------------------------------------------------------------------ little endian *)
Fixpoint le_enc (n : nat) (c : N) : bytes :=
  match n with O => [] | S n' => (c mod 256) :: le_enc n' (c / 256) end.
Fixpoint le_dec (l : bytes) : N :=
  match l with [] => 0 | b :: r => b + 256 * le_dec r end.

(* incrNonce: counter := LittleEndian.Uint64(nonce[4:]); panic at MaxUint64; else
   PutUint64(nonce[4:], counter+1).  None = panic. *)
Definition incr_nonce (nonce : bytes) : option bytes :=
  let counter := le_dec (firstn 8 (skipn 4 nonce)) in
  if counter =? max_uint64 then None
  else Some (firstn 4 nonce ++ le_enc 8 (counter + 1)).

(* new([aeadNonceSize]byte) *)
Definition zero_nonce : bytes := repeat 0 (Z.to_nat sc_aead_nonce_size).

(* frame := pool.Get(totalFrameSize); PutUint32(frame, len chunk); copy(frame[4:], chunk) *)
Definition mk_frame (chunk stale : bytes) : bytes :=
  firstn total_frame_size
    (le_enc 4 (N.of_nat (length chunk)) ++ chunk ++ skipn (data_len_size + length chunk) stale).

(* what the underlying transport did with one conn.Write(sealedFrame):
   TOk      it returned (len(sealedFrame), nil)
   TErr m   it returned (m, err) with err != nil: the first m bytes of the sealed frame (0: nothing,
            sealed_frame_size: all of it) reached the wire before a write-deadline timeout, a
            temporary error, a broken pipe, ... *)
Inductive tout := TOk | TErr (m : nat).

Section Stream.
Variables key cipher : Type.
Variable seal : key -> bytes -> bytes -> cipher.          (* key, nonce, plaintext *)
Variable open : key -> bytes -> cipher -> option bytes.
Variable pool : bytes -> bytes.   (* stale buffer contents, indexed by the nonce of the frame *)

(* ------------------------------------------------------------------ Write *)
Record seal_call := { sl_nonce : bytes; sl_plain : bytes; sl_out : cipher }.
Record wres := {
  w_n : nat;                    (* bytes accepted *)
  w_calls : list seal_call;     (* every call of sendAead.Seal, in order *)
  w_sent : list cipher;         (* sealed frames handed to conn.Write, in order *)
  w_wire : list (bytes * cipher); (* the same with the nonce each was sealed under (log) *)
  w_nonce : bytes;              (* sendNonce afterwards *)
  w_panic : bool                (* incrNonce panicked *)
}.

(* the loop  for 0 < len(data) { chunk; frame; Seal; incrNonce; conn.Write; n += len(chunk) }
   fuel = number of iterations available (len(data)+1 suffices: every iteration eats >= 1 byte).
   Here conn.Write succeeds; [write_loop_t] below is the same loop over a transport whose
   conn.Write may fail (Props C16_nonce_unique speaks about that one, C16_no_fault_same ties
   the two together). *)
Fixpoint write_loop (fuel : nat) (k : key) (nonce : bytes) (data : bytes) : wres :=
  match fuel with
  | O => {| w_n := 0; w_calls := []; w_sent := []; w_wire := []; w_nonce := nonce; w_panic := false |}
  | S f =>
    if (0 <? length data)%nat then
      let chunk := if (data_max_size <? length data)%nat then firstn data_max_size data else data in
      let rest := if (data_max_size <? length data)%nat then skipn data_max_size data else [] in
      let frame := mk_frame chunk (pool nonce) in
      let sealed := seal k nonce frame in
      let call := {| sl_nonce := nonce; sl_plain := frame; sl_out := sealed |} in
      match incr_nonce nonce with
      | None => {| w_n := 0; w_calls := [call]; w_sent := []; w_wire := [];
                  w_nonce := nonce; w_panic := true |}
      | Some nonce' =>
        let r := write_loop f k nonce' rest in
        {| w_n := length chunk + w_n r; w_calls := call :: w_calls r; w_sent := sealed :: w_sent r;
           w_wire := (nonce, sealed) :: w_wire r;
           w_nonce := w_nonce r; w_panic := w_panic r |}
      end
    else {| w_n := 0; w_calls := []; w_sent := []; w_wire := []; w_nonce := nonce; w_panic := false |}
  end.

Definition write (k : key) (nonce : bytes) (data : bytes) : wres :=
  write_loop (S (length data)) k nonce data.

(* successive Write calls of one session; a panic ends it *)
Fixpoint run_writes (k : key) (nonce : bytes) (ws : list bytes) : list wres :=
  match ws with
  | [] => []
  | d :: r => let w := write k nonce d in
              w :: (if w_panic w then [] else run_writes k (w_nonce w) r)
  end.

(* ------------------------------------------------------------------ Write over a transport that fails *)
(* The same loop with the result of every sc.conn.Write taken from a script [outs] (one entry per
   call, in order; an exhausted script means success, so [outs = []] is the loop above).
       sc.sendAead.Seal(sealedFrame[:0], sc.sendNonce[:], frame, nil)
       incrNonce(sc.sendNonce)
       _, err = sc.conn.Write(sealedFrame)
       if err != nil { return err }        -> Write returns (n, err), n = the chunks before this one
   The state after a failed Write: sendNonce has ALREADY moved past the frame whose conn.Write
   failed; nothing else is remembered (the rest of [data] is dropped, the caller may call Write
   again on the same connection). *)
Record wres_t := {
  wt_n : nat;                       (* bytes accepted *)
  wt_calls : list seal_call;        (* every call of sendAead.Seal, in order *)
  wt_wire : list (bytes * cipher * tout);
                                    (* every sealed frame handed to conn.Write with the nonce it was
                                       sealed under and what the transport did with it *)
  wt_nonce : bytes;                 (* sendNonce afterwards *)
  wt_panic : bool;                  (* incrNonce panicked *)
  wt_err : bool;                    (* Write returned the transport's error *)
  wt_outs : list tout               (* the part of the script not yet consumed *)
}.

Definition wt_stop (nonce : bytes) (outs : list tout) : wres_t :=
  {| wt_n := 0; wt_calls := []; wt_wire := []; wt_nonce := nonce; wt_panic := false;
     wt_err := false; wt_outs := outs |}.

Fixpoint write_loop_t (fuel : nat) (k : key) (nonce : bytes) (data : bytes) (outs : list tout)
  : wres_t :=
  match fuel with
  | O => wt_stop nonce outs
  | S f =>
    if (0 <? length data)%nat then
      let chunk := if (data_max_size <? length data)%nat then firstn data_max_size data else data in
      let rest := if (data_max_size <? length data)%nat then skipn data_max_size data else [] in
      let frame := mk_frame chunk (pool nonce) in
      let sealed := seal k nonce frame in
      let call := {| sl_nonce := nonce; sl_plain := frame; sl_out := sealed |} in
      match incr_nonce nonce with
      | None => {| wt_n := 0; wt_calls := [call]; wt_wire := []; wt_nonce := nonce;
                  wt_panic := true; wt_err := false; wt_outs := outs |}
      | Some nonce' =>
        match outs with
        | TErr m :: outs' =>
          {| wt_n := 0; wt_calls := [call]; wt_wire := [(nonce, sealed, TErr m)];
             wt_nonce := nonce'; wt_panic := false; wt_err := true; wt_outs := outs' |}
        | _ =>
          let r := write_loop_t f k nonce' rest (tl outs) in
          {| wt_n := length chunk + wt_n r; wt_calls := call :: wt_calls r;
             wt_wire := (nonce, sealed, TOk) :: wt_wire r;
             wt_nonce := wt_nonce r; wt_panic := wt_panic r; wt_err := wt_err r;
             wt_outs := wt_outs r |}
        end
      end
    else wt_stop nonce outs
  end.

Definition write_t (k : key) (nonce : bytes) (data : bytes) (outs : list tout) : wres_t :=
  write_loop_t (S (length data)) k nonce data outs.

(* successive Write calls of one session over such a transport: a panic ends it, a transport
   error does not (the caller calls Write again on the same SecretConnection) *)
Fixpoint run_writes_t (k : key) (nonce : bytes) (ws : list bytes) (outs : list tout)
  : list wres_t :=
  match ws with
  | [] => []
  | d :: r => let w := write_t k nonce d outs in
              w :: (if wt_panic w then [] else run_writes_t k (wt_nonce w) r (wt_outs w))
  end.

(* ------------------------------------------------------------------ Read *)
Inductive conn_ev := EvBlock (c : cipher) | EvErr.
Record rstate := { r_buf : bytes; r_nonce : bytes }.
Inductive rres :=
| ROk (d : bytes)      (* n = len d, err = nil *)
| RErrIO               (* io.ReadFull failed *)
| RErrDecrypt          (* recvAead.Open failed *)
| RErrLen              (* chunkLength > dataMaxSize *)
| RPanic.              (* incrNonce panicked *)

Definition read (k : key) (st : rstate) (cap : nat) (conn : list conn_ev)
  : rstate * rres * list conn_ev :=
  if (0 <? length (r_buf st))%nat then
    (* n = copy(data, recvBuffer); recvBuffer = recvBuffer[n:] *)
    let n := Nat.min cap (length (r_buf st)) in
    ({| r_buf := skipn n (r_buf st); r_nonce := r_nonce st |}, ROk (firstn n (r_buf st)), conn)
  else
    match conn with
    | [] => (st, RErrIO, [])
    | EvErr :: conn' => (st, RErrIO, conn')
    | EvBlock c :: conn' =>
      match open k (r_nonce st) c with
      | None => (st, RErrDecrypt, conn')
      | Some frame =>
        match incr_nonce (r_nonce st) with
        | None => (st, RPanic, conn')
        | Some nonce' =>
          let chunk_length := le_dec (firstn 4 frame) in
          if N.of_nat data_max_size <? chunk_length then
            ({| r_buf := r_buf st; r_nonce := nonce' |}, RErrLen, conn')
          else
            let chunk := firstn (N.to_nat chunk_length) (skipn data_len_size frame) in
            let n := Nat.min cap (length chunk) in
            ({| r_buf := if (n <? length chunk)%nat then skipn n chunk else r_buf st;
                r_nonce := nonce' |}, ROk (firstn n chunk), conn')
        end
      end
    end.

(* successive Read calls with buffer sizes [caps] *)
Fixpoint run_reads (k : key) (st : rstate) (conn : list conn_ev) (caps : list nat)
  : list rres * rstate * list conn_ev :=
  match caps with
  | [] => ([], st, conn)
  | cap :: caps' =>
    let '(st', r, conn') := read k st cap conn in
    let '(rs, st'', conn'') := run_reads k st' conn' caps' in
    (r :: rs, st'', conn'')
  end.

Definition rres_data (r : rres) : bytes := match r with ROk d => d | _ => [] end.
Definition rres_ok (r : rres) : bool := match r with ROk _ => true | _ => false end.

End Stream.

Arguments EvBlock {cipher} c.
Arguments EvErr {cipher}.
Arguments sl_nonce {cipher} s.
Arguments sl_plain {cipher} s.
Arguments sl_out {cipher} s.
Arguments w_n {cipher} w.
Arguments w_calls {cipher} w.
Arguments w_sent {cipher} w.
Arguments w_wire {cipher} w.
Arguments w_nonce {cipher} w.
Arguments w_panic {cipher} w.
Arguments wt_n {cipher} w.
Arguments wt_calls {cipher} w.
Arguments wt_wire {cipher} w.
Arguments wt_nonce {cipher} w.
Arguments wt_panic {cipher} w.
Arguments wt_err {cipher} w.
Arguments wt_outs {cipher} w.

(* ------------------------------------------------------------------ handshake (symbolic) *)

(* bytes.Compare(a, b) < 0 *)
Fixpoint bytes_lt (a b : bytes) : bool :=
  match a, b with
  | _, [] => false
  | [], _ :: _ => true
  | x :: a', y :: b' => if x <? y then true else if y <? x then false else bytes_lt a' b'
  end.

(* sort32 *)
Definition sort32 (foo bar : bytes) : bytes * bytes :=
  if bytes_lt foo bar then (foo, bar) else (bar, foo).

(* var a [32]byte; copy(a[:], v) *)
Definition pad32 (v : bytes) : bytes := firstn 32 (v ++ repeat 0 32%nat).

Inductive keytype := KEd25519 | KSecp256k1 | KSr25519.
Record authmsg := { am_type : keytype; am_key : bytes; am_sig : bytes }.

Inductive hs_err :=
| HsEphIO        (* shareEphPubKey failed (I/O or decoding) *)
| HsLowOrder     (* curve25519.X25519 refused the remote point *)
| HsAuthIO       (* shareAuthSignature failed: I/O, decryption, decoding, unknown key type *)
| HsKeyType      (* remote key is not ed25519 *)
| HsBadSig.      (* challenge verification failed *)

Record session := {
  s_send_key : bytes; s_recv_key : bytes;
  s_challenge : bytes; s_rem_pub : bytes;
  s_loc_is_least : bool; s_lo : bytes; s_hi : bytes; s_dh : bytes
}.
Inductive hs_result := HsOk (s : session) | HsErr (e : hs_err).

Section Handshake.
Variables epriv lpriv : Type.
Variable eph_pub : epriv -> bytes.
Variable dh : epriv -> bytes -> option bytes.
Variable transcript : bytes -> bytes -> bytes -> bytes.
Variable hkdf : bytes -> bytes.
Variable pub_of : lpriv -> bytes.
Variable sign : lpriv -> bytes -> bytes.
Variable verify : bytes -> bytes -> bytes -> bool.    (* key, message, signature *)

Definition aead_key_size : nat := Z.to_nat sc_aead_key_size.

(* deriveSecrets: (recvSecret, sendSecret) *)
Definition derive_secrets (dhs : bytes) (loc_is_least : bool) : bytes * bytes :=
  let res := hkdf dhs in
  let k1 := firstn aead_key_size res in
  let k2 := firstn aead_key_size (skipn aead_key_size res) in
  if loc_is_least then (k1, k2) else (k2, k1).

(* the part of MakeSecretConnection up to and including signChallenge: the transcript and the
   challenge this party signs with its long-term key (None: it never gets that far) *)
Definition hs_transcript (eph : epriv) (eph_in : option bytes)
  : option (bytes * bytes * bytes * bool) :=
  match eph_in with
  | None => None
  | Some v =>
    let loc_eph_pub := eph_pub eph in
    let rem_eph_pub := pad32 v in
    let '(lo, hi) := sort32 loc_eph_pub rem_eph_pub in
    let loc_is_least := bytes_eqb loc_eph_pub lo in
    match dh eph rem_eph_pub with
    | None => None
    | Some dhs => Some (lo, hi, dhs, loc_is_least)
    end
  end.

Definition hs_signed_challenge (eph : epriv) (eph_in : option bytes) : option bytes :=
  match hs_transcript eph eph_in with
  | Some (lo, hi, dhs, _) => Some (transcript lo hi dhs)
  | None => None
  end.

(* AuthSigMessage this party sends (inside the encrypted channel) *)
Definition hs_auth_out (loc : lpriv) (eph : epriv) (eph_in : option bytes) : option authmsg :=
  match hs_signed_challenge eph eph_in with
  | Some ch => Some {| am_type := KEd25519; am_key := pub_of loc; am_sig := sign loc ch |}
  | None => None
  end.

(* MakeSecretConnection.  eph_in: what shareEphPubKey read (None = error);
   auth_in: what shareAuthSignature read and decoded (None = error). *)
Definition make_secret_connection (loc : lpriv) (eph : epriv)
    (eph_in : option bytes) (auth_in : option authmsg) : hs_result :=
  match eph_in with
  | None => HsErr HsEphIO
  | Some v =>
    let loc_eph_pub := eph_pub eph in
    let rem_eph_pub := pad32 v in
    let '(lo, hi) := sort32 loc_eph_pub rem_eph_pub in
    let loc_is_least := bytes_eqb loc_eph_pub lo in
    match dh eph rem_eph_pub with
    | None => HsErr HsLowOrder
    | Some dhs =>
      let '(recv_secret, send_secret) := derive_secrets dhs loc_is_least in
      let challenge := transcript lo hi dhs in
      match auth_in with
      | None => HsErr HsAuthIO
      | Some am =>
        match am_type am with
        | KEd25519 =>
          if verify (am_key am) challenge (am_sig am) then
            HsOk {| s_send_key := send_secret; s_recv_key := recv_secret;
                    s_challenge := challenge; s_rem_pub := am_key am;
                    s_loc_is_least := loc_is_least; s_lo := lo; s_hi := hi; s_dh := dhs |}
          else HsErr HsBadSig
        | _ => HsErr HsKeyType
        end
      end
    end
  end.

End Handshake.

(* ------------------------------------------------------------------ transport.upgrade *)
Inductive up_err :=
| UpSecretConn      (* secret conn failed                      isAuthFailure *)
| UpDialedID        (* conn.ID / dialed ID mismatch            isAuthFailure *)
| UpHandshake       (* NodeInfo exchange failed                isAuthFailure *)
| UpNodeInfoInvalid (* nodeInfo.Validate                       isNodeInfoInvalid *)
| UpNodeInfoID      (* conn.ID / NodeInfo.ID mismatch          isAuthFailure *)
| UpSelf            (*                                         isSelf *)
| UpIncompatible.   (*                                         isIncompatible *)
Inductive up_result := UpOk (conn_id ni_id : bytes) | UpErr (e : up_err).

Section Upgrade.
Variable id_of : bytes -> bytes.       (* PubKeyToID *)

(* sc: remote key authenticated by MakeSecretConnection (None = it failed);
   dialed: ID of the dialled address for outgoing connections;
   ni: ID in the NodeInfo received over the secret connection (None = exchange failed);
   valid / compat: results of nodeInfo.Validate() and CompatibleWith *)
Definition upgrade (sc : option bytes) (dialed : option bytes) (ni : option bytes)
    (valid : bool) (own_id : bytes) (compat : bool) : up_result :=
  match sc with
  | None => UpErr UpSecretConn
  | Some rem_pub =>
    let conn_id := id_of rem_pub in
    if match dialed with Some d => negb (bytes_eqb conn_id d) | None => false end
    then UpErr UpDialedID
    else match ni with
    | None => UpErr UpHandshake
    | Some ni_id =>
      if negb valid then UpErr UpNodeInfoInvalid
      else if negb (bytes_eqb conn_id ni_id) then UpErr UpNodeInfoID
      else if bytes_eqb own_id ni_id then UpErr UpSelf
      else if negb compat then UpErr UpIncompatible
      else UpOk conn_id ni_id
    end
  end.
End Upgrade.
