(* C16 — Peer links are mutually authenticated and tamper-evident.
   This file contains only the property statements; each is closed by [exact] of a lemma of
   Proofs.v and followed by Print Assumptions.

   The primitives are arbitrary functions.  ChaCha20-Poly1305 enters through
     open k n (seal k n p) = Some p            (correctness, a premise)
   and through the disjunct [AeadForgeryOn open k wire]: a (nonce, ciphertext) that opens under
   the key although the writer never put it on the wire under that nonce — built from the
   adversary's input, not assumed away.  ed25519 enters through the disjunct [SigForgery], the
   merlin transcript hash through [TranscriptCollision].  X25519 enters as [dh] (None = the
   low-order-point error) with commutativity as a premise of the agreement theorem only.

   The wire seen by a reader is any list of [EvBlock c] (io.ReadFull returned a full
   1044-byte block) and [EvErr] (it failed): every edit of the byte stream — change, reorder,
   replay, removal, truncation, cut inside a frame, splice from the other direction or from
   the handshake — is such a list. *)
From Coq Require Import List ZArith NArith Bool.
From TM Require Import Common.Hex Generated.Consts C16.Model C16.Proofs.
Import ListNotations.
Open Scope N_scope.

(* ---- both ends read exactly the bytes the other wrote, in order, however writes and reads are
   sized: on an untouched wire (closed after the last frame) the Reads return, concatenated, a
   prefix of the concatenated Writes; no Read fails except with an I/O error after the wire is
   exhausted, and such an error is only seen once every byte has been returned.
   [pre]: the 4 nonce bytes incrNonce never touches; c0: the counter the data phase starts at. *)
Theorem C16_stream_roundtrip :
  forall (key cipher : Type) (seal : key -> bytes -> bytes -> cipher)
         (open : key -> bytes -> cipher -> option bytes) (pool : bytes -> bytes) (k : key)
         (pre : bytes),
    length pre = 4%nat ->
    (forall n p, open k n (seal k n p) = Some p) ->
  forall (c0 : N) (ws : list bytes) (caps : list nat) rs st' conn',
    c0 <= max_uint64 ->
    let W := run_writes key cipher seal pool k (nonce_of pre c0) ws in
    no_panic W ->
    run_reads key cipher open k (reader_init (nonce_of pre c0)) (map EvBlock (all_sent W)) caps
      = (rs, st', conn') ->
    (exists rest, concat ws = concat (map rres_data rs) ++ rest) /\
    Forall (fun r => rres_ok r = true \/ r = RErrIO) rs /\
    (In RErrIO rs -> concat (map rres_data rs) = concat ws).
Proof. exact stream_roundtrip. Qed.
Print Assumptions C16_stream_roundtrip.

(* ---- whatever arrives on the wire, and however the Reads are sized (including Reads after
   errors), what Read returns is a prefix of what was written: never altered, reordered,
   repeated or skipped plaintext — or an AEAD forgery is exhibited. *)
Theorem C16_tamper_evident :
  forall (key cipher : Type) (seal : key -> bytes -> bytes -> cipher)
         (open : key -> bytes -> cipher -> option bytes) (pool : bytes -> bytes) (k : key)
         (pre : bytes),
    length pre = 4%nat ->
    (forall n p, open k n (seal k n p) = Some p) ->
    (forall a b : cipher, {a = b} + {a <> b}) ->
  forall (c0 : N) (ws : list bytes) (conn : list (conn_ev cipher)) (caps : list nat) rs st' conn',
    c0 <= max_uint64 ->
    let W := run_writes key cipher seal pool k (nonce_of pre c0) ws in
    run_reads key cipher open k (reader_init (nonce_of pre c0)) conn caps = (rs, st', conn') ->
    (exists rest, concat ws = concat (map rres_data rs) ++ rest)
    \/ AeadForgeryOn open k (all_wire W).
Proof. exact tamper_evident. Qed.
Print Assumptions C16_tamper_evident.

(* ---- any change makes the reader fail: after any history, a Read that goes to the wire
   succeeds only on the frame that is next in the writer's sequence (j frames accepted so far:
   the j-th); every other block — edited, out of order, replayed, from the other direction —
   gives a decryption error and leaves the reader exactly as it was (so it keeps failing until
   that very frame arrives; MConnection stops the peer at the first error). *)
Theorem C16_tamper_detected :
  forall (key cipher : Type) (seal : key -> bytes -> bytes -> cipher)
         (open : key -> bytes -> cipher -> option bytes) (pool : bytes -> bytes) (k : key)
         (pre : bytes),
    length pre = 4%nat ->
    (forall n p, open k n (seal k n p) = Some p) ->
    (forall a b : cipher, {a = b} + {a <> b}) ->
  forall c0 ws conn caps rs st conn1 cap c rest st' r conn2,
    c0 <= max_uint64 ->
    let W := run_writes key cipher seal pool k (nonce_of pre c0) ws in
    run_reads key cipher open k (reader_init (nonce_of pre c0)) conn caps = (rs, st, conn1) ->
    r_buf st = [] ->
    read key cipher open k st cap (EvBlock c :: rest) = (st', r, conn2) ->
    AeadForgeryOn open k (all_wire W) \/
    exists j, r_nonce st = nonce_of pre (c0 + N.of_nat j) /\
      ((nth_error (all_sent W) j = Some c /\ rres_ok r = true /\
        r_nonce st' = nonce_of pre (c0 + N.of_nat (S j)))
       \/ (nth_error (all_sent W) j <> Some c /\ r = RErrDecrypt /\ st' = st)).
Proof. exact tamper_detected. Qed.
Print Assumptions C16_tamper_detected.

(* ---- a nonce is never used twice: all Seal calls of a writing session (any number of Writes
   of any sizes, from any start counter, including the call that precedes an overflow panic)
   use pairwise different nonces — WHATEVER THE UNDERLYING TRANSPORT DOES with the sealed frames.
   [outs] scripts the result of every sc.conn.Write of the session: TOk, or TErr m = it returned an
   error after m bytes of the frame had reached the wire (nothing, a part, all of it; a write
   deadline, a temporary error, a broken pipe); after such an error Write returns it and the
   caller may call Write again on the same connection ([run_writes_t] goes on with the next
   Write).  Every frame handed to the transport — delivered, cut short or refused — was sealed
   under its own counter c0, c0+1, c0+2, ... in order, and is the output of one of the Seal
   calls (all of them are handed over, except the one that precedes an overflow panic).
   [outs = []] is the transport that never fails: C16_no_fault_same. *)
Theorem C16_nonce_unique :
  forall (key cipher : Type) (seal : key -> bytes -> bytes -> cipher) (pool : bytes -> bytes)
         (k : key) (pre : bytes),
    length pre = 4%nat ->
  forall (c0 : N) (ws : list bytes) (outs : list tout), c0 <= max_uint64 ->
    let W := run_writes_t key cipher seal pool k (nonce_of pre c0) ws outs in
    NoDup (map sl_nonce (all_calls_t W)) /\
    map (fun x : bytes * cipher * tout => fst (fst x)) (all_wire_t W)
      = map (nonce_of pre) (nseq c0 (length (all_wire_t W))) /\
    exists last, (length last <= 1)%nat /\
      map (fun s => (sl_nonce s, sl_out s)) (all_calls_t W) = map fst (all_wire_t W) ++ last.
Proof. exact nonce_unique_t. Qed.
Print Assumptions C16_nonce_unique.

(* the state after one Write over such a transport: sendNonce has moved past every frame that
   was sealed — also past the frame whose conn.Write failed — so the next Write seals under a
   counter no frame has seen *)
Theorem C16_nonce_advances :
  forall (key cipher : Type) (seal : key -> bytes -> bytes -> cipher) (pool : bytes -> bytes)
         (k : key) (pre : bytes),
    length pre = 4%nat ->
  forall (c : N) (d : bytes) (outs : list tout), c <= max_uint64 ->
    let w := write_t key cipher seal pool k (nonce_of pre c) d outs in
    wt_panic w = false ->
    wt_nonce w = nonce_of pre (c + N.of_nat (length (wt_calls w))) /\
    length (wt_wire w) = length (wt_calls w).
Proof. exact nonce_advances. Qed.
Print Assumptions C16_nonce_advances.

(* over a transport that never fails the scripted writer is the writer of the other theorems:
   same bytes accepted, Seal calls, frames, nonce, panic; never an error *)
Theorem C16_no_fault_same :
  forall (key cipher : Type) (seal : key -> bytes -> bytes -> cipher) (pool : bytes -> bytes)
         (k : key) (ws : list bytes) (nonce : bytes),
    map wt_view (run_writes_t key cipher seal pool k nonce ws []) =
    map w_view (run_writes key cipher seal pool k nonce ws).
Proof. exact no_fault_same. Qed.
Print Assumptions C16_no_fault_same.

(* tamper evidence when the writer's transport failed here and there: whatever reaches the reader
   (whole frames, the pieces of frames that got through, anything else) and however it Reads,
   what it returns is a prefix of the plaintext carried by the frames the writer handed to the
   transport, in order — or an AEAD forgery is exhibited *)
Theorem C16_tamper_evident_faulty_writer :
  forall (key cipher : Type) (seal : key -> bytes -> bytes -> cipher)
         (open : key -> bytes -> cipher -> option bytes) (pool : bytes -> bytes) (k : key)
         (pre : bytes),
    length pre = 4%nat ->
    (forall n p, open k n (seal k n p) = Some p) ->
    (forall a b : cipher, {a = b} + {a <> b}) ->
  forall (c0 : N) (ws : list bytes) (outs : list tout) (conn : list (conn_ev cipher))
         (caps : list nat) rs st' conn',
    c0 <= max_uint64 ->
    let W := run_writes_t key cipher seal pool k (nonce_of pre c0) ws outs in
    run_reads key cipher open k (reader_init (nonce_of pre c0)) conn caps = (rs, st', conn') ->
    (exists rest, handed_stream W = concat (map rres_data rs) ++ rest)
    \/ AeadForgeryOn open k (map fst (all_wire_t W)).
Proof. exact tamper_evident_t. Qed.
Print Assumptions C16_tamper_evident_faulty_writer.

(* ... and the counter never wraps: incrNonce moves c to c+1 <= 2^64-1 or panics at 2^64-1 *)
Theorem C16_nonce_no_wrap :
  forall pre c, length pre = 4%nat -> c <= max_uint64 ->
    match incr_nonce (nonce_of pre c) with
    | None => c = max_uint64
    | Some n' => n' = nonce_of pre (c + 1) /\ c + 1 <= max_uint64
    end.
Proof. exact nonce_no_wrap. Qed.
Print Assumptions C16_nonce_no_wrap.

(* ---- authentication: if MakeSecretConnection succeeds with remote identity [s_rem_pub s], and
   the owner of that key signs nothing but the challenges of its own handshakes [sessionsB]
   (ephemeral secret, ephemeral key received), then one of those handshakes has the same
   transcript (lower key, upper key, DH secret): the signature was made over this very
   ephemeral exchange — no man in the middle with other ephemerals, no replay of a signature
   from another session — or a signature forgery / a transcript-hash collision is exhibited. *)
Theorem C16_auth :
  forall (epriv lpriv : Type) (eph_pub : epriv -> bytes) (dh : epriv -> bytes -> option bytes)
         (transcript : bytes -> bytes -> bytes -> bytes) (hkdf : bytes -> bytes)
         (verify : bytes -> bytes -> bytes -> bool)
         (loc : lpriv) (eph : epriv) eph_in auth_in s (sessionsB : list (epriv * option bytes)),
    make_secret_connection epriv lpriv eph_pub dh transcript hkdf verify loc eph eph_in auth_in
      = HsOk s ->
    (exists ephB inB least, In (ephB, inB) sessionsB /\
        hs_transcript epriv eph_pub dh ephB inB = Some (s_lo s, s_hi s, s_dh s, least))
    \/ SigForgery verify (s_rem_pub s) (signed_by epriv eph_pub dh transcript sessionsB)
    \/ TranscriptCollision transcript.
Proof. exact auth. Qed.
Print Assumptions C16_auth.

(* what success means locally: an ed25519 key whose signature verifies over this session's
   challenge, which is the transcript hash of this session's (lo, hi, dh) *)
Theorem C16_handshake_checks :
  forall (epriv lpriv : Type) (eph_pub : epriv -> bytes) (dh : epriv -> bytes -> option bytes)
         (transcript : bytes -> bytes -> bytes -> bytes) (hkdf : bytes -> bytes)
         (verify : bytes -> bytes -> bytes -> bool) (loc : lpriv) (eph : epriv) eph_in auth_in s,
    make_secret_connection epriv lpriv eph_pub dh transcript hkdf verify loc eph eph_in auth_in
      = HsOk s ->
    exists am, auth_in = Some am /\ am_type am = KEd25519 /\ s_rem_pub s = am_key am /\
      verify (am_key am) (s_challenge s) (am_sig am) = true /\
      hs_transcript epriv eph_pub dh eph eph_in = Some (s_lo s, s_hi s, s_dh s, s_loc_is_least s) /\
      s_challenge s = transcript (s_lo s) (s_hi s) (s_dh s) /\
      hs_signed_challenge epriv eph_pub dh transcript eph eph_in = Some (s_challenge s) /\
      (s_recv_key s, s_send_key s) = derive_secrets hkdf (s_dh s) (s_loc_is_least s).
Proof. exact msc_ok. Qed.
Print Assumptions C16_handshake_checks.

(* low-order points (X25519 error) are refused *)
Theorem C16_low_order_rejected :
  forall (epriv lpriv : Type) (eph_pub : epriv -> bytes) (dh : epriv -> bytes -> option bytes)
         (transcript : bytes -> bytes -> bytes -> bytes) (hkdf : bytes -> bytes)
         (verify : bytes -> bytes -> bytes -> bool) (loc : lpriv) (eph : epriv) v auth_in,
    dh eph (pad32 v) = None ->
    make_secret_connection epriv lpriv eph_pub dh transcript hkdf verify loc eph (Some v) auth_in
      = HsErr HsLowOrder.
Proof. exact low_order_rejected. Qed.
Print Assumptions C16_low_order_rejected.

(* two ends that received each other's (different) ephemeral keys derive the same transcript
   and crossed keys: what one seals with, the other opens with — per direction its own half of
   the HKDF output *)
Theorem C16_honest_keys_agree :
  forall (epriv : Type) (eph_pub : epriv -> bytes) (dh : epriv -> bytes -> option bytes)
         (hkdf : bytes -> bytes),
    (forall a b, dh a (eph_pub b) = dh b (eph_pub a)) ->
    (forall a, length (eph_pub a) = 32%nat) ->
  forall ephA ephB, eph_pub ephA <> eph_pub ephB ->
    match hs_transcript epriv eph_pub dh ephA (Some (eph_pub ephB)),
          hs_transcript epriv eph_pub dh ephB (Some (eph_pub ephA)) with
    | Some (lo, hi, d, least), Some (lo', hi', d', least') =>
        lo = lo' /\ hi = hi' /\ d = d' /\ least = negb least' /\
        fst (derive_secrets hkdf d least) = snd (derive_secrets hkdf d' least') /\
        snd (derive_secrets hkdf d least) = fst (derive_secrets hkdf d' least')
    | None, None => True
    | _, _ => False
    end.
Proof. exact honest_agree. Qed.
Print Assumptions C16_honest_keys_agree.

(* ---- the node id is the id of the authenticated key: an upgraded connection has
   conn id = PubKeyToID(authenticated key) = dialled id (if dialled) = NodeInfo.ID, and is not
   a connection to ourselves *)
Theorem C16_id_matches_key :
  forall (id_of : bytes -> bytes) sc dialed ni valid own compat conn_id ni_id,
    upgrade id_of sc dialed ni valid own compat = UpOk conn_id ni_id ->
    exists rem_pub, sc = Some rem_pub /\ conn_id = id_of rem_pub /\
      ni = Some ni_id /\ ni_id = conn_id /\
      (forall d, dialed = Some d -> d = conn_id) /\
      own <> ni_id /\ valid = true /\ compat = true.
Proof. exact upgrade_ids. Qed.
Print Assumptions C16_id_matches_key.

(* ------------------------------------------------------------------ non-vacuity *)
(* a toy AEAD: the ciphertext is (key, nonce, plaintext) *)
Definition t_cipher := (N * bytes * bytes)%type.
Definition t_seal (k : N) (n p : bytes) : t_cipher := (k, n, p).
Definition t_open (k : N) (n : bytes) (c : t_cipher) : option bytes :=
  let '(k', n', p) := c in if (k =? k') && bytes_eqb n n' then Some p else None.
Definition t_pool (_ : bytes) : bytes := [7; 7; 7; 7; 7; 7; 7; 7; 7].
Definition t_W := run_writes N t_cipher t_seal t_pool 5 (nonce_of [0; 0; 0; 0] 1) [[1; 2; 3]; []; [4]].

(* three Writes (3, 0, 1 bytes) = two frames; Reads of 2, 5, 0, 1, 1 bytes *)
Example C16_stream_roundtrip_nonvacuous :
  forallb (fun w => negb (w_panic w)) t_W = true /\
  length (all_sent t_W) = 2%nat /\
  fst (fst (run_reads N t_cipher t_open 5 (reader_init (nonce_of [0; 0; 0; 0] 1))
              (map EvBlock (all_sent t_W)) [2; 5; 0; 1; 1]%nat))
  = [ROk [1; 2]; ROk [3]; ROk []; ROk [4]; RErrIO].
Proof. vm_compute. repeat split; reflexivity. Qed.

(* the two frames swapped, then the first again, then the second: the reader refuses the
   swapped frame, accepts frame 0, refuses its replay, accepts frame 1 — plaintext in order *)
Example C16_tamper_nonvacuous :
  match all_sent t_W with
  | [f0; f1] =>
    fst (fst (run_reads N t_cipher t_open 5 (reader_init (nonce_of [0; 0; 0; 0] 1))
                [EvBlock f1; EvBlock f0; EvBlock f0; EvErr; EvBlock f1] [9; 9; 9; 9; 9; 9]%nat))
    = [RErrDecrypt; ROk [1; 2; 3]; RErrDecrypt; RErrIO; ROk [4]; RErrIO]
  | _ => False
  end.
Proof. vm_compute. reflexivity. Qed.

(* with an AEAD that ignores the nonce the forgery disjunct is real: the replayed frame is
   accepted and the plaintext repeats *)
Definition bad_open (k : N) (n : bytes) (c : t_cipher) : option bytes :=
  let '(k', _, p) := c in if (k =? k') then Some p else None.
Example C16_forgery_disjunct_needed :
  match all_sent t_W with
  | [f0; f1] =>
    fst (fst (run_reads N t_cipher bad_open 5 (reader_init (nonce_of [0; 0; 0; 0] 1))
                [EvBlock f0; EvBlock f0] [9; 9]%nat))
    = [ROk [1; 2; 3]; ROk [1; 2; 3]]
  | _ => False
  end.
Proof. vm_compute. reflexivity. Qed.

Example C16_nonce_nonvacuous :
  incr_nonce (nonce_of [0; 0; 0; 0] max_uint64) = None /\
  incr_nonce (nonce_of [0; 0; 0; 0] 255) = Some (nonce_of [0; 0; 0; 0] 256) /\
  map (@sl_nonce t_cipher) (all_calls t_W) = [nonce_of [0; 0; 0; 0] 1; nonce_of [0; 0; 0; 0] 2] /\
  (* a Write at the last counter panics after sealing and sends nothing *)
  (let w := write N t_cipher t_seal t_pool 5 (nonce_of [0; 0; 0; 0] max_uint64) [1] in
   w_panic w = true /\ length (w_calls w) = 1%nat /\ w_sent w = []).
Proof. vm_compute. repeat split; reflexivity. Qed.

(* Writes of 3, 1, 2 bytes; the transport takes the first frame, fails after 600 bytes of the
   second (the Write returns the error), fails before anything of the third, takes the fourth:
   four Seal calls under counters 1, 2, 3, 4 — and what a writer that only advanced the nonce
   after a successful conn.Write would have done (counter 2 three times) is excluded *)
Definition t_Wf := run_writes_t N t_cipher t_seal t_pool 5 (nonce_of [0; 0; 0; 0] 1)
                     [[1; 2; 3]; [4]; [5; 6]; [7]] [TOk; TErr 600; TErr 0].
Example C16_nonce_fault_nonvacuous :
  map (@sl_nonce t_cipher) (all_calls_t t_Wf)
    = [nonce_of [0; 0; 0; 0] 1; nonce_of [0; 0; 0; 0] 2; nonce_of [0; 0; 0; 0] 3; nonce_of [0; 0; 0; 0] 4] /\
  map (fun x : bytes * t_cipher * tout => snd x) (all_wire_t t_Wf) = [TOk; TErr 600; TErr 0; TOk] /\
  map (fun w => (wt_n w, wt_err w)) t_Wf = [(3, false); (0, true); (0, true); (1, false)]%nat /\
  handed_stream t_Wf = [1; 2; 3; 4; 5; 6; 7] /\
  (* the reader of that session: frame 0 arrives, the piece of frame 1 and frame 3 do not open *)
  (match map (fun x : bytes * t_cipher * tout => snd (fst x)) (all_wire_t t_Wf) with
   | [f0; f1; f2; f3] =>
     fst (fst (run_reads N t_cipher t_open 5 (reader_init (nonce_of [0; 0; 0; 0] 1))
                 [EvBlock f0; EvErr; EvBlock f3] [9; 9; 9]%nat))
     = [ROk [1; 2; 3]; RErrIO; RErrDecrypt]
   | _ => False
   end).
Proof. vm_compute. repeat split; reflexivity. Qed.

(* toy handshake primitives *)
Definition t_eph_pub (n : N) : bytes := repeat n 32.
Definition t_dh (n : N) (p : bytes) : option bytes :=
  if (le_dec p =? 0) then None else Some (le_enc 32 (n * le_dec p)).
Definition t_transcript (lo hi d : bytes) : bytes := lo ++ hi ++ d.
Definition t_hkdf (d : bytes) : bytes := (1 :: firstn 31 d) ++ (2 :: firstn 31 d) ++ d.
Definition t_verify (pk m s : bytes) : bool := bytes_eqb s (pk ++ m).
Definition t_chal57 : bytes :=
  match hs_signed_challenge N t_eph_pub t_dh t_transcript 7 (Some (t_eph_pub 5)) with
  | Some c => c | None => [] end.

(* victim (ephemeral 5) and peer (ephemeral 7, long-term key [12]): accepted, same transcript
   on both sides; a signature over another session's challenge or a low-order point: refused *)
Example C16_auth_nonvacuous :
  (match make_secret_connection N N t_eph_pub t_dh t_transcript t_hkdf t_verify 11 5
           (Some (t_eph_pub 7))
           (Some {| am_type := KEd25519; am_key := [12]; am_sig := [12] ++ t_chal57 |}) with
   | HsOk s => s_rem_pub s = [12] /\
               hs_transcript N t_eph_pub t_dh 7 (Some (t_eph_pub 5))
               = Some (s_lo s, s_hi s, s_dh s, negb (s_loc_is_least s))
   | HsErr _ => False
   end) /\
  make_secret_connection N N t_eph_pub t_dh t_transcript t_hkdf t_verify 11 5
    (Some (t_eph_pub 7))
    (Some {| am_type := KEd25519; am_key := [12];
             am_sig := [12] ++ match hs_signed_challenge N t_eph_pub t_dh t_transcript 7
                                       (Some (t_eph_pub 6)) with Some c => c | None => [] end |})
  = HsErr HsBadSig /\
  make_secret_connection N N t_eph_pub t_dh t_transcript t_hkdf t_verify 11 5
    (Some []) (Some {| am_type := KEd25519; am_key := [12]; am_sig := [12] ++ t_chal57 |})
  = HsErr HsLowOrder.
Proof. vm_compute. repeat split; reflexivity. Qed.

Example C16_id_matches_key_nonvacuous :
  upgrade (fun x => x) (Some [3]) (Some [3]) (Some [3]) true [4] true = UpOk [3] [3] /\
  upgrade (fun x => x) (Some [3]) (Some [5]) (Some [3]) true [4] true = UpErr UpDialedID /\
  upgrade (fun x => x) (Some [3]) None (Some [5]) true [4] true = UpErr UpNodeInfoID.
Proof. vm_compute. repeat split; reflexivity. Qed.
