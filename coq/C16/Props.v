(* C16 — Peer links are mutually authenticated and tamper-evident.
   This file contains only the property statements; each is closed by [exact] of a lemma of
   Proofs.v and followed by Print Assumptions.

   The primitives are arbitrary functions.  ChaCha20-Poly1305 enters through
     open k n (seal k n p) = Some p            (correctness, a premise)
   and through the disjunct [AeadForgeryOn open k wire]: a (nonce, ciphertext) that opens under
   the key although the writer never put it on the wire under that nonce — built from the
   adversary's input, not assumed away.  ed25519 enters through the disjunct [SigForgery], the
   merlin transcript hash through [TranscriptCollision].  X25519 enters as [dh] (None = the
   low-order-point error) with commutativity as a premise of the agreement theorem only.

   The wire seen by a reader is any list of [EvBlock c] (io.ReadFull returned a full
   1044-byte block) and [EvErr] (it failed): every edit of the byte stream — change, reorder,
   replay, removal, truncation, cut inside a frame, splice from the other direction or from
   the handshake — is such a list. *)
From Coq Require Import List ZArith NArith Bool.
From TM Require Import Common.Hex Generated.Consts C16.Model C16.Proofs C16.ModelAuth C16.ProofsCompose.
Import ListNotations.
Open Scope N_scope.

(* ---- both ends read exactly the bytes the other wrote, in order, however writes and reads are
   sized: on an untouched wire (closed after the last frame) the Reads return, concatenated, a
   prefix of the concatenated Writes; no Read fails except with an I/O error after the wire is
   exhausted, and such an error is only seen once every byte has been returned.
   [pre]: the 4 nonce bytes incrNonce never touches; c0: the counter the data phase starts at. *)
Theorem C16_stream_roundtrip :
  forall (key cipher : Type) (seal : key -> bytes -> bytes -> cipher)
         (open : key -> bytes -> cipher -> option bytes) (pool : bytes -> bytes) (k : key)
         (pre : bytes),
    length pre = 4%nat ->
    (forall n p, open k n (seal k n p) = Some p) ->
  forall (c0 : N) (ws : list bytes) (caps : list nat) rs st' conn',
    c0 <= max_uint64 ->
    let W := run_writes key cipher seal pool k (nonce_of pre c0) ws in
    no_panic W ->
    run_reads key cipher open k (reader_init (nonce_of pre c0)) (map EvBlock (all_sent W)) caps
      = (rs, st', conn') ->
    (exists rest, concat ws = concat (map rres_data rs) ++ rest) /\
    Forall (fun r => rres_ok r = true \/ r = RErrIO) rs /\
    (In RErrIO rs -> concat (map rres_data rs) = concat ws).
Proof. exact stream_roundtrip. Qed.
Print Assumptions C16_stream_roundtrip.

(* ---- whatever arrives on the wire, and however the Reads are sized (including Reads after
   errors), what Read returns is a prefix of what was written: never altered, reordered,
   repeated or skipped plaintext — or an AEAD forgery is exhibited. *)
Theorem C16_tamper_evident :
  forall (key cipher : Type) (seal : key -> bytes -> bytes -> cipher)
         (open : key -> bytes -> cipher -> option bytes) (pool : bytes -> bytes) (k : key)
         (pre : bytes),
    length pre = 4%nat ->
    (forall n p, open k n (seal k n p) = Some p) ->
    (forall a b : cipher, {a = b} + {a <> b}) ->
  forall (c0 : N) (ws : list bytes) (conn : list (conn_ev cipher)) (caps : list nat) rs st' conn',
    c0 <= max_uint64 ->
    let W := run_writes key cipher seal pool k (nonce_of pre c0) ws in
    run_reads key cipher open k (reader_init (nonce_of pre c0)) conn caps = (rs, st', conn') ->
    (exists rest, concat ws = concat (map rres_data rs) ++ rest)
    \/ AeadForgeryOn open k (all_wire W).
Proof. exact tamper_evident. Qed.
Print Assumptions C16_tamper_evident.

(* ---- any change makes the reader fail: after any history, a Read that goes to the wire
   succeeds only on the frame that is next in the writer's sequence (j frames accepted so far:
   the j-th); every other block — edited, out of order, replayed, from the other direction —
   gives a decryption error and leaves the reader exactly as it was (so it keeps failing until
   that very frame arrives; MConnection stops the peer at the first error). *)
Theorem C16_tamper_detected :
  forall (key cipher : Type) (seal : key -> bytes -> bytes -> cipher)
         (open : key -> bytes -> cipher -> option bytes) (pool : bytes -> bytes) (k : key)
         (pre : bytes),
    length pre = 4%nat ->
    (forall n p, open k n (seal k n p) = Some p) ->
    (forall a b : cipher, {a = b} + {a <> b}) ->
  forall c0 ws conn caps rs st conn1 cap c rest st' r conn2,
    c0 <= max_uint64 ->
    let W := run_writes key cipher seal pool k (nonce_of pre c0) ws in
    run_reads key cipher open k (reader_init (nonce_of pre c0)) conn caps = (rs, st, conn1) ->
    r_buf st = [] ->
    read key cipher open k st cap (EvBlock c :: rest) = (st', r, conn2) ->
    AeadForgeryOn open k (all_wire W) \/
    exists j, r_nonce st = nonce_of pre (c0 + N.of_nat j) /\
      ((nth_error (all_sent W) j = Some c /\ rres_ok r = true /\
        r_nonce st' = nonce_of pre (c0 + N.of_nat (S j)))
       \/ (nth_error (all_sent W) j <> Some c /\ r = RErrDecrypt /\ st' = st)).
Proof. exact tamper_detected. Qed.
Print Assumptions C16_tamper_detected.

(* ---- a nonce is never used twice: all Seal calls of a writing session (any number of Writes
   of any sizes, from any start counter, including the call that precedes an overflow panic)
   use pairwise different nonces — WHATEVER THE UNDERLYING TRANSPORT DOES with the sealed frames.
   [outs] scripts the result of every sc.conn.Write of the session: TOk, or TErr m = it returned an
   error after m bytes of the frame had reached the wire (nothing, a part, all of it; a write
   deadline, a temporary error, a broken pipe); after such an error Write returns it and the
   caller may call Write again on the same connection ([run_writes_t] goes on with the next
   Write).  Every frame handed to the transport — delivered, cut short or refused — was sealed
   under its own counter c0, c0+1, c0+2, ... in order, and is the output of one of the Seal
   calls (all of them are handed over, except the one that precedes an overflow panic).
   [outs = []] is the transport that never fails: C16_no_fault_same. *)
Theorem C16_nonce_unique :
  forall (key cipher : Type) (seal : key -> bytes -> bytes -> cipher) (pool : bytes -> bytes)
         (k : key) (pre : bytes),
    length pre = 4%nat ->
  forall (c0 : N) (ws : list bytes) (outs : list tout), c0 <= max_uint64 ->
    let W := run_writes_t key cipher seal pool k (nonce_of pre c0) ws outs in
    NoDup (map sl_nonce (all_calls_t W)) /\
    map (fun x : bytes * cipher * tout => fst (fst x)) (all_wire_t W)
      = map (nonce_of pre) (nseq c0 (length (all_wire_t W))) /\
    exists last, (length last <= 1)%nat /\
      map (fun s => (sl_nonce s, sl_out s)) (all_calls_t W) = map fst (all_wire_t W) ++ last.
Proof. exact nonce_unique_t. Qed.
Print Assumptions C16_nonce_unique.

(* the state after one Write over such a transport: sendNonce has moved past every frame that
   was sealed — also past the frame whose conn.Write failed — so the next Write seals under a
   counter no frame has seen *)
Theorem C16_nonce_advances :
  forall (key cipher : Type) (seal : key -> bytes -> bytes -> cipher) (pool : bytes -> bytes)
         (k : key) (pre : bytes),
    length pre = 4%nat ->
  forall (c : N) (d : bytes) (outs : list tout), c <= max_uint64 ->
    let w := write_t key cipher seal pool k (nonce_of pre c) d outs in
    wt_panic w = false ->
    wt_nonce w = nonce_of pre (c + N.of_nat (length (wt_calls w))) /\
    length (wt_wire w) = length (wt_calls w).
Proof. exact nonce_advances. Qed.
Print Assumptions C16_nonce_advances.

(* over a transport that never fails the scripted writer is the writer of the other theorems:
   same bytes accepted, Seal calls, frames, nonce, panic; never an error *)
Theorem C16_no_fault_same :
  forall (key cipher : Type) (seal : key -> bytes -> bytes -> cipher) (pool : bytes -> bytes)
         (k : key) (ws : list bytes) (nonce : bytes),
    map wt_view (run_writes_t key cipher seal pool k nonce ws []) =
    map w_view (run_writes key cipher seal pool k nonce ws).
Proof. exact no_fault_same. Qed.
Print Assumptions C16_no_fault_same.

(* tamper evidence when the writer's transport failed here and there: whatever reaches the reader
   (whole frames, the pieces of frames that got through, anything else) and however it Reads,
   what it returns is a prefix of the plaintext carried by the frames the writer handed to the
   transport, in order — or an AEAD forgery is exhibited *)
Theorem C16_tamper_evident_faulty_writer :
  forall (key cipher : Type) (seal : key -> bytes -> bytes -> cipher)
         (open : key -> bytes -> cipher -> option bytes) (pool : bytes -> bytes) (k : key)
         (pre : bytes),
    length pre = 4%nat ->
    (forall n p, open k n (seal k n p) = Some p) ->
    (forall a b : cipher, {a = b} + {a <> b}) ->
  forall (c0 : N) (ws : list bytes) (outs : list tout) (conn : list (conn_ev cipher))
         (caps : list nat) rs st' conn',
    c0 <= max_uint64 ->
    let W := run_writes_t key cipher seal pool k (nonce_of pre c0) ws outs in
    run_reads key cipher open k (reader_init (nonce_of pre c0)) conn caps = (rs, st', conn') ->
    (exists rest, handed_stream W = concat (map rres_data rs) ++ rest)
    \/ AeadForgeryOn open k (map fst (all_wire_t W)).
Proof. exact tamper_evident_t. Qed.
Print Assumptions C16_tamper_evident_faulty_writer.

(* ... and the counter never wraps: incrNonce moves c to c+1 <= 2^64-1 or panics at 2^64-1 *)
Theorem C16_nonce_no_wrap :
  forall pre c, length pre = 4%nat -> c <= max_uint64 ->
    match incr_nonce (nonce_of pre c) with
    | None => c = max_uint64
    | Some n' => n' = nonce_of pre (c + 1) /\ c + 1 <= max_uint64
    end.
Proof. exact nonce_no_wrap. Qed.
Print Assumptions C16_nonce_no_wrap.

(* ---- authentication: if MakeSecretConnection succeeds with remote identity [s_rem_pub s], and
   the owner of that key signs nothing but the challenges of its own handshakes [sessionsB]
   (ephemeral secret, ephemeral key received), then one of those handshakes has the same
   transcript (lower key, upper key, DH secret): the signature was made over this very
   ephemeral exchange — no man in the middle with other ephemerals, no replay of a signature
   from another session — or a signature forgery / a transcript-hash collision is exhibited. *)
Theorem C16_auth :
  forall (epriv lpriv : Type) (eph_pub : epriv -> bytes) (dh : epriv -> bytes -> option bytes)
         (transcript : bytes -> bytes -> bytes -> bytes) (hkdf : bytes -> bytes)
         (verify : bytes -> bytes -> bytes -> bool)
         (loc : lpriv) (eph : epriv) eph_in auth_in s (sessionsB : list (epriv * option bytes)),
    make_secret_connection epriv lpriv eph_pub dh transcript hkdf verify loc eph eph_in auth_in
      = HsOk s ->
    (exists ephB inB least, In (ephB, inB) sessionsB /\
        hs_transcript epriv eph_pub dh ephB inB = Some (s_lo s, s_hi s, s_dh s, least))
    \/ SigForgery verify (s_rem_pub s) (signed_by epriv eph_pub dh transcript sessionsB)
    \/ TranscriptCollision transcript.
Proof. exact auth. Qed.
Print Assumptions C16_auth.

(* what success means locally: an ed25519 key whose signature verifies over this session's
   challenge, which is the transcript hash of this session's (lo, hi, dh) *)
Theorem C16_handshake_checks :
  forall (epriv lpriv : Type) (eph_pub : epriv -> bytes) (dh : epriv -> bytes -> option bytes)
         (transcript : bytes -> bytes -> bytes -> bytes) (hkdf : bytes -> bytes)
         (verify : bytes -> bytes -> bytes -> bool) (loc : lpriv) (eph : epriv) eph_in auth_in s,
    make_secret_connection epriv lpriv eph_pub dh transcript hkdf verify loc eph eph_in auth_in
      = HsOk s ->
    exists am, auth_in = Some am /\ am_type am = KEd25519 /\ s_rem_pub s = am_key am /\
      verify (am_key am) (s_challenge s) (am_sig am) = true /\
      hs_transcript epriv eph_pub dh eph eph_in = Some (s_lo s, s_hi s, s_dh s, s_loc_is_least s) /\
      s_challenge s = transcript (s_lo s) (s_hi s) (s_dh s) /\
      hs_signed_challenge epriv eph_pub dh transcript eph eph_in = Some (s_challenge s) /\
      (s_recv_key s, s_send_key s) = derive_secrets hkdf (s_dh s) (s_loc_is_least s).
Proof. exact msc_ok. Qed.
Print Assumptions C16_handshake_checks.

(* low-order points (X25519 error) are refused *)
Theorem C16_low_order_rejected :
  forall (epriv lpriv : Type) (eph_pub : epriv -> bytes) (dh : epriv -> bytes -> option bytes)
         (transcript : bytes -> bytes -> bytes -> bytes) (hkdf : bytes -> bytes)
         (verify : bytes -> bytes -> bytes -> bool) (loc : lpriv) (eph : epriv) v auth_in,
    dh eph (pad32 v) = None ->
    make_secret_connection epriv lpriv eph_pub dh transcript hkdf verify loc eph (Some v) auth_in
      = HsErr HsLowOrder.
Proof. exact low_order_rejected. Qed.
Print Assumptions C16_low_order_rejected.

(* two ends that received each other's (different) ephemeral keys derive the same transcript
   and crossed keys: what one seals with, the other opens with — per direction its own half of
   the HKDF output *)
Theorem C16_honest_keys_agree :
  forall (epriv : Type) (eph_pub : epriv -> bytes) (dh : epriv -> bytes -> option bytes)
         (hkdf : bytes -> bytes),
    (forall a b, dh a (eph_pub b) = dh b (eph_pub a)) ->
    (forall a, length (eph_pub a) = 32%nat) ->
  forall ephA ephB, eph_pub ephA <> eph_pub ephB ->
    match hs_transcript epriv eph_pub dh ephA (Some (eph_pub ephB)),
          hs_transcript epriv eph_pub dh ephB (Some (eph_pub ephA)) with
    | Some (lo, hi, d, least), Some (lo', hi', d', least') =>
        lo = lo' /\ hi = hi' /\ d = d' /\ least = negb least' /\
        fst (derive_secrets hkdf d least) = snd (derive_secrets hkdf d' least') /\
        snd (derive_secrets hkdf d least) = fst (derive_secrets hkdf d' least')
    | None, None => True
    | _, _ => False
    end.
Proof. exact honest_agree. Qed.
Print Assumptions C16_honest_keys_agree.

(* ---- the node id is the id of the authenticated key: an upgraded connection has
   conn id = PubKeyToID(authenticated key) = dialled id (if dialled) = NodeInfo.ID, and is not
   a connection to ourselves *)
Theorem C16_id_matches_key :
  forall (id_of : bytes -> bytes) sc dialed ni valid own compat conn_id ni_id,
    upgrade id_of sc dialed ni valid own compat = UpOk conn_id ni_id ->
    exists rem_pub, sc = Some rem_pub /\ conn_id = id_of rem_pub /\
      ni = Some ni_id /\ ni_id = conn_id /\
      (forall d, dialed = Some d -> d = conn_id) /\
      own <> ni_id /\ valid = true /\ compat = true.
Proof. exact upgrade_ids. Qed.
Print Assumptions C16_id_matches_key.

(* ------------------------------------------------------------------ non-vacuity *)
(* a toy AEAD: the ciphertext is (key, nonce, plaintext) *)
Definition t_cipher := (N * bytes * bytes)%type.
Definition t_seal (k : N) (n p : bytes) : t_cipher := (k, n, p).
Definition t_open (k : N) (n : bytes) (c : t_cipher) : option bytes :=
  let '(k', n', p) := c in if (k =? k') && bytes_eqb n n' then Some p else None.
Definition t_pool (_ : bytes) : bytes := [7; 7; 7; 7; 7; 7; 7; 7; 7].
Definition t_W := run_writes N t_cipher t_seal t_pool 5 (nonce_of [0; 0; 0; 0] 1) [[1; 2; 3]; []; [4]].

(* three Writes (3, 0, 1 bytes) = two frames; Reads of 2, 5, 0, 1, 1 bytes *)
Example C16_stream_roundtrip_nonvacuous :
  forallb (fun w => negb (w_panic w)) t_W = true /\
  length (all_sent t_W) = 2%nat /\
  fst (fst (run_reads N t_cipher t_open 5 (reader_init (nonce_of [0; 0; 0; 0] 1))
              (map EvBlock (all_sent t_W)) [2; 5; 0; 1; 1]%nat))
  = [ROk [1; 2]; ROk [3]; ROk []; ROk [4]; RErrIO].
Proof. vm_compute. repeat split; reflexivity. Qed.

(* the two frames swapped, then the first again, then the second: the reader refuses the
   swapped frame, accepts frame 0, refuses its replay, accepts frame 1 — plaintext in order *)
Example C16_tamper_nonvacuous :
  match all_sent t_W with
  | [f0; f1] =>
    fst (fst (run_reads N t_cipher t_open 5 (reader_init (nonce_of [0; 0; 0; 0] 1))
                [EvBlock f1; EvBlock f0; EvBlock f0; EvErr; EvBlock f1] [9; 9; 9; 9; 9; 9]%nat))
    = [RErrDecrypt; ROk [1; 2; 3]; RErrDecrypt; RErrIO; ROk [4]; RErrIO]
  | _ => False
  end.
Proof. vm_compute. reflexivity. Qed.

(* with an AEAD that ignores the nonce the forgery disjunct is real: the replayed frame is
   accepted and the plaintext repeats *)
Definition bad_open (k : N) (n : bytes) (c : t_cipher) : option bytes :=
  let '(k', _, p) := c in if (k =? k') then Some p else None.
Example C16_forgery_disjunct_needed :
  match all_sent t_W with
  | [f0; f1] =>
    fst (fst (run_reads N t_cipher bad_open 5 (reader_init (nonce_of [0; 0; 0; 0] 1))
                [EvBlock f0; EvBlock f0] [9; 9]%nat))
    = [ROk [1; 2; 3]; ROk [1; 2; 3]]
  | _ => False
  end.
Proof. vm_compute. reflexivity. Qed.

Example C16_nonce_nonvacuous :
  incr_nonce (nonce_of [0; 0; 0; 0] max_uint64) = None /\
  incr_nonce (nonce_of [0; 0; 0; 0] 255) = Some (nonce_of [0; 0; 0; 0] 256) /\
  map (@sl_nonce t_cipher) (all_calls t_W) = [nonce_of [0; 0; 0; 0] 1; nonce_of [0; 0; 0; 0] 2] /\
  (* a Write at the last counter panics after sealing and sends nothing *)
  (let w := write N t_cipher t_seal t_pool 5 (nonce_of [0; 0; 0; 0] max_uint64) [1] in
   w_panic w = true /\ length (w_calls w) = 1%nat /\ w_sent w = []).
Proof. vm_compute. repeat split; reflexivity. Qed.

(* Writes of 3, 1, 2 bytes; the transport takes the first frame, fails after 600 bytes of the
   second (the Write returns the error), fails before anything of the third, takes the fourth:
   four Seal calls under counters 1, 2, 3, 4 — and what a writer that only advanced the nonce
   after a successful conn.Write would have done (counter 2 three times) is excluded *)
Definition t_Wf := run_writes_t N t_cipher t_seal t_pool 5 (nonce_of [0; 0; 0; 0] 1)
                     [[1; 2; 3]; [4]; [5; 6]; [7]] [TOk; TErr 600; TErr 0].
Example C16_nonce_fault_nonvacuous :
  map (@sl_nonce t_cipher) (all_calls_t t_Wf)
    = [nonce_of [0; 0; 0; 0] 1; nonce_of [0; 0; 0; 0] 2; nonce_of [0; 0; 0; 0] 3; nonce_of [0; 0; 0; 0] 4] /\
  map (fun x : bytes * t_cipher * tout => snd x) (all_wire_t t_Wf) = [TOk; TErr 600; TErr 0; TOk] /\
  map (fun w => (wt_n w, wt_err w)) t_Wf = [(3, false); (0, true); (0, true); (1, false)]%nat /\
  handed_stream t_Wf = [1; 2; 3; 4; 5; 6; 7] /\
  (* the reader of that session: frame 0 arrives, the piece of frame 1 and frame 3 do not open *)
  (match map (fun x : bytes * t_cipher * tout => snd (fst x)) (all_wire_t t_Wf) with
   | [f0; f1; f2; f3] =>
     fst (fst (run_reads N t_cipher t_open 5 (reader_init (nonce_of [0; 0; 0; 0] 1))
                 [EvBlock f0; EvErr; EvBlock f3] [9; 9; 9]%nat))
     = [ROk [1; 2; 3]; RErrIO; RErrDecrypt]
   | _ => False
   end).
Proof. vm_compute. repeat split; reflexivity. Qed.

(* toy handshake primitives *)
Definition t_eph_pub (n : N) : bytes := repeat n 32.
Definition t_dh (n : N) (p : bytes) : option bytes :=
  if (le_dec p =? 0) then None else Some (le_enc 32 (n * le_dec p)).
Definition t_transcript (lo hi d : bytes) : bytes := lo ++ hi ++ d.
Definition t_hkdf (d : bytes) : bytes := (1 :: firstn 31 d) ++ (2 :: firstn 31 d) ++ d.
Definition t_verify (pk m s : bytes) : bool := bytes_eqb s (pk ++ m).
Definition t_chal57 : bytes :=
  match hs_signed_challenge N t_eph_pub t_dh t_transcript 7 (Some (t_eph_pub 5)) with
  | Some c => c | None => [] end.

(* victim (ephemeral 5) and peer (ephemeral 7, long-term key [12]): accepted, same transcript
   on both sides; a signature over another session's challenge or a low-order point: refused *)
Example C16_auth_nonvacuous :
  (match make_secret_connection N N t_eph_pub t_dh t_transcript t_hkdf t_verify 11 5
           (Some (t_eph_pub 7))
           (Some {| am_type := KEd25519; am_key := [12]; am_sig := [12] ++ t_chal57 |}) with
   | HsOk s => s_rem_pub s = [12] /\
               hs_transcript N t_eph_pub t_dh 7 (Some (t_eph_pub 5))
               = Some (s_lo s, s_hi s, s_dh s, negb (s_loc_is_least s))
   | HsErr _ => False
   end) /\
  make_secret_connection N N t_eph_pub t_dh t_transcript t_hkdf t_verify 11 5
    (Some (t_eph_pub 7))
    (Some {| am_type := KEd25519; am_key := [12];
             am_sig := [12] ++ match hs_signed_challenge N t_eph_pub t_dh t_transcript 7
                                       (Some (t_eph_pub 6)) with Some c => c | None => [] end |})
  = HsErr HsBadSig /\
  make_secret_connection N N t_eph_pub t_dh t_transcript t_hkdf t_verify 11 5
    (Some []) (Some {| am_type := KEd25519; am_key := [12]; am_sig := [12] ++ t_chal57 |})
  = HsErr HsLowOrder.
Proof. vm_compute. repeat split; reflexivity. Qed.

Example C16_id_matches_key_nonvacuous :
  upgrade (fun x => x) (Some [3]) (Some [3]) (Some [3]) true [4] true = UpOk [3] [3] /\
  upgrade (fun x => x) (Some [3]) (Some [5]) (Some [3]) true [4] true = UpErr UpDialedID /\
  upgrade (fun x => x) (Some [3]) None (Some [5]) true [4] true = UpErr UpNodeInfoID.
Proof. vm_compute. repeat split; reflexivity. Qed.

(* ================================================================== the AuthSig exchange on the byte path
   (ModelAuth.v: shareAuthSignature = protoio delimited writer / reader over the SecretConnection;
   ProofsCompose.v).  [enc] / [dec] are the protobuf encoding of AuthSigMessage and its decoding
   (with PubKeyFromProto), arbitrary functions; the uvarint length prefix, the byte-at-a-time
   length reader, the io.ReadFull loop, Write's chunking and Read's buffering are exact.

   ---- untouched wire: the writer's one Write of  uvarint(len) ++ enc m  from counter 0 does not
   panic, accepts all bytes and seals >= 1 frames; the delimited reader over those frames (then
   anything: [tail]) returns exactly  dec (enc m)  - whatever the length of the message up to the
   reader's 1 MiB limit, one frame or a thousand, the length prefix split from the body or not -
   with an empty recvBuffer, recvNonce = the writer's sendNonce = number of frames, and [tail]
   untouched. *)
Theorem C16_authsig_roundtrip :
  forall (key cipher : Type) (seal : key -> bytes -> bytes -> cipher)
    (open : key -> bytes -> cipher -> option bytes) (pool : bytes -> bytes)
    (enc : authmsg -> bytes) (dec : bytes -> option authmsg) (k : key),
  (forall n p : bytes, open k n (seal k n p) = Some p) ->
  forall (m : authmsg) (tail : list (conn_ev cipher)),
  N.of_nat (length (enc m)) <= max_msg_size ->
  let w := auth_send key cipher seal pool enc k m in
  w_panic w = false /\
  w_n w = length (auth_wire_bytes enc m) /\
  (1 <= length (w_sent w))%nat /\
  w_nonce w = nonce_of P0 (N.of_nat (length (w_sent w))) /\
  auth_recv key cipher open dec k (map EvBlock (w_sent w) ++ tail) =
  ({| r_buf := []; r_nonce := w_nonce w |}, dec (enc m), tail).
Proof. exact authsig_roundtrip. Qed.
Print Assumptions C16_authsig_roundtrip.

(* ---- any wire: if the delimited reader returns a message at all, then the blocks it took off the
   conn are exactly the writer's sealed frames - all of them, unmodified, in order, nothing in
   between - the message is the writer's, and the reader is where the untouched run leaves it; or a
   block that is nowhere on the writer's wire (AuthSig frames and everything it writes afterwards,
   [ws] arbitrary) opened: an AEAD forgery.  So a wire modified anywhere in those frames makes the
   Read fail and shareAuthSignature return an error. *)
Theorem C16_authsig_tamper :
  forall (key cipher : Type) (seal : key -> bytes -> bytes -> cipher)
    (open : key -> bytes -> cipher -> option bytes) (pool : bytes -> bytes)
    (enc : authmsg -> bytes) (dec : bytes -> option authmsg) (k : key),
  (forall n p : bytes, open k n (seal k n p) = Some p) ->
  (forall a b : cipher, {a = b} + {a <> b}) ->
  forall (m : authmsg) (ws : list bytes) (conn : list (conn_ev cipher)) 
    (st' : rstate) (m' : authmsg) (conn' : list (conn_ev cipher)),
  N.of_nat (length (enc m)) <= max_msg_size ->
  let w := auth_send key cipher seal pool enc k m in
  auth_recv key cipher open dec k conn = (st', Some m', conn') ->
  AeadForgeryOn open k (all_wire (peer_session key cipher seal pool enc k m ws)) \/
  conn = map EvBlock (w_sent w) ++ conn' /\
  dec (enc m) = Some m' /\ st' = {| r_buf := []; r_nonce := w_nonce w |}.
Proof. exact authsig_tamper. Qed.
Print Assumptions C16_authsig_tamper.

(* ---- MakeSecretConnection with its last phase on the byte path ([msc_stream]): two honest ends that
   received each other's ephemeral keys; B got as far as shareAuthSignature and wrote wB.  When A's
   conn delivers B's frames, A's outcome is [make_secret_connection] on exactly the decoding of the
   message B built ([hs_auth_out] of B) - hence C16_auth, C16_handshake_checks, C16_id_matches_key,
   which take the decoded message as input, speak about the bytes on the wire. *)
Theorem C16_handshake_over_stream :
  forall (epriv lpriv cipher : Type) (eph_pub : epriv -> bytes)
    (dh : epriv -> bytes -> option bytes) (transcript : bytes -> bytes -> bytes -> bytes)
    (hkdf : bytes -> bytes) (pub_of : lpriv -> bytes) (sign : lpriv -> bytes -> bytes)
    (verify : bytes -> bytes -> bytes -> bool) (seal : bytes -> bytes -> bytes -> cipher)
    (open : bytes -> bytes -> cipher -> option bytes) (pool : bytes -> bytes)
    (enc : authmsg -> bytes) (dec : bytes -> option authmsg),
  (forall k n p : bytes, open k n (seal k n p) = Some p) ->
  (forall a b : epriv, dh a (eph_pub b) = dh b (eph_pub a)) ->
  (forall a : epriv, length (eph_pub a) = 32%nat) ->
  forall (locA locB : lpriv) (ephA ephB : epriv) (connB tail : list (conn_ev cipher))
    (resB : hs_result) (wB : wres cipher) (stB : option rstate)
    (restB : list (conn_ev cipher)) (mB : authmsg),
  eph_pub ephA <> eph_pub ephB ->
  msc_stream epriv lpriv cipher eph_pub dh transcript hkdf pub_of sign verify seal open pool
    enc dec locB ephB (Some (eph_pub ephA)) connB = (resB, Some wB, stB, restB) ->
  hs_auth_out epriv lpriv eph_pub dh transcript pub_of sign locB ephB (Some (eph_pub ephA)) =
  Some mB ->
  N.of_nat (length (enc mB)) <= max_msg_size ->
  exists wA : wres cipher,
    msc_stream epriv lpriv cipher eph_pub dh transcript hkdf pub_of sign verify seal open pool
      enc dec locA ephA (Some (eph_pub ephB)) (map EvBlock (w_sent wB) ++ tail) =
    (make_secret_connection epriv lpriv eph_pub dh transcript hkdf verify locA ephA
       (Some (eph_pub ephB)) (dec (enc mB)), Some wA,
     Some {| r_buf := []; r_nonce := w_nonce wB |}, tail) /\
    w_panic wB = false /\
    w_nonce wB = nonce_of P0 (N.of_nat (length (w_sent wB))) /\ (1 <= length (w_sent wB))%nat.
Proof. exact handshake_over_stream. Qed.
Print Assumptions C16_handshake_over_stream.

(* ... and with  dec (enc m) = Some m  and a signature scheme that accepts its own signatures, A
   accepts, records B's long-term key, and agrees with the message-level model *)
Theorem C16_honest_handshake_over_stream :
  forall (epriv lpriv cipher : Type) (eph_pub : epriv -> bytes)
    (dh : epriv -> bytes -> option bytes) (transcript : bytes -> bytes -> bytes -> bytes)
    (hkdf : bytes -> bytes) (pub_of : lpriv -> bytes) (sign : lpriv -> bytes -> bytes)
    (verify : bytes -> bytes -> bytes -> bool) (seal : bytes -> bytes -> bytes -> cipher)
    (open : bytes -> bytes -> cipher -> option bytes) (pool : bytes -> bytes)
    (enc : authmsg -> bytes) (dec : bytes -> option authmsg),
  (forall k n p : bytes, open k n (seal k n p) = Some p) ->
  (forall a b : epriv, dh a (eph_pub b) = dh b (eph_pub a)) ->
  (forall a : epriv, length (eph_pub a) = 32%nat) ->
  (forall m : authmsg, dec (enc m) = Some m) ->
  (forall (l : lpriv) (msg : bytes), verify (pub_of l) msg (sign l msg) = true) ->
  forall (locA locB : lpriv) (ephA ephB : epriv) (connB tail : list (conn_ev cipher))
    (resB : hs_result) (wB : wres cipher) (stB : option rstate)
    (restB : list (conn_ev cipher)) (mB : authmsg),
  eph_pub ephA <> eph_pub ephB ->
  msc_stream epriv lpriv cipher eph_pub dh transcript hkdf pub_of sign verify seal open pool
    enc dec locB ephB (Some (eph_pub ephA)) connB = (resB, Some wB, stB, restB) ->
  hs_auth_out epriv lpriv eph_pub dh transcript pub_of sign locB ephB (Some (eph_pub ephA)) =
  Some mB ->
  N.of_nat (length (enc mB)) <= max_msg_size ->
  exists (s : session) (wA : wres cipher),
    msc_stream epriv lpriv cipher eph_pub dh transcript hkdf pub_of sign verify seal open pool
      enc dec locA ephA (Some (eph_pub ephB)) (map EvBlock (w_sent wB) ++ tail) =
    (HsOk s, Some wA, Some {| r_buf := []; r_nonce := w_nonce wB |}, tail) /\
    s_rem_pub s = pub_of locB /\
    make_secret_connection epriv lpriv eph_pub dh transcript hkdf verify locA ephA
      (Some (eph_pub ephB))
      (hs_auth_out epriv lpriv eph_pub dh transcript pub_of sign locB ephB
         (Some (eph_pub ephA))) = HsOk s.
Proof. exact honest_handshake_over_stream_ok. Qed.
Print Assumptions C16_honest_handshake_over_stream.

(* ---- any wire: if MakeSecretConnection accepts, then - [mP] being the AuthSig message written
   under this party's receive key by whoever holds it as send key - the conn began with exactly the
   sealed frames of mP, and the identity recorded is the key inside mP, an ed25519 key whose
   signature verifies over this session's challenge; or an AEAD forgery is exhibited. *)
Theorem C16_handshake_over_stream_tamper :
  forall (epriv lpriv cipher : Type) (eph_pub : epriv -> bytes)
    (dh : epriv -> bytes -> option bytes) (transcript : bytes -> bytes -> bytes -> bytes)
    (hkdf : bytes -> bytes) (pub_of : lpriv -> bytes) (sign : lpriv -> bytes -> bytes)
    (verify : bytes -> bytes -> bytes -> bool) (seal : bytes -> bytes -> bytes -> cipher)
    (open : bytes -> bytes -> cipher -> option bytes) (pool : bytes -> bytes)
    (enc : authmsg -> bytes) (dec : bytes -> option authmsg),
  (forall k n p : bytes, open k n (seal k n p) = Some p) ->
  (forall a b : cipher, {a = b} + {a <> b}) ->
  forall (loc : lpriv) (eph : epriv) (eph_in : option bytes) (conn : list (conn_ev cipher))
    (s : session) (w : option (wres cipher)) (st : option rstate)
    (conn' : list (conn_ev cipher)) (mP : authmsg) (ws : list bytes),
  msc_stream epriv lpriv cipher eph_pub dh transcript hkdf pub_of sign verify seal open pool
    enc dec loc eph eph_in conn = (HsOk s, w, st, conn') ->
  N.of_nat (length (enc mP)) <= max_msg_size ->
  let krecv := s_recv_key s in
  AeadForgeryOn open krecv (all_wire (peer_session bytes cipher seal pool enc krecv mP ws)) \/
  conn = map EvBlock (w_sent (auth_send bytes cipher seal pool enc krecv mP)) ++ conn' /\
  (exists am : authmsg,
     dec (enc mP) = Some am /\
     s_rem_pub s = am_key am /\
     am_type am = KEd25519 /\
     verify (am_key am) (s_challenge s) (am_sig am) = true /\
     st =
     Some
       {| r_buf := []; r_nonce := w_nonce (auth_send bytes cipher seal pool enc krecv mP) |}).
Proof. exact handshake_over_stream_tamper. Qed.
Print Assumptions C16_handshake_over_stream_tamper.

(* the same, read the other way: a conn that does not begin with exactly those frames (a bit
   flipped, a frame dropped, duplicated, swapped, replaced, truncated) makes MakeSecretConnection
   return the error of shareAuthSignature - no peer key is accepted *)
Theorem C16_handshake_over_stream_rejects :
  forall (epriv lpriv cipher : Type) (eph_pub : epriv -> bytes)
    (dh : epriv -> bytes -> option bytes) (transcript : bytes -> bytes -> bytes -> bytes)
    (hkdf : bytes -> bytes) (pub_of : lpriv -> bytes) (sign : lpriv -> bytes -> bytes)
    (verify : bytes -> bytes -> bytes -> bool) (seal : bytes -> bytes -> bytes -> cipher)
    (open : bytes -> bytes -> cipher -> option bytes) (pool : bytes -> bytes)
    (enc : authmsg -> bytes) (dec : bytes -> option authmsg),
  (forall k n p : bytes, open k n (seal k n p) = Some p) ->
  (forall a b : cipher, {a = b} + {a <> b}) ->
  forall (loc : lpriv) (eph : epriv) (eph_in : option bytes) (conn : list (conn_ev cipher))
    (lo hi d : bytes) (least : bool) (mP : authmsg) (ws : list bytes),
  hs_transcript epriv eph_pub dh eph eph_in = Some (lo, hi, d, least) ->
  N.of_nat (length (enc mP)) <= max_msg_size ->
  let krecv := fst (derive_secrets hkdf d least) in
  (forall rest : list (conn_ev cipher),
   conn <> map EvBlock (w_sent (auth_send bytes cipher seal pool enc krecv mP)) ++ rest) ->
  AeadForgeryOn open krecv (all_wire (peer_session bytes cipher seal pool enc krecv mP ws)) \/
  fst
    (fst
       (fst
          (msc_stream epriv lpriv cipher eph_pub dh transcript hkdf pub_of sign verify seal
             open pool enc dec loc eph eph_in conn))) = HsErr HsAuthIO.
Proof. exact handshake_over_stream_rejects. Qed.
Print Assumptions C16_handshake_over_stream_rejects.

(* ---- no counter is shared between handshake and data.  The session of one direction is the
   AuthSig Write from the zero nonce followed by the application's Writes [ws], the transport
   failing wherever it likes ([outs]).  The AuthSig Write does not panic and seals m0 >= 1 frames
   (m0 = 1 when the message fits a frame, as the real one does) under counters 0 .. m0-1; sendNonce
   is then m0, where the application's first Write starts; all Seal calls of the session carry the
   counters 0, 1, 2, ... in order, those of the data phase m0, m0+1, ...; all pairwise different. *)
Theorem C16_first_data_after_handshake :
  forall (key cipher : Type) (seal : key -> bytes -> bytes -> cipher) 
    (pool : bytes -> bytes) (enc : authmsg -> bytes) (k : key) (m : authmsg) 
    (ws : list bytes) (outs : list tout),
  N.of_nat (length (enc m)) <= max_msg_size ->
  let w0 := write_t key cipher seal pool k zero_nonce (auth_wire_bytes enc m) outs in
  let m0 := length (wt_calls w0) in
  let W := run_writes_t key cipher seal pool k zero_nonce (auth_wire_bytes enc m :: ws) outs
    in
  wt_panic w0 = false /\
  (1 <= m0)%nat /\
  ((length (auth_wire_bytes enc m) <= data_max_size)%nat -> m0 = 1%nat) /\
  map sl_nonce (wt_calls w0) = map (nonce_of P0) (nseq 0 m0) /\
  wt_nonce w0 = nonce_of P0 (N.of_nat m0) /\
  W = w0 :: run_writes_t key cipher seal pool k (nonce_of P0 (N.of_nat m0)) ws (wt_outs w0) /\
  all_calls_t W = wt_calls w0 ++ all_calls_t (tl W) /\
  map sl_nonce (all_calls_t W) = map (nonce_of P0) (nseq 0 (length (all_calls_t W))) /\
  map sl_nonce (all_calls_t (tl W)) =
  map (nonce_of P0) (nseq (N.of_nat m0) (length (all_calls_t (tl W)))) /\
  NoDup (map sl_nonce (all_calls_t W)).
Proof. exact first_data_after_handshake. Qed.
Print Assumptions C16_first_data_after_handshake.

(* the reader's side of it, untouched wire carrying the AuthSig frames and then the data frames:
   the handshake's reader leaves an empty buffer and counter m0, consumes no data frame, and the
   Reads of the data phase return a prefix of exactly the application's Writes *)
Theorem C16_session_after_handshake :
  forall (key cipher : Type) (seal : key -> bytes -> bytes -> cipher)
    (open : key -> bytes -> cipher -> option bytes) (pool : bytes -> bytes)
    (enc : authmsg -> bytes) (dec : bytes -> option authmsg) (k : key),
  (forall n p : bytes, open k n (seal k n p) = Some p) ->
  forall (m : authmsg) (ws : list bytes) (caps : list nat) (st1 : rstate)
    (am : option authmsg) (conn1 : list (conn_ev cipher)) (rs : list rres) 
    (st2 : rstate) (conn2 : list (conn_ev cipher)),
  N.of_nat (length (enc m)) <= max_msg_size ->
  let W := peer_session key cipher seal pool enc k m ws in
  no_panic W ->
  auth_recv key cipher open dec k (map EvBlock (all_sent W)) = (st1, am, conn1) ->
  run_reads key cipher open k st1 conn1 caps = (rs, st2, conn2) ->
  am = dec (enc m) /\
  st1 =
  reader_init
    (nonce_of P0 (N.of_nat (length (w_sent (auth_send key cipher seal pool enc k m))))) /\
  (exists rest : list N, concat ws = concat (map rres_data rs) ++ rest) /\
  Forall (fun r : rres => rres_ok r = true \/ r = RErrIO) rs /\
  (In RErrIO rs -> concat (map rres_data rs) = concat ws).
Proof. exact session_after_handshake. Qed.
Print Assumptions C16_session_after_handshake.

(* ... and on any wire: a message accepted by the handshake's reader is the peer's, and whatever
   the data-phase Reads return afterwards is a prefix of the application's Writes, or a block that
   is nowhere on the peer's wire (handshake or data) opened *)
Theorem C16_session_after_handshake_tamper :
  forall (key cipher : Type) (seal : key -> bytes -> bytes -> cipher)
    (open : key -> bytes -> cipher -> option bytes) (pool : bytes -> bytes)
    (enc : authmsg -> bytes) (dec : bytes -> option authmsg) (k : key),
  (forall n p : bytes, open k n (seal k n p) = Some p) ->
  (forall a b : cipher, {a = b} + {a <> b}) ->
  forall (m : authmsg) (ws : list bytes) (conn : list (conn_ev cipher)) 
    (caps : list nat) (st1 : rstate) (m' : authmsg) (conn1 : list (conn_ev cipher))
    (rs : list rres) (st2 : rstate) (conn2 : list (conn_ev cipher)),
  N.of_nat (length (enc m)) <= max_msg_size ->
  let W := peer_session key cipher seal pool enc k m ws in
  auth_recv key cipher open dec k conn = (st1, Some m', conn1) ->
  run_reads key cipher open k st1 conn1 caps = (rs, st2, conn2) ->
  AeadForgeryOn open k (all_wire W) \/
  dec (enc m) = Some m' /\
  conn = map EvBlock (w_sent (auth_send key cipher seal pool enc k m)) ++ conn1 /\
  (exists rest : list N, concat ws = concat (map rres_data rs) ++ rest).
Proof. exact session_after_handshake_tamper. Qed.
Print Assumptions C16_session_after_handshake_tamper.

(* ---- the frame layout the harness compares byte-for-byte: 4-byte little-endian length | chunk |
   rest of the pooled 1028-byte buffer (zeros for a fresh buffer); the length field decodes to the
   chunk length <= 1024; the reader's parse of the frame gives the chunk back; 1028 bytes in all
   (sealed: +16 = 1044, C16_frame_sizes) *)
Theorem C16_frame_layout :
  forall (chunk : list N) (stale : bytes),
  (length chunk <= data_max_size)%nat ->
  let f := mk_frame chunk stale in
  firstn 4 f = le_enc 4 (N.of_nat (length chunk)) /\
  le_dec (firstn 4 f) = N.of_nat (length chunk) /\
  le_dec (firstn 4 f) <= N.of_nat data_max_size /\
  frame_chunk f = chunk /\
  (length f <= total_frame_size)%nat /\
  (length stale = total_frame_size ->
   length f = total_frame_size /\
   f =
   le_enc 4 (N.of_nat (length chunk)) ++ chunk ++ skipn (data_len_size + length chunk) stale) /\
  (stale = repeat 0 total_frame_size ->
   f = le_enc 4 (N.of_nat (length chunk)) ++ chunk ++ repeat 0 (data_max_size - length chunk)).
Proof. exact frame_layout. Qed.
Print Assumptions C16_frame_layout.

Theorem C16_frame_sizes :
  total_frame_size = (data_len_size + data_max_size)%nat /\
  sealed_frame_size = (total_frame_size + 16)%nat /\
  Z.of_nat data_len_size = 4%Z /\ Z.of_nat data_max_size = 1024%Z /\
  Z.of_nat total_frame_size = 1028%Z /\ Z.of_nat sealed_frame_size = 1044%Z.
Proof. exact frame_sizes. Qed.
Print Assumptions C16_frame_sizes.

(* every frame a Write seals has that layout with a chunk of 1..1024 bytes, is what Seal was
   given, and the chunks are the data in order *)
Theorem C16_write_frames_layout :
  forall (key cipher : Type) (seal : key -> bytes -> bytes -> cipher) 
    (pool : bytes -> bytes) (k : key) (pre : bytes),
  length pre = 4%nat ->
  forall (data : bytes) (c : N),
  c <= max_uint64 ->
  let w := write key cipher seal pool k (nonce_of pre c) data in
  w_panic w = false ->
  Forall (frame_ok key cipher seal pool k) (w_calls w) /\
  concat (map (fun s : seal_call cipher => frame_chunk (sl_plain s)) (w_calls w)) = data /\
  w_sent w = map sl_out (w_calls w) /\ w_n w = length data.
Proof. exact write_frames_layout. Qed.
Print Assumptions C16_write_frames_layout.

(* the model's bound on the io.ReadFull loop is never the reason for a result *)
Theorem C16_read_full_never_out_of_fuel :
  forall (key cipher : Type) (open : key -> bytes -> cipher -> option bytes) 
    (k : key) (st : rstate) (want : nat) (conn : list (conn_ev cipher)),
  snd (fst (read_full key cipher open k st want conn)) <> FFuel.
Proof. exact read_full_fuel. Qed.
Print Assumptions C16_read_full_never_out_of_fuel.

(* ------------------------------------------------------------------ non-vacuity (byte path) *)
(* toy AEAD with byte-string keys; toy encoding: key length, key, signature *)
Definition tb_cipher := (bytes * bytes * bytes)%type.
Definition tb_seal (k n p : bytes) : tb_cipher := (k, n, p).
Definition tb_open (k n : bytes) (c : tb_cipher) : option bytes :=
  let '(k', n', p) := c in if bytes_eqb k k' && bytes_eqb n n' then Some p else None.
Definition tb_enc (m : authmsg) : bytes := N.of_nat (length (am_key m)) :: am_key m ++ am_sig m.
Definition tb_dec (b : bytes) : option authmsg :=
  match b with
  | l :: r => Some {| am_type := KEd25519; am_key := firstn (N.to_nat l) r; am_sig := skipn (N.to_nat l) r |}
  | [] => None
  end.
(* a message of 3 + 1500 bytes: length prefix of 2 bytes, two frames *)
Definition tb_big : authmsg := {| am_type := KEd25519; am_key := [8; 9]; am_sig := repeat 5 1500 |}.
Definition tb_wbig := auth_send bytes tb_cipher tb_seal t_pool tb_enc [42] tb_big.

Example C16_authsig_roundtrip_nonvacuous :
  length (auth_wire_bytes tb_enc tb_big) = 1505%nat /\
  firstn 2 (auth_wire_bytes tb_enc tb_big) = [223; 11] /\   (* uvarint 1503 = df 0b *)
  length (w_sent tb_wbig) = 2%nat /\ w_nonce tb_wbig = nonce_of P0 2 /\
  auth_recv bytes tb_cipher tb_open tb_dec [42] (map EvBlock (w_sent tb_wbig) ++ [EvErr])
    = ({| r_buf := []; r_nonce := nonce_of P0 2 |}, Some tb_big, [EvErr]).
Proof. vm_compute. repeat split; reflexivity. Qed.

(* the two frames swapped; the second frame missing; the first frame twice; a frame of the same
   message sealed under another key: no message *)
Example C16_authsig_tamper_nonvacuous :
  match w_sent tb_wbig, w_sent (auth_send bytes tb_cipher tb_seal t_pool tb_enc [43] tb_big) with
  | [f0; f1], [g0; g1] =>
    snd (fst (auth_recv bytes tb_cipher tb_open tb_dec [42] [EvBlock f1; EvBlock f0])) = None /\
    snd (fst (auth_recv bytes tb_cipher tb_open tb_dec [42] [EvBlock f0])) = None /\
    snd (fst (auth_recv bytes tb_cipher tb_open tb_dec [42] [EvBlock f0; EvBlock f0; EvBlock f1])) = None /\
    snd (fst (auth_recv bytes tb_cipher tb_open tb_dec [42] [EvBlock f0; EvBlock g1])) = None /\
    snd (fst (auth_recv bytes tb_cipher tb_open tb_dec [42] [EvBlock f0; EvBlock f1])) = Some tb_big
  | _, _ => False
  end.
Proof. vm_compute. repeat split; reflexivity. Qed.

(* the whole handshake over the stream with the toy primitives of C16_auth_nonvacuous: B
   (ephemeral 7, long-term 12) writes its AuthSig frame; A (ephemeral 5, long-term 11) reads it and
   accepts the key [12]; over an empty conn, over its own frame reflected back, or over B's frame
   with one plaintext byte changed and resealed under another key, A fails in shareAuthSignature *)
Definition tb_pub (l : N) : bytes := [l].
Definition tb_sign (l : N) (msg : bytes) : bytes := [l] ++ msg.
Definition tb_mscs := msc_stream N N tb_cipher t_eph_pub t_dh t_transcript t_hkdf tb_pub tb_sign t_verify
                        tb_seal tb_open t_pool tb_enc tb_dec.
Example C16_handshake_over_stream_nonvacuous :
  match tb_mscs 12 7 (Some (t_eph_pub 5)) [], tb_mscs 11 5 (Some (t_eph_pub 7)) [] with
  | (HsErr HsAuthIO, Some wB, _, _), (HsErr HsAuthIO, Some wA, _, _) =>
    length (w_sent wB) = 1%nat /\ w_nonce wB = nonce_of P0 1 /\
    (match tb_mscs 11 5 (Some (t_eph_pub 7)) (map EvBlock (w_sent wB) ++ [EvErr]) with
     | (HsOk s, Some _, Some st, [EvErr]) =>
       s_rem_pub s = [12] /\ st = {| r_buf := []; r_nonce := nonce_of P0 1 |}
     | _ => False
     end) /\
    fst (fst (fst (tb_mscs 11 5 (Some (t_eph_pub 7)) (map EvBlock (w_sent wA))))) = HsErr HsAuthIO /\
    fst (fst (fst (tb_mscs 11 5 (Some (t_eph_pub 7))
                     (map (fun c : tb_cipher => let '(k, n, p) := c in EvBlock (1 :: k, n, p)) (w_sent wB)))))
      = HsErr HsAuthIO
  | _, _ => False
  end.
Proof. vm_compute. repeat split; reflexivity. Qed.

(* AuthSig Write (one frame, counter 0), then Writes of 3 and 2 bytes with the transport failing
   on the second frame of the session: counters 0, 1, 2 *)
Definition tb_small : authmsg := {| am_type := KEd25519; am_key := [8; 9]; am_sig := [1; 2; 3] |}.
Example C16_first_data_after_handshake_nonvacuous :
  let W := run_writes_t bytes tb_cipher tb_seal t_pool [42] zero_nonce
             (auth_wire_bytes tb_enc tb_small :: [[1; 2; 3]; [4; 5]]) [TOk; TErr 100] in
  map (@sl_nonce tb_cipher) (all_calls_t W) = [nonce_of P0 0; nonce_of P0 1; nonce_of P0 2] /\
  map (fun w => length (wt_calls w)) W = [1; 1; 1]%nat /\
  auth_wire_bytes tb_enc tb_small = [6; 2; 8; 9; 1; 2; 3].
Proof. vm_compute. repeat split; reflexivity. Qed.

(* the session read back: AuthSig message, then the data *)
Example C16_session_after_handshake_nonvacuous :
  let W := peer_session bytes tb_cipher tb_seal t_pool tb_enc [42] tb_small [[1; 2; 3]; [4; 5]] in
  match auth_recv bytes tb_cipher tb_open tb_dec [42] (map EvBlock (all_sent W)) with
  | (st1, am, conn1) =>
    am = Some tb_small /\ st1 = reader_init (nonce_of P0 1) /\ length conn1 = 2%nat /\
    fst (fst (run_reads bytes tb_cipher tb_open [42] st1 conn1 [2; 9; 9; 9]%nat))
      = [ROk [1; 2]; ROk [3]; ROk [4; 5]; RErrIO]
  end.
Proof. vm_compute. repeat split; reflexivity. Qed.

Example C16_frame_layout_nonvacuous :
  mk_frame [1; 2; 3] (repeat 0 total_frame_size) = [3; 0; 0; 0; 1; 2; 3] ++ repeat 0 1021 /\
  length (mk_frame (repeat 7 1024) (repeat 9 total_frame_size)) = total_frame_size /\
  firstn 4 (mk_frame (repeat 7 1024) (repeat 9 total_frame_size)) = [0; 4; 0; 0] /\
  frame_chunk (mk_frame [1; 2; 3] (repeat 9 total_frame_size)) = [1; 2; 3] /\
  skipn 7 (mk_frame [1; 2; 3] (repeat 9 total_frame_size)) = repeat 9 1021.
Proof. vm_compute. repeat split; reflexivity. Qed.

(* ================================================================== a handshake frame may carry data
   A wire-compatible peer need not size its Writes as the Go code does.  Its Writes [ws] from the
   zero nonce spell  uvarint(len) ++ enc m ++ stream  in ANY split: message and first data in one
   Write (one sealed frame), the message spread over several Writes with data behind it, any
   further Writes.  The handshake's reader takes the message off the stream and not one byte
   more; the data-phase Reads - however sized - return a prefix of exactly [stream], no Read
   fails before the end of the wire, and when that is reached every byte of [stream] has been
   returned: nothing is lost at the handshake / data boundary. *)
Theorem C16_handshake_frame_may_carry_data :
  forall (key cipher : Type) (seal : key -> bytes -> bytes -> cipher)
         (open : key -> bytes -> cipher -> option bytes) (pool : bytes -> bytes)
         (enc : authmsg -> bytes) (dec : bytes -> option authmsg) (k : key),
  (forall n p : bytes, open k n (seal k n p) = Some p) ->
  forall (m : authmsg) (ws : list bytes) (stream : bytes) (caps : list nat)
         (st1 : rstate) (am : option authmsg) (conn1 : list (conn_ev cipher))
         (rs : list rres) (st2 : rstate) (conn2 : list (conn_ev cipher)),
  N.of_nat (length (enc m)) <= max_msg_size ->
  concat ws = auth_wire_bytes enc m ++ stream ->
  let W := run_writes key cipher seal pool k zero_nonce ws in
  no_panic W ->
  auth_recv key cipher open dec k (map EvBlock (all_sent W)) = (st1, am, conn1) ->
  run_reads key cipher open k st1 conn1 caps = (rs, st2, conn2) ->
  am = dec (enc m) /\
  (exists j : nat,
     (j <= length (all_sent W))%nat /\
     r_nonce st1 = nonce_of P0 (N.of_nat j) /\ conn1 = map EvBlock (skipn j (all_sent W))) /\
  (exists rest : list N, stream = concat (map rres_data rs) ++ rest) /\
  Forall (fun r : rres => rres_ok r = true \/ r = RErrIO) rs /\
  (In RErrIO rs -> concat (map rres_data rs) = stream).
Proof. exact handshake_frame_may_carry_data. Qed.
Print Assumptions C16_handshake_frame_may_carry_data.

(* the hand-rolled peer's case made explicit: ONE Write of message ++ extra that fits a frame.
   The reader leaves the handshake with exactly [extra] - the rest of that frame - in recvBuffer,
   counter 1, and the conn where the frame ended; the next Read serves [extra] from the buffer *)
Theorem C16_handshake_frame_keeps_rest :
  forall (key cipher : Type) (seal : key -> bytes -> bytes -> cipher)
         (open : key -> bytes -> cipher -> option bytes) (pool : bytes -> bytes)
         (enc : authmsg -> bytes) (dec : bytes -> option authmsg) (k : key),
  (forall n p : bytes, open k n (seal k n p) = Some p) ->
  forall (m : authmsg) (extra : bytes) (tail : list (conn_ev cipher)),
  (length (auth_wire_bytes enc m ++ extra) <= data_max_size)%nat ->
  N.of_nat (length (enc m)) <= max_msg_size ->
  let w := write key cipher seal pool k zero_nonce (auth_wire_bytes enc m ++ extra) in
  w_panic w = false /\
  length (w_sent w) = 1%nat /\
  w_nonce w = nonce_of P0 1 /\
  auth_recv key cipher open dec k (map EvBlock (w_sent w) ++ tail) =
  ({| r_buf := extra; r_nonce := nonce_of P0 1 |}, dec (enc m), tail).
Proof. exact frame_keeps_rest. Qed.
Print Assumptions C16_handshake_frame_keeps_rest.

(* message ++ "A" in one frame, then a second Write: the reader keeps "A" in recvBuffer and the
   Reads return "A", then the second Write; and the message split after its first 3 bytes with
   data behind it in the second frame *)
Example C16_handshake_frame_may_carry_data_nonvacuous :
  (let W := run_writes bytes tb_cipher tb_seal t_pool [42] zero_nonce
              [auth_wire_bytes tb_enc tb_small ++ [65]; [7; 7; 7]] in
   match auth_recv bytes tb_cipher tb_open tb_dec [42] (map EvBlock (all_sent W)) with
   | (st1, am, conn1) =>
     am = Some tb_small /\ st1 = {| r_buf := [65]; r_nonce := nonce_of P0 1 |} /\
     length conn1 = 1%nat /\
     fst (fst (run_reads bytes tb_cipher tb_open [42] st1 conn1 [9; 9; 9]%nat))
       = [ROk [65]; ROk [7; 7; 7]; RErrIO]
   end) /\
  (let W := run_writes bytes tb_cipher tb_seal t_pool [42] zero_nonce
              [firstn 3 (auth_wire_bytes tb_enc tb_small);
               skipn 3 (auth_wire_bytes tb_enc tb_small) ++ [65; 66]; [7]] in
   match auth_recv bytes tb_cipher tb_open tb_dec [42] (map EvBlock (all_sent W)) with
   | (st1, am, conn1) =>
     am = Some tb_small /\ st1 = {| r_buf := [65; 66]; r_nonce := nonce_of P0 2 |} /\
     fst (fst (run_reads bytes tb_cipher tb_open [42] st1 conn1 [1; 9; 9; 9]%nat))
       = [ROk [65]; ROk [66]; ROk [7]; RErrIO]
   end).
Proof. vm_compute. repeat split; reflexivity. Qed.
