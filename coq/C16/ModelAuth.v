(* C16 — the last phase of MakeSecretConnection on the byte path: shareAuthSignature
   (p2p/conn/secret_connection.go) runs a protoio delimited writer and a delimited reader
   (libs/protoio/writer.go, reader.go, io.go) over the SecretConnection itself.  No proofs here.

   Writer half (varintWriter.WriteMsg; tmp2p.AuthSigMessage has Size and MarshalTo, so the first
   branch is taken):
       lenOff := binary.PutUvarint(w.buffer, uint64(n)); m.MarshalTo(w.buffer[lenOff:])
       w.w.Write(w.buffer[:lenOff+n])                       -- ONE sc.Write
   Reader half (varintReader.ReadMsg):
       l, err := binary.ReadUvarint(newByteReader(r.r))     -- sc.Read(buf[:1]) per byte
       length checks (native int range, r.maxSize = 1024*1024)
       io.ReadFull(r.r, buf[:length])                       -- sc.Read(buf[n:]) until full
       proto.Unmarshal(buf, msg); cryptoenc.PubKeyFromProto(pba.PubKey)

   What is abstract: [enc] (proto.Marshal of AuthSigMessage{PubKeyToProto(key), sig}) and [dec]
   (proto.Unmarshal followed by PubKeyFromProto; None = either fails).  What is exact: the
   uvarint length prefix, the byte-at-a-time length reader with its stale byte on a 0-byte Read,
   the length checks, the io.ReadFull loop, and everything below them (Model.v: write / read). *)
From Coq Require Import List ZArith NArith Bool.
From TM Require Import Common.Hex Generated.Consts C16.Model.
Import ListNotations.
Open Scope N_scope.

(* binary.PutUvarint:  for x >= 0x80 { buf[i] = byte(x) | 0x80; x >>= 7; i++ }; buf[i] = byte(x)
   fuel 9: a uint64 needs at most 10 bytes *)
Fixpoint put_uvarint_f (fuel : nat) (x : N) : bytes :=
  match fuel with
  | O => [x]
  | S f => if x <? 128 then [x] else (x mod 128 + 128) :: put_uvarint_f f (x / 128)
  end.
Definition put_uvarint (x : N) : bytes := put_uvarint_f 9 x.

Definition max_varint_len64 : nat := 10.
Definition max_msg_size : N := 1048576.            (* NewDelimitedReader(sc, 1024*1024) *)
Definition max_native_int : N := 9223372036854775807.  (* uint64(^uint(0)>>1), 64-bit *)

Inductive uvres :=
| UvOk (x : N)
| UvErr (r : rres)     (* ReadByte returned the error of sc.Read *)
| UvOverflow.          (* errOverflow *)

Inductive fullres :=
| FOk (d : bytes)
| FErr (r : rres)      (* sc.Read failed before the buffer was full *)
| FFuel.               (* not a result of the code: the model's loop bound ran out
                          (ProofsCompose.read_full_fuel: it never does) *)

Section Delimited.
Variables key cipher : Type.
Variable open : key -> bytes -> cipher -> option bytes.
Notation read := (read key cipher open).

(* binary.ReadUvarint over byteReader{sc}:
     for i := 0; i < MaxVarintLen64; i++ {
       b, err := r.ReadByte()          -- n, err := sc.Read(r.buf[:1]); on err return; b = r.buf[0]
       if b < 0x80 { if i == 9 && b > 1 { overflow }; return x | uint64(b)<<s }
       x |= uint64(b&0x7f) << s; s += 7 }
     return overflow
   [last] = r.buf[0] before the call: a Read that returns (0, nil) - a frame whose chunk is empty -
   leaves it in place and ReadByte hands it out again.  x and b<<s occupy disjoint bits, so
   x | b<<s = x + b*2^s (and nothing is shifted out of 64 bits where the value is used). *)
Fixpoint read_uvarint_loop (n i : nat) (x s last : N) (k : key) (st : rstate)
    (conn : list (conn_ev cipher)) : rstate * uvres * list (conn_ev cipher) :=
  match n with
  | O => (st, UvOverflow, conn)
  | S n' =>
    let '(st', r, conn') := read k st 1 conn in
    match r with
    | ROk d =>
      let b := hd last d in
      if b <? 128 then
        if (i =? 9)%nat && (1 <? b) then (st', UvOverflow, conn')
        else (st', UvOk (x + b * 2 ^ s), conn')
      else read_uvarint_loop n' (S i) (x + (b mod 128) * 2 ^ s) (s + 7) b k st' conn'
    | _ => (st', UvErr r, conn')
    end
  end.

Definition read_uvarint (k : key) (st : rstate) (conn : list (conn_ev cipher)) :=
  read_uvarint_loop max_varint_len64 0 0 0 0 k st conn.

(* io.ReadFull(sc, buf) = ReadAtLeast(sc, buf, len buf):
     for n < min && err == nil { nn, err = r.Read(buf[n:]); n += nn }
   [want] = len(buf) - n.  A Read returning (0, nil) makes the loop go round again; it has then
   taken one block off the conn, so want + len(conn) iterations suffice. *)
Fixpoint read_full_loop (fuel want : nat) (acc : bytes) (k : key) (st : rstate)
    (conn : list (conn_ev cipher)) : rstate * fullres * list (conn_ev cipher) :=
  match want with
  | O => (st, FOk acc, conn)
  | S _ =>
    match fuel with
    | O => (st, FFuel, conn)
    | S f =>
      let '(st', r, conn') := read k st want conn in
      match r with
      | ROk d => read_full_loop f (want - length d) (acc ++ d) k st' conn'
      | _ => (st', FErr r, conn')
      end
    end
  end.

Definition read_full (k : key) (st : rstate) (want : nat) (conn : list (conn_ev cipher)) :=
  read_full_loop (want + length conn) want [] k st conn.

(* varintReader.ReadMsg up to (not including) proto.Unmarshal: the message body, None = error *)
Definition read_delimited (k : key) (st : rstate) (conn : list (conn_ev cipher))
  : rstate * option bytes * list (conn_ev cipher) :=
  let '(st1, r, conn1) := read_uvarint k st conn in
  match r with
  | UvOk l =>
    if max_native_int <=? l then (st1, None, conn1)
    else if max_msg_size <? l then (st1, None, conn1)
    else
      let '(st2, fr, conn2) := read_full k st1 (N.to_nat l) conn1 in
      match fr with
      | FOk body => (st2, Some body, conn2)
      | _ => (st2, None, conn2)
      end
  | _ => (st1, None, conn1)
  end.

End Delimited.

(* ------------------------------------------------------------------ shareAuthSignature *)
Section AuthExchange.
Variables key cipher : Type.
Variable seal : key -> bytes -> bytes -> cipher.
Variable open : key -> bytes -> cipher -> option bytes.
Variable pool : bytes -> bytes.
Variable enc : authmsg -> bytes.
Variable dec : bytes -> option authmsg.

(* what the delimited writer hands to sc.Write in one call *)
Definition auth_wire_bytes (m : authmsg) : bytes :=
  put_uvarint (N.of_nat (length (enc m))) ++ enc m.

(* sendNonce / recvNonce = new([aeadNonceSize]byte), recvBuffer = nil *)
Definition auth_send (ksend : key) (m : authmsg) : wres cipher :=
  write key cipher seal pool ksend zero_nonce (auth_wire_bytes m).

Definition auth_recv (krecv : key) (conn : list (conn_ev cipher))
  : rstate * option authmsg * list (conn_ev cipher) :=
  let '(st, r, conn') :=
    read_delimited key cipher open krecv {| r_buf := []; r_nonce := zero_nonce |} conn in
  (st, match r with Some body => dec body | None => None end, conn').
End AuthExchange.

(* ------------------------------------------------------------------ MakeSecretConnection over the stream *)
(* The AEAD keys are the 32-byte secrets of deriveSecrets (chacha20poly1305.New(secret)): the
   stream's key type is [bytes].  [conn]: what this party's io.ReadFull(conn, 1044) calls return
   from the moment shareAuthSignature starts.  Result: the outcome, this party's own Write (None:
   it never got that far), the reader state and the rest of the conn it leaves for the data phase. *)
Section HandshakeStream.
Variables epriv lpriv cipher : Type.
Variable eph_pub : epriv -> bytes.
Variable dh : epriv -> bytes -> option bytes.
Variable transcript : bytes -> bytes -> bytes -> bytes.
Variable hkdf : bytes -> bytes.
Variable pub_of : lpriv -> bytes.
Variable sign : lpriv -> bytes -> bytes.
Variable verify : bytes -> bytes -> bytes -> bool.
Variable seal : bytes -> bytes -> bytes -> cipher.
Variable open : bytes -> bytes -> cipher -> option bytes.
Variable pool : bytes -> bytes.
Variable enc : authmsg -> bytes.
Variable dec : bytes -> option authmsg.

Definition msc_stream (loc : lpriv) (eph : epriv) (eph_in : option bytes)
    (conn : list (conn_ev cipher))
  : hs_result * option (wres cipher) * option rstate * list (conn_ev cipher) :=
  match hs_transcript epriv eph_pub dh eph eph_in,
        hs_auth_out epriv lpriv eph_pub dh transcript pub_of sign loc eph eph_in with
  | Some (_, _, dhs, least), Some mine =>
    let '(recv_secret, send_secret) := derive_secrets hkdf dhs least in
    let w := auth_send bytes cipher seal pool enc send_secret mine in
    let '(st, auth_in, conn') := auth_recv bytes cipher open dec recv_secret conn in
    (make_secret_connection epriv lpriv eph_pub dh transcript hkdf verify loc eph eph_in auth_in,
     Some w, Some st, conn')
  | _, _ =>
    (make_secret_connection epriv lpriv eph_pub dh transcript hkdf verify loc eph eph_in None,
     None, None, conn)
  end.
End HandshakeStream.
