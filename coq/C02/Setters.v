(* GENERATED (by hand-run script, see git history): projection lemmas for the state setters of C02/Model.v,
   collected in the rewrite database [cs]; the setters are then kept folded in proofs. *)
From Coq Require Import List ZArith NArith Bool.
From TM Require Import C02.Model.
Import ListNotations.
Open Scope Z_scope.

Lemma cs_height_set_rs (r : Z) (st : step) (s : cstate) : cs_height (set_rs r st s) = cs_height s. Proof. reflexivity. Qed.
Lemma cs_round_set_rs (r : Z) (st : step) (s : cstate) : cs_round (set_rs r st s) = r. Proof. reflexivity. Qed.
Lemma cs_step_set_rs (r : Z) (st : step) (s : cstate) : cs_step (set_rs r st s) = st. Proof. reflexivity. Qed.
Lemma cs_triggered_set_rs (r : Z) (st : step) (s : cstate) : cs_triggered (set_rs r st s) = cs_triggered s. Proof. reflexivity. Qed.
Lemma cs_proposal_set_rs (r : Z) (st : step) (s : cstate) : cs_proposal (set_rs r st s) = cs_proposal s. Proof. reflexivity. Qed.
Lemma cs_pblock_set_rs (r : Z) (st : step) (s : cstate) : cs_pblock (set_rs r st s) = cs_pblock s. Proof. reflexivity. Qed.
Lemma cs_pparts_set_rs (r : Z) (st : step) (s : cstate) : cs_pparts (set_rs r st s) = cs_pparts s. Proof. reflexivity. Qed.
Lemma cs_lround_set_rs (r : Z) (st : step) (s : cstate) : cs_lround (set_rs r st s) = cs_lround s. Proof. reflexivity. Qed.
Lemma cs_lblock_set_rs (r : Z) (st : step) (s : cstate) : cs_lblock (set_rs r st s) = cs_lblock s. Proof. reflexivity. Qed.
Lemma cs_lparts_set_rs (r : Z) (st : step) (s : cstate) : cs_lparts (set_rs r st s) = cs_lparts s. Proof. reflexivity. Qed.
Lemma cs_vround_set_rs (r : Z) (st : step) (s : cstate) : cs_vround (set_rs r st s) = cs_vround s. Proof. reflexivity. Qed.
Lemma cs_vblock_set_rs (r : Z) (st : step) (s : cstate) : cs_vblock (set_rs r st s) = cs_vblock s. Proof. reflexivity. Qed.
Lemma cs_vparts_set_rs (r : Z) (st : step) (s : cstate) : cs_vparts (set_rs r st s) = cs_vparts s. Proof. reflexivity. Qed.
Lemma cs_commit_round_set_rs (r : Z) (st : step) (s : cstate) : cs_commit_round (set_rs r st s) = cs_commit_round s. Proof. reflexivity. Qed.
Lemma cs_votes_set_rs (r : Z) (st : step) (s : cstate) : cs_votes (set_rs r st s) = cs_votes s. Proof. reflexivity. Qed.
Lemma cs_last_commit_set_rs (r : Z) (st : step) (s : cstate) : cs_last_commit (set_rs r st s) = cs_last_commit s. Proof. reflexivity. Qed.
Lemma cs_scheduled_set_rs (r : Z) (st : step) (s : cstate) : cs_scheduled (set_rs r st s) = cs_scheduled s. Proof. reflexivity. Qed.
Lemma cs_halted_set_rs (r : Z) (st : step) (s : cstate) : cs_halted (set_rs r st s) = cs_halted s. Proof. reflexivity. Qed.
Lemma cs_height_set_triggered (b : bool) (s : cstate) : cs_height (set_triggered b s) = cs_height s. Proof. reflexivity. Qed.
Lemma cs_round_set_triggered (b : bool) (s : cstate) : cs_round (set_triggered b s) = cs_round s. Proof. reflexivity. Qed.
Lemma cs_step_set_triggered (b : bool) (s : cstate) : cs_step (set_triggered b s) = cs_step s. Proof. reflexivity. Qed.
Lemma cs_triggered_set_triggered (b : bool) (s : cstate) : cs_triggered (set_triggered b s) = b. Proof. reflexivity. Qed.
Lemma cs_proposal_set_triggered (b : bool) (s : cstate) : cs_proposal (set_triggered b s) = cs_proposal s. Proof. reflexivity. Qed.
Lemma cs_pblock_set_triggered (b : bool) (s : cstate) : cs_pblock (set_triggered b s) = cs_pblock s. Proof. reflexivity. Qed.
Lemma cs_pparts_set_triggered (b : bool) (s : cstate) : cs_pparts (set_triggered b s) = cs_pparts s. Proof. reflexivity. Qed.
Lemma cs_lround_set_triggered (b : bool) (s : cstate) : cs_lround (set_triggered b s) = cs_lround s. Proof. reflexivity. Qed.
Lemma cs_lblock_set_triggered (b : bool) (s : cstate) : cs_lblock (set_triggered b s) = cs_lblock s. Proof. reflexivity. Qed.
Lemma cs_lparts_set_triggered (b : bool) (s : cstate) : cs_lparts (set_triggered b s) = cs_lparts s. Proof. reflexivity. Qed.
Lemma cs_vround_set_triggered (b : bool) (s : cstate) : cs_vround (set_triggered b s) = cs_vround s. Proof. reflexivity. Qed.
Lemma cs_vblock_set_triggered (b : bool) (s : cstate) : cs_vblock (set_triggered b s) = cs_vblock s. Proof. reflexivity. Qed.
Lemma cs_vparts_set_triggered (b : bool) (s : cstate) : cs_vparts (set_triggered b s) = cs_vparts s. Proof. reflexivity. Qed.
Lemma cs_commit_round_set_triggered (b : bool) (s : cstate) : cs_commit_round (set_triggered b s) = cs_commit_round s. Proof. reflexivity. Qed.
Lemma cs_votes_set_triggered (b : bool) (s : cstate) : cs_votes (set_triggered b s) = cs_votes s. Proof. reflexivity. Qed.
Lemma cs_last_commit_set_triggered (b : bool) (s : cstate) : cs_last_commit (set_triggered b s) = cs_last_commit s. Proof. reflexivity. Qed.
Lemma cs_scheduled_set_triggered (b : bool) (s : cstate) : cs_scheduled (set_triggered b s) = cs_scheduled s. Proof. reflexivity. Qed.
Lemma cs_halted_set_triggered (b : bool) (s : cstate) : cs_halted (set_triggered b s) = cs_halted s. Proof. reflexivity. Qed.
Lemma cs_height_set_prop (p : option proposal) (b : option block) (pp : option partset) (s : cstate) : cs_height (set_prop p b pp s) = cs_height s. Proof. reflexivity. Qed.
Lemma cs_round_set_prop (p : option proposal) (b : option block) (pp : option partset) (s : cstate) : cs_round (set_prop p b pp s) = cs_round s. Proof. reflexivity. Qed.
Lemma cs_step_set_prop (p : option proposal) (b : option block) (pp : option partset) (s : cstate) : cs_step (set_prop p b pp s) = cs_step s. Proof. reflexivity. Qed.
Lemma cs_triggered_set_prop (p : option proposal) (b : option block) (pp : option partset) (s : cstate) : cs_triggered (set_prop p b pp s) = cs_triggered s. Proof. reflexivity. Qed.
Lemma cs_proposal_set_prop (p : option proposal) (b : option block) (pp : option partset) (s : cstate) : cs_proposal (set_prop p b pp s) = p. Proof. reflexivity. Qed.
Lemma cs_pblock_set_prop (p : option proposal) (b : option block) (pp : option partset) (s : cstate) : cs_pblock (set_prop p b pp s) = b. Proof. reflexivity. Qed.
Lemma cs_pparts_set_prop (p : option proposal) (b : option block) (pp : option partset) (s : cstate) : cs_pparts (set_prop p b pp s) = pp. Proof. reflexivity. Qed.
Lemma cs_lround_set_prop (p : option proposal) (b : option block) (pp : option partset) (s : cstate) : cs_lround (set_prop p b pp s) = cs_lround s. Proof. reflexivity. Qed.
Lemma cs_lblock_set_prop (p : option proposal) (b : option block) (pp : option partset) (s : cstate) : cs_lblock (set_prop p b pp s) = cs_lblock s. Proof. reflexivity. Qed.
Lemma cs_lparts_set_prop (p : option proposal) (b : option block) (pp : option partset) (s : cstate) : cs_lparts (set_prop p b pp s) = cs_lparts s. Proof. reflexivity. Qed.
Lemma cs_vround_set_prop (p : option proposal) (b : option block) (pp : option partset) (s : cstate) : cs_vround (set_prop p b pp s) = cs_vround s. Proof. reflexivity. Qed.
Lemma cs_vblock_set_prop (p : option proposal) (b : option block) (pp : option partset) (s : cstate) : cs_vblock (set_prop p b pp s) = cs_vblock s. Proof. reflexivity. Qed.
Lemma cs_vparts_set_prop (p : option proposal) (b : option block) (pp : option partset) (s : cstate) : cs_vparts (set_prop p b pp s) = cs_vparts s. Proof. reflexivity. Qed.
Lemma cs_commit_round_set_prop (p : option proposal) (b : option block) (pp : option partset) (s : cstate) : cs_commit_round (set_prop p b pp s) = cs_commit_round s. Proof. reflexivity. Qed.
Lemma cs_votes_set_prop (p : option proposal) (b : option block) (pp : option partset) (s : cstate) : cs_votes (set_prop p b pp s) = cs_votes s. Proof. reflexivity. Qed.
Lemma cs_last_commit_set_prop (p : option proposal) (b : option block) (pp : option partset) (s : cstate) : cs_last_commit (set_prop p b pp s) = cs_last_commit s. Proof. reflexivity. Qed.
Lemma cs_scheduled_set_prop (p : option proposal) (b : option block) (pp : option partset) (s : cstate) : cs_scheduled (set_prop p b pp s) = cs_scheduled s. Proof. reflexivity. Qed.
Lemma cs_halted_set_prop (p : option proposal) (b : option block) (pp : option partset) (s : cstate) : cs_halted (set_prop p b pp s) = cs_halted s. Proof. reflexivity. Qed.
Lemma cs_height_set_locked (r : Z) (b : option block) (pp : option partset) (s : cstate) : cs_height (set_locked r b pp s) = cs_height s. Proof. reflexivity. Qed.
Lemma cs_round_set_locked (r : Z) (b : option block) (pp : option partset) (s : cstate) : cs_round (set_locked r b pp s) = cs_round s. Proof. reflexivity. Qed.
Lemma cs_step_set_locked (r : Z) (b : option block) (pp : option partset) (s : cstate) : cs_step (set_locked r b pp s) = cs_step s. Proof. reflexivity. Qed.
Lemma cs_triggered_set_locked (r : Z) (b : option block) (pp : option partset) (s : cstate) : cs_triggered (set_locked r b pp s) = cs_triggered s. Proof. reflexivity. Qed.
Lemma cs_proposal_set_locked (r : Z) (b : option block) (pp : option partset) (s : cstate) : cs_proposal (set_locked r b pp s) = cs_proposal s. Proof. reflexivity. Qed.
Lemma cs_pblock_set_locked (r : Z) (b : option block) (pp : option partset) (s : cstate) : cs_pblock (set_locked r b pp s) = cs_pblock s. Proof. reflexivity. Qed.
Lemma cs_pparts_set_locked (r : Z) (b : option block) (pp : option partset) (s : cstate) : cs_pparts (set_locked r b pp s) = cs_pparts s. Proof. reflexivity. Qed.
Lemma cs_lround_set_locked (r : Z) (b : option block) (pp : option partset) (s : cstate) : cs_lround (set_locked r b pp s) = r. Proof. reflexivity. Qed.
Lemma cs_lblock_set_locked (r : Z) (b : option block) (pp : option partset) (s : cstate) : cs_lblock (set_locked r b pp s) = b. Proof. reflexivity. Qed.
Lemma cs_lparts_set_locked (r : Z) (b : option block) (pp : option partset) (s : cstate) : cs_lparts (set_locked r b pp s) = pp. Proof. reflexivity. Qed.
Lemma cs_vround_set_locked (r : Z) (b : option block) (pp : option partset) (s : cstate) : cs_vround (set_locked r b pp s) = cs_vround s. Proof. reflexivity. Qed.
Lemma cs_vblock_set_locked (r : Z) (b : option block) (pp : option partset) (s : cstate) : cs_vblock (set_locked r b pp s) = cs_vblock s. Proof. reflexivity. Qed.
Lemma cs_vparts_set_locked (r : Z) (b : option block) (pp : option partset) (s : cstate) : cs_vparts (set_locked r b pp s) = cs_vparts s. Proof. reflexivity. Qed.
Lemma cs_commit_round_set_locked (r : Z) (b : option block) (pp : option partset) (s : cstate) : cs_commit_round (set_locked r b pp s) = cs_commit_round s. Proof. reflexivity. Qed.
Lemma cs_votes_set_locked (r : Z) (b : option block) (pp : option partset) (s : cstate) : cs_votes (set_locked r b pp s) = cs_votes s. Proof. reflexivity. Qed.
Lemma cs_last_commit_set_locked (r : Z) (b : option block) (pp : option partset) (s : cstate) : cs_last_commit (set_locked r b pp s) = cs_last_commit s. Proof. reflexivity. Qed.
Lemma cs_scheduled_set_locked (r : Z) (b : option block) (pp : option partset) (s : cstate) : cs_scheduled (set_locked r b pp s) = cs_scheduled s. Proof. reflexivity. Qed.
Lemma cs_halted_set_locked (r : Z) (b : option block) (pp : option partset) (s : cstate) : cs_halted (set_locked r b pp s) = cs_halted s. Proof. reflexivity. Qed.
Lemma cs_height_set_valid (r : Z) (b : option block) (pp : option partset) (s : cstate) : cs_height (set_valid r b pp s) = cs_height s. Proof. reflexivity. Qed.
Lemma cs_round_set_valid (r : Z) (b : option block) (pp : option partset) (s : cstate) : cs_round (set_valid r b pp s) = cs_round s. Proof. reflexivity. Qed.
Lemma cs_step_set_valid (r : Z) (b : option block) (pp : option partset) (s : cstate) : cs_step (set_valid r b pp s) = cs_step s. Proof. reflexivity. Qed.
Lemma cs_triggered_set_valid (r : Z) (b : option block) (pp : option partset) (s : cstate) : cs_triggered (set_valid r b pp s) = cs_triggered s. Proof. reflexivity. Qed.
Lemma cs_proposal_set_valid (r : Z) (b : option block) (pp : option partset) (s : cstate) : cs_proposal (set_valid r b pp s) = cs_proposal s. Proof. reflexivity. Qed.
Lemma cs_pblock_set_valid (r : Z) (b : option block) (pp : option partset) (s : cstate) : cs_pblock (set_valid r b pp s) = cs_pblock s. Proof. reflexivity. Qed.
Lemma cs_pparts_set_valid (r : Z) (b : option block) (pp : option partset) (s : cstate) : cs_pparts (set_valid r b pp s) = cs_pparts s. Proof. reflexivity. Qed.
Lemma cs_lround_set_valid (r : Z) (b : option block) (pp : option partset) (s : cstate) : cs_lround (set_valid r b pp s) = cs_lround s. Proof. reflexivity. Qed.
Lemma cs_lblock_set_valid (r : Z) (b : option block) (pp : option partset) (s : cstate) : cs_lblock (set_valid r b pp s) = cs_lblock s. Proof. reflexivity. Qed.
Lemma cs_lparts_set_valid (r : Z) (b : option block) (pp : option partset) (s : cstate) : cs_lparts (set_valid r b pp s) = cs_lparts s. Proof. reflexivity. Qed.
Lemma cs_vround_set_valid (r : Z) (b : option block) (pp : option partset) (s : cstate) : cs_vround (set_valid r b pp s) = r. Proof. reflexivity. Qed.
Lemma cs_vblock_set_valid (r : Z) (b : option block) (pp : option partset) (s : cstate) : cs_vblock (set_valid r b pp s) = b. Proof. reflexivity. Qed.
Lemma cs_vparts_set_valid (r : Z) (b : option block) (pp : option partset) (s : cstate) : cs_vparts (set_valid r b pp s) = pp. Proof. reflexivity. Qed.
Lemma cs_commit_round_set_valid (r : Z) (b : option block) (pp : option partset) (s : cstate) : cs_commit_round (set_valid r b pp s) = cs_commit_round s. Proof. reflexivity. Qed.
Lemma cs_votes_set_valid (r : Z) (b : option block) (pp : option partset) (s : cstate) : cs_votes (set_valid r b pp s) = cs_votes s. Proof. reflexivity. Qed.
Lemma cs_last_commit_set_valid (r : Z) (b : option block) (pp : option partset) (s : cstate) : cs_last_commit (set_valid r b pp s) = cs_last_commit s. Proof. reflexivity. Qed.
Lemma cs_scheduled_set_valid (r : Z) (b : option block) (pp : option partset) (s : cstate) : cs_scheduled (set_valid r b pp s) = cs_scheduled s. Proof. reflexivity. Qed.
Lemma cs_halted_set_valid (r : Z) (b : option block) (pp : option partset) (s : cstate) : cs_halted (set_valid r b pp s) = cs_halted s. Proof. reflexivity. Qed.
Lemma cs_height_set_votes (v : hvs) (s : cstate) : cs_height (set_votes v s) = cs_height s. Proof. reflexivity. Qed.
Lemma cs_round_set_votes (v : hvs) (s : cstate) : cs_round (set_votes v s) = cs_round s. Proof. reflexivity. Qed.
Lemma cs_step_set_votes (v : hvs) (s : cstate) : cs_step (set_votes v s) = cs_step s. Proof. reflexivity. Qed.
Lemma cs_triggered_set_votes (v : hvs) (s : cstate) : cs_triggered (set_votes v s) = cs_triggered s. Proof. reflexivity. Qed.
Lemma cs_proposal_set_votes (v : hvs) (s : cstate) : cs_proposal (set_votes v s) = cs_proposal s. Proof. reflexivity. Qed.
Lemma cs_pblock_set_votes (v : hvs) (s : cstate) : cs_pblock (set_votes v s) = cs_pblock s. Proof. reflexivity. Qed.
Lemma cs_pparts_set_votes (v : hvs) (s : cstate) : cs_pparts (set_votes v s) = cs_pparts s. Proof. reflexivity. Qed.
Lemma cs_lround_set_votes (v : hvs) (s : cstate) : cs_lround (set_votes v s) = cs_lround s. Proof. reflexivity. Qed.
Lemma cs_lblock_set_votes (v : hvs) (s : cstate) : cs_lblock (set_votes v s) = cs_lblock s. Proof. reflexivity. Qed.
Lemma cs_lparts_set_votes (v : hvs) (s : cstate) : cs_lparts (set_votes v s) = cs_lparts s. Proof. reflexivity. Qed.
Lemma cs_vround_set_votes (v : hvs) (s : cstate) : cs_vround (set_votes v s) = cs_vround s. Proof. reflexivity. Qed.
Lemma cs_vblock_set_votes (v : hvs) (s : cstate) : cs_vblock (set_votes v s) = cs_vblock s. Proof. reflexivity. Qed.
Lemma cs_vparts_set_votes (v : hvs) (s : cstate) : cs_vparts (set_votes v s) = cs_vparts s. Proof. reflexivity. Qed.
Lemma cs_commit_round_set_votes (v : hvs) (s : cstate) : cs_commit_round (set_votes v s) = cs_commit_round s. Proof. reflexivity. Qed.
Lemma cs_votes_set_votes (v : hvs) (s : cstate) : cs_votes (set_votes v s) = v. Proof. reflexivity. Qed.
Lemma cs_last_commit_set_votes (v : hvs) (s : cstate) : cs_last_commit (set_votes v s) = cs_last_commit s. Proof. reflexivity. Qed.
Lemma cs_scheduled_set_votes (v : hvs) (s : cstate) : cs_scheduled (set_votes v s) = cs_scheduled s. Proof. reflexivity. Qed.
Lemma cs_halted_set_votes (v : hvs) (s : cstate) : cs_halted (set_votes v s) = cs_halted s. Proof. reflexivity. Qed.
Lemma cs_height_set_last_commit (lc : option voteset) (s : cstate) : cs_height (set_last_commit lc s) = cs_height s. Proof. reflexivity. Qed.
Lemma cs_round_set_last_commit (lc : option voteset) (s : cstate) : cs_round (set_last_commit lc s) = cs_round s. Proof. reflexivity. Qed.
Lemma cs_step_set_last_commit (lc : option voteset) (s : cstate) : cs_step (set_last_commit lc s) = cs_step s. Proof. reflexivity. Qed.
Lemma cs_triggered_set_last_commit (lc : option voteset) (s : cstate) : cs_triggered (set_last_commit lc s) = cs_triggered s. Proof. reflexivity. Qed.
Lemma cs_proposal_set_last_commit (lc : option voteset) (s : cstate) : cs_proposal (set_last_commit lc s) = cs_proposal s. Proof. reflexivity. Qed.
Lemma cs_pblock_set_last_commit (lc : option voteset) (s : cstate) : cs_pblock (set_last_commit lc s) = cs_pblock s. Proof. reflexivity. Qed.
Lemma cs_pparts_set_last_commit (lc : option voteset) (s : cstate) : cs_pparts (set_last_commit lc s) = cs_pparts s. Proof. reflexivity. Qed.
Lemma cs_lround_set_last_commit (lc : option voteset) (s : cstate) : cs_lround (set_last_commit lc s) = cs_lround s. Proof. reflexivity. Qed.
Lemma cs_lblock_set_last_commit (lc : option voteset) (s : cstate) : cs_lblock (set_last_commit lc s) = cs_lblock s. Proof. reflexivity. Qed.
Lemma cs_lparts_set_last_commit (lc : option voteset) (s : cstate) : cs_lparts (set_last_commit lc s) = cs_lparts s. Proof. reflexivity. Qed.
Lemma cs_vround_set_last_commit (lc : option voteset) (s : cstate) : cs_vround (set_last_commit lc s) = cs_vround s. Proof. reflexivity. Qed.
Lemma cs_vblock_set_last_commit (lc : option voteset) (s : cstate) : cs_vblock (set_last_commit lc s) = cs_vblock s. Proof. reflexivity. Qed.
Lemma cs_vparts_set_last_commit (lc : option voteset) (s : cstate) : cs_vparts (set_last_commit lc s) = cs_vparts s. Proof. reflexivity. Qed.
Lemma cs_commit_round_set_last_commit (lc : option voteset) (s : cstate) : cs_commit_round (set_last_commit lc s) = cs_commit_round s. Proof. reflexivity. Qed.
Lemma cs_votes_set_last_commit (lc : option voteset) (s : cstate) : cs_votes (set_last_commit lc s) = cs_votes s. Proof. reflexivity. Qed.
Lemma cs_last_commit_set_last_commit (lc : option voteset) (s : cstate) : cs_last_commit (set_last_commit lc s) = lc. Proof. reflexivity. Qed.
Lemma cs_scheduled_set_last_commit (lc : option voteset) (s : cstate) : cs_scheduled (set_last_commit lc s) = cs_scheduled s. Proof. reflexivity. Qed.
Lemma cs_halted_set_last_commit (lc : option voteset) (s : cstate) : cs_halted (set_last_commit lc s) = cs_halted s. Proof. reflexivity. Qed.
Lemma cs_height_set_commit_round (r : Z) (s : cstate) : cs_height (set_commit_round r s) = cs_height s. Proof. reflexivity. Qed.
Lemma cs_round_set_commit_round (r : Z) (s : cstate) : cs_round (set_commit_round r s) = cs_round s. Proof. reflexivity. Qed.
Lemma cs_step_set_commit_round (r : Z) (s : cstate) : cs_step (set_commit_round r s) = cs_step s. Proof. reflexivity. Qed.
Lemma cs_triggered_set_commit_round (r : Z) (s : cstate) : cs_triggered (set_commit_round r s) = cs_triggered s. Proof. reflexivity. Qed.
Lemma cs_proposal_set_commit_round (r : Z) (s : cstate) : cs_proposal (set_commit_round r s) = cs_proposal s. Proof. reflexivity. Qed.
Lemma cs_pblock_set_commit_round (r : Z) (s : cstate) : cs_pblock (set_commit_round r s) = cs_pblock s. Proof. reflexivity. Qed.
Lemma cs_pparts_set_commit_round (r : Z) (s : cstate) : cs_pparts (set_commit_round r s) = cs_pparts s. Proof. reflexivity. Qed.
Lemma cs_lround_set_commit_round (r : Z) (s : cstate) : cs_lround (set_commit_round r s) = cs_lround s. Proof. reflexivity. Qed.
Lemma cs_lblock_set_commit_round (r : Z) (s : cstate) : cs_lblock (set_commit_round r s) = cs_lblock s. Proof. reflexivity. Qed.
Lemma cs_lparts_set_commit_round (r : Z) (s : cstate) : cs_lparts (set_commit_round r s) = cs_lparts s. Proof. reflexivity. Qed.
Lemma cs_vround_set_commit_round (r : Z) (s : cstate) : cs_vround (set_commit_round r s) = cs_vround s. Proof. reflexivity. Qed.
Lemma cs_vblock_set_commit_round (r : Z) (s : cstate) : cs_vblock (set_commit_round r s) = cs_vblock s. Proof. reflexivity. Qed.
Lemma cs_vparts_set_commit_round (r : Z) (s : cstate) : cs_vparts (set_commit_round r s) = cs_vparts s. Proof. reflexivity. Qed.
Lemma cs_commit_round_set_commit_round (r : Z) (s : cstate) : cs_commit_round (set_commit_round r s) = r. Proof. reflexivity. Qed.
Lemma cs_votes_set_commit_round (r : Z) (s : cstate) : cs_votes (set_commit_round r s) = cs_votes s. Proof. reflexivity. Qed.
Lemma cs_last_commit_set_commit_round (r : Z) (s : cstate) : cs_last_commit (set_commit_round r s) = cs_last_commit s. Proof. reflexivity. Qed.
Lemma cs_scheduled_set_commit_round (r : Z) (s : cstate) : cs_scheduled (set_commit_round r s) = cs_scheduled s. Proof. reflexivity. Qed.
Lemma cs_halted_set_commit_round (r : Z) (s : cstate) : cs_halted (set_commit_round r s) = cs_halted s. Proof. reflexivity. Qed.
Lemma cs_height_add_sched (ti : tinfo) (s : cstate) : cs_height (add_sched ti s) = cs_height s. Proof. reflexivity. Qed.
Lemma cs_round_add_sched (ti : tinfo) (s : cstate) : cs_round (add_sched ti s) = cs_round s. Proof. reflexivity. Qed.
Lemma cs_step_add_sched (ti : tinfo) (s : cstate) : cs_step (add_sched ti s) = cs_step s. Proof. reflexivity. Qed.
Lemma cs_triggered_add_sched (ti : tinfo) (s : cstate) : cs_triggered (add_sched ti s) = cs_triggered s. Proof. reflexivity. Qed.
Lemma cs_proposal_add_sched (ti : tinfo) (s : cstate) : cs_proposal (add_sched ti s) = cs_proposal s. Proof. reflexivity. Qed.
Lemma cs_pblock_add_sched (ti : tinfo) (s : cstate) : cs_pblock (add_sched ti s) = cs_pblock s. Proof. reflexivity. Qed.
Lemma cs_pparts_add_sched (ti : tinfo) (s : cstate) : cs_pparts (add_sched ti s) = cs_pparts s. Proof. reflexivity. Qed.
Lemma cs_lround_add_sched (ti : tinfo) (s : cstate) : cs_lround (add_sched ti s) = cs_lround s. Proof. reflexivity. Qed.
Lemma cs_lblock_add_sched (ti : tinfo) (s : cstate) : cs_lblock (add_sched ti s) = cs_lblock s. Proof. reflexivity. Qed.
Lemma cs_lparts_add_sched (ti : tinfo) (s : cstate) : cs_lparts (add_sched ti s) = cs_lparts s. Proof. reflexivity. Qed.
Lemma cs_vround_add_sched (ti : tinfo) (s : cstate) : cs_vround (add_sched ti s) = cs_vround s. Proof. reflexivity. Qed.
Lemma cs_vblock_add_sched (ti : tinfo) (s : cstate) : cs_vblock (add_sched ti s) = cs_vblock s. Proof. reflexivity. Qed.
Lemma cs_vparts_add_sched (ti : tinfo) (s : cstate) : cs_vparts (add_sched ti s) = cs_vparts s. Proof. reflexivity. Qed.
Lemma cs_commit_round_add_sched (ti : tinfo) (s : cstate) : cs_commit_round (add_sched ti s) = cs_commit_round s. Proof. reflexivity. Qed.
Lemma cs_votes_add_sched (ti : tinfo) (s : cstate) : cs_votes (add_sched ti s) = cs_votes s. Proof. reflexivity. Qed.
Lemma cs_last_commit_add_sched (ti : tinfo) (s : cstate) : cs_last_commit (add_sched ti s) = cs_last_commit s. Proof. reflexivity. Qed.
Lemma cs_scheduled_add_sched (ti : tinfo) (s : cstate) : cs_scheduled (add_sched ti s) = ti :: cs_scheduled s. Proof. reflexivity. Qed.
Lemma cs_halted_add_sched (ti : tinfo) (s : cstate) : cs_halted (add_sched ti s) = cs_halted s. Proof. reflexivity. Qed.
Lemma cs_height_set_halted  (s : cstate) : cs_height (set_halted  s) = cs_height s. Proof. reflexivity. Qed.
Lemma cs_round_set_halted  (s : cstate) : cs_round (set_halted  s) = cs_round s. Proof. reflexivity. Qed.
Lemma cs_step_set_halted  (s : cstate) : cs_step (set_halted  s) = cs_step s. Proof. reflexivity. Qed.
Lemma cs_triggered_set_halted  (s : cstate) : cs_triggered (set_halted  s) = cs_triggered s. Proof. reflexivity. Qed.
Lemma cs_proposal_set_halted  (s : cstate) : cs_proposal (set_halted  s) = cs_proposal s. Proof. reflexivity. Qed.
Lemma cs_pblock_set_halted  (s : cstate) : cs_pblock (set_halted  s) = cs_pblock s. Proof. reflexivity. Qed.
Lemma cs_pparts_set_halted  (s : cstate) : cs_pparts (set_halted  s) = cs_pparts s. Proof. reflexivity. Qed.
Lemma cs_lround_set_halted  (s : cstate) : cs_lround (set_halted  s) = cs_lround s. Proof. reflexivity. Qed.
Lemma cs_lblock_set_halted  (s : cstate) : cs_lblock (set_halted  s) = cs_lblock s. Proof. reflexivity. Qed.
Lemma cs_lparts_set_halted  (s : cstate) : cs_lparts (set_halted  s) = cs_lparts s. Proof. reflexivity. Qed.
Lemma cs_vround_set_halted  (s : cstate) : cs_vround (set_halted  s) = cs_vround s. Proof. reflexivity. Qed.
Lemma cs_vblock_set_halted  (s : cstate) : cs_vblock (set_halted  s) = cs_vblock s. Proof. reflexivity. Qed.
Lemma cs_vparts_set_halted  (s : cstate) : cs_vparts (set_halted  s) = cs_vparts s. Proof. reflexivity. Qed.
Lemma cs_commit_round_set_halted  (s : cstate) : cs_commit_round (set_halted  s) = cs_commit_round s. Proof. reflexivity. Qed.
Lemma cs_votes_set_halted  (s : cstate) : cs_votes (set_halted  s) = cs_votes s. Proof. reflexivity. Qed.
Lemma cs_last_commit_set_halted  (s : cstate) : cs_last_commit (set_halted  s) = cs_last_commit s. Proof. reflexivity. Qed.
Lemma cs_scheduled_set_halted  (s : cstate) : cs_scheduled (set_halted  s) = cs_scheduled s. Proof. reflexivity. Qed.
Lemma cs_halted_set_halted  (s : cstate) : cs_halted (set_halted  s) = true. Proof. reflexivity. Qed.

#[export] Hint Rewrite cs_height_set_rs cs_round_set_rs cs_step_set_rs cs_triggered_set_rs cs_proposal_set_rs cs_pblock_set_rs cs_pparts_set_rs cs_lround_set_rs cs_lblock_set_rs cs_lparts_set_rs cs_vround_set_rs cs_vblock_set_rs cs_vparts_set_rs cs_commit_round_set_rs cs_votes_set_rs cs_last_commit_set_rs cs_scheduled_set_rs cs_halted_set_rs cs_height_set_triggered cs_round_set_triggered cs_step_set_triggered cs_triggered_set_triggered cs_proposal_set_triggered cs_pblock_set_triggered cs_pparts_set_triggered cs_lround_set_triggered cs_lblock_set_triggered cs_lparts_set_triggered cs_vround_set_triggered cs_vblock_set_triggered cs_vparts_set_triggered cs_commit_round_set_triggered cs_votes_set_triggered cs_last_commit_set_triggered cs_scheduled_set_triggered cs_halted_set_triggered cs_height_set_prop cs_round_set_prop cs_step_set_prop cs_triggered_set_prop cs_proposal_set_prop cs_pblock_set_prop cs_pparts_set_prop cs_lround_set_prop cs_lblock_set_prop cs_lparts_set_prop cs_vround_set_prop cs_vblock_set_prop cs_vparts_set_prop cs_commit_round_set_prop cs_votes_set_prop cs_last_commit_set_prop cs_scheduled_set_prop cs_halted_set_prop cs_height_set_locked cs_round_set_locked cs_step_set_locked cs_triggered_set_locked cs_proposal_set_locked cs_pblock_set_locked cs_pparts_set_locked cs_lround_set_locked cs_lblock_set_locked cs_lparts_set_locked cs_vround_set_locked cs_vblock_set_locked cs_vparts_set_locked cs_commit_round_set_locked cs_votes_set_locked cs_last_commit_set_locked cs_scheduled_set_locked cs_halted_set_locked cs_height_set_valid cs_round_set_valid cs_step_set_valid cs_triggered_set_valid cs_proposal_set_valid cs_pblock_set_valid cs_pparts_set_valid cs_lround_set_valid cs_lblock_set_valid cs_lparts_set_valid cs_vround_set_valid cs_vblock_set_valid cs_vparts_set_valid cs_commit_round_set_valid cs_votes_set_valid cs_last_commit_set_valid cs_scheduled_set_valid cs_halted_set_valid cs_height_set_votes cs_round_set_votes cs_step_set_votes cs_triggered_set_votes cs_proposal_set_votes cs_pblock_set_votes cs_pparts_set_votes cs_lround_set_votes cs_lblock_set_votes cs_lparts_set_votes cs_vround_set_votes cs_vblock_set_votes cs_vparts_set_votes cs_commit_round_set_votes cs_votes_set_votes cs_last_commit_set_votes cs_scheduled_set_votes cs_halted_set_votes cs_height_set_last_commit cs_round_set_last_commit cs_step_set_last_commit cs_triggered_set_last_commit cs_proposal_set_last_commit cs_pblock_set_last_commit cs_pparts_set_last_commit cs_lround_set_last_commit cs_lblock_set_last_commit cs_lparts_set_last_commit cs_vround_set_last_commit cs_vblock_set_last_commit cs_vparts_set_last_commit cs_commit_round_set_last_commit cs_votes_set_last_commit cs_last_commit_set_last_commit cs_scheduled_set_last_commit cs_halted_set_last_commit cs_height_set_commit_round cs_round_set_commit_round cs_step_set_commit_round cs_triggered_set_commit_round cs_proposal_set_commit_round cs_pblock_set_commit_round cs_pparts_set_commit_round cs_lround_set_commit_round cs_lblock_set_commit_round cs_lparts_set_commit_round cs_vround_set_commit_round cs_vblock_set_commit_round cs_vparts_set_commit_round cs_commit_round_set_commit_round cs_votes_set_commit_round cs_last_commit_set_commit_round cs_scheduled_set_commit_round cs_halted_set_commit_round cs_height_add_sched cs_round_add_sched cs_step_add_sched cs_triggered_add_sched cs_proposal_add_sched cs_pblock_add_sched cs_pparts_add_sched cs_lround_add_sched cs_lblock_add_sched cs_lparts_add_sched cs_vround_add_sched cs_vblock_add_sched cs_vparts_add_sched cs_commit_round_add_sched cs_votes_add_sched cs_last_commit_add_sched cs_scheduled_add_sched cs_halted_add_sched cs_height_set_halted cs_round_set_halted cs_step_set_halted cs_triggered_set_halted cs_proposal_set_halted cs_pblock_set_halted cs_pparts_set_halted cs_lround_set_halted cs_lblock_set_halted cs_lparts_set_halted cs_vround_set_halted cs_vblock_set_halted cs_vparts_set_halted cs_commit_round_set_halted cs_votes_set_halted cs_last_commit_set_halted cs_scheduled_set_halted cs_halted_set_halted : cs.
Arguments set_rs : simpl never.
Arguments set_triggered : simpl never.
Arguments set_prop : simpl never.
Arguments set_locked : simpl never.
Arguments set_valid : simpl never.
Arguments set_votes : simpl never.
Arguments set_last_commit : simpl never.
Arguments set_commit_round : simpl never.
Arguments add_sched : simpl never.
Arguments set_halted : simpl never.
Global Opaque set_rs set_triggered set_prop set_locked set_valid set_votes set_last_commit set_commit_round add_sched set_halted.

(* unlock_known (the unlock rule of defaultDoPrevote) touches the lock fields only *)
Lemma cs_height_unlock_known (r : Z) (s : cstate) : cs_height (unlock_known r s) = cs_height s.
Proof. unfold unlock_known. destruct (cs_lblock s); [destruct (later_polka_other _ _ _ _ _)|]; autorewrite with cs; reflexivity. Qed.
Lemma cs_round_unlock_known (r : Z) (s : cstate) : cs_round (unlock_known r s) = cs_round s.
Proof. unfold unlock_known. destruct (cs_lblock s); [destruct (later_polka_other _ _ _ _ _)|]; autorewrite with cs; reflexivity. Qed.
Lemma cs_step_unlock_known (r : Z) (s : cstate) : cs_step (unlock_known r s) = cs_step s.
Proof. unfold unlock_known. destruct (cs_lblock s); [destruct (later_polka_other _ _ _ _ _)|]; autorewrite with cs; reflexivity. Qed.
Lemma cs_triggered_unlock_known (r : Z) (s : cstate) : cs_triggered (unlock_known r s) = cs_triggered s.
Proof. unfold unlock_known. destruct (cs_lblock s); [destruct (later_polka_other _ _ _ _ _)|]; autorewrite with cs; reflexivity. Qed.
Lemma cs_proposal_unlock_known (r : Z) (s : cstate) : cs_proposal (unlock_known r s) = cs_proposal s.
Proof. unfold unlock_known. destruct (cs_lblock s); [destruct (later_polka_other _ _ _ _ _)|]; autorewrite with cs; reflexivity. Qed.
Lemma cs_pblock_unlock_known (r : Z) (s : cstate) : cs_pblock (unlock_known r s) = cs_pblock s.
Proof. unfold unlock_known. destruct (cs_lblock s); [destruct (later_polka_other _ _ _ _ _)|]; autorewrite with cs; reflexivity. Qed.
Lemma cs_pparts_unlock_known (r : Z) (s : cstate) : cs_pparts (unlock_known r s) = cs_pparts s.
Proof. unfold unlock_known. destruct (cs_lblock s); [destruct (later_polka_other _ _ _ _ _)|]; autorewrite with cs; reflexivity. Qed.
Lemma cs_vround_unlock_known (r : Z) (s : cstate) : cs_vround (unlock_known r s) = cs_vround s.
Proof. unfold unlock_known. destruct (cs_lblock s); [destruct (later_polka_other _ _ _ _ _)|]; autorewrite with cs; reflexivity. Qed.
Lemma cs_vblock_unlock_known (r : Z) (s : cstate) : cs_vblock (unlock_known r s) = cs_vblock s.
Proof. unfold unlock_known. destruct (cs_lblock s); [destruct (later_polka_other _ _ _ _ _)|]; autorewrite with cs; reflexivity. Qed.
Lemma cs_vparts_unlock_known (r : Z) (s : cstate) : cs_vparts (unlock_known r s) = cs_vparts s.
Proof. unfold unlock_known. destruct (cs_lblock s); [destruct (later_polka_other _ _ _ _ _)|]; autorewrite with cs; reflexivity. Qed.
Lemma cs_commit_round_unlock_known (r : Z) (s : cstate) : cs_commit_round (unlock_known r s) = cs_commit_round s.
Proof. unfold unlock_known. destruct (cs_lblock s); [destruct (later_polka_other _ _ _ _ _)|]; autorewrite with cs; reflexivity. Qed.
Lemma cs_votes_unlock_known (r : Z) (s : cstate) : cs_votes (unlock_known r s) = cs_votes s.
Proof. unfold unlock_known. destruct (cs_lblock s); [destruct (later_polka_other _ _ _ _ _)|]; autorewrite with cs; reflexivity. Qed.
Lemma cs_last_commit_unlock_known (r : Z) (s : cstate) : cs_last_commit (unlock_known r s) = cs_last_commit s.
Proof. unfold unlock_known. destruct (cs_lblock s); [destruct (later_polka_other _ _ _ _ _)|]; autorewrite with cs; reflexivity. Qed.
Lemma cs_scheduled_unlock_known (r : Z) (s : cstate) : cs_scheduled (unlock_known r s) = cs_scheduled s.
Proof. unfold unlock_known. destruct (cs_lblock s); [destruct (later_polka_other _ _ _ _ _)|]; autorewrite with cs; reflexivity. Qed.
Lemma cs_halted_unlock_known (r : Z) (s : cstate) : cs_halted (unlock_known r s) = cs_halted s.
Proof. unfold unlock_known. destruct (cs_lblock s); [destruct (later_polka_other _ _ _ _ _)|]; autorewrite with cs; reflexivity. Qed.
#[export] Hint Rewrite cs_height_unlock_known cs_round_unlock_known cs_step_unlock_known cs_triggered_unlock_known cs_proposal_unlock_known cs_pblock_unlock_known cs_pparts_unlock_known cs_vround_unlock_known cs_vblock_unlock_known cs_vparts_unlock_known cs_commit_round_unlock_known cs_votes_unlock_known cs_last_commit_unlock_known cs_scheduled_unlock_known cs_halted_unlock_known : cs.
Arguments unlock_known : simpl never.

(* relock (enterPrecommit's re-lock, repair of F83) *)
Lemma cs_height_relock (r : Z) (s : cstate) : cs_height (relock r s) = cs_height s.
Proof. unfold relock, relock_unfixed. destruct (_ <? _); reflexivity. Qed.
Lemma cs_round_relock (r : Z) (s : cstate) : cs_round (relock r s) = cs_round s.
Proof. unfold relock, relock_unfixed. destruct (_ <? _); reflexivity. Qed.
Lemma cs_step_relock (r : Z) (s : cstate) : cs_step (relock r s) = cs_step s.
Proof. unfold relock, relock_unfixed. destruct (_ <? _); reflexivity. Qed.
Lemma cs_triggered_relock (r : Z) (s : cstate) : cs_triggered (relock r s) = cs_triggered s.
Proof. unfold relock, relock_unfixed. destruct (_ <? _); reflexivity. Qed.
Lemma cs_proposal_relock (r : Z) (s : cstate) : cs_proposal (relock r s) = cs_proposal s.
Proof. unfold relock, relock_unfixed. destruct (_ <? _); reflexivity. Qed.
Lemma cs_pblock_relock (r : Z) (s : cstate) : cs_pblock (relock r s) = cs_pblock s.
Proof. unfold relock, relock_unfixed. destruct (_ <? _); reflexivity. Qed.
Lemma cs_pparts_relock (r : Z) (s : cstate) : cs_pparts (relock r s) = cs_pparts s.
Proof. unfold relock, relock_unfixed. destruct (_ <? _); reflexivity. Qed.
Lemma cs_lblock_relock (r : Z) (s : cstate) : cs_lblock (relock r s) = cs_lblock s.
Proof. unfold relock, relock_unfixed. destruct (_ <? _); reflexivity. Qed.
Lemma cs_lparts_relock (r : Z) (s : cstate) : cs_lparts (relock r s) = cs_lparts s.
Proof. unfold relock, relock_unfixed. destruct (_ <? _); reflexivity. Qed.
Lemma cs_commit_round_relock (r : Z) (s : cstate) : cs_commit_round (relock r s) = cs_commit_round s.
Proof. unfold relock, relock_unfixed. destruct (_ <? _); reflexivity. Qed.
Lemma cs_votes_relock (r : Z) (s : cstate) : cs_votes (relock r s) = cs_votes s.
Proof. unfold relock, relock_unfixed. destruct (_ <? _); reflexivity. Qed.
Lemma cs_last_commit_relock (r : Z) (s : cstate) : cs_last_commit (relock r s) = cs_last_commit s.
Proof. unfold relock, relock_unfixed. destruct (_ <? _); reflexivity. Qed.
Lemma cs_scheduled_relock (r : Z) (s : cstate) : cs_scheduled (relock r s) = cs_scheduled s.
Proof. unfold relock, relock_unfixed. destruct (_ <? _); reflexivity. Qed.
Lemma cs_halted_relock (r : Z) (s : cstate) : cs_halted (relock r s) = cs_halted s.
Proof. unfold relock, relock_unfixed. destruct (_ <? _); reflexivity. Qed.
Lemma cs_lround_relock (r : Z) (s : cstate) : cs_lround (relock r s) = r.
Proof. unfold relock, relock_unfixed. destruct (_ <? _); reflexivity. Qed.
Lemma cs_vround_relock (r : Z) (s : cstate) : cs_vround (relock r s) = (if cs_vround s <? r then r else cs_vround s).
Proof. unfold relock, relock_unfixed. cbn [cs_vround set_locked]. destruct (_ <? _); reflexivity. Qed.
Lemma cs_vblock_relock (r : Z) (s : cstate) : cs_vblock (relock r s) = (if cs_vround s <? r then cs_lblock s else cs_vblock s).
Proof. unfold relock, relock_unfixed. cbn [cs_vround set_locked]. destruct (_ <? _); reflexivity. Qed.
Lemma cs_vparts_relock (r : Z) (s : cstate) : cs_vparts (relock r s) = (if cs_vround s <? r then cs_lparts s else cs_vparts s).
Proof. unfold relock, relock_unfixed. cbn [cs_vround set_locked]. destruct (_ <? _); reflexivity. Qed.
#[export] Hint Rewrite cs_height_relock cs_round_relock cs_step_relock cs_triggered_relock cs_proposal_relock cs_pblock_relock cs_pparts_relock cs_lblock_relock cs_lparts_relock cs_commit_round_relock cs_votes_relock cs_last_commit_relock cs_scheduled_relock cs_halted_relock cs_lround_relock cs_vround_relock cs_vblock_relock cs_vparts_relock : cs.
Arguments relock : simpl never.
Lemma relock_eq (r : Z) (s : cstate) :
  relock r s = (if cs_vround s <? r then set_valid r (cs_lblock s) (cs_lparts s) (relock_unfixed r s) else relock_unfixed r s).
Proof. reflexivity. Qed.
(* kept folded: the unifier must not unfold it when autorewrite tries the projection lemmas *)
#[global] Opaque relock.
