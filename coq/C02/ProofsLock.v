(* C02 — clauses 2 and 3 at run level: every precommit for a block is backed by a polka among
   the prevotes DELIVERED so far and by a completed part set, and after precommitting a block
   the validator prevotes something else in a later round only when a more recent polka for
   something else has been delivered. *)
From Coq Require Import List ZArith NArith Bool Lia.
From TM Require Import C02.Model C02.Setters C02.ProofsVoteSet C02.ProofsHVS C02.ProofsOrder.
Import ListNotations.
Open Scope Z_scope.

Definition bhash (x : blockid) : option N := match x with Some (h, _) => Some h | None => None end.

Definition spc := (Z * Z * bid)%type.     (* a signed precommit for a block: height, round, id *)

Definition opcs (out : output) : list spc :=
  match out with
  | OSignVote ty h r (Some b) => if (ty =? PRECOMMIT)%N then [(h, r, b)] else []
  | _ => []
  end.
Definition pcs (o : list output) : list spc := flat_map opcs o.
Lemma pcs_app a b : pcs (a ++ b) = pcs a ++ pcs b. Proof. apply flat_map_app. Qed.

Section Lock.
Variable E : env.
Hypothesis Hnn : powers_nonneg (e_vals E).

Definition Polka (D : list vote) (h r : Z) (x : blockid) : Prop := Quorum D (e_vals E) PREVOTE h r x.

(* why the precommit (h, r, b) no longer binds by round [upto]: a later polka for another value *)
Definition Released (D : list vote) (h r : Z) (b : bid) (upto : Z) : Prop :=
  exists r'' y, r < r'' <= upto /\ bhash y <> Some (fst b) /\ Polka D h r'' y.

Lemma Released_mono D D' h r b u u' :
  (forall v, In v D -> In v D') -> u <= u' -> Released D h r b u -> Released D' h r b u'.
Proof.
  intros Hs Hu (r'' & y & Hr & Hy & Hp). exists r'', y. split; [lia|]. split; [exact Hy|].
  eapply Quorum_mono; eassumption.
Qed.

Definition LInv (D : list vote) (SPC : list spc) (s : cstate) : Prop :=
  forall h r b, In (h, r, b) SPC -> h = cs_height s ->
    (exists lb, cs_lblock s = Some lb /\ b_hash lb = fst b /\ r <= cs_lround s)
    \/ Released D h r b (cs_round s).

Definition AllBelow (SPC : list spc) (s : cstate) : Prop :=
  forall h r b, In (h, r, b) SPC -> le3 (h, r, 6) (pos s).

Definition HInv (D : list vote) (s : cstate) : Prop :=
  HVInv D (e_vals E) (cs_votes s) /\ hv_height (cs_votes s) = cs_height s.

Definition has_block (s : cstate) (b : block) : Prop :=
  cs_pblock s = Some b \/ cs_lblock s = Some b \/ cs_vblock s = Some b.
Definition BInv (P : list N) (s : cstate) : Prop := forall b, has_block s b -> In (b_hash b) P.

Definition Core (D : list vote) (P : list N) (SPC : list spc) (s : cstate) : Prop :=
  HInv D s /\ LInv D SPC s /\ BInv P s.

(* the run-level reading of clauses 2 and 3 on a list of outputs, in signing order *)
Fixpoint outs_ok (D : list vote) (P : list N) (SPC : list spc) (o : list output) : Prop :=
  match o with
  | [] => True
  | out :: rest =>
    match out with
    | OSignVote ty h r x =>
      (ty = PREVOTE -> forall r0 b0, In (h, r0, b0) SPC -> r0 < r -> bhash x <> Some (fst b0) ->
                        Released D h r0 b0 r) /\
      (ty = PRECOMMIT -> forall b, x = Some b -> Polka D h r (Some b) /\ In (fst b) P)
    | _ => True
    end /\ outs_ok D P (SPC ++ opcs out) rest
  end.

Lemma outs_ok_app D P : forall o1 SPC o2,
  outs_ok D P SPC (o1 ++ o2) <-> outs_ok D P SPC o1 /\ outs_ok D P (SPC ++ pcs o1) o2.
Proof.
  induction o1 as [|x o1 IH]; intros SPC o2; cbn [app outs_ok pcs flat_map].
  - rewrite app_nil_r. tauto.
  - rewrite IH. rewrite <- app_assoc. tauto.
Qed.

Lemma outs_ok_nosign D P SPC o : keys o = [] -> outs_ok D P SPC o.
Proof.
  revert SPC; induction o as [|x o IH]; intros SPC Hk; [exact I|].
  cbn in Hk. destruct x; cbn in Hk; try discriminate; cbn [outs_ok opcs]; rewrite ?app_nil_r; (split; [exact I | apply IH; exact Hk]).
Qed.

(* ---------------------------------------------------------------- frame *)

(* a change that leaves height, votes and lock alone, does not lower the round, and invents no block *)
Definition Rel (s s' : cstate) : Prop :=
  cs_height s' = cs_height s /\ cs_round s <= cs_round s' /\ cs_votes s' = cs_votes s /\
  cs_lblock s' = cs_lblock s /\ cs_lround s' = cs_lround s /\
  (forall b, has_block s' b -> has_block s b).

Lemma Rel_refl s : Rel s s. Proof. repeat split; auto; lia. Qed.
Lemma Rel_trans a b c : Rel a b -> Rel b c -> Rel a c.
Proof.
  intros (A1 & A2 & A3 & A4 & A5 & A6) (B1 & B2 & B3 & B4 & B5 & B6).
  repeat split; try congruence; try lia. auto.
Qed.

Lemma core_rel D P SPC s s' : Core D P SPC s -> Rel s s' -> Core D P SPC s'.
Proof.
  intros ((HI1 & HI2) & LI & BI) (R1 & R2 & R3 & R4 & R5 & R6). split; [|split].
  - split; rewrite R3; [exact HI1 | rewrite R1; exact HI2].
  - intros h r b Hin Hh. rewrite R1 in Hh. destruct (LI h r b Hin Hh) as [(lb & L1 & L2 & L3)|Rl].
    + left. exists lb. rewrite R4, R5. auto.
    + right. eapply Released_mono; [intros v Hv; exact Hv | exact R2 | exact Rl].
  - intros b Hb. apply BI. apply R6. exact Hb.
Qed.

Lemma core_more_spc D P SPC s extra :
  Core D P SPC s -> (forall h r b, In (h, r, b) extra -> h = cs_height s ->
     (exists lb, cs_lblock s = Some lb /\ b_hash lb = fst b /\ r <= cs_lround s) \/ Released D h r b (cs_round s)) ->
  Core D P (SPC ++ extra) s.
Proof.
  intros (HI & LI & BI) Hx. split; [exact HI|]. split; [|exact BI].
  intros h r b Hin Hh. apply in_app_or in Hin as [Hin|Hin]; [apply LI; assumption | apply Hx; assumption].
Qed.

Lemma good_allbelow s s' o SPC : Good s s' o -> AllBelow SPC s -> AllBelow (SPC ++ pcs o) s'.
Proof.
  intros [G _] AB h r b Hin. apply in_app_or in Hin as [Hin|Hin].
  - exact (le3_trans _ _ _ (AB _ _ _ Hin) (Incr_le _ _ _ G)).
  - assert (Hk : In (h, r, 6) (keys o)).
    { unfold pcs in Hin. apply in_flat_map in Hin as (out & Ho & Hin). unfold keys. apply in_flat_map. exists out. split; [exact Ho|].
      destruct out; cbn in Hin; try contradiction. destruct b0 as [bb|]; [|contradiction].
      destruct ((ty =? PRECOMMIT)%N) eqn:Et; [|contradiction]. destruct Hin as [Hin|[]]. injection Hin as -> -> ->.
      apply N.eqb_eq in Et. subst ty. cbn. left. reflexivity. }
    destruct (Incr_all_above _ _ _ _ G Hk) as [_ L]. exact L.
Qed.

(* ---------------------------------------------------------------- enterPrevote *)

Ltac cs := autorewrite with cs in *.

Lemma rel_set_rs r st s : cs_round s <= r -> Rel s (set_rs r st s).
Proof. intro H. unfold Rel, has_block. cs. repeat split; auto. Qed.

Lemma do_prevote_out s o : snd (do_prevote E s) = o ->
  o = [] \/ exists x, o = [OSignVote PREVOTE (cs_height s) (cs_round s) x] /\
                      (forall lb, cs_lblock s = Some lb -> bhash x = Some (b_hash lb)).
Proof.
  intro Eo. subst o. unfold do_prevote, sign_add_vote.
  destruct (is_validator E); [|left; destruct (cs_lblock s); [reflexivity|]; destruct (cs_pblock s) as [pb|]; [destruct (b_valid pb)|]; reflexivity].
  right. destruct (cs_lblock s) as [lb|] eqn:El.
  - eexists. split; [reflexivity|]. intros lb' Hl. injection Hl as <-. unfold block_id_of. destruct (cs_lparts s); reflexivity.
  - destruct (cs_pblock s) as [pb|]; [destruct (b_valid pb)|]; (eexists; split; [reflexivity | intros lb' Hl; discriminate]).
Qed.

Lemma enter_prevote_lock D P SPC height round s s' o :
  Core D P SPC s -> cs_halted s = false -> round_ok height round s ->
  enter_prevote E height round s = (s', o) ->
  Core D P (SPC ++ pcs o) s' /\ outs_ok D P SPC o.
Proof.
  intros C Hh Hr Eq. unfold enter_prevote in Eq.
  destruct (negb (cs_height s =? height) || (round <? cs_round s) || ((cs_round s =? round) && step_le SPrevote (cs_step s))) eqn:G.
  - injection Eq as <- <-. cbn. rewrite app_nil_r. auto.
  - unfold step_le in G. bool_to_prop. specialize (Hr ltac:(lia)).
    assert (round = cs_round s) by lia. subst round.
    unfold seq in Eq. pose proof (do_prevote_keys E s) as [Es _].
    destruct (do_prevote E s) as [s1 o1] eqn:Ed. cbn [fst] in Es. subst s1. rewrite Hh in Eq.
    unfold modify in Eq. injection Eq as <- <-. rewrite app_nil_r.
    destruct (do_prevote_out s o1 ltac:(rewrite Ed; reflexivity)) as [-> | (x & -> & Hx)].
    + cbn. rewrite app_nil_r. split; [|exact I]. eapply core_rel; [exact C | apply rel_set_rs; lia].
    + cbn [pcs flat_map opcs app]. change (PREVOTE =? PRECOMMIT)%N with false. cbn [app]. rewrite app_nil_r.
      split; [eapply core_rel; [exact C | apply rel_set_rs; lia]|].
      cbn [outs_ok]. split; [|exact I]. split; [|intro Hty; discriminate].
      intros _ r0 b0 Hin Hlt Hne. destruct C as (_ & LI & _).
      destruct (LI _ _ _ Hin eq_refl) as [(lb & L1 & L2 & L3)|Rl]; [|exact Rl].
      exfalso. apply Hne. rewrite (Hx lb L1), L2. reflexivity.
Qed.

End Lock.
