(* C02 — clauses 2 and 3 at run level: every precommit for a block is backed by a polka among
   the prevotes DELIVERED so far and by a completed part set, and after precommitting a block
   the validator prevotes something else in a later round only when a more recent polka for
   something else has been delivered. *)
From Coq Require Import List ZArith NArith Bool Lia.
From TM Require Import C02.Model C02.Setters C02.ProofsVoteSet C02.ProofsHVS C02.ProofsOrder.
Import ListNotations.
Open Scope Z_scope.

Definition bhash (x : blockid) : option N := match x with Some (h, _) => Some h | None => None end.

Definition spc := (Z * Z * bid)%type.     (* a signed precommit for a block: height, round, id *)

Definition opcs (out : output) : list spc :=
  match out with
  | OSignVote ty h r x =>
    if (ty =? PRECOMMIT)%N then match x with Some b => [(h, r, b)] | None => [] end else []
  | _ => []
  end.
Definition pcs (o : list output) : list spc := flat_map opcs o.
Lemma pcs_app a b : pcs (a ++ b) = pcs a ++ pcs b. Proof. apply flat_map_app. Qed.

Section Lock.
Variable E : env.
Hypothesis Hnn : powers_nonneg (e_vals E).

Definition Polka (D : list vote) (h r : Z) (x : blockid) : Prop := Quorum D (e_vals E) PREVOTE h r x.

(* why the precommit (h, r, b) no longer binds by round [upto]: a later polka for another value *)
Definition Released (D : list vote) (h r : Z) (b : bid) (upto : Z) : Prop :=
  exists r'' y, r < r'' <= upto /\ bhash y <> Some (fst b) /\ Polka D h r'' y.

Lemma Released_mono D D' h r b u u' :
  (forall v, In v D -> In v D') -> u <= u' -> Released D h r b u -> Released D' h r b u'.
Proof.
  intros Hs Hu (r'' & y & Hr & Hy & Hp). exists r'', y. split; [lia|]. split; [exact Hy|].
  eapply Quorum_mono; eassumption.
Qed.

Definition LInv (D : list vote) (SPC : list spc) (s : cstate) : Prop :=
  forall h r b, In (h, r, b) SPC -> h = cs_height s ->
    (exists lb, cs_lblock s = Some lb /\ b_hash lb = fst b /\ r <= cs_lround s)
    \/ Released D h r b (cs_round s).

Definition AllBelow (SPC : list spc) (s : cstate) : Prop :=
  forall h r b, In (h, r, b) SPC -> le3 (h, r, 6) (pos s).

Definition HInv (D : list vote) (s : cstate) : Prop :=
  HVInv D (e_vals E) (cs_votes s) /\ hv_height (cs_votes s) = cs_height s.

Definition has_block (s : cstate) (b : block) : Prop :=
  cs_pblock s = Some b \/ cs_lblock s = Some b \/ cs_vblock s = Some b.
Definition BInv (P : list N) (s : cstate) : Prop := forall b, has_block s b -> In (b_hash b) P.

Definition Core (D : list vote) (P : list N) (SPC : list spc) (s : cstate) : Prop :=
  HInv D s /\ LInv D SPC s /\ BInv P s.

(* the run-level reading of clauses 2 and 3 on a list of outputs, in signing order *)
Fixpoint outs_ok (D : list vote) (P : list N) (SPC : list spc) (o : list output) : Prop :=
  match o with
  | [] => True
  | out :: rest =>
    match out with
    | OSignVote ty h r x =>
      (ty = PREVOTE -> forall r0 b0, In (h, r0, b0) SPC -> r0 < r -> bhash x <> Some (fst b0) ->
                        Released D h r0 b0 r) /\
      (ty = PRECOMMIT -> forall b, x = Some b -> Polka D h r (Some b) /\ In (fst b) P)
    | _ => True
    end /\ outs_ok D P (SPC ++ opcs out) rest
  end.

Lemma outs_ok_app D P : forall o1 SPC o2,
  outs_ok D P SPC (o1 ++ o2) <-> outs_ok D P SPC o1 /\ outs_ok D P (SPC ++ pcs o1) o2.
Proof.
  induction o1 as [|x o1 IH]; intros SPC o2; cbn [app outs_ok pcs flat_map].
  - rewrite app_nil_r. tauto.
  - rewrite IH. rewrite <- app_assoc. tauto.
Qed.

Lemma outs_ok_nosign D P SPC o : keys o = [] -> outs_ok D P SPC o.
Proof.
  revert SPC; induction o as [|x o IH]; intros SPC Hk; [exact I|].
  cbn in Hk. destruct x; cbn in Hk; try discriminate; cbn [outs_ok opcs]; rewrite ?app_nil_r; (split; [exact I | apply IH; exact Hk]).
Qed.

(* ---------------------------------------------------------------- frame *)

(* a change that leaves height, votes and lock alone, does not lower the round, and invents no block *)
Definition Rel (s s' : cstate) : Prop :=
  cs_height s' = cs_height s /\ cs_round s <= cs_round s' /\ cs_votes s' = cs_votes s /\
  cs_lblock s' = cs_lblock s /\ cs_lround s' = cs_lround s /\
  (forall b, has_block s' b -> has_block s b).

Lemma Rel_refl s : Rel s s. Proof. repeat split; auto; lia. Qed.
Lemma Rel_trans a b c : Rel a b -> Rel b c -> Rel a c.
Proof.
  intros (A1 & A2 & A3 & A4 & A5 & A6) (B1 & B2 & B3 & B4 & B5 & B6).
  repeat split; try congruence; try lia. auto.
Qed.

Lemma core_rel D P SPC s s' : Core D P SPC s -> Rel s s' -> Core D P SPC s'.
Proof.
  intros ((HI1 & HI2) & LI & BI) (R1 & R2 & R3 & R4 & R5 & R6). split; [|split].
  - split; rewrite R3; [exact HI1 | rewrite R1; exact HI2].
  - intros h r b Hin Hh. rewrite R1 in Hh. destruct (LI h r b Hin Hh) as [(lb & L1 & L2 & L3)|Rl].
    + left. exists lb. rewrite R4, R5. auto.
    + right. eapply Released_mono; [intros v Hv; exact Hv | exact R2 | exact Rl].
  - intros b Hb. apply BI. apply R6. exact Hb.
Qed.

Lemma core_more_spc D P SPC s extra :
  Core D P SPC s -> (forall h r b, In (h, r, b) extra -> h = cs_height s ->
     (exists lb, cs_lblock s = Some lb /\ b_hash lb = fst b /\ r <= cs_lround s) \/ Released D h r b (cs_round s)) ->
  Core D P (SPC ++ extra) s.
Proof.
  intros (HI & LI & BI) Hx. split; [exact HI|]. split; [|exact BI].
  intros h r b Hin Hh. apply in_app_or in Hin as [Hin|Hin]; [apply LI; assumption | apply Hx; assumption].
Qed.

Lemma good_allbelow s s' o SPC : Good s s' o -> AllBelow SPC s -> AllBelow (SPC ++ pcs o) s'.
Proof.
  intros [G _] AB h r b Hin. apply in_app_or in Hin as [Hin|Hin].
  - exact (le3_trans _ _ _ (AB _ _ _ Hin) (Incr_le _ _ _ G)).
  - assert (Hk : In (h, r, 6) (keys o)).
    { unfold pcs in Hin. apply in_flat_map in Hin as (out & Ho & Hin). unfold keys. apply in_flat_map. exists out. split; [exact Ho|].
      destruct out; cbn in Hin; try contradiction.
      destruct ((ty =? PRECOMMIT)%N) eqn:Et; [|contradiction]. destruct b0 as [bb|]; [|contradiction].
      destruct Hin as [Hin|[]]. injection Hin as -> -> ->.
      apply N.eqb_eq in Et. subst ty. cbn. left. reflexivity. }
    destruct (Incr_all_above _ _ _ _ G Hk) as [_ L]. exact L.
Qed.

(* ---------------------------------------------------------------- enterPrevote *)

Ltac cs := autorewrite with cs in *.

Lemma rel_set_rs r st s : cs_round s <= r -> Rel s (set_rs r st s).
Proof. intro H. unfold Rel, has_block. cs. repeat split; auto. Qed.

Lemma do_prevote_out s o : snd (do_prevote E s) = o ->
  o = [] \/ exists x, o = [OSignVote PREVOTE (cs_height s) (cs_round s) x] /\
                      (forall lb, cs_lblock s = Some lb -> bhash x = Some (b_hash lb)).
Proof.
  intro Eo. subst o. unfold do_prevote, sign_add_vote.
  destruct (is_validator E); [|left; destruct (cs_lblock s); [reflexivity|]; destruct (cs_pblock s) as [pb|]; [destruct (b_valid pb)|]; reflexivity].
  right. destruct (cs_lblock s) as [lb|] eqn:El.
  - eexists. split; [reflexivity|]. intros lb' Hl. injection Hl as <-. unfold block_id_of. destruct (cs_lparts s); reflexivity.
  - destruct (cs_pblock s) as [pb|]; [destruct (b_valid pb)|]; (eexists; split; [reflexivity | intros lb' Hl; discriminate]).
Qed.

Lemma enter_prevote_lock D P SPC height round s s' o :
  Core D P SPC s -> cs_halted s = false -> round_ok height round s ->
  enter_prevote E height round s = (s', o) ->
  Core D P (SPC ++ pcs o) s' /\ outs_ok D P SPC o.
Proof.
  intros C Hh Hr Eq. unfold enter_prevote in Eq.
  destruct (negb (cs_height s =? height) || (round <? cs_round s) || ((cs_round s =? round) && step_le SPrevote (cs_step s))) eqn:G.
  - injection Eq as <- <-. cbn. rewrite app_nil_r. auto.
  - unfold step_le in G. bool_to_prop. specialize (Hr ltac:(lia)).
    assert (round = cs_round s) by lia. subst round.
    unfold seq in Eq. pose proof (do_prevote_keys E s) as [Es _].
    destruct (do_prevote E s) as [s1 o1] eqn:Ed. cbn [fst] in Es. subst s1. rewrite Hh in Eq.
    unfold modify in Eq. injection Eq as <- <-. rewrite app_nil_r.
    destruct (do_prevote_out s o1 ltac:(rewrite Ed; reflexivity)) as [-> | (x & -> & Hx)].
    + cbn. rewrite app_nil_r. split; [|exact I]. eapply core_rel; [exact C | apply rel_set_rs; lia].
    + cbn [pcs flat_map opcs app]. change (PREVOTE =? PRECOMMIT)%N with false. cbn [app]. rewrite app_nil_r.
      split; [eapply core_rel; [exact C | apply rel_set_rs; lia]|].
      cbn [outs_ok]. split; [|exact I]. split; [|intro Hty; discriminate].
      intros _ r0 b0 Hin Hlt Hne. destruct C as (_ & LI & _).
      destruct (LI _ _ _ Hin eq_refl) as [(lb & L1 & L2 & L3)|Rl]; [|exact Rl].
      exfalso. apply Hne. rewrite (Hx lb L1), L2. reflexivity.
Qed.


(* ---------------------------------------------------------------- the combined invariant *)

Definition Full (D : list vote) (P : list N) (SPC : list spc) (s : cstate) : Prop :=
  Core D P SPC s /\ AllBelow SPC s /\ SchedInv s.

(* what each function has to deliver *)
Definition LK (D : list vote) (P : list N) (SPC : list spc) (s s' : cstate) (o : list output) : Prop :=
  Full D P (SPC ++ pcs o) s' /\ outs_ok D P SPC o.

Lemma lk_from_core D P SPC s s' o :
  Full D P SPC s -> Good s s' o -> Core D P (SPC ++ pcs o) s' -> outs_ok D P SPC o -> LK D P SPC s s' o.
Proof.
  intros (_ & AB & SI) G C O. split; [|exact O]. split; [exact C|]. split.
  - eapply good_allbelow; eassumption.
  - apply G. exact SI.
Qed.

Lemma lk_nil D P SPC s : Full D P SPC s -> LK D P SPC s s [].
Proof. intro F. split; [cbn; rewrite app_nil_r; exact F | exact I]. Qed.

Lemma lk_trans D P SPC a b c o1 o2 :
  LK D P SPC a b o1 -> LK D P (SPC ++ pcs o1) b c o2 -> LK D P SPC a c (o1 ++ o2).
Proof.
  intros [F1 O1] [F2 O2]. split.
  - rewrite pcs_app, app_assoc. exact F2.
  - apply outs_ok_app. auto.
Qed.

(* a quiet state change (Rel) under the order/scheduler guarantees *)
Lemma lk_rel D P SPC s s' :
  Full D P SPC s -> Rel s s' -> Good s s' [] -> LK D P SPC s s' [].
Proof.
  intros F R G. apply lk_from_core; try assumption; [|exact I].
  cbn. rewrite app_nil_r. eapply core_rel; [apply F | exact R].
Qed.

Lemma seq_lk D P SPC (f g : M) s s' o (Pre : cstate -> Prop) :
  seq f g s = (s', o) ->
  (forall s1 o1, f s = (s1, o1) -> LK D P SPC s s1 o1 /\ (cs_halted s1 = false -> Pre s1)) ->
  (forall SPC1 s1 s2 o2, cs_halted s1 = false -> Pre s1 -> Full D P SPC1 s1 -> g s1 = (s2, o2) -> LK D P SPC1 s1 s2 o2) ->
  LK D P SPC s s' o.
Proof.
  intros Eq Hf Hg. unfold seq in Eq. destruct (f s) as [s1 o1] eqn:Ef.
  destruct (Hf s1 o1 eq_refl) as [L1 P1].
  destruct (cs_halted s1) eqn:Hh1.
  - injection Eq as <- <-. exact L1.
  - destruct (g s1) as [s2 o2] eqn:Eg. injection Eq as <- <-.
    eapply lk_trans; [exact L1 | eapply Hg; [exact Hh1 | apply P1; reflexivity | apply L1 | exact Eg]].
Qed.

(* ---------------------------------------------------------------- simple setters are Rel *)

Lemma rel_add_sched ti s : Rel s (add_sched ti s).
Proof. unfold Rel, has_block. cs. repeat split; auto; lia. Qed.
Lemma rel_set_halted s : Rel s (set_halted s).
Proof. unfold Rel, has_block. cs. repeat split; auto; lia. Qed.
Lemma rel_set_triggered b s : Rel s (set_triggered b s).
Proof. unfold Rel, has_block. cs. repeat split; auto; lia. Qed.
Lemma rel_set_commit_round r s : Rel s (set_commit_round r s).
Proof. unfold Rel, has_block. cs. repeat split; auto; lia. Qed.
Lemma rel_set_last_commit lc s : Rel s (set_last_commit lc s).
Proof. unfold Rel, has_block. cs. repeat split; auto; lia. Qed.
Lemma rel_set_prop p b pp s : (forall x, b = Some x -> has_block s x) -> Rel s (set_prop p b pp s).
Proof.
  intro Hb. unfold Rel. cs. repeat split; auto; try lia.
  intros x [Hx|[Hx|Hx]]; cs; [apply Hb; exact Hx | right; left; exact Hx | right; right; exact Hx].
Qed.
Lemma rel_set_valid r b pp s : (forall x, b = Some x -> has_block s x) -> Rel s (set_valid r b pp s).
Proof.
  intro Hb. unfold Rel. cs. repeat split; auto; try lia.
  intros x [Hx|[Hx|Hx]]; cs; [left; exact Hx | right; left; exact Hx | apply Hb; exact Hx].
Qed.

Lemma panic_lk D P SPC c s : Full D P SPC s -> LK D P SPC s (fst (panic c s)) (snd (panic c s)).
Proof.
  intro F. unfold panic. cbn [fst snd].
  apply lk_from_core; [exact F | exact (rgood_good _ _ _ (panic_rgood c s)) | | split; [exact I | exact I]].
  cbn. rewrite app_nil_r. eapply core_rel; [apply F | apply rel_set_halted].
Qed.

(* ---------------------------------------------------------------- enterPrevote .. enterNewRound *)

Lemma enter_prevote_lk D P SPC height round s s' o :
  Full D P SPC s -> cs_halted s = false -> round_ok height round s ->
  enter_prevote E height round s = (s', o) -> LK D P SPC s s' o /\ cs_halted s' = false.
Proof.
  intros F Hh Hr Eq.
  destruct (enter_prevote_good E height round s s' o Hh Hr Eq) as [G Hh'].
  destruct (enter_prevote_lock D P SPC height round s s' o (proj1 F) Hh Hr Eq) as [C O].
  split; [|exact Hh']. apply lk_from_core; try assumption. apply rgood_good. exact G.
Qed.

Lemma decide_proposal_out height round s :
  snd (decide_proposal E height round s) = [] \/
  exists p u, snd (decide_proposal E height round s) = [OSignProposal height round p u].
Proof.
  unfold decide_proposal. destruct (cs_vblock s); [right; do 2 eexists; reflexivity|].
  match goal with |- context [if ?c then _ else _] => destruct c end; [right; do 2 eexists; reflexivity | left; reflexivity].
Qed.

Lemma enter_propose_lk D P SPC height round s s' o :
  Full D P SPC s -> cs_halted s = false -> enter_propose E height round s = (s', o) ->
  LK D P SPC s s' o /\ cs_halted s' = false /\ round_ok height round s'.
Proof.
  intros F Hh Eq.
  destruct (enter_propose_good E height round s s' o Hh Eq) as (G & Hh' & Rk).
  split; [|split; assumption].
  unfold enter_propose in Eq.
  destruct (negb (cs_height s =? height) || (round <? cs_round s) || ((cs_round s =? round) && step_le SPropose (cs_step s))) eqn:Gd.
  - injection Eq as <- <-. apply lk_nil. exact F.
  - unfold step_le in Gd. bool_to_prop.
    set (s1 := add_sched {| ti_height := height; ti_round := round; ti_step := SPropose |} s) in *.
    assert (Hh1 : cs_halted s1 = false) by (subst s1; cs; exact Hh).
    assert (Dec : exists od, (match e_me E with
                     | Some me => if me =? e_proposer E (cs_height s1) (cs_round s1) then decide_proposal E height round s1 else (s1, [])
                     | None => (s1, []) end) = (s1, od) /\ (od = [] \/ exists p u, od = [OSignProposal height round p u])).
    { destruct (e_me E) as [me|]; [|exists []; auto].
      destruct (me =? e_proposer E (cs_height s1) (cs_round s1)); [|exists []; auto].
      destruct (decide_proposal_keys E height round s1) as [A _]. pose proof (decide_proposal_out height round s1) as B.
      destruct (decide_proposal E height round s1) as [x od]. cbn [fst snd] in A, B. subst x. exists od. auto. }
    destruct Dec as (od & Ed & Kd).
    unfold seq at 1 in Eq. rewrite seq_schedule in Eq by exact Hh. fold s1 in Eq. rewrite Ed in Eq.
    rewrite Hh1 in Eq. rewrite seq_modify in Eq by (cs; exact Hh1).
    set (s2 := set_rs round SPropose s1) in *.
    assert (Hh2 : cs_halted s2 = false) by (subst s2; cs; exact Hh1).
    assert (Pod : pcs (OSchedule height round SPropose :: od) = []).
    { destruct Kd as [-> | (p & u & ->)]; reflexivity. }
    assert (C2 : Core D P SPC s2).
    { eapply core_rel; [apply F|]. eapply Rel_trans; [apply rel_add_sched|]. apply rel_set_rs. subst s1. cs. lia. }
    assert (O2 : outs_ok D P SPC (OSchedule height round SPropose :: od)).
    { destruct Kd as [-> | (p & u & ->)]; cbn; rewrite ?app_nil_r; auto. }
    destruct (is_proposal_complete s2).
    + destruct (enter_prevote E height (cs_round s2) s2) as [s3 o3] eqn:E3. injection Eq as <- <-.
      destruct (enter_prevote_lock D P SPC height (cs_round s2) s2 s3 o3 C2 Hh2 ltac:(intro; lia) E3) as [C3 O3].
      change (OSchedule height round SPropose :: od ++ o3) with ((OSchedule height round SPropose :: od) ++ o3) in *.
      apply lk_from_core; [exact F | apply rgood_good; exact G | rewrite pcs_app, Pod; exact C3 |].
      apply outs_ok_app. rewrite Pod, app_nil_r. auto.
    + injection Eq as <- <-. rewrite app_nil_r in *.
      apply lk_from_core; [exact F | apply rgood_good; exact G | rewrite Pod, app_nil_r; exact C2 | exact O2].
Qed.

Lemma core_set_votes D P SPC hv' s :
  Core D P SPC s -> HVInv D (e_vals E) hv' -> hv_height hv' = cs_height s -> Core D P SPC (set_votes hv' s).
Proof.
  intros (HI & LI & BI) H1 H2. split; [|split].
  - split; cs; assumption.
  - intros h r b Hin Hh. cs. exact (LI h r b Hin Hh).
  - intros b Hb. apply BI. unfold has_block in *. cs. exact Hb.
Qed.

Lemma enter_new_round_lk D P SPC height round s s' o :
  Full D P SPC s -> cs_halted s = false -> enter_new_round E height round s = (s', o) ->
  LK D P SPC s s' o /\ cs_halted s' = false /\ round_ok height round s'.
Proof.
  intros F Hh Eq.
  destruct (enter_new_round_good E height round s s' o Hh Eq) as (G & Hh' & Rk).
  split; [|split; assumption].
  unfold enter_new_round in Eq.
  destruct (negb (cs_height s =? height) || (round <? cs_round s) || ((cs_round s =? round) && negb (step_eqb (cs_step s) SNewHeight))) eqn:Gd.
  - injection Eq as <- <-. apply lk_nil. exact F.
  - bool_to_prop.
    match type of Eq with enter_propose E height round ?x = _ => set (s3 := x) in * end.
    assert (Hh3 : cs_halted s3 = false) by (subst s3; destruct (round =? 0); cs; exact Hh).
    assert (C3 : Core D P SPC s3).
    { destruct F as ((HI & LI & BI) & _).
      set (sa := set_rs round SNewRound s).
      assert (Ca : Core D P SPC sa) by (eapply core_rel; [split; [exact HI | split; assumption] | apply rel_set_rs; lia]).
      set (sb := if round =? 0 then sa else set_prop None None None sa).
      assert (Cb : Core D P SPC sb).
      { subst sb. destruct (round =? 0); [exact Ca|]. eapply core_rel; [exact Ca | apply rel_set_prop; intros x Hx; discriminate]. }
      destruct Cb as (HIb & LIb & BIb). destruct HIb as [HIb1 HIb2].
      destruct (hv_set_round_inv D (e_vals E) (cs_votes sb) (round + 1) HIb1) as [A B].
      subst s3. fold sa. fold sb.
      apply (core_rel D P SPC (set_votes (hv_set_round (cs_votes sb) (round + 1)) sb)); [|apply rel_set_triggered].
      apply core_set_votes; [split; [split; assumption | split; assumption] | exact A | rewrite B; exact HIb2]. }
    (* Good for the quiet prefix, then enter_propose *)
    assert (Q : RGood s s3 []).
    { apply rgood_quiet; subst s3; destruct (round =? 0); cs; try reflexivity; try lia;
        intro Er; unfold step_eqb in *; destruct H0 as [H0|H0]; bool_to_prop; try lia; rewrite H0; cbn; lia. }
    assert (F3 : Full D P SPC s3).
    { split; [exact C3|]. destruct F as (_ & AB & SI). split.
      - pose proof (good_allbelow s s3 [] SPC (rgood_good _ _ _ Q) AB) as AB3. cbn in AB3. rewrite app_nil_r in AB3. exact AB3.
      - apply (proj2 (rgood_good _ _ _ Q)). exact SI. }
    destruct (enter_propose_lk D P SPC height round s3 s' o F3 Hh3 Eq) as ([F' O'] & _).
    split; [|exact O']. exact F'.
Qed.

Lemma enter_prevote_wait_lk D P SPC height round s s' o :
  Full D P SPC s -> cs_halted s = false -> round_ok height round s ->
  enter_prevote_wait height round s = (s', o) -> LK D P SPC s s' o.
Proof.
  intros F Hh Hr Eq.
  pose proof (enter_prevote_wait_good height round s s' o Hh Hr Eq) as G.
  unfold enter_prevote_wait in Eq.
  destruct (negb (cs_height s =? height) || (round <? cs_round s) || ((cs_round s =? round) && step_le SPrevoteWait (cs_step s))) eqn:Gd.
  - injection Eq as <- <-. apply lk_nil. exact F.
  - destruct (negb (o_has_any (prevotes (cs_votes s) round))).
    + pose proof (panic_lk D P SPC 1 s F) as L. rewrite Eq in L. exact L.
    + rewrite seq_schedule in Eq by exact Hh. unfold modify in Eq. injection Eq as <- <-.
      apply lk_from_core; [exact F | apply rgood_good; exact G | | cbn; auto].
      cbn. rewrite app_nil_r. eapply core_rel; [apply F|].
      eapply Rel_trans; [apply rel_add_sched | apply rel_set_rs]. cs. unfold step_le in Gd. bool_to_prop. lia.
Qed.

Lemma enter_precommit_wait_lk D P SPC height round s s' o :
  Full D P SPC s -> cs_halted s = false -> round_ok height round s ->
  enter_precommit_wait height round s = (s', o) -> LK D P SPC s s' o.
Proof.
  intros F Hh Hr Eq.
  pose proof (enter_precommit_wait_good height round s s' o Hh Hr Eq) as G.
  unfold enter_precommit_wait in Eq.
  destruct (negb (cs_height s =? height) || (round <? cs_round s) || ((cs_round s =? round) && cs_triggered s)) eqn:Gd.
  - injection Eq as <- <-. apply lk_nil. exact F.
  - destruct (negb (o_has_any (precommits (cs_votes s) round))).
    + pose proof (panic_lk D P SPC 4 s F) as L. rewrite Eq in L. exact L.
    + rewrite seq_schedule in Eq by exact Hh. unfold modify in Eq. injection Eq as <- <-.
      apply lk_from_core; [exact F | apply rgood_good; exact G | | cbn; auto].
      cbn. rewrite app_nil_r. eapply core_rel; [apply F|].
      eapply Rel_trans; [apply rel_add_sched | apply rel_set_triggered].
Qed.


(* ---------------------------------------------------------------- enterPrecommit *)

Lemma polka_from_state D s r x :
  HInv D s -> o_maj23 (prevotes (cs_votes s) r) = Some x -> Polka D (cs_height s) r x.
Proof.
  intros [H1 H2] Hm. unfold prevotes in Hm. destruct (hv_get (cs_votes s) r PREVOTE) as [vs|] eqn:G; [|discriminate].
  cbn in Hm. pose proof (hv_get_good D (e_vals E) (cs_votes s) r PREVOTE vs H1 G) as Gs. cbn in Gs.
  rewrite <- H2. eapply good_set_quorum; eassumption.
Qed.

Lemma hashes_to_some b h : hashes_to b h = true -> exists lb, b = Some lb /\ b_hash lb = h.
Proof. destruct b as [lb|]; cbn; [intro H; apply N.eqb_eq in H; eauto | discriminate]. Qed.
Lemma hashes_to_false lb h : hashes_to (Some lb) h = false -> b_hash lb <> h.
Proof. cbn. intro H. apply N.eqb_neq in H. exact H. Qed.

(* unlocking is justified by a polka for something else in the current round *)
Lemma core_unlock D P SPC s y :
  Core D P SPC s -> AllBelow SPC s -> step_rank (cs_step s) < 6 ->
  Polka D (cs_height s) (cs_round s) y ->
  (forall lb, cs_lblock s = Some lb -> bhash y <> Some (b_hash lb)) ->
  Core D P SPC (set_locked (-1) None None s).
Proof.
  intros (HI & LI & BI) AB Hst Hp Hy. split; [|split].
  - destruct HI as [H1 H2]. split; cs; assumption.
  - intros h r b Hin Hh. cs. right. destruct (LI h r b Hin Hh) as [(lb & L1 & L2 & L3)|Rl]; [|exact Rl].
    exists (cs_round s), y. split; [|split].
    + pose proof (AB h r b Hin) as A. unfold le3, pos in A. lia.
    + rewrite <- L2. apply Hy. exact L1.
    + rewrite Hh. exact Hp.
  - intros b Hb. apply BI. unfold has_block in *. cs. destruct Hb as [Hb|[Hb|Hb]]; try discriminate; auto.
Qed.

(* locking (or relocking) on a block that got the polka in the current round *)
Lemma core_lock D P SPC s (lb : block) (pp : option partset) (ph : psh) :
  Core D P SPC s -> AllBelow SPC s -> step_rank (cs_step s) < 6 ->
  Polka D (cs_height s) (cs_round s) (Some (b_hash lb, ph)) ->
  has_block s lb ->
  Core D P (SPC ++ [(cs_height s, cs_round s, (b_hash lb, ph))]) (set_locked (cs_round s) (Some lb) pp s).
Proof.
  intros (HI & LI & BI) AB Hst Hp Hb. split; [|split].
  - destruct HI as [H1 H2]. split; cs; assumption.
  - intros h r b Hin Hh. cs. apply in_app_or in Hin as [Hin|[Hin|[]]].
    + pose proof (AB h r b Hin) as A. unfold le3, pos in A.
      destruct (LI h r b Hin Hh) as [(lb0 & L1 & L2 & L3)|Rl]; [|right; exact Rl].
      destruct (N.eq_dec (b_hash lb) (fst b)) as [e|n].
      * left. exists lb. split; [reflexivity | split; [exact e | lia]].
      * right. exists (cs_round s), (Some (b_hash lb, ph)). split; [lia|]. split; [cbn; congruence | rewrite Hh; exact Hp].
    + injection Hin as <- <- <-. left. exists lb. cbn. split; [reflexivity | split; [reflexivity | lia]].
  - intros b [Hx|[Hx|Hx]]; cs; apply BI.
    + left; exact Hx.
    + injection Hx as <-. exact Hb.
    + right; right; exact Hx.
Qed.

Lemma enter_precommit_lk D P SPC height round s s' o :
  Full D P SPC s -> cs_halted s = false -> round_ok height round s ->
  enter_precommit E height round s = (s', o) -> LK D P SPC s s' o.
Proof.
  intros F Hh Hr Eq.
  pose proof (enter_precommit_good E height round s s' o Hh Hr Eq) as G. apply rgood_good in G.
  unfold enter_precommit in Eq.
  destruct (negb (cs_height s =? height) || (round <? cs_round s) || ((cs_round s =? round) && step_le SPrecommit (cs_step s))) eqn:Gd.
  - injection Eq as <- <-. apply lk_nil. exact F.
  - unfold step_le in Gd. bool_to_prop. specialize (Hr ltac:(lia)). assert (round = cs_round s) by lia. subst round.
    assert (Hst : step_rank (cs_step s) < 6) by (cbn in *; lia).
    destruct F as (C & AB & SI).
    assert (FF : Full D P SPC s) by (split; [exact C | split; assumption]).
    (* the tail after a state x obtained quietly from s, signing a precommit for [b] *)
    assert (Tail : forall (f : cstate -> cstate) b extra,
              cs_halted (f s) = false -> cs_height (f s) = cs_height s -> cs_round (f s) = cs_round s ->
              Core D P (SPC ++ extra) (f s) ->
              (match b with Some bb => extra = [(cs_height s, cs_round s, bb)] /\ Polka D (cs_height s) (cs_round s) (Some bb) /\ In (fst bb) P
                          | None => extra = [] end) ->
              seq (modify f) (seq (sign_add_vote E PRECOMMIT b) (modify (set_rs (cs_round s) SPrecommit))) s = (s', o) ->
              LK D P SPC s s' o).
    { intros f b extra F5 F1 F2 Cx Hb Eq'. rewrite seq_modify in Eq' by exact F5.
      unfold seq in Eq'. unfold sign_add_vote in Eq'.
      destruct (is_validator E).
      - rewrite F5 in Eq'. unfold modify in Eq'. injection Eq' as <- <-. rewrite F1, F2 in G |- *.
        apply lk_from_core; [exact FF | exact G | |].
        + cbn [pcs flat_map opcs app]. change (PRECOMMIT =? PRECOMMIT)%N with true. cbv iota.
          destruct b as [bb|]; [destruct Hb as (-> & _ & _)|subst extra]; cbn [app]; rewrite ?app_nil_r in *;
            (eapply core_rel; [exact Cx | apply rel_set_rs; lia]).
        + cbn [outs_ok app]. split; [|exact I]. split; [intro Hty; discriminate|].
          intros _ bb Hbb. subst b. destruct Hb as (_ & Hp & Hin). auto.
      - rewrite F5 in Eq'. unfold modify in Eq'. injection Eq' as <- <-.
        apply lk_from_core; [exact FF | exact G | | exact I].
        cbn. rewrite app_nil_r.
        (* nothing was signed: the extra entry is not recorded, drop it *)
        eapply core_rel; [|apply rel_set_rs; lia].
        destruct Cx as (HIx & LIx & BIx). split; [exact HIx | split; [|exact BIx]].
        intros h r b0 Hin Hh0. apply LIx; [apply in_or_app; left; exact Hin | exact Hh0]. }
    destruct (o_maj23 (prevotes (cs_votes s) (cs_round s))) as [polka|] eqn:Maj.
    2:{ (* no polka: precommit nil *)
        apply (Tail (fun x => x) None []); try reflexivity; try exact Hh.
        - rewrite app_nil_r. exact C.
        - unfold seq at 1, modify. rewrite Hh. cbn [app].
          destruct (seq (sign_add_vote E PRECOMMIT None) (fun s0 => (set_rs (cs_round s) SPrecommit s0, [])) s) as [a b] eqn:Es.
          unfold modify in Eq. rewrite Es in Eq. exact Eq. }
    pose proof (polka_from_state D s (cs_round s) polka (proj1 C) Maj) as Hpol.
    destruct (fst (pol_info (cs_votes s)) <? cs_round s).
    { pose proof (panic_lk D P SPC 2 s FF) as L. rewrite Eq in L. exact L. }
    destruct polka as [[h ph]|].
    2:{ (* +2/3 nil: unlock *)
        refine (Tail _ None [] _ _ _ _ eq_refl Eq); cbv beta; destruct (cs_lblock s) eqn:El; cs; try reflexivity; try exact Hh.
        - rewrite app_nil_r. apply (core_unlock D P SPC s None C AB Hst Hpol). intros lb _. discriminate.
        - rewrite app_nil_r. exact C. }
    destruct (hashes_to (cs_lblock s) h) eqn:HL.
    { (* relock *)
      destruct (hashes_to_some _ _ HL) as (lb & El & Ehh). subst h.
      refine (Tail _ (Some (b_hash lb, ph)) _ _ _ _ _ _ Eq); cbv beta; cs; try reflexivity; try exact Hh.
      - rewrite El. apply (core_lock D P SPC s lb _ ph); try assumption. right; left; exact El.
      - split; [reflexivity | split; [exact Hpol|]]. cbn. destruct C as (_ & _ & BI). apply BI. right; left; exact El. }
    destruct (hashes_to (cs_pblock s) h) eqn:HP.
    { destruct (hashes_to_some _ _ HP) as (pb & Ep & Ehh). subst h. rewrite Ep in Eq.
      destruct (negb (b_valid pb)).
      - pose proof (panic_lk D P SPC 3 s FF) as L. rewrite Eq in L. exact L.
      - refine (Tail _ (Some (b_hash pb, ph)) _ _ _ _ _ _ Eq); cbv beta; cs; try reflexivity; try exact Hh.
        + rewrite Ep. apply (core_lock D P SPC s pb _ ph); try assumption. left; exact Ep.
        + split; [reflexivity | split; [exact Hpol|]]. cbn. destruct C as (_ & _ & BI). apply BI. left; exact Ep. }
    (* polka for a block we do not have: unlock *)
    assert (Cu : Core D P SPC (set_locked (-1) None None s)).
    { apply (core_unlock D P SPC s (Some (h, ph)) C AB Hst Hpol). intros lb El. rewrite El in HL.
      apply hashes_to_false in HL. cbn. congruence. }
    refine (Tail _ None [] _ _ _ _ eq_refl Eq); cbv beta zeta;
      destruct (has_header (cs_pparts (set_locked (-1) None None s)) ph); cs; try reflexivity; try exact Hh;
      rewrite app_nil_r; try exact Cu.
    eapply core_rel; [exact Cu | apply rel_set_prop; intros x Hx; discriminate].
Qed.


(* ---------------------------------------------------------------- commit path *)

Lemma update_to_next_height_lk D P SPC s s' o :
  Full D P SPC s -> cs_halted s = false -> update_to_next_height E s = (s', o) -> LK D P SPC s s' o.
Proof.
  intros F Hh Eq. pose proof (update_to_next_height_good E s s' o Hh Eq) as G.
  unfold update_to_next_height in Eq.
  destruct (negb (o_has_maj23 (precommits (cs_votes s) (cs_commit_round s)))).
  - pose proof (panic_lk D P SPC 5 s F) as L. rewrite Eq in L. exact L.
  - rewrite seq_modify in Eq by reflexivity. unfold schedule in Eq. injection Eq as <- <-.
    apply lk_from_core; [exact F | exact G | | cbn; auto].
    cbn [pcs flat_map opcs app]. rewrite app_nil_r.
    eapply core_rel; [|apply rel_add_sched].
    destruct F as (_ & AB & _). split; [|split].
    + destruct (new_hvs_inv D (cs_height s + 1) (e_vals E)) as [A B]. split; cbn; assumption.
    + intros h r b Hin Hh'. cbn in Hh'. pose proof (AB h r b Hin) as A. unfold le3, pos in A. lia.
    + intros b [Hb|[Hb|Hb]]; cbn in Hb; discriminate.
Qed.

Lemma finalize_commit_lk D P SPC height s s' o :
  Full D P SPC s -> cs_halted s = false -> finalize_commit E height s = (s', o) -> LK D P SPC s s' o.
Proof.
  intros F Hh Eq. unfold finalize_commit in Eq.
  destruct (negb (cs_height s =? height) || negb (step_eqb (cs_step s) SCommit)); [injection Eq as <- <-; apply lk_nil; exact F|].
  assert (Pn : forall c, panic c s = (s', o) -> LK D P SPC s s' o).
  { intros c Ep. pose proof (panic_lk D P SPC c s F) as L. rewrite Ep in L. exact L. }
  destruct (o_maj23 (precommits (cs_votes s) (cs_commit_round s))) as [[[h ph]|]|]; try (eapply Pn; exact Eq).
  destruct (negb (has_header (cs_pparts s) ph)); [eapply Pn; exact Eq|].
  destruct (negb (hashes_to (cs_pblock s) h)); [eapply Pn; exact Eq|].
  destruct (cs_pblock s) as [pb|]; [|eapply Pn; exact Eq].
  destruct (negb (b_valid pb)); [eapply Pn; exact Eq|].
  unfold seq, emit in Eq. rewrite Hh in Eq.
  destruct (update_to_next_height E s) as [s2 o2] eqn:Eu. injection Eq as <- <-.
  pose proof (update_to_next_height_lk D P SPC s s2 o2 F Hh Eu) as [A B].
  split; [exact A | cbn [app outs_ok opcs]; rewrite app_nil_r; split; [exact I | exact B]].
Qed.

Lemma try_finalize_commit_lk D P SPC height s s' o :
  Full D P SPC s -> cs_halted s = false -> try_finalize_commit E height s = (s', o) -> LK D P SPC s s' o.
Proof.
  intros F Hh Eq. unfold try_finalize_commit in Eq.
  destruct (negb (cs_height s =? height)).
  { pose proof (panic_lk D P SPC 10 s F) as L. rewrite Eq in L. exact L. }
  destruct (o_maj23 (precommits (cs_votes s) (cs_commit_round s))) as [[[h ph]|]|];
    try (injection Eq as <- <-; apply lk_nil; exact F).
  destruct (hashes_to (cs_pblock s) h); [|injection Eq as <- <-; apply lk_nil; exact F].
  eapply finalize_commit_lk; eassumption.
Qed.

Lemma full_rel D P SPC s s' : Full D P SPC s -> Rel s s' -> Good s s' [] -> Full D P SPC s'.
Proof. intros F R G. pose proof (lk_rel D P SPC s s' F R G) as [A _]. cbn in A. rewrite app_nil_r in A. exact A. Qed.

Lemma enter_commit_lk D P SPC height cr s s' o :
  Full D P SPC s -> cs_halted s = false -> enter_commit E height cr s = (s', o) -> LK D P SPC s s' o.
Proof.
  intros F Hh Eq. unfold enter_commit in Eq.
  destruct (negb (cs_height s =? height) || step_le SCommit (cs_step s)) eqn:G; [injection Eq as <- <-; apply lk_nil; exact F|].
  unfold step_le in G. bool_to_prop.
  destruct (o_maj23 (precommits (cs_votes s) cr)) as [polka|].
  2:{ pose proof (panic_lk D P SPC 11 s F) as L. rewrite Eq in L. exact L. }
  match type of Eq with try_finalize_commit E height ?x = _ => set (s3 := x) in * end.
  assert (Q : RGood s s3 [] /\ cs_halted s3 = false /\ Rel s s3).
  { subst s3.
    repeat match goal with |- context [if ?c then _ else _] => destruct c end;
      (split; [apply rgood_quiet; cs; try reflexivity; try lia; intros _; pose proof (step_rank_range (cs_step s)); cbn; lia
              | split; [cs; exact Hh|]]);
      repeat (eapply Rel_trans; [|first [apply rel_set_commit_round | apply rel_set_rs; cs; lia]]);
      try apply Rel_refl;
      repeat (first [apply Rel_refl | eapply Rel_trans; [apply rel_set_prop; intros x Hx; first [discriminate | right; left; exact Hx]|]]). }
  destruct Q as (Q & Hh3 & R3).
  pose proof (full_rel D P SPC s s3 F R3 (rgood_good _ _ _ Q)) as F3.
  pose proof (try_finalize_commit_lk D P SPC height s3 s' o F3 Hh3 Eq) as [A B].
  split; assumption.
Qed.

End Lock.
