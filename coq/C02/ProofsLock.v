(* C02 — clauses 2 and 3 at run level: every precommit for a block is backed by a polka among
   the prevotes DELIVERED so far and by a completed part set, and after precommitting a block
   the validator prevotes something else in a later round only when a more recent polka for
   something else has been delivered. *)
From Coq Require Import List ZArith NArith Bool Lia.
From TM Require Import C02.Model C02.Setters C02.ProofsVoteSet C02.ProofsHVS C02.ProofsOrder.
Import ListNotations.
Open Scope Z_scope.

Definition bhash (x : blockid) : option N := match x with Some (h, _) => Some h | None => None end.

Definition spc := (Z * Z * bid)%type.     (* a signed precommit for a block: height, round, id *)

Definition opcs (out : output) : list spc :=
  match out with
  | OSignVote ty h r x =>
    if (ty =? PRECOMMIT)%N then match x with Some b => [(h, r, b)] | None => [] end else []
  | _ => []
  end.
Definition pcs (o : list output) : list spc := flat_map opcs o.
Lemma pcs_app a b : pcs (a ++ b) = pcs a ++ pcs b. Proof. apply flat_map_app. Qed.

Section Lock.
Variable E : env.
Hypothesis Hnn : powers_nonneg (e_vals E).

Definition Polka (D : list vote) (h r : Z) (x : blockid) : Prop := Quorum D (e_vals E) PREVOTE h r x.

(* why the precommit (h, r, b) no longer binds by round [upto]: a later polka for another value *)
Definition Released (D : list vote) (h r : Z) (b : bid) (upto : Z) : Prop :=
  exists r'' y, r < r'' <= upto /\ bhash y <> Some (fst b) /\ Polka D h r'' y.

Lemma Released_mono D D' h r b u u' :
  (forall v, In v D -> In v D') -> u <= u' -> Released D h r b u -> Released D' h r b u'.
Proof.
  intros Hs Hu (r'' & y & Hr & Hy & Hp). exists r'', y. split; [lia|]. split; [exact Hy|].
  eapply Quorum_mono; eassumption.
Qed.

Definition LInv (D : list vote) (SPC : list spc) (s : cstate) : Prop :=
  forall h r b, In (h, r, b) SPC -> h = cs_height s ->
    (exists lb, cs_lblock s = Some lb /\ b_hash lb = fst b /\ r <= cs_lround s)
    \/ Released D h r b (cs_round s).

Definition AllBelow (SPC : list spc) (s : cstate) : Prop :=
  forall h r b, In (h, r, b) SPC -> le3 (h, r, 6) (pos s).

Definition HInv (D : list vote) (s : cstate) : Prop :=
  HVInv D (e_vals E) (cs_votes s) /\ hv_height (cs_votes s) = cs_height s.

Definition has_block (s : cstate) (b : block) : Prop :=
  cs_pblock s = Some b \/ cs_lblock s = Some b \/ cs_vblock s = Some b.
Definition BInv (P : list block) (s : cstate) : Prop := forall b, has_block s b -> In b P.
Definition held (P : list block) (h : N) : Prop := exists blk, In blk P /\ b_hash blk = h.

Definition Core (D : list vote) (P : list block) (SPC : list spc) (s : cstate) : Prop :=
  HInv D s /\ LInv D SPC s /\ BInv P s.

(* the run-level reading of clauses 2 and 3 on a list of outputs, in signing order *)
Fixpoint outs_ok (D : list vote) (P : list block) (SPC : list spc) (o : list output) : Prop :=
  match o with
  | [] => True
  | out :: rest =>
    match out with
    | OSignVote ty h r x =>
      (ty = PREVOTE -> forall r0 b0, In (h, r0, b0) SPC -> r0 < r -> bhash x <> Some (fst b0) ->
                        Released D h r0 b0 r) /\
      (ty = PRECOMMIT -> forall b, x = Some b -> Polka D h r (Some b) /\ held P (fst b))
    | ODecide h r bh =>
      exists ph blk, Quorum D (e_vals E) PRECOMMIT h r (Some (bh, ph)) /\ In blk P /\ b_hash blk = bh /\ b_valid blk = true
    | _ => True
    end /\ outs_ok D P (SPC ++ opcs out) rest
  end.

Lemma outs_ok_app D P : forall o1 SPC o2,
  outs_ok D P SPC (o1 ++ o2) <-> outs_ok D P SPC o1 /\ outs_ok D P (SPC ++ pcs o1) o2.
Proof.
  induction o1 as [|x o1 IH]; intros SPC o2; cbn [app outs_ok pcs flat_map].
  - rewrite app_nil_r. tauto.
  - rewrite IH. rewrite <- app_assoc. tauto.
Qed.

(* ---------------------------------------------------------------- frame *)

(* a change that leaves height, votes and lock alone, does not lower the round, and invents no block *)
Definition Rel (s s' : cstate) : Prop :=
  cs_height s' = cs_height s /\ cs_round s <= cs_round s' /\ cs_votes s' = cs_votes s /\
  cs_lblock s' = cs_lblock s /\ cs_lround s' = cs_lround s /\
  (forall b, has_block s' b -> has_block s b).

Lemma Rel_refl s : Rel s s. Proof. repeat split; auto; lia. Qed.
Lemma Rel_trans a b c : Rel a b -> Rel b c -> Rel a c.
Proof.
  intros (A1 & A2 & A3 & A4 & A5 & A6) (B1 & B2 & B3 & B4 & B5 & B6).
  repeat split; try congruence; try lia. auto.
Qed.

Lemma core_rel D P SPC s s' : Core D P SPC s -> Rel s s' -> Core D P SPC s'.
Proof.
  intros ((HI1 & HI2) & LI & BI) (R1 & R2 & R3 & R4 & R5 & R6). split; [|split].
  - split; rewrite R3; [exact HI1 | rewrite R1; exact HI2].
  - intros h r b Hin Hh. rewrite R1 in Hh. destruct (LI h r b Hin Hh) as [(lb & L1 & L2 & L3)|Rl].
    + left. exists lb. rewrite R4, R5. auto.
    + right. eapply Released_mono; [intros v Hv; exact Hv | exact R2 | exact Rl].
  - intros b Hb. apply BI. apply R6. exact Hb.
Qed.

Lemma core_more_spc D P SPC s extra :
  Core D P SPC s -> (forall h r b, In (h, r, b) extra -> h = cs_height s ->
     (exists lb, cs_lblock s = Some lb /\ b_hash lb = fst b /\ r <= cs_lround s) \/ Released D h r b (cs_round s)) ->
  Core D P (SPC ++ extra) s.
Proof.
  intros (HI & LI & BI) Hx. split; [exact HI|]. split; [|exact BI].
  intros h r b Hin Hh. apply in_app_or in Hin as [Hin|Hin]; [apply LI; assumption | apply Hx; assumption].
Qed.

Lemma good_allbelow s s' o SPC : Good s s' o -> AllBelow SPC s -> AllBelow (SPC ++ pcs o) s'.
Proof.
  intros [G _] AB h r b Hin. apply in_app_or in Hin as [Hin|Hin].
  - exact (le3_trans _ _ _ (AB _ _ _ Hin) (Incr_le _ _ _ G)).
  - assert (Hk : In (h, r, 6) (keys o)).
    { unfold pcs in Hin. apply in_flat_map in Hin as (out & Ho & Hin). unfold keys. apply in_flat_map. exists out. split; [exact Ho|].
      destruct out; cbn in Hin; try contradiction.
      destruct ((ty =? PRECOMMIT)%N) eqn:Et; [|contradiction]. destruct b0 as [bb|]; [|contradiction].
      destruct Hin as [Hin|[]]. injection Hin as -> -> ->.
      apply N.eqb_eq in Et. subst ty. cbn. left. reflexivity. }
    destruct (Incr_all_above _ _ _ _ G Hk) as [_ L]. exact L.
Qed.

(* ---------------------------------------------------------------- enterPrevote *)

Ltac cs := autorewrite with cs in *.

Lemma rel_set_rs r st s : cs_round s <= r -> Rel s (set_rs r st s).
Proof. intro H. unfold Rel, has_block. cs. repeat split; auto. Qed.

Lemma polka_from_state D s r x :
  HInv D s -> o_maj23 (prevotes (cs_votes s) r) = Some x -> Polka D (cs_height s) r x.
Proof.
  intros [H1 H2] Hm. unfold prevotes in Hm. destruct (hv_get (cs_votes s) r PREVOTE) as [vs|] eqn:G; [|discriminate].
  cbn in Hm. pose proof (hv_get_good D (e_vals E) (cs_votes s) r PREVOTE vs H1 G) as Gs. cbn in Gs.
  rewrite <- H2. eapply good_set_quorum; eassumption.
Qed.

(* the unlock rule of defaultDoPrevote fires only on a held polka for something else from a
   round after the lock round and not after the given round *)
Lemma later_polka_other_sound hv lb lr : forall fuel r,
  later_polka_other hv lb lr r fuel = true ->
  exists r' polka, lr < r' <= r /\ o_maj23 (prevotes hv r') = Some polka /\ bhash polka <> Some (b_hash lb).
Proof.
  induction fuel as [|f IH]; intros r H; cbn [later_polka_other] in H; [discriminate|].
  destruct (r <=? lr) eqn:Er; [discriminate|]. apply Z.leb_gt in Er.
  assert (Rec : later_polka_other hv lb lr (r - 1) f = true ->
                exists r' polka, lr < r' <= r /\ o_maj23 (prevotes hv r') = Some polka /\ bhash polka <> Some (b_hash lb)).
  { intro H'. destruct (IH _ H') as (r' & pk & A & B & C). exists r', pk. split; [lia | auto]. }
  destruct (o_maj23 (prevotes hv r)) as [polka|] eqn:Em; [|apply Rec; exact H].
  destruct (negb ((match polka with Some _ => true | None => false end) &&
                  hashes_to (Some lb) (match polka with Some (h, _) => h | None => 0%N end))) eqn:C; [|apply Rec; exact H].
  exists r, polka. split; [lia|]. split; [exact Em|].
  destruct polka as [[h ph]|]; cbn in *; [|discriminate].
  apply negb_true_iff, N.eqb_neq in C. congruence.
Qed.

Lemma core_unlock_known D P SPC round s :
  Core D P SPC s -> round <= cs_round s -> Core D P SPC (unlock_known round s).
Proof.
  intros (HI & LI & BI) Hr. unfold unlock_known.
  destruct (cs_lblock s) as [lb|] eqn:El; [|split; [exact HI | split; assumption]].
  destruct (later_polka_other _ _ _ _ _) eqn:Lp; [|split; [exact HI | split; assumption]].
  destruct (later_polka_other_sound _ _ _ _ _ Lp) as (r' & polka & Hr' & Hm & Hne).
  pose proof (polka_from_state D s r' polka HI Hm) as Hp.
  split; [|split].
  - destruct HI as [H1 H2]. split; autorewrite with cs; assumption.
  - intros h r b Hin Hh. autorewrite with cs in *. right.
    destruct (LI h r b Hin Hh) as [(lb0 & L1 & L2 & L3)|Rl]; [|exact Rl].
    rewrite El in L1. injection L1 as <-.
    exists r', polka. split; [lia|]. split; [rewrite <- L2; exact Hne | rewrite Hh; exact Hp].
  - intros b Hb. apply BI. unfold has_block in *. autorewrite with cs in Hb.
    destruct Hb as [Hb|[Hb|Hb]]; try discriminate; auto.
Qed.

Lemma rel_unlock_known_frame round s :
  cs_height (unlock_known round s) = cs_height s /\ cs_round (unlock_known round s) = cs_round s /\
  cs_votes (unlock_known round s) = cs_votes s.
Proof. autorewrite with cs. auto. Qed.

Lemma do_prevote_out round s o : snd (do_prevote E round s) = o ->
  o = [] \/ exists x, o = [OSignVote PREVOTE (cs_height s) (cs_round s) x] /\
                      (forall lb, cs_lblock (unlock_known round s) = Some lb -> bhash x = Some (b_hash lb)).
Proof.
  intro Eo. subst o. unfold do_prevote, do_prevote_unfixed, sign_add_vote. autorewrite with cs.
  set (u := unlock_known round s).
  destruct (is_validator E); [|left; destruct (cs_lblock u); [reflexivity|]; destruct (cs_pblock s) as [pb|]; [destruct (b_valid pb)|]; reflexivity].
  right. destruct (cs_lblock u) as [lb|] eqn:El.
  - eexists. split; [reflexivity|]. intros lb' Hl. injection Hl as <-. unfold block_id_of. destruct (cs_lparts u); reflexivity.
  - destruct (cs_pblock s) as [pb|]; [destruct (b_valid pb)|]; (eexists; split; [reflexivity | intros lb' Hl; discriminate]).
Qed.

Lemma enter_prevote_lock D P SPC height round s s' o :
  Core D P SPC s -> cs_halted s = false -> round_ok height round s ->
  enter_prevote E height round s = (s', o) ->
  Core D P (SPC ++ pcs o) s' /\ outs_ok D P SPC o.
Proof.
  intros C Hh Hr Eq. unfold enter_prevote in Eq.
  destruct (negb (cs_height s =? height) || (round <? cs_round s) || ((cs_round s =? round) && step_le SPrevote (cs_step s))) eqn:G.
  - injection Eq as <- <-. cbn. rewrite app_nil_r. auto.
  - unfold step_le in G. bool_to_prop. specialize (Hr ltac:(lia)).
    assert (round = cs_round s) by lia. subst round.
    pose proof (core_unlock_known D P SPC (cs_round s) s C ltac:(lia)) as Cu.
    unfold seq in Eq. pose proof (do_prevote_keys E (cs_round s) s) as [Es _].
    destruct (do_prevote E (cs_round s) s) as [s1 o1] eqn:Ed. cbn [fst] in Es. subst s1.
    replace (cs_halted (unlock_known (cs_round s) s)) with false in Eq by (autorewrite with cs; auto).
    unfold modify in Eq. injection Eq as <- <-. rewrite app_nil_r.
    assert (Rs : Rel (unlock_known (cs_round s) s) (set_rs (cs_round s) SPrevote (unlock_known (cs_round s) s)))
      by (apply rel_set_rs; autorewrite with cs; lia).
    destruct (do_prevote_out (cs_round s) s o1 ltac:(rewrite Ed; reflexivity)) as [-> | (x & -> & Hx)].
    + cbn. rewrite app_nil_r. split; [|exact I]. eapply core_rel; [exact Cu | exact Rs].
    + cbn [pcs flat_map opcs app]. change (PREVOTE =? PRECOMMIT)%N with false. cbn [app]. rewrite app_nil_r.
      split; [eapply core_rel; [exact Cu | exact Rs]|].
      cbn [outs_ok]. split; [|exact I]. split; [|intro Hty; discriminate].
      intros _ r0 b0 Hin Hlt Hne. destruct Cu as (_ & LI & _).
      destruct (LI _ _ _ Hin ltac:(autorewrite with cs; reflexivity)) as [(lb & L1 & L2 & L3)|Rl].
      * exfalso. apply Hne. rewrite (Hx lb L1), L2. reflexivity.
      * autorewrite with cs in Rl. exact Rl.
Qed.


(* ---------------------------------------------------------------- the combined invariant *)

Definition Full (D : list vote) (P : list block) (SPC : list spc) (s : cstate) : Prop :=
  Core D P SPC s /\ AllBelow SPC s /\ SchedInv s.

(* what each function has to deliver *)
Definition LK (D : list vote) (P : list block) (SPC : list spc) (s s' : cstate) (o : list output) : Prop :=
  Full D P (SPC ++ pcs o) s' /\ outs_ok D P SPC o.

Lemma lk_from_core D P SPC s s' o :
  Full D P SPC s -> Good s s' o -> Core D P (SPC ++ pcs o) s' -> outs_ok D P SPC o -> LK D P SPC s s' o.
Proof.
  intros (_ & AB & SI) G C O. split; [|exact O]. split; [exact C|]. split.
  - eapply good_allbelow; eassumption.
  - apply G. exact SI.
Qed.

Lemma lk_nil D P SPC s : Full D P SPC s -> LK D P SPC s s [].
Proof. intro F. split; [cbn; rewrite app_nil_r; exact F | exact I]. Qed.

Lemma lk_trans D P SPC a b c o1 o2 :
  LK D P SPC a b o1 -> LK D P (SPC ++ pcs o1) b c o2 -> LK D P SPC a c (o1 ++ o2).
Proof.
  intros [F1 O1] [F2 O2]. split.
  - rewrite pcs_app, app_assoc. exact F2.
  - apply outs_ok_app. auto.
Qed.

(* a quiet state change (Rel) under the order/scheduler guarantees *)
Lemma lk_rel D P SPC s s' :
  Full D P SPC s -> Rel s s' -> Good s s' [] -> LK D P SPC s s' [].
Proof.
  intros F R G. apply lk_from_core; try assumption; [|exact I].
  cbn. rewrite app_nil_r. eapply core_rel; [apply F | exact R].
Qed.

Lemma seq_lk D P SPC (f g : M) s s' o (Pre : cstate -> Prop) :
  seq f g s = (s', o) ->
  (forall s1 o1, f s = (s1, o1) -> LK D P SPC s s1 o1 /\ (cs_halted s1 = false -> Pre s1)) ->
  (forall SPC1 s1 s2 o2, cs_halted s1 = false -> Pre s1 -> Full D P SPC1 s1 -> g s1 = (s2, o2) -> LK D P SPC1 s1 s2 o2) ->
  LK D P SPC s s' o.
Proof.
  intros Eq Hf Hg. unfold seq in Eq. destruct (f s) as [s1 o1] eqn:Ef.
  destruct (Hf s1 o1 eq_refl) as [L1 P1].
  destruct (cs_halted s1) eqn:Hh1.
  - injection Eq as <- <-. exact L1.
  - destruct (g s1) as [s2 o2] eqn:Eg. injection Eq as <- <-.
    eapply lk_trans; [exact L1 | eapply Hg; [exact Hh1 | apply P1; reflexivity | apply L1 | exact Eg]].
Qed.

(* ---------------------------------------------------------------- simple setters are Rel *)

Lemma rel_add_sched ti s : Rel s (add_sched ti s).
Proof. unfold Rel, has_block. cs. repeat split; auto; lia. Qed.
Lemma rel_set_halted s : Rel s (set_halted s).
Proof. unfold Rel, has_block. cs. repeat split; auto; lia. Qed.
Lemma rel_set_triggered b s : Rel s (set_triggered b s).
Proof. unfold Rel, has_block. cs. repeat split; auto; lia. Qed.
Lemma rel_set_commit_round r s : Rel s (set_commit_round r s).
Proof. unfold Rel, has_block. cs. repeat split; auto; lia. Qed.
Lemma rel_set_last_commit lc s : Rel s (set_last_commit lc s).
Proof. unfold Rel, has_block. cs. repeat split; auto; lia. Qed.
Lemma rel_set_prop p b pp s : (forall x, b = Some x -> has_block s x) -> Rel s (set_prop p b pp s).
Proof.
  intro Hb. unfold Rel. cs. repeat split; auto; try lia.
  intros x [Hx|[Hx|Hx]]; cs; [apply Hb; exact Hx | right; left; exact Hx | right; right; exact Hx].
Qed.
Lemma rel_set_valid r b pp s : (forall x, b = Some x -> has_block s x) -> Rel s (set_valid r b pp s).
Proof.
  intro Hb. unfold Rel. cs. repeat split; auto; try lia.
  intros x [Hx|[Hx|Hx]]; cs; [left; exact Hx | right; left; exact Hx | apply Hb; exact Hx].
Qed.

Lemma panic_lk D P SPC c s : Full D P SPC s -> LK D P SPC s (fst (panic c s)) (snd (panic c s)).
Proof.
  intro F. unfold panic. cbn [fst snd].
  apply lk_from_core; [exact F | exact (rgood_good _ _ _ (panic_rgood c s)) | | split; [exact I | exact I]].
  cbn. rewrite app_nil_r. eapply core_rel; [apply F | apply rel_set_halted].
Qed.

(* ---------------------------------------------------------------- enterPrevote .. enterNewRound *)

Lemma enter_prevote_lk D P SPC height round s s' o :
  Full D P SPC s -> cs_halted s = false -> round_ok height round s ->
  enter_prevote E height round s = (s', o) -> LK D P SPC s s' o /\ cs_halted s' = false.
Proof.
  intros F Hh Hr Eq.
  destruct (enter_prevote_good E height round s s' o Hh Hr Eq) as [G Hh'].
  destruct (enter_prevote_lock D P SPC height round s s' o (proj1 F) Hh Hr Eq) as [C O].
  split; [|exact Hh']. apply lk_from_core; try assumption. apply rgood_good. exact G.
Qed.

Lemma decide_proposal_out height round s :
  snd (decide_proposal E height round s) = [] \/
  exists p u, snd (decide_proposal E height round s) = [OSignProposal height round p u].
Proof.
  unfold decide_proposal. destruct (cs_vblock s); [right; do 2 eexists; reflexivity|].
  match goal with |- context [if ?c then _ else _] => destruct c end; [right; do 2 eexists; reflexivity | left; reflexivity].
Qed.

Lemma enter_propose_lk D P SPC height round s s' o :
  Full D P SPC s -> cs_halted s = false -> enter_propose E height round s = (s', o) ->
  LK D P SPC s s' o /\ cs_halted s' = false /\ round_ok height round s'.
Proof.
  intros F Hh Eq.
  destruct (enter_propose_good E height round s s' o Hh Eq) as (G & Hh' & Rk).
  split; [|split; assumption].
  unfold enter_propose in Eq.
  destruct (negb (cs_height s =? height) || (round <? cs_round s) || ((cs_round s =? round) && step_le SPropose (cs_step s))) eqn:Gd.
  - injection Eq as <- <-. apply lk_nil. exact F.
  - unfold step_le in Gd. bool_to_prop.
    set (s1 := add_sched {| ti_height := height; ti_round := round; ti_step := SPropose |} s) in *.
    assert (Hh1 : cs_halted s1 = false) by (subst s1; cs; exact Hh).
    assert (Dec : exists od, (match e_me E with
                     | Some me => if me =? e_proposer E (cs_height s1) (cs_round s1) then decide_proposal E height round s1 else (s1, [])
                     | None => (s1, []) end) = (s1, od) /\ (od = [] \/ exists p u, od = [OSignProposal height round p u])).
    { destruct (e_me E) as [me|]; [|exists []; auto].
      destruct (me =? e_proposer E (cs_height s1) (cs_round s1)); [|exists []; auto].
      destruct (decide_proposal_keys E height round s1) as [A _]. pose proof (decide_proposal_out height round s1) as B.
      destruct (decide_proposal E height round s1) as [x od]. cbn [fst snd] in A, B. subst x. exists od. auto. }
    destruct Dec as (od & Ed & Kd).
    unfold seq at 1 in Eq. rewrite seq_schedule in Eq by exact Hh. fold s1 in Eq. rewrite Ed in Eq.
    rewrite Hh1 in Eq. rewrite seq_modify in Eq by (cs; exact Hh1).
    set (s2 := set_rs round SPropose s1) in *.
    assert (Hh2 : cs_halted s2 = false) by (subst s2; cs; exact Hh1).
    assert (Pod : pcs (OSchedule height round SPropose :: od) = []).
    { destruct Kd as [-> | (p & u & ->)]; reflexivity. }
    assert (C2 : Core D P SPC s2).
    { eapply core_rel; [apply F|]. eapply Rel_trans; [apply rel_add_sched|]. apply rel_set_rs. subst s1. cs. lia. }
    assert (O2 : outs_ok D P SPC (OSchedule height round SPropose :: od)).
    { destruct Kd as [-> | (p & u & ->)]; cbn; rewrite ?app_nil_r; auto. }
    destruct (is_proposal_complete s2).
    + destruct (enter_prevote E height (cs_round s2) s2) as [s3 o3] eqn:E3. injection Eq as <- <-.
      destruct (enter_prevote_lock D P SPC height (cs_round s2) s2 s3 o3 C2 Hh2 ltac:(intro; lia) E3) as [C3 O3].
      change (OSchedule height round SPropose :: od ++ o3) with ((OSchedule height round SPropose :: od) ++ o3) in *.
      apply lk_from_core; [exact F | apply rgood_good; exact G | rewrite pcs_app, Pod; exact C3 |].
      apply outs_ok_app. rewrite Pod, app_nil_r. auto.
    + injection Eq as <- <-. rewrite app_nil_r in *.
      apply lk_from_core; [exact F | apply rgood_good; exact G | rewrite Pod, app_nil_r; exact C2 | exact O2].
Qed.

Lemma core_set_votes D P SPC hv' s :
  Core D P SPC s -> HVInv D (e_vals E) hv' -> hv_height hv' = cs_height s -> Core D P SPC (set_votes hv' s).
Proof.
  intros (HI & LI & BI) H1 H2. split; [|split].
  - split; cs; assumption.
  - intros h r b Hin Hh. cs. exact (LI h r b Hin Hh).
  - intros b Hb. apply BI. unfold has_block in *. cs. exact Hb.
Qed.

Lemma enter_new_round_lk D P SPC height round s s' o :
  Full D P SPC s -> cs_halted s = false -> enter_new_round E height round s = (s', o) ->
  LK D P SPC s s' o /\ cs_halted s' = false /\ round_ok height round s'.
Proof.
  intros F Hh Eq.
  destruct (enter_new_round_good E height round s s' o Hh Eq) as (G & Hh' & Rk).
  split; [|split; assumption].
  unfold enter_new_round in Eq.
  destruct (negb (cs_height s =? height) || (round <? cs_round s) || ((cs_round s =? round) && negb (step_eqb (cs_step s) SNewHeight))) eqn:Gd.
  - injection Eq as <- <-. apply lk_nil. exact F.
  - bool_to_prop.
    match type of Eq with enter_propose E height round ?x = _ => set (s3 := x) in * end.
    assert (Hh3 : cs_halted s3 = false) by (subst s3; destruct (round =? 0); cs; exact Hh).
    assert (C3 : Core D P SPC s3).
    { destruct F as ((HI & LI & BI) & _).
      set (sa := set_rs round SNewRound s).
      assert (Ca : Core D P SPC sa) by (eapply core_rel; [split; [exact HI | split; assumption] | apply rel_set_rs; lia]).
      set (sb := if round =? 0 then sa else set_prop None None None sa).
      assert (Cb : Core D P SPC sb).
      { subst sb. destruct (round =? 0); [exact Ca|]. eapply core_rel; [exact Ca | apply rel_set_prop; intros x Hx; discriminate]. }
      destruct Cb as (HIb & LIb & BIb). destruct HIb as [HIb1 HIb2].
      destruct (hv_set_round_inv D (e_vals E) (cs_votes sb) (round + 1) HIb1) as [A B].
      subst s3. fold sa. fold sb.
      apply (core_rel D P SPC (set_votes (hv_set_round (cs_votes sb) (round + 1)) sb)); [|apply rel_set_triggered].
      apply core_set_votes; [split; [split; assumption | split; assumption] | exact A | rewrite B; exact HIb2]. }
    (* Good for the quiet prefix, then enter_propose *)
    assert (Q : RGood s s3 []).
    { apply rgood_quiet; subst s3; destruct (round =? 0); cs; try reflexivity; try lia;
        intro Er; unfold step_eqb in *; destruct H0 as [H0|H0]; bool_to_prop; try lia; rewrite H0; cbn; lia. }
    assert (F3 : Full D P SPC s3).
    { split; [exact C3|]. destruct F as (_ & AB & SI). split.
      - pose proof (good_allbelow s s3 [] SPC (rgood_good _ _ _ Q) AB) as AB3. cbn in AB3. rewrite app_nil_r in AB3. exact AB3.
      - apply (proj2 (rgood_good _ _ _ Q)). exact SI. }
    destruct (enter_propose_lk D P SPC height round s3 s' o F3 Hh3 Eq) as ([F' O'] & _).
    split; [|exact O']. exact F'.
Qed.

Lemma enter_prevote_wait_lk D P SPC height round s s' o :
  Full D P SPC s -> cs_halted s = false -> round_ok height round s ->
  enter_prevote_wait height round s = (s', o) -> LK D P SPC s s' o.
Proof.
  intros F Hh Hr Eq.
  pose proof (enter_prevote_wait_good height round s s' o Hh Hr Eq) as G.
  unfold enter_prevote_wait in Eq.
  destruct (negb (cs_height s =? height) || (round <? cs_round s) || ((cs_round s =? round) && step_le SPrevoteWait (cs_step s))) eqn:Gd.
  - injection Eq as <- <-. apply lk_nil. exact F.
  - destruct (negb (o_has_any (prevotes (cs_votes s) round))).
    + pose proof (panic_lk D P SPC 1 s F) as L. rewrite Eq in L. exact L.
    + rewrite seq_schedule in Eq by exact Hh. unfold modify in Eq. injection Eq as <- <-.
      apply lk_from_core; [exact F | apply rgood_good; exact G | | cbn; auto].
      cbn. rewrite app_nil_r. eapply core_rel; [apply F|].
      eapply Rel_trans; [apply rel_add_sched | apply rel_set_rs]. cs. unfold step_le in Gd. bool_to_prop. lia.
Qed.

Lemma enter_precommit_wait_lk D P SPC height round s s' o :
  Full D P SPC s -> cs_halted s = false -> round_ok height round s ->
  enter_precommit_wait height round s = (s', o) -> LK D P SPC s s' o.
Proof.
  intros F Hh Hr Eq.
  pose proof (enter_precommit_wait_good height round s s' o Hh Hr Eq) as G.
  unfold enter_precommit_wait in Eq.
  destruct (negb (cs_height s =? height) || (round <? cs_round s) || ((cs_round s =? round) && cs_triggered s)) eqn:Gd.
  - injection Eq as <- <-. apply lk_nil. exact F.
  - destruct (negb (o_has_any (precommits (cs_votes s) round))).
    + pose proof (panic_lk D P SPC 4 s F) as L. rewrite Eq in L. exact L.
    + rewrite seq_schedule in Eq by exact Hh. unfold modify in Eq. injection Eq as <- <-.
      apply lk_from_core; [exact F | apply rgood_good; exact G | | cbn; auto].
      cbn. rewrite app_nil_r. eapply core_rel; [apply F|].
      eapply Rel_trans; [apply rel_add_sched | apply rel_set_triggered].
Qed.


(* ---------------------------------------------------------------- enterPrecommit *)

Lemma pc_quorum_from_state D s r x :
  HInv D s -> o_maj23 (precommits (cs_votes s) r) = Some x -> Quorum D (e_vals E) PRECOMMIT (cs_height s) r x.
Proof.
  intros [H1 H2] Hm. unfold precommits in Hm. destruct (hv_get (cs_votes s) r PRECOMMIT) as [vs|] eqn:G; [|discriminate].
  cbn in Hm. pose proof (hv_get_good D (e_vals E) (cs_votes s) r PRECOMMIT vs H1 G) as Gs. cbn in Gs.
  rewrite <- H2. eapply good_set_quorum; eassumption.
Qed.

Lemma hashes_to_some b h : hashes_to b h = true -> exists lb, b = Some lb /\ b_hash lb = h.
Proof. destruct b as [lb|]; cbn; [intro H; apply N.eqb_eq in H; eauto | discriminate]. Qed.
Lemma hashes_to_false lb h : hashes_to (Some lb) h = false -> b_hash lb <> h.
Proof. cbn. intro H. apply N.eqb_neq in H. exact H. Qed.

(* unlocking is justified by a polka for something else in the current round *)
Lemma core_unlock D P SPC s y :
  Core D P SPC s -> AllBelow SPC s -> step_rank (cs_step s) < 6 ->
  Polka D (cs_height s) (cs_round s) y ->
  (forall lb, cs_lblock s = Some lb -> bhash y <> Some (b_hash lb)) ->
  Core D P SPC (set_locked (-1) None None s).
Proof.
  intros (HI & LI & BI) AB Hst Hp Hy. split; [|split].
  - destruct HI as [H1 H2]. split; cs; assumption.
  - intros h r b Hin Hh. cs. right. destruct (LI h r b Hin Hh) as [(lb & L1 & L2 & L3)|Rl]; [|exact Rl].
    exists (cs_round s), y. split; [|split].
    + pose proof (AB h r b Hin) as A. unfold le3, pos in A. lia.
    + rewrite <- L2. apply Hy. exact L1.
    + rewrite Hh. exact Hp.
  - intros b Hb. apply BI. unfold has_block in *. cs. destruct Hb as [Hb|[Hb|Hb]]; try discriminate; auto.
Qed.

(* locking (or relocking) on a block that got the polka in the current round *)
Lemma core_lock D P SPC s (lb : block) (pp : option partset) (ph : psh) :
  Core D P SPC s -> AllBelow SPC s -> step_rank (cs_step s) < 6 ->
  Polka D (cs_height s) (cs_round s) (Some (b_hash lb, ph)) ->
  has_block s lb ->
  Core D P (SPC ++ [(cs_height s, cs_round s, (b_hash lb, ph))]) (set_locked (cs_round s) (Some lb) pp s).
Proof.
  intros (HI & LI & BI) AB Hst Hp Hb. split; [|split].
  - destruct HI as [H1 H2]. split; cs; assumption.
  - intros h r b Hin Hh. cs. apply in_app_or in Hin as [Hin|[Hin|[]]].
    + pose proof (AB h r b Hin) as A. unfold le3, pos in A.
      destruct (LI h r b Hin Hh) as [(lb0 & L1 & L2 & L3)|Rl]; [|right; exact Rl].
      destruct (N.eq_dec (b_hash lb) (fst b)) as [e|n].
      * left. exists lb. split; [reflexivity | split; [exact e | lia]].
      * right. exists (cs_round s), (Some (b_hash lb, ph)). split; [lia|]. split; [cbn; congruence | rewrite Hh; exact Hp].
    + injection Hin as <- <- <-. left. exists lb. cbn. split; [reflexivity | split; [reflexivity | lia]].
  - intros b [Hx|[Hx|Hx]]; cs; apply BI.
    + left; exact Hx.
    + injection Hx as <-. exact Hb.
    + right; right; exact Hx.
Qed.

(* the valid-block update of the re-lock (repair of F83) invents no block and leaves the lock alone *)
Lemma rel_relock r s : Rel (relock_unfixed r s) (relock r s).
Proof.
  rewrite relock_eq. destruct (_ <? _); [|apply Rel_refl].
  unfold Rel, has_block, relock_unfixed. cs. repeat split; auto; try lia.
  intros b [H|[H|H]]; auto.
Qed.

Lemma enter_precommit_lk D P SPC height round s s' o :
  Full D P SPC s -> cs_halted s = false -> round_ok height round s ->
  enter_precommit E height round s = (s', o) -> LK D P SPC s s' o.
Proof.
  intros F Hh Hr Eq.
  pose proof (enter_precommit_good E height round s s' o Hh Hr Eq) as G. apply rgood_good in G.
  unfold enter_precommit in Eq.
  destruct (negb (cs_height s =? height) || (round <? cs_round s) || ((cs_round s =? round) && step_le SPrecommit (cs_step s))) eqn:Gd.
  - injection Eq as <- <-. apply lk_nil. exact F.
  - unfold step_le in Gd. bool_to_prop. specialize (Hr ltac:(lia)). assert (round = cs_round s) by lia. subst round.
    assert (Hst : step_rank (cs_step s) < 6) by (cbn in *; lia).
    destruct F as (C & AB & SI).
    assert (FF : Full D P SPC s) by (split; [exact C | split; assumption]).
    (* the tail after a state x obtained quietly from s, signing a precommit for [b] *)
    assert (Tail : forall (f : cstate -> cstate) b extra,
              cs_halted (f s) = false -> cs_height (f s) = cs_height s -> cs_round (f s) = cs_round s ->
              Core D P (SPC ++ extra) (f s) ->
              (match b with Some bb => extra = [(cs_height s, cs_round s, bb)] /\ Polka D (cs_height s) (cs_round s) (Some bb) /\ held P (fst bb)
                          | None => extra = [] end) ->
              seq (modify f) (seq (sign_add_vote E PRECOMMIT b) (modify (set_rs (cs_round s) SPrecommit))) s = (s', o) ->
              LK D P SPC s s' o).
    { intros f b extra F5 F1 F2 Cx Hb Eq'. rewrite seq_modify in Eq' by exact F5.
      unfold seq in Eq'. unfold sign_add_vote in Eq'.
      destruct (is_validator E).
      - rewrite F5 in Eq'. unfold modify in Eq'. injection Eq' as <- <-. rewrite F1, F2 in G |- *.
        apply lk_from_core; [exact FF | exact G | |].
        + cbn [pcs flat_map opcs app]. change (PRECOMMIT =? PRECOMMIT)%N with true. cbv iota.
          destruct b as [bb|]; [destruct Hb as (-> & _ & _)|subst extra]; cbn [app]; rewrite ?app_nil_r in *;
            (eapply core_rel; [exact Cx | apply rel_set_rs; lia]).
        + cbn [outs_ok app]. split; [|exact I]. split; [intro Hty; discriminate|].
          intros _ bb Hbb. subst b. destruct Hb as (_ & Hp & Hin). auto.
      - rewrite F5 in Eq'. unfold modify in Eq'. injection Eq' as <- <-.
        apply lk_from_core; [exact FF | exact G | | exact I].
        cbn. rewrite app_nil_r.
        (* nothing was signed: the extra entry is not recorded, drop it *)
        eapply core_rel; [|apply rel_set_rs; lia].
        destruct Cx as (HIx & LIx & BIx). split; [exact HIx | split; [|exact BIx]].
        intros h r b0 Hin Hh0. apply LIx; [apply in_or_app; left; exact Hin | exact Hh0]. }
    destruct (o_maj23 (prevotes (cs_votes s) (cs_round s))) as [polka|] eqn:Maj.
    2:{ (* no polka: precommit nil *)
        apply (Tail (fun x => x) None []); try reflexivity; try exact Hh.
        - rewrite app_nil_r. exact C.
        - unfold seq at 1, modify. rewrite Hh. cbn [app].
          destruct (seq (sign_add_vote E PRECOMMIT None) (fun s0 => (set_rs (cs_round s) SPrecommit s0, [])) s) as [a b] eqn:Es.
          unfold modify in Eq. rewrite Es in Eq. exact Eq. }
    pose proof (polka_from_state D s (cs_round s) polka (proj1 C) Maj) as Hpol.
    destruct (fst (pol_info (cs_votes s)) <? cs_round s).
    { pose proof (panic_lk D P SPC 2 s FF) as L. rewrite Eq in L. exact L. }
    destruct polka as [[h ph]|].
    2:{ (* +2/3 nil: unlock *)
        refine (Tail _ None [] _ _ _ _ eq_refl Eq); cbv beta; destruct (cs_lblock s) eqn:El; cs; try reflexivity; try exact Hh.
        - rewrite app_nil_r. apply (core_unlock D P SPC s None C AB Hst Hpol). intros lb _. discriminate.
        - rewrite app_nil_r. exact C. }
    destruct (hashes_to (cs_lblock s) h) eqn:HL.
    { (* relock *)
      destruct (hashes_to_some _ _ HL) as (lb & El & Ehh). subst h.
      refine (Tail _ (Some (b_hash lb, ph)) _ _ _ _ _ _ Eq); cbv beta; cs; try reflexivity; try exact Hh.
      - eapply core_rel; [|apply rel_relock]. unfold relock_unfixed.
        rewrite El. apply (core_lock D P SPC s lb _ ph); try assumption. right; left; exact El.
      - split; [reflexivity | split; [exact Hpol|]]. cbn. destruct C as (_ & _ & BI). exists lb. split; [apply BI; right; left; exact El | reflexivity]. }
    destruct (hashes_to (cs_pblock s) h) eqn:HP.
    { destruct (hashes_to_some _ _ HP) as (pb & Ep & Ehh). subst h. rewrite Ep in Eq.
      destruct (negb (b_valid pb)).
      - pose proof (panic_lk D P SPC 3 s FF) as L. rewrite Eq in L. exact L.
      - refine (Tail _ (Some (b_hash pb, ph)) _ _ _ _ _ _ Eq); cbv beta; cs; try reflexivity; try exact Hh.
        + rewrite Ep. apply (core_lock D P SPC s pb _ ph); try assumption. left; exact Ep.
        + split; [reflexivity | split; [exact Hpol|]]. cbn. destruct C as (_ & _ & BI). exists pb. split; [apply BI; left; exact Ep | reflexivity]. }
    (* polka for a block we do not have: unlock *)
    assert (Cu : Core D P SPC (set_locked (-1) None None s)).
    { apply (core_unlock D P SPC s (Some (h, ph)) C AB Hst Hpol). intros lb El. rewrite El in HL.
      apply hashes_to_false in HL. cbn. congruence. }
    refine (Tail _ None [] _ _ _ _ eq_refl Eq); cbv beta zeta;
      destruct (has_header (cs_pparts (set_locked (-1) None None s)) ph); cs; try reflexivity; try exact Hh;
      rewrite app_nil_r; try exact Cu.
    eapply core_rel; [exact Cu | apply rel_set_prop; intros x Hx; discriminate].
Qed.


(* ---------------------------------------------------------------- commit path *)

Lemma update_to_next_height_lk D P SPC s s' o :
  Full D P SPC s -> cs_halted s = false -> update_to_next_height E s = (s', o) -> LK D P SPC s s' o.
Proof.
  intros F Hh Eq. pose proof (update_to_next_height_good E s s' o Hh Eq) as G.
  unfold update_to_next_height in Eq.
  destruct (negb (o_has_maj23 (precommits (cs_votes s) (cs_commit_round s)))).
  - pose proof (panic_lk D P SPC 5 s F) as L. rewrite Eq in L. exact L.
  - rewrite seq_modify in Eq by reflexivity. unfold schedule in Eq. injection Eq as <- <-.
    apply lk_from_core; [exact F | exact G | | cbn; auto].
    cbn [pcs flat_map opcs app]. rewrite app_nil_r.
    eapply core_rel; [|apply rel_add_sched].
    destruct F as (_ & AB & _). split; [|split].
    + destruct (new_hvs_inv D (cs_height s + 1) (e_vals E)) as [A B]. split; cbn; assumption.
    + intros h r b Hin Hh'. cbn in Hh'. pose proof (AB h r b Hin) as A. unfold le3, pos in A. lia.
    + intros b [Hb|[Hb|Hb]]; cbn in Hb; discriminate.
Qed.

Lemma finalize_commit_lk D P SPC height s s' o :
  Full D P SPC s -> cs_halted s = false -> finalize_commit E height s = (s', o) -> LK D P SPC s s' o.
Proof.
  intros F Hh Eq. unfold finalize_commit in Eq.
  destruct (negb (cs_height s =? height) || negb (step_eqb (cs_step s) SCommit)) eqn:Gd; [injection Eq as <- <-; apply lk_nil; exact F|].
  assert (Pn : forall c, panic c s = (s', o) -> LK D P SPC s s' o).
  { intros c Ep. pose proof (panic_lk D P SPC c s F) as L. rewrite Ep in L. exact L. }
  destruct (o_maj23 (precommits (cs_votes s) (cs_commit_round s))) as [[[h ph]|]|] eqn:Maj; try (eapply Pn; exact Eq).
  destruct (negb (has_header (cs_pparts s) ph)); [eapply Pn; exact Eq|].
  destruct (negb (hashes_to (cs_pblock s) h)) eqn:HT; [eapply Pn; exact Eq|].
  destruct (cs_pblock s) as [pb|] eqn:Epb; [|eapply Pn; exact Eq].
  destruct (negb (b_valid pb)) eqn:Vd; [eapply Pn; exact Eq|].
  destruct (negb (match cs_pparts s with Some p => pt_complete p | None => false end)); [eapply Pn; exact Eq|].
  unfold seq, emit in Eq. rewrite Hh in Eq.
  destruct (update_to_next_height E s) as [s2 o2] eqn:Eu. injection Eq as <- <-.
  pose proof (update_to_next_height_lk D P SPC s s2 o2 F Hh Eu) as [A B].
  split; [exact A|]. cbn [app outs_ok opcs]. rewrite app_nil_r. split; [|exact B].
  bool_to_prop. exists ph, pb. split; [|split; [|split]].
  - rewrite <- H. apply (pc_quorum_from_state D s (cs_commit_round s) (Some (h, ph)) (proj1 (proj1 F)) Maj).
  - destruct F as ((_ & _ & BI) & _). apply BI. left. exact Epb.
  - cbn in HT. apply N.eqb_eq in HT. exact HT.
  - exact Vd.
Qed.

Lemma try_finalize_commit_lk D P SPC height s s' o :
  Full D P SPC s -> cs_halted s = false -> try_finalize_commit E height s = (s', o) -> LK D P SPC s s' o.
Proof.
  intros F Hh Eq. unfold try_finalize_commit in Eq.
  destruct (negb (cs_height s =? height)).
  { pose proof (panic_lk D P SPC 10 s F) as L. rewrite Eq in L. exact L. }
  destruct (o_maj23 (precommits (cs_votes s) (cs_commit_round s))) as [[[h ph]|]|];
    try (injection Eq as <- <-; apply lk_nil; exact F).
  destruct (hashes_to (cs_pblock s) h); [|injection Eq as <- <-; apply lk_nil; exact F].
  eapply finalize_commit_lk; eassumption.
Qed.

Lemma full_rel D P SPC s s' : Full D P SPC s -> Rel s s' -> Good s s' [] -> Full D P SPC s'.
Proof. intros F R G. pose proof (lk_rel D P SPC s s' F R G) as [A _]. cbn in A. rewrite app_nil_r in A. exact A. Qed.

Lemma enter_commit_lk D P SPC height cr s s' o :
  Full D P SPC s -> cs_halted s = false -> enter_commit E height cr s = (s', o) -> LK D P SPC s s' o.
Proof.
  intros F Hh Eq. unfold enter_commit in Eq.
  destruct (negb (cs_height s =? height) || step_le SCommit (cs_step s)) eqn:G; [injection Eq as <- <-; apply lk_nil; exact F|].
  unfold step_le in G. bool_to_prop.
  destruct (o_maj23 (precommits (cs_votes s) cr)) as [polka|].
  2:{ pose proof (panic_lk D P SPC 11 s F) as L. rewrite Eq in L. exact L. }
  match type of Eq with try_finalize_commit E height ?x = _ => set (s3 := x) in * end.
  assert (Q : RGood s s3 [] /\ cs_halted s3 = false /\ Rel s s3).
  { subst s3.
    set (h := match polka with Some (h, _) => h | None => 0%N end).
    set (ph := match polka with Some (_, ph) => ph | None => (0%N, 0%N) end).
    set (nonnil := match polka with Some _ => true | None => false end).
    set (s1 := if nonnil && hashes_to (cs_lblock s) h then set_prop (cs_proposal s) (cs_lblock s) (cs_lparts s) s else s).
    assert (R1 : Rel s s1 /\ Quiet s s1).
    { subst s1. destruct (nonnil && hashes_to (cs_lblock s) h).
      - split; [apply rel_set_prop; intros x Hx; right; left; exact Hx | unfold Quiet; cs; repeat split; reflexivity].
      - split; [apply Rel_refl | apply quiet_refl]. }
    set (s2 := if negb (nonnil && hashes_to (cs_pblock s1) h)
               then (if negb (has_header (cs_pparts s1) ph) then set_prop (cs_proposal s1) None (Some (new_parts ph)) s1 else s1)
               else s1).
    assert (R2 : Rel s1 s2 /\ Quiet s1 s2).
    { subst s2. destruct (negb (nonnil && hashes_to (cs_pblock s1) h)); [destruct (negb (has_header (cs_pparts s1) ph))|].
      - split; [apply rel_set_prop; intros x Hx; discriminate | unfold Quiet; cs; repeat split; reflexivity].
      - split; [apply Rel_refl | apply quiet_refl].
      - split; [apply Rel_refl | apply quiet_refl]. }
    destruct R1 as [R1 (A1 & A2 & A3 & A4 & A5)]. destruct R2 as [R2 (B1 & B2 & B3 & B4 & B5)].
    split; [|split].
    - apply rgood_quiet; cs; try congruence; try (rewrite B2, A2; lia);
        try (intros _; pose proof (step_rank_range (cs_step s)); cbn; lia).
    - cs. congruence.
    - eapply Rel_trans; [exact R1|]. eapply Rel_trans; [exact R2|].
      eapply Rel_trans; [|apply rel_set_commit_round]. apply rel_set_rs. lia. }
  destruct Q as (Q & Hh3 & R3).
  pose proof (full_rel D P SPC s s3 F R3 (rgood_good _ _ _ Q)) as F3.
  pose proof (try_finalize_commit_lk D P SPC height s3 s' o F3 Hh3 Eq) as [A B].
  split; assumption.
Qed.


(* ---------------------------------------------------------------- proposals and parts *)

Lemma full_quiet_rel D P SPC s s' : Full D P SPC s -> Quiet s s' -> Rel s s' -> Full D P SPC s'.
Proof. intros F Q R. eapply full_rel; [exact F | exact R | apply rgood_good, quiet_rgood; exact Q]. Qed.

Lemma handle_complete_proposal_lk D P SPC height s s' o :
  Full D P SPC s -> cs_halted s = false -> handle_complete_proposal E height s = (s', o) -> LK D P SPC s s' o.
Proof.
  intros F Hh Eq. unfold handle_complete_proposal in Eq.
  match type of Eq with context [is_proposal_complete ?x] => set (s1 := x) in * end.
  assert (Q : Quiet s s1 /\ Rel s s1).
  { subst s1. destruct (o_maj23 (prevotes (cs_votes s) (cs_round s))) as [[[h ph]|]|];
      try (split; [apply quiet_refl | apply Rel_refl]).
    destruct ((cs_vround s <? cs_round s) && hashes_to (cs_pblock s) h); [|split; [apply quiet_refl | apply Rel_refl]].
    split; [unfold Quiet; cs; repeat split; reflexivity | apply rel_set_valid; intros x Hx; left; exact Hx]. }
  destruct Q as [Q R].
  assert (Hh1 : cs_halted s1 = false) by (destruct Q as (_ & _ & _ & _ & Q5); rewrite Q5; exact Hh).
  pose proof (full_quiet_rel D P SPC s s1 F Q R) as F1.
  assert (Fin : LK D P SPC s1 s' o -> LK D P SPC s s' o).
  { intros [A B]. split; assumption. }
  apply Fin.
  destruct (step_le (cs_step s1) SPropose && is_proposal_complete s1).
  - eapply (seq_lk D P SPC _ _ s1 s' o (fun _ => True) Eq).
    + intros s2 o2 E2. destruct (enter_prevote_lk D P SPC height (cs_round s1) s1 s2 o2 F1 Hh1 ltac:(intro; lia) E2) as [L2 _].
      split; [exact L2 | auto].
    + intros SPC1 s2 s3 o3 Hh2 _ F2 E3.
      destruct (o_maj23 (prevotes (cs_votes s) (cs_round s))); [|injection E3 as <- <-; apply lk_nil; exact F2].
      refine (enter_precommit_lk D P SPC1 _ _ _ _ _ F2 Hh2 _ E3). intro; lia.
  - destruct (step_eqb (cs_step s1) SCommit).
    + eapply try_finalize_commit_lk; eassumption.
    + injection Eq as <- <-. apply lk_nil. exact F1.
Qed.

Lemma set_proposal_lk D P SPC p s s' o :
  Full D P SPC s -> set_proposal E p s = (s', o) -> LK D P SPC s s' o.
Proof.
  intros F Eq. unfold set_proposal in Eq.
  assert (Q : (Quiet s s' /\ Rel s s') /\ o = []).
  { repeat match type of Eq with
           | context [if ?c then _ else _] => destruct c
           | context [match ?x with _ => _ end] => destruct x
           end; injection Eq as <- <-;
      (split; [split; [unfold Quiet; cs; repeat split; reflexivity
                      | first [apply Rel_refl | apply rel_set_prop; intros x Hx; left; exact Hx]] | reflexivity]). }
  destruct Q as [[Q R] ->]. apply lk_nil. eapply full_quiet_rel; eassumption.
Qed.

Lemma add_part_lk D P SPC height ph idx d s s' o :
  Full D P SPC s -> cs_halted s = false -> (forall b, d = Some b -> In b P) ->
  add_part E height ph idx d s = (s', o) -> LK D P SPC s s' o.
Proof.
  intros F Hh Hd Eq. unfold add_part in Eq.
  destruct (negb (cs_height s =? height)); [injection Eq as <- <-; apply lk_nil; exact F|].
  destruct (cs_pparts s) as [pp|]; [|injection Eq as <- <-; apply lk_nil; exact F].
  destruct (negb (psh_eqb (pt_header pp) ph)); [injection Eq as <- <-; apply lk_nil; exact F|].
  destruct ((fst ph <=? idx)%N); [injection Eq as <- <-; apply lk_nil; exact F|].
  destruct (existsb (N.eqb idx) (pt_have pp)); [injection Eq as <- <-; apply lk_nil; exact F|].
  match type of Eq with context [pt_complete ?x] => set (pp' := x) in * end.
  (* the three possible next states are all Full *)
  assert (Fkeep : Full D P SPC (set_prop (cs_proposal s) (cs_pblock s) (Some pp') s)).
  { eapply full_quiet_rel; [exact F | unfold Quiet; cs; repeat split; reflexivity | apply rel_set_prop; intros x Hx; left; exact Hx]. }
  destruct (pt_complete pp').
  - destruct d as [b|].
    + assert (Fb : Full D P SPC (set_prop (cs_proposal s) (Some b) (Some pp') s)).
      { destruct F as ((HI & LI & BI) & AB & SI). split; [|split].
        - split; [|split].
          + destruct HI as [H1 H2]. split; cs; assumption.
          + intros h r b0 Hin Hh0. cs. exact (LI h r b0 Hin Hh0).
          + intros x [Hx|[Hx|Hx]]; cs; [injection Hx as <-; apply Hd; reflexivity | apply BI; right; left; exact Hx | apply BI; right; right; exact Hx].
        - intros h r b0 Hin. unfold pos. cs. exact (AB h r b0 Hin).
        - intros ti Hin. cs. exact (SI ti Hin). }
      destruct (handle_complete_proposal_lk D P SPC height _ s' o Fb ltac:(cs; exact Hh) Eq) as [A B]; split; assumption.
    + destruct (handle_complete_proposal_lk D P SPC height _ s' o Fkeep ltac:(cs; exact Hh) Eq) as [A B]; split; assumption.
  - injection Eq as <- <-. destruct (lk_nil D P SPC _ Fkeep) as [A B]; split; assumption.
Qed.

(* ---------------------------------------------------------------- votes *)

Lemma polka_update_full D P SPC vr s :
  Full D P SPC s -> Full D P SPC (polka_update vr s) /\ Quiet s (polka_update vr s).
Proof.
  intros F. unfold polka_update.
  destruct (o_maj23 (prevotes (cs_votes s) vr)) as [polka|] eqn:Maj; [|split; [exact F | apply quiet_refl]].
  pose proof (polka_from_state D s vr polka (proj1 (proj1 F)) Maj) as Hpol.
  set (h := match polka with Some (h, _) => h | None => 0%N end).
  set (nonnil := match polka with Some _ => true | None => false end).
  (* the unlock step *)
  set (s_u := match cs_lblock s with
              | Some _ => if (cs_lround s <? vr) && (vr <=? cs_round s) && negb (nonnil && hashes_to (cs_lblock s) h)
                          then set_locked (-1) None None s else s
              | None => s end).
  assert (Fu : Full D P SPC s_u /\ Quiet s s_u).
  { subst s_u. destruct (cs_lblock s) as [lb|] eqn:El; [|split; [exact F | apply quiet_refl]].
    destruct ((cs_lround s <? vr) && (vr <=? cs_round s) && negb (nonnil && hashes_to (Some lb) h)) eqn:Cu; [|split; [exact F | apply quiet_refl]].
    bool_to_prop.
    assert (Q : Quiet s (set_locked (-1) None None s)) by (unfold Quiet; cs; repeat split; reflexivity).
    split; [|exact Q].
    destruct F as ((HI & LI & BI) & AB & SI). split; [|split].
    - split; [|split].
      + destruct HI as [A B]. split; cs; assumption.
      + intros h0 r b Hin Hh0. cs. right.
        destruct (LI h0 r b Hin Hh0) as [(lb0 & L1 & L2 & L3)|Rl]; [|exact Rl].
        rewrite El in L1. injection L1 as <-.
        exists vr, polka. split; [lia|]. split; [|rewrite Hh0; exact Hpol].
        rewrite <- L2. subst nonnil h. destruct polka as [[hh pp]|]; cbn; [|discriminate].
        cbn in H0. destruct H0 as [H0|H0]; [discriminate|]. intro Hc. injection Hc as Hc. apply N.eqb_neq in H0. congruence.
      + intros x Hx. apply BI. unfold has_block in *. cs. destruct Hx as [Hx|[Hx|Hx]]; try discriminate; auto.
    - intros h0 r b Hin. unfold pos. cs. exact (AB h0 r b Hin).
    - intros ti Hin. cs. exact (SI ti Hin). }
  destruct Fu as [Fu Qu].
  destruct polka as [[hh ph]|]; [|split; assumption].
  destruct ((cs_vround s_u <? vr) && (vr =? cs_round s_u)); [|split; assumption].
  set (s_v := if hashes_to (cs_pblock s_u) hh then set_valid vr (cs_pblock s_u) (cs_pparts s_u) s_u
              else set_prop (cs_proposal s_u) None (cs_pparts s_u) s_u).
  assert (Fv : Full D P SPC s_v /\ Quiet s_u s_v).
  { subst s_v. destruct (hashes_to (cs_pblock s_u) hh).
    - assert (Q : Quiet s_u (set_valid vr (cs_pblock s_u) (cs_pparts s_u) s_u)) by (unfold Quiet; cs; repeat split; reflexivity).
      split; [|exact Q]. eapply full_quiet_rel; [exact Fu | exact Q | apply rel_set_valid; intros x Hx; left; exact Hx].
    - assert (Q : Quiet s_u (set_prop (cs_proposal s_u) None (cs_pparts s_u) s_u)) by (unfold Quiet; cs; repeat split; reflexivity).
      split; [|exact Q]. eapply full_quiet_rel; [exact Fu | exact Q | apply rel_set_prop; intros x Hx; discriminate]. }
  destruct Fv as [Fv Qv].
  assert (Quv : Quiet s s_v).
  { destruct Qu as (A1 & A2 & A3 & A4 & A5). destruct Qv as (B1 & B2 & B3 & B4 & B5). unfold Quiet. repeat split; congruence. }
  destruct (negb (has_header (cs_pparts s_v) ph)); [|split; assumption].
  assert (Q : Quiet s_v (set_prop (cs_proposal s_v) (cs_pblock s_v) (Some (new_parts ph)) s_v)) by (unfold Quiet; cs; repeat split; reflexivity).
  split.
  - eapply full_quiet_rel; [exact Fv | exact Q | apply rel_set_prop; intros x Hx; left; exact Hx].
  - destruct Quv as (A1 & A2 & A3 & A4 & A5). destruct Q as (B1 & B2 & B3 & B4 & B5). unfold Quiet. repeat split; congruence.
Qed.

Lemma lk_errs D P SPC s s' (e : verr) o :
  LK D P SPC s s' o -> LK D P SPC s s' ((match e with E_none => [] | _ => [OVoteErr e] end) ++ o).
Proof.
  intros [A B]. destruct e; cbn [app]; try (split; assumption);
    (split; [exact A | cbn [outs_ok opcs]; rewrite app_nil_r; split; [exact I | exact B]]).
Qed.
Lemma lk_errs_nil D P SPC s s' (e : verr) :
  LK D P SPC s s' [] -> LK D P SPC s s' (match e with E_none => [] | _ => [OVoteErr e] end).
Proof. intro L. rewrite <- (app_nil_r (match e with E_none => [] | _ => [OVoteErr e] end)). apply lk_errs. exact L. Qed.

Lemma full_set_votes D P SPC hv' s :
  Full D P SPC s -> HVInv D (e_vals E) hv' -> hv_height hv' = cs_height s -> Full D P SPC (set_votes hv' s).
Proof.
  intros (C & AB & SI) H1 H2. split; [apply core_set_votes; assumption|]. split.
  - intros h r b Hin. unfold pos. cs. exact (AB h r b Hin).
  - intros ti Hin. cs. exact (SI ti Hin).
Qed.

Lemma add_vote_lk D P SPC v peer s s' o :
  Full D P SPC s -> cs_halted s = false -> In v D -> add_vote E v peer s = (s', o) -> LK D P SPC s s' o.
Proof.
  intros F Hh Hv Eq. unfold add_vote in Eq.
  destruct ((v_height v + 1 =? cs_height s) && (v_type v =? PRECOMMIT)%N).
  { destruct (negb (step_eqb (cs_step s) SNewHeight)); [injection Eq as <- <-; apply lk_nil; exact F|].
    destruct (cs_last_commit s) as [lc|].
    2:{ pose proof (panic_lk D P SPC 12 s F) as L. rewrite Eq in L. exact L. }
    destruct (vs_add lc v) as [[lc' added] e].
    set (s1 := set_last_commit (Some lc') s) in *.
    assert (Q : Quiet s s1) by (subst s1; unfold Quiet; cs; repeat split; reflexivity).
    assert (Hh1 : cs_halted s1 = false) by (subst s1; cs; exact Hh).
    pose proof (full_quiet_rel D P SPC s s1 F Q (rel_set_last_commit _ s)) as F1.
    destruct (negb added).
    { injection Eq as <- <-. apply lk_errs_nil. apply lk_nil in F1. destruct F1 as [A B]. split; assumption. }
    destruct (e_skip_timeout_commit E && has_all lc').
    - destruct (enter_new_round E (cs_height s1) 0 s1) as [s2 o2] eqn:E2. injection Eq as <- <-.
      apply lk_errs. destruct (enter_new_round_lk D P SPC _ _ _ _ _ F1 Hh1 E2) as ([A B] & _). split; assumption.
    - injection Eq as <- <-. apply lk_errs_nil. apply lk_nil in F1. destruct F1 as [A B]. split; assumption. }
  destruct (negb (v_height v =? cs_height s)); [injection Eq as <- <-; apply lk_nil; exact F|].
  pose proof (hv_add_vote_inv D (e_vals E) (cs_votes s) v peer Hnn Hv (proj1 (proj1 (proj1 F)))) as [HI' HH'].
  destruct (hv_add_vote (cs_votes s) v peer) as [[hv' added] e]. cbn [fst] in HI', HH'.
  set (s1 := set_votes hv' s) in *.
  assert (F1 : Full D P SPC s1).
  { apply full_set_votes; [exact F | exact HI' | rewrite HH'; exact (proj2 (proj1 (proj1 F)))]. }
  assert (Hh1 : cs_halted s1 = false) by (subst s1; cs; exact Hh).
  assert (Lift : forall s9 o9, LK D P SPC s1 s9 o9 -> LK D P SPC s s9 o9) by (intros s9 o9 [A B]; split; assumption).
  destruct (negb added).
  { injection Eq as <- <-. apply lk_errs_nil. apply Lift. apply lk_nil. exact F1. }
  match type of Eq with (let '(s9, o9) := ?body in _) = _ => destruct body as [s9 o9] eqn:Eb end.
  injection Eq as <- <-. apply lk_errs. apply Lift.
  destruct ((v_type v =? PREVOTE)%N).
  - set (s2 := polka_update (v_round v) s1) in *.
    destruct (polka_update_full D P SPC (v_round v) s1 F1) as [F2 Q2]. fold s2 in F2, Q2.
    assert (Hh2 : cs_halted s2 = false) by (destruct Q2 as (_ & _ & _ & _ & Q5); rewrite Q5; exact Hh1).
    assert (Lift2 : LK D P SPC s2 s9 o9 -> LK D P SPC s1 s9 o9) by (intros [A B]; split; assumption).
    apply Lift2.
    destruct ((cs_round s2 <? v_round v) && o_has_any (prevotes (cs_votes s2) (v_round v))).
    { exact (proj1 (enter_new_round_lk D P SPC _ _ _ _ _ F2 Hh2 Eb)). }
    destruct ((cs_round s2 =? v_round v) && step_le SPrevote (cs_step s2)) eqn:Cur.
    { bool_to_prop.
      assert (Rk : round_ok (cs_height s) (v_round v) s2) by (intro; lia).
      destruct (o_maj23 (prevotes (cs_votes s2) (v_round v))) as [polka|].
      - destruct (is_proposal_complete s2 || match polka with None => true | Some _ => false end).
        + eapply enter_precommit_lk; eassumption.
        + destruct (o_has_any (prevotes (cs_votes s2) (v_round v))); [|injection Eb as <- <-; apply lk_nil; exact F2].
          eapply enter_prevote_wait_lk; eassumption.
      - destruct (o_has_any (prevotes (cs_votes s2) (v_round v))); [|injection Eb as <- <-; apply lk_nil; exact F2].
        eapply enter_prevote_wait_lk; eassumption. }
    destruct (cs_proposal s2) as [p|]; [|injection Eb as <- <-; apply lk_nil; exact F2].
    destruct ((0 <=? pr_polr p) && (pr_polr p =? v_round v) && is_proposal_complete s2); [|injection Eb as <- <-; apply lk_nil; exact F2].
    refine (proj1 (enter_prevote_lk D P SPC _ _ _ _ _ F2 Hh2 _ Eb)). intro; lia.
  - destruct (o_maj23 (precommits (cs_votes s1) (v_round v))) as [polka|].
    + eapply (seq_lk D P SPC _ _ s1 s9 o9 (round_ok (cs_height s) (v_round v)) Eb).
      * intros sa oa Ea. destruct (enter_new_round_lk D P SPC _ _ _ _ _ F1 Hh1 Ea) as (L & _ & R).
        split; [exact L | intros _; exact R].
      * intros SPC1 sa sb ob Hha Ra Fa Eb2.
        eapply (seq_lk D P SPC1 _ _ sa sb ob (round_ok (cs_height s) (v_round v)) Eb2).
        -- intros sc oc Ec. pose proof (enter_precommit_lk D P SPC1 _ _ _ _ _ Fa Hha Ra Ec) as L.
           split; [exact L | intros _].
           pose proof (enter_precommit_good E _ _ _ _ _ Hha Ra Ec) as G. eapply round_ok_rgood; eassumption.
        -- intros SPC2 sc sd od Hhc Rc Fc Ed. destruct polka as [bb|].
           ++ eapply (seq_lk D P SPC2 _ _ sc sd od (fun _ => True) Ed).
              ** intros se oe Ee. split; [eapply enter_commit_lk; eassumption | auto].
              ** intros SPC3 se sf of Hhe _ Fe Ef.
                 destruct (e_skip_timeout_commit E && o_has_all (precommits (cs_votes s1) (v_round v)));
                   [|injection Ef as <- <-; apply lk_nil; exact Fe].
                 exact (proj1 (enter_new_round_lk D P SPC3 _ _ _ _ _ Fe Hhe Ef)).
           ++ eapply enter_precommit_wait_lk; eassumption.
    + destruct ((cs_round s1 <=? v_round v) && o_has_any (precommits (cs_votes s1) (v_round v))); [|injection Eb as <- <-; apply lk_nil; exact F1].
      eapply (seq_lk D P SPC _ _ s1 s9 o9 (round_ok (cs_height s) (v_round v)) Eb).
      * intros sa oa Ea. destruct (enter_new_round_lk D P SPC _ _ _ _ _ F1 Hh1 Ea) as (L & _ & R).
        split; [exact L | intros _; exact R].
      * intros SPC1 sa sb ob Hha Ra Fa Eb2. eapply enter_precommit_wait_lk; eassumption.
Qed.

Lemma handle_timeout_lk D P SPC ti s s' o :
  Full D P SPC s -> cs_halted s = false -> handle_timeout E ti s = (s', o) -> LK D P SPC s s' o.
Proof.
  intros F Hh Eq. unfold handle_timeout in Eq.
  destruct (negb (existsb (tinfo_eqb ti) (cs_scheduled s))) eqn:Ex; [injection Eq as <- <-; apply lk_nil; exact F|].
  destruct (negb (ti_height ti =? cs_height s) || (ti_round ti <? cs_round s)
            || ((ti_round ti =? cs_round s) && (step_rank (ti_step ti) <? step_rank (cs_step s)))) eqn:G;
    [injection Eq as <- <-; apply lk_nil; exact F|].
  bool_to_prop.
  assert (Rk : round_ok (ti_height ti) (ti_round ti) s).
  { apply existsb_exists in Ex. destruct Ex as (tj & Hin & Et). unfold tinfo_eqb in Et. bool_to_prop.
    pose proof (proj2 (proj2 F) tj Hin) as SIj. intro. lia. }
  destruct (ti_step ti).
  - exact (proj1 (enter_new_round_lk D P SPC _ _ _ _ _ F Hh Eq)).
  - exact (proj1 (enter_propose_lk D P SPC _ _ _ _ _ F Hh Eq)).
  - exact (proj1 (enter_prevote_lk D P SPC _ _ _ _ _ F Hh Rk Eq)).
  - pose proof (panic_lk D P SPC 13 s F) as L. rewrite Eq in L. exact L.
  - eapply enter_precommit_lk; eassumption.
  - pose proof (panic_lk D P SPC 13 s F) as L. rewrite Eq in L. exact L.
  - eapply (seq_lk D P SPC _ _ s s' o (fun _ => True) Eq).
    + intros s1 o1 E1. split; [eapply enter_precommit_lk; eassumption | auto].
    + intros SPC1 s1 s2 o2 Hh1 _ F1 E2. exact (proj1 (enter_new_round_lk D P SPC1 _ _ _ _ _ F1 Hh1 E2)).
  - pose proof (panic_lk D P SPC 13 s F) as L. rewrite Eq in L. exact L.
Qed.


(* ---------------------------------------------------------------- handle and run *)

Definition votes_of (ins : list input) : list vote :=
  flat_map (fun i => match i with IVote v _ => [v] | _ => [] end) ins.
Definition blocks_of (ins : list input) : list block :=
  flat_map (fun i => match i with IPart _ _ _ (Some b) => [b] | _ => [] end) ins.

Definition input_in (D : list vote) (P : list block) (i : input) : Prop :=
  match i with
  | IVote v _ => In v D
  | IPart _ _ _ (Some b) => In b P
  | _ => True
  end.

Lemma maj23_claim_lk D P SPC s r ty peer b :
  Full D P SPC s -> LK D P SPC s (set_votes (hv_set_peer_maj23 (cs_votes s) r ty peer b) s) [].
Proof.
  intro F. destruct (hv_set_peer_maj23_inv D (e_vals E) (cs_votes s) r ty peer b (proj1 (proj1 (proj1 F)))) as [A B].
  apply lk_nil. apply full_set_votes; [exact F | exact A | rewrite B; exact (proj2 (proj1 (proj1 F)))].
Qed.

Lemma handle_lk D P SPC i s s' o :
  Full D P SPC s -> input_in D P i -> handle E s i = (s', o) -> LK D P SPC s s' o.
Proof.
  intros F Hi Eq. unfold handle in Eq.
  destruct (cs_halted s) eqn:Hh; [injection Eq as <- <-; apply lk_nil; exact F|].
  destruct i.
  - eapply set_proposal_lk; eassumption.
  - eapply add_part_lk; try eassumption. intros b ->. exact Hi.
  - eapply add_vote_lk; eassumption.
  - eapply handle_timeout_lk; eassumption.
  - destruct (height =? cs_height s); injection Eq as <- <-; [apply maj23_claim_lk; exact F | apply lk_nil; exact F].
Qed.

Lemma run_lk D P : forall ins SPC s s' os,
  Full D P SPC s -> Forall (input_in D P) ins -> run E s ins = (s', os) ->
  LK D P SPC s s' (concat os).
Proof.
  induction ins as [|i ins IH]; intros SPC s s' os F Hin Eq; cbn [run] in Eq.
  - injection Eq as <- <-. apply lk_nil. exact F.
  - destruct (handle E s i) as [s1 o1] eqn:E1. destruct (run E s1 ins) as [s2 os2] eqn:E2.
    injection Eq as <- <-. cbn [concat]. inversion Hin as [|? ? Hi Hrest]; subst.
    pose proof (handle_lk D P SPC i s s1 o1 F Hi E1) as L1.
    eapply lk_trans; [exact L1 | apply (IH _ s1); [apply L1 | exact Hrest | exact E2]].
Qed.

Lemma init_full D P height lc : Full D P [] (init_state E height lc).
Proof.
  split; [split; [|split]|split].
  - destruct (new_hvs_inv D height (e_vals E)) as [A B]. split; cbn; assumption.
  - intros h r b [].
  - intros b [Hb|[Hb|Hb]]; cbn in Hb; discriminate.
  - intros h r b [].
  - apply init_sched.
Qed.

Lemma inputs_in_own ins : Forall (input_in (votes_of ins) (blocks_of ins)) ins.
Proof.
  apply Forall_forall. intros i Hi. destruct i as [p|h ph idx [b|]|v peer|ti|h r ty peer b]; cbn; auto.
  - unfold blocks_of. apply in_flat_map. exists (IPart h ph idx (Some b)). split; [exact Hi | left; reflexivity].
  - unfold votes_of. apply in_flat_map. exists (IVote v peer). split; [exact Hi | left; reflexivity].
Qed.

End Lock.

(* Clauses 2 and 3 for every run: with D the votes and P the completed blocks delivered during
   the run, every signed output satisfies [outs_ok] in signing order.  Since the input list is
   arbitrary, applying the theorem to a prefix of a run gives "delivered so far". *)
Theorem votes_justified E height lc ins :
  powers_nonneg (e_vals E) ->
  outs_ok E (votes_of ins) (blocks_of ins) [] (concat (snd (run E (init_state E height lc) ins))).
Proof.
  intro Hnn. destruct (run E (init_state E height lc) ins) as [s' os] eqn:Er. cbn [snd].
  exact (proj2 (run_lk E Hnn _ _ ins [] _ _ _ (init_full E _ _ height lc) (inputs_in_own ins) Er)).
Qed.

(* readable corollaries *)
Lemma outs_ok_precommit E D P : forall o SPC h r b,
  outs_ok E D P SPC o -> In (OSignVote PRECOMMIT h r (Some b)) o ->
  Polka E D h r (Some b) /\ held P (fst b).
Proof.
  induction o as [|x o IH]; intros SPC h r b Ok Hin; [destruct Hin|].
  cbn [outs_ok] in Ok. destruct Ok as [Hx Hrest]. destruct Hin as [->|Hin].
  - destruct Hx as [_ Hpc]. apply Hpc; reflexivity.
  - eapply IH; eassumption.
Qed.

Lemma outs_ok_lock E D P : forall o1 SPC h r b o2 r' x o3,
  outs_ok E D P SPC (o1 ++ OSignVote PRECOMMIT h r (Some b) :: o2 ++ OSignVote PREVOTE h r' x :: o3) ->
  r < r' -> bhash x <> Some (fst b) -> Released E D h r b r'.
Proof.
  intros o1 SPC h r b o2 r' x o3 Ok Hlt Hne.
  apply outs_ok_app in Ok as [_ Ok]. cbn [outs_ok] in Ok. destruct Ok as [_ Ok].
  apply outs_ok_app in Ok as [_ Ok]. cbn [outs_ok] in Ok. destruct Ok as [[Hpv _] _].
  apply (Hpv eq_refl r b); [|exact Hlt | exact Hne].
  apply in_or_app. left. apply in_or_app. right. cbn. left. reflexivity.
Qed.

Lemma outs_ok_decide E D P : forall o SPC h r bh,
  outs_ok E D P SPC o -> In (ODecide h r bh) o ->
  exists ph blk, Quorum D (e_vals E) PRECOMMIT h r (Some (bh, ph)) /\ In blk P /\ b_hash blk = bh /\ b_valid blk = true.
Proof.
  induction o as [|x o IH]; intros SPC h r bh Ok Hin; [destruct Hin|].
  cbn [outs_ok] in Ok. destruct Ok as [Hx Hrest]. destruct Hin as [->|Hin]; [exact Hx | eapply IH; eassumption].
Qed.

(* C01, second sentence: a decided block passed validation, its complete part set was
   delivered, and it is backed by +2/3 precommits for exactly that block id in one round among
   the votes delivered to the node *)
Theorem decide_backed E height lc ins h r bh :
  powers_nonneg (e_vals E) ->
  In (ODecide h r bh) (concat (snd (run E (init_state E height lc) ins))) ->
  exists ph blk, Quorum (votes_of ins) (e_vals E) PRECOMMIT h r (Some (bh, ph)) /\
                 In blk (blocks_of ins) /\ b_hash blk = bh /\ b_valid blk = true.
Proof. intros Hnn Hin. eapply outs_ok_decide; [apply votes_justified; exact Hnn | exact Hin]. Qed.

Theorem precommit_justified E height lc ins h r b :
  powers_nonneg (e_vals E) ->
  In (OSignVote PRECOMMIT h r (Some b)) (concat (snd (run E (init_state E height lc) ins))) ->
  Polka E (votes_of ins) h r (Some b) /\ held (blocks_of ins) (fst b).
Proof. intros Hnn Hin. eapply outs_ok_precommit; [apply votes_justified; exact Hnn | exact Hin]. Qed.

Theorem lock_discipline E height lc ins o1 h r b o2 r' x o3 :
  powers_nonneg (e_vals E) ->
  concat (snd (run E (init_state E height lc) ins)) =
    o1 ++ OSignVote PRECOMMIT h r (Some b) :: o2 ++ OSignVote PREVOTE h r' x :: o3 ->
  r < r' -> bhash x <> Some (fst b) -> Released E (votes_of ins) h r b r'.
Proof.
  intros Hnn Eo. pose proof (votes_justified E height lc ins Hnn) as Ok. rewrite Eo in Ok.
  eapply outs_ok_lock; exact Ok.
Qed.

(* a run on a prefix of the inputs is the prefix of the run *)
Lemma run_app E : forall a s b,
  snd (run E s (a ++ b)) = snd (run E s a) ++ snd (run E (fst (run E s a)) b).
Proof.
  induction a as [|i a IH]; intros s b.
  - reflexivity.
  - cbn [run app]. destruct (handle E s i) as [s1 o1]. specialize (IH s1 b).
    destruct (run E s1 (a ++ b)) as [s2 os2]. destruct (run E s1 a) as [s3 os3]. cbn [fst snd] in *.
    rewrite IH. reflexivity.
Qed.
