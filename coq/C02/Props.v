(* C02 — A correct validator never equivocates and every vote it casts is justified.
   Statements only; proofs in ProofsOrder.v / ProofsVoteSet.v.  [handle] is one call of
   handleMsg / handleTimeout of consensus/state.go (model: C02/Model.v); [run] folds it over an
   ARBITRARY list of inputs — proposals, block parts, votes (any signer, any round, valid or
   not, equivocating), timeouts that were scheduled — i.e. also sequences only a > 1/3 faulty
   coalition can produce.  No assumption is made on who sent what. *)
From Coq Require Import List ZArith NArith Bool.
From TM Require Import C02.Model C02.ProofsVoteSet C02.ProofsOrder C02.Exec.
Import ListNotations.
Open Scope Z_scope.

(* Clause 1 (one signed message per step).  Every proposal, prevote and precommit the validator
   signs carries the key (height, round, rank) with rank 3/4/6; over any run these keys are
   strictly increasing in signing order — so there is at most one proposal, one prevote and one
   precommit per height and round, and signing requests never go back in (H,R,S) (which is why
   the double-sign guard of the private validator, C04, never fires without a crash). *)
Theorem C02_signed_keys_strictly_increase :
  forall (E : env) (height : Z) (lc : option voteset) (ins : list input),
    let '(s', os) := run E (init_state E height lc) ins in
    Incr (pos (init_state E height lc)) (keys (concat os)) (pos s').
Proof. exact signed_keys_increasing. Qed.
Print Assumptions C02_signed_keys_strictly_increase.

Theorem C02_one_signed_message_per_step :
  forall (E : env) (height : Z) (lc : option voteset) (ins : list input),
    NoDup (keys (concat (snd (run E (init_state E height lc) ins)))).
Proof. exact signed_keys_nodup. Qed.
Print Assumptions C02_one_signed_message_per_step.

(* Clause 2, vote-set half.  Whatever votes and peer claims a vote set has processed (any order,
   repeats, conflicting votes, bad signatures, wrong indices), a recorded +2/3 majority for a
   block id is backed by verified votes for exactly that block id, height, round and type, one
   per validator (slot i = validator i, address checked), whose power is strictly more than two
   thirds of the total.  enterPrecommit signs a precommit for a block only when
   Prevotes(round).TwoThirdsMajority() is that block (C02_precommit_needs_polka below). *)
Theorem C02_maj23_sound :
  forall (vals : valset) (h r : Z) (ty : N) (ops : list vsop) (k : blockid),
    powers_nonneg vals ->
    let s := fold_left vs_apply ops (new_voteset h r ty vals) in
    vs_maj23 s = Some k ->
    exists bv, lookup_bv k (vs_byblock s) = Some bv /\
      slots_ok (fun i v => v_ok v = true /\ v_bid v = k /\ v_idx v = Z.of_nat i /\
                           v_height v = h /\ v_round v = r /\ v_type v = ty /\
                           exists a p, nth_error vals i = Some (a, p) /\ v_addr v = a) (bv_votes bv) /\
      NoDup (backers bv) /\
      3 * backers_power vals bv > 2 * total_power vals.
Proof. exact maj23_sound. Qed.
Print Assumptions C02_maj23_sound.

(* ---- non-vacuity: a concrete 4-validator run in which the node (index 0, proposer of round 0
   is validator 1) receives a proposal and the block, prevotes it, sees the polka, precommits
   it, sees +2/3 precommits and decides. *)
Definition ex_vals : valset := [(1%N, 10); (2%N, 10); (3%N, 10); (4%N, 10)].
Definition ex_env : env :=
  {| e_vals := ex_vals; e_me := Some 0; e_proposer := fun _ r => (r + 1) mod 4;
     e_skip_timeout_commit := false; e_initial_height := 1 |}.
Definition ex_bid : bid := (7%N, (1%N, 9%N)).
Definition ex_vote ty i : input :=
  IVote {| v_type := ty; v_height := 1; v_round := 0; v_bid := Some ex_bid; v_idx := i;
           v_addr := N.of_nat (Z.to_nat i + 1); v_sig := N.of_nat (Z.to_nat i + 100 * N.to_nat ty); v_ok := true |} 5%N.
Definition ex_inputs : list input :=
  [ ITimeout {| ti_height := 1; ti_round := 0; ti_step := SNewHeight |};
    IProposal {| pr_height := 1; pr_round := 0; pr_polr := -1; pr_bid := ex_bid; pr_signer := 1; pr_sigvalid := true |};
    IPart 1 (1%N, 9%N) 0%N (Some {| b_hash := 7%N; b_valid := true |});
    ex_vote PREVOTE 0; ex_vote PREVOTE 1; ex_vote PREVOTE 2;
    ex_vote PRECOMMIT 0; ex_vote PRECOMMIT 1; ex_vote PRECOMMIT 2 ].

Example C02_run_nonvacuous :
  let '(s', os) := run ex_env (init_state ex_env 1 None) ex_inputs in
  keys (concat os) = [(1, 0, 4); (1, 0, 6)] /\
  In (ODecide 1 0 7%N) (concat os) /\ cs_height s' = 2.
Proof. vm_compute. split; [reflexivity | split; [do 3 right; left; reflexivity | reflexivity]]. Qed.
