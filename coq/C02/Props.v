(* C02 — A correct validator never equivocates and every vote it casts is justified.
   Statements only; proofs in ProofsOrder.v / ProofsVoteSet.v.  [handle] is one call of
   handleMsg / handleTimeout of consensus/state.go (model: C02/Model.v); [run] folds it over an
   ARBITRARY list of inputs — proposals, block parts, votes (any signer, any round, valid or
   not, equivocating), timeouts that were scheduled — i.e. also sequences only a > 1/3 faulty
   coalition can produce.  No assumption is made on who sent what. *)
From Coq Require Import List ZArith NArith Bool.
From TM Require Import C02.Model C02.ProofsVoteSet C02.ProofsHVS C02.ProofsOrder C02.ProofsLock C02.Exec.
Import ListNotations.
Open Scope Z_scope.

(* Clause 1 (one signed message per step).  Every proposal, prevote and precommit the validator
   signs carries the key (height, round, rank) with rank 3/4/6; over any run these keys are
   strictly increasing in signing order — so there is at most one proposal, one prevote and one
   precommit per height and round, and signing requests never go back in (H,R,S) (which is why
   the double-sign guard of the private validator, C04, never fires without a crash). *)
Theorem C02_signed_keys_strictly_increase :
  forall (E : env) (height : Z) (lc : option voteset) (ins : list input),
    let '(s', os) := run E (init_state E height lc) ins in
    Incr (pos (init_state E height lc)) (keys (concat os)) (pos s').
Proof. exact signed_keys_increasing. Qed.
Print Assumptions C02_signed_keys_strictly_increase.

Theorem C02_one_signed_message_per_step :
  forall (E : env) (height : Z) (lc : option voteset) (ins : list input),
    NoDup (keys (concat (snd (run E (init_state E height lc) ins)))).
Proof. exact signed_keys_nodup. Qed.
Print Assumptions C02_one_signed_message_per_step.

(* Clause 2, vote-set half.  Whatever votes and peer claims a vote set has processed (any order,
   repeats, conflicting votes, bad signatures, wrong indices), a recorded +2/3 majority for a
   block id is backed by verified votes for exactly that block id, height, round and type, one
   per validator (slot i = validator i, address checked), whose power is strictly more than two
   thirds of the total.  enterPrecommit signs a precommit for a block only when
   Prevotes(round).TwoThirdsMajority() is that block (C02_precommit_needs_polka below). *)
Theorem C02_maj23_sound :
  forall (vals : valset) (h r : Z) (ty : N) (ops : list vsop) (k : blockid),
    powers_nonneg vals ->
    let s := fold_left vs_apply ops (new_voteset h r ty vals) in
    vs_maj23 s = Some k ->
    exists bv, lookup_bv k (vs_byblock s) = Some bv /\
      slots_ok (fun i v => v_ok v = true /\ v_bid v = k /\ v_idx v = Z.of_nat i /\
                           v_height v = h /\ v_round v = r /\ v_type v = ty /\
                           exists a p, nth_error vals i = Some (a, p) /\ v_addr v = a) (bv_votes bv) /\
      NoDup (backers bv) /\
      3 * backers_power vals bv > 2 * total_power vals.
Proof. exact maj23_sound. Qed.
Print Assumptions C02_maj23_sound.

(* Clauses 2 and 3 at run level.  D = the votes delivered during the run, P = the blocks whose
   complete part sets were delivered.  [Polka E D h r x]: distinct validators holding more than
   2/3 of the power each have a verified prevote for exactly (h, r, x) in D (address and index
   checked).  [Released E D h r b r']: for some round r'' with r < r'' <= r' there is a polka
   for a value whose block hash is not b's (nil included).  The input list is arbitrary, so
   applying a theorem to a prefix of a run (C02_run_prefix) reads "delivered so far". *)

(* Clause 2: a precommit for a block is signed only with the polka for it in that round among
   the delivered prevotes and with the block's part set completed. *)
Theorem C02_precommit_justified :
  forall (E : env) (height : Z) (lc : option voteset) (ins : list input) (h r : Z) (b : bid),
    powers_nonneg (e_vals E) ->
    In (OSignVote PRECOMMIT h r (Some b)) (concat (snd (run E (init_state E height lc) ins))) ->
    Polka E (votes_of ins) h r (Some b) /\ held (blocks_of ins) (fst b).
Proof. exact precommit_justified. Qed.
Print Assumptions C02_precommit_justified.

(* Clause 3: once a precommit for block b was signed in round r, a prevote signed later for a
   later round r' of that height is for b — or a more recent polka for something else was
   delivered. *)
Theorem C02_lock_discipline :
  forall (E : env) (height : Z) (lc : option voteset) (ins : list input)
         (o1 : list output) (h r : Z) (b : bid) (o2 : list output) (r' : Z) (x : blockid) (o3 : list output),
    powers_nonneg (e_vals E) ->
    concat (snd (run E (init_state E height lc) ins)) =
      o1 ++ OSignVote PRECOMMIT h r (Some b) :: o2 ++ OSignVote PREVOTE h r' x :: o3 ->
    r < r' -> bhash x <> Some (fst b) -> Released E (votes_of ins) h r b r'.
Proof. exact lock_discipline. Qed.
Print Assumptions C02_lock_discipline.

Theorem C02_run_prefix :
  forall (E : env) (a : list input) (s : cstate) (b : list input),
    snd (run E s (a ++ b)) = snd (run E s a) ++ snd (run E (fst (run E s a)) b).
Proof. exact run_app. Qed.
Print Assumptions C02_run_prefix.

(* ---- non-vacuity: a concrete 4-validator run in which the node (index 0, proposer of round 0
   is validator 1) receives a proposal and the block, prevotes it, sees the polka, precommits
   it, sees +2/3 precommits and decides. *)
Definition ex_vals : valset := [(1%N, 10); (2%N, 10); (3%N, 10); (4%N, 10)].
Definition ex_env : env :=
  {| e_vals := ex_vals; e_me := Some 0; e_proposer := fun _ r => (r + 1) mod 4;
     e_skip_timeout_commit := false; e_initial_height := 1 |}.
Definition ex_bid : bid := (7%N, (1%N, 9%N)).
Definition ex_vote ty i : input :=
  IVote {| v_type := ty; v_height := 1; v_round := 0; v_bid := Some ex_bid; v_idx := i;
           v_addr := N.of_nat (Z.to_nat i + 1); v_sig := N.of_nat (Z.to_nat i + 100 * N.to_nat ty); v_ok := true |} 5%N.
Definition ex_inputs : list input :=
  [ ITimeout {| ti_height := 1; ti_round := 0; ti_step := SNewHeight |};
    IProposal {| pr_height := 1; pr_round := 0; pr_polr := -1; pr_bid := ex_bid; pr_signer := 1; pr_sigvalid := true |};
    IPart 1 (1%N, 9%N) 0%N (Some {| b_hash := 7%N; b_valid := true |});
    ex_vote PREVOTE 0; ex_vote PREVOTE 1; ex_vote PREVOTE 2;
    ex_vote PRECOMMIT 0; ex_vote PRECOMMIT 1; ex_vote PRECOMMIT 2 ].

Example C02_run_nonvacuous :
  let '(s', os) := run ex_env (init_state ex_env 1 None) ex_inputs in
  keys (concat os) = [(1, 0, 4); (1, 0, 6)] /\
  In (ODecide 1 0 7%N) (concat os) /\ cs_height s' = 2.
Proof. vm_compute. split; [reflexivity | split; [do 3 right; left; reflexivity | reflexivity]]. Qed.

(* non-vacuity of the lock clause: the node precommits block 7 in round 0, the round times out,
   a polka for nil is delivered in round 1, and only then does it prevote nil in round 2. *)
Definition ex_nilvote r i : input :=
  IVote {| v_type := PREVOTE; v_height := 1; v_round := r; v_bid := None; v_idx := i;
           v_addr := N.of_nat (Z.to_nat i + 1); v_sig := N.of_nat (Z.to_nat i + 300 + 10 * Z.to_nat r); v_ok := true |} 5%N.
Definition ex_nilpc r i : input :=
  IVote {| v_type := PRECOMMIT; v_height := 1; v_round := r; v_bid := None; v_idx := i;
           v_addr := N.of_nat (Z.to_nat i + 1); v_sig := N.of_nat (Z.to_nat i + 500 + 10 * Z.to_nat r); v_ok := true |} 5%N.
Definition ex_inputs_lock : list input :=
  [ ITimeout {| ti_height := 1; ti_round := 0; ti_step := SNewHeight |};
    IProposal {| pr_height := 1; pr_round := 0; pr_polr := -1; pr_bid := ex_bid; pr_signer := 1; pr_sigvalid := true |};
    IPart 1 (1%N, 9%N) 0%N (Some {| b_hash := 7%N; b_valid := true |});
    ex_vote PREVOTE 0; ex_vote PREVOTE 1; ex_vote PREVOTE 2;        (* polka for 7: locks, precommits 7 *)
    ex_nilpc 0 1; ex_nilpc 0 2; ex_nilpc 0 3;                       (* +2/3 precommit nil *)
    ITimeout {| ti_height := 1; ti_round := 0; ti_step := SPrecommitWait |};  (* round 1 *)
    ITimeout {| ti_height := 1; ti_round := 1; ti_step := SPropose |};   (* prevotes the locked block *)
    ex_nilvote 1 1; ex_nilvote 1 2; ex_nilvote 1 3;                 (* polka for nil in round 1: unlock *)
    ex_nilpc 1 1; ex_nilpc 1 2; ex_nilpc 1 3;
    ITimeout {| ti_height := 1; ti_round := 1; ti_step := SPrecommitWait |};  (* round 2 *)
    ITimeout {| ti_height := 1; ti_round := 2; ti_step := SPropose |} ]. (* prevotes nil *)

Example C02_lock_nonvacuous :
  let outs := concat (snd (run ex_env (init_state ex_env 1 None) ex_inputs_lock)) in
  In (OSignVote PRECOMMIT 1 0 (Some ex_bid)) outs /\
  In (OSignVote PREVOTE 1 1 (Some ex_bid)) outs /\
  In (OSignVote PREVOTE 1 2 None) outs.
Proof. vm_compute. repeat split; repeat ((left; reflexivity) || right). Qed.
