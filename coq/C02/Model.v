(* C02 (also used by C01, C03) — model of the single-validator consensus state machine:
   types/vote_set.go (addVote, addVerifiedVote, SetPeerMaj23, queries),
   consensus/types/height_vote_set.go (AddVote with catch-up rounds, SetRound, POLInfo),
   consensus/state.go (handleMsg: setProposal / addProposalBlockPart / tryAddVote+addVote,
   handleTimeout, and the enterX / finalizeCommit / updateToState functions).
   Transcribed by hand, branch by branch, in the order of the source.  No proofs here.

   Abstractions (see props/C02.json "assumptions"):
   - a block is (hash id, valid?) where valid? is the verdict of ValidateBlock against the
     state of this height; block ids / part-set headers are abstract numbers;
   - a part set is (header, set of indices present); a part "for header p" is accepted only by
     a set with header p (that is C10); the block a complete set decodes to is an oracle
     attached to the part message;
   - signatures: each vote/proposal carries a flag "verifies under the claimed validator's key";
   - who proposes in (height, round) is an oracle (C08 models the rotation);
   - the validator set is the same at every height of one run;
   - the ticker: any timeout scheduled earlier may fire, at any later time, any number of times;
   - WAL, event bus, metrics, evidence pool, mempool are outside; config: CreateEmptyBlocks
     (no waiting for transactions), SkipTimeoutCommit as a parameter. *)
From Coq Require Import List ZArith NArith Bool.
Import ListNotations.
Open Scope Z_scope.

(* ------------------------------------------------------------------ basic data *)

Definition psh := (N * N)%type.                 (* part-set header: (total, hash id) *)
Definition bid := (N * psh)%type.               (* non-nil block id: (block hash id, header) *)
Definition blockid := option bid.               (* None = nil *)

Definition psh_eqb (a b : psh) : bool := (fst a =? fst b)%N && (snd a =? snd b)%N.
Definition bid_eqb (a b : bid) : bool := (fst a =? fst b)%N && psh_eqb (snd a) (snd b).
Definition blockid_eqb (a b : blockid) : bool :=
  match a, b with
  | None, None => true
  | Some x, Some y => bid_eqb x y
  | _, _ => false
  end.

Record block := { b_hash : N; b_valid : bool }.

(* Block.HashesTo(hash): false for a nil block *)
Definition hashes_to (b : option block) (h : N) : bool :=
  match b with Some x => (b_hash x =? h)%N | None => false end.

Record partset := { pt_header : psh; pt_have : list N }.
Definition pt_complete (p : partset) : bool := (N.of_nat (length (pt_have p)) =? fst (pt_header p))%N.
Definition has_header (p : option partset) (h : psh) : bool :=
  match p with Some x => psh_eqb (pt_header x) h | None => false end.
Definition new_parts (h : psh) : partset := {| pt_header := h; pt_have := [] |}.

Definition PREVOTE : N := 1%N.
Definition PRECOMMIT : N := 2%N.

Record vote := {
  v_type : N; v_height : Z; v_round : Z; v_bid : blockid;
  v_idx : Z; v_addr : N;       (* claimed validator index and address (0 = empty) *)
  v_sig : N;                   (* signature identity *)
  v_ok : bool                  (* signature verifies for this content under validator idx's key *)
}.

Definition valset := list (N * Z).   (* (address, power) by index *)
Definition total_power (vs : valset) : Z := fold_right (fun v acc => snd v + acc) 0 vs.

(* ------------------------------------------------------------------ types/vote_set.go *)

Record blockvotes := { bv_peermaj : bool; bv_votes : list (option vote); bv_sum : Z }.

Record voteset := {
  vs_height : Z; vs_round : Z; vs_type : N; vs_vals : valset;
  vs_votes : list (option vote);
  vs_sum : Z;
  vs_maj23 : option blockid;
  vs_byblock : list (blockid * blockvotes);
  vs_peermaj : list (N * blockid)
}.

Definition new_voteset (h r : Z) (ty : N) (vals : valset) : voteset :=
  {| vs_height := h; vs_round := r; vs_type := ty; vs_vals := vals;
     vs_votes := repeat None (length vals); vs_sum := 0; vs_maj23 := None;
     vs_byblock := []; vs_peermaj := [] |}.

Fixpoint set_nth {A} (n : nat) (x : A) (l : list A) : list A :=
  match l, n with
  | [], _ => []
  | _ :: r, O => x :: r
  | y :: r, S n' => y :: set_nth n' x r
  end.

Definition get_slot (l : list (option vote)) (i : Z) : option vote := nth (Z.to_nat i) l None.

Fixpoint lookup_bv (k : blockid) (l : list (blockid * blockvotes)) : option blockvotes :=
  match l with
  | [] => None
  | (k', v) :: r => if blockid_eqb k k' then Some v else lookup_bv k r
  end.
Fixpoint update_bv (k : blockid) (v : blockvotes) (l : list (blockid * blockvotes)) :=
  match l with
  | [] => [(k, v)]
  | (k', v') :: r => if blockid_eqb k k' then (k, v) :: r else (k', v') :: update_bv k v r
  end.

(* error classes of VoteSet.AddVote / HeightVoteSet.AddVote *)
Inductive verr := E_none | E_index | E_address | E_step | E_nondet | E_sig | E_conflict | E_unwanted_round.

Definition quorum (vs : valset) : Z := total_power vs * 2 / 3 + 1.

(* merge the votes of a block into the primary votes (maj23 reached) *)
Fixpoint copy_over (prim bv : list (option vote)) : list (option vote) :=
  match prim, bv with
  | p :: ps, b :: bs => (match b with Some _ => b | None => p end) :: copy_over ps bs
  | _, _ => prim
  end.

(* the common tail of addVerifiedVote: store the entry for [key]; if its sum just crossed the
   quorum and no majority was recorded yet, record it and copy the entry's votes over *)
Definition commit_entry (s : voteset) (votes1 : list (option vote)) (sum1 : Z)
           (key : blockid) (old_sum : Z) (bv' : blockvotes) : voteset :=
  let crossed := (old_sum <? quorum (vs_vals s)) && (quorum (vs_vals s) <=? bv_sum bv') in
  let maj := if crossed then match vs_maj23 s with None => Some key | Some m => Some m end
             else vs_maj23 s in
  let votes2 := if crossed then match vs_maj23 s with None => copy_over votes1 (bv_votes bv') | Some _ => votes1 end
                else votes1 in
  {| vs_height := vs_height s; vs_round := vs_round s; vs_type := vs_type s; vs_vals := vs_vals s;
     vs_votes := votes2; vs_sum := sum1; vs_maj23 := maj;
     vs_byblock := update_bv key bv' (vs_byblock s); vs_peermaj := vs_peermaj s |}.

(* blockVotes.addVerifiedVote *)
Definition bv_add (bv : blockvotes) (v : vote) (power : Z) : blockvotes :=
  match get_slot (bv_votes bv) (v_idx v) with
  | Some _ => bv
  | None => {| bv_peermaj := bv_peermaj bv; bv_votes := set_nth (Z.to_nat (v_idx v)) (Some v) (bv_votes bv);
               bv_sum := bv_sum bv + power |}
  end.

(* addVerifiedVote *)
Definition add_verified (s : voteset) (v : vote) (power : Z) : voteset * bool * bool (* added, conflicting *) :=
  let i := Z.to_nat (v_idx v) in
  let key := v_bid v in
  let existing := get_slot (vs_votes s) (v_idx v) in
  let conflicting := match existing with Some _ => true | None => false end in
  (* voteSet.votes / sum *)
  let votes1 :=
    match existing with
    | Some _ =>
      match vs_maj23 s with
      | Some m => if blockid_eqb m key then set_nth i (Some v) (vs_votes s) else vs_votes s
      | None => vs_votes s
      end
    | None => set_nth i (Some v) (vs_votes s)
    end in
  let sum1 := match existing with Some _ => vs_sum s | None => vs_sum s + power end in
  let s1 := {| vs_height := vs_height s; vs_round := vs_round s; vs_type := vs_type s; vs_vals := vs_vals s;
               vs_votes := votes1; vs_sum := sum1; vs_maj23 := vs_maj23 s;
               vs_byblock := vs_byblock s; vs_peermaj := vs_peermaj s |} in
  match lookup_bv key (vs_byblock s) with
  | Some bv =>
    if conflicting && negb (bv_peermaj bv) then (s1, false, true)
    else (commit_entry s votes1 sum1 key (bv_sum bv) (bv_add bv v power), true, conflicting)
  | None =>
    if conflicting then (s1, false, true)
    else (commit_entry s votes1 sum1 key 0
            (bv_add {| bv_peermaj := false; bv_votes := repeat None (length (vs_vals s)); bv_sum := 0 |} v power),
          true, false)
  end.

(* getVote(valIndex, blockKey) *)
Definition get_vote (s : voteset) (idx : Z) (key : blockid) : option vote :=
  match get_slot (vs_votes s) idx with
  | Some e => if blockid_eqb (v_bid e) key then Some e else
              match lookup_bv key (vs_byblock s) with
              | Some bv => get_slot (bv_votes bv) idx | None => None end
  | None => match lookup_bv key (vs_byblock s) with
            | Some bv => get_slot (bv_votes bv) idx | None => None end
  end.

(* VoteSet.addVote; returns (set, added, error) *)
Definition vs_add (s : voteset) (v : vote) : voteset * bool * verr :=
  if v_idx v <? 0 then (s, false, E_index)
  else if (v_addr v =? 0)%N then (s, false, E_address)
  else if negb ((v_height v =? vs_height s) && (v_round v =? vs_round s) && (v_type v =? vs_type s)%N)
  then (s, false, E_step)
  else match nth_error (vs_vals s) (Z.to_nat (v_idx v)) with
  | None => (s, false, E_index)
  | Some (addr, power) =>
    if negb (v_addr v =? addr)%N then (s, false, E_address)
    else match get_vote s (v_idx v) (v_bid v) with
    | Some e => if (v_sig e =? v_sig v)%N then (s, false, E_none) else (s, false, E_nondet)
    | None =>
      if negb (v_ok v) then (s, false, E_sig)
      else let '(s', added, conflicting) := add_verified s v power in
           (s', added, if conflicting then E_conflict else E_none)
    end
  end.

(* SetPeerMaj23 (errors ignored by the caller we model; state effect only) *)
Fixpoint lookup_peer (p : N) (l : list (N * blockid)) : option blockid :=
  match l with [] => None | (q, b) :: r => if (p =? q)%N then Some b else lookup_peer p r end.

Definition vs_set_peer_maj23 (s : voteset) (peer : N) (key : blockid) : voteset :=
  match lookup_peer peer (vs_peermaj s) with
  | Some _ => s
  | None =>
    let bvs := match lookup_bv key (vs_byblock s) with
               | Some bv => update_bv key {| bv_peermaj := true; bv_votes := bv_votes bv; bv_sum := bv_sum bv |} (vs_byblock s)
               | None => update_bv key {| bv_peermaj := true; bv_votes := repeat None (length (vs_vals s)); bv_sum := 0 |} (vs_byblock s)
               end in
    {| vs_height := vs_height s; vs_round := vs_round s; vs_type := vs_type s; vs_vals := vs_vals s;
       vs_votes := vs_votes s; vs_sum := vs_sum s; vs_maj23 := vs_maj23 s;
       vs_byblock := bvs; vs_peermaj := (peer, key) :: vs_peermaj s |}
  end.

Definition two_thirds_majority (s : voteset) : option blockid := vs_maj23 s.
Definition has_two_thirds_majority (s : voteset) : bool :=
  match vs_maj23 s with Some _ => true | None => false end.
Definition has_two_thirds_any (s : voteset) : bool := vs_sum s >? total_power (vs_vals s) * 2 / 3.
Definition has_all (s : voteset) : bool := vs_sum s =? total_power (vs_vals s).

(* ------------------------------------------------------------------ height_vote_set.go *)

Record hvs := {
  hv_height : Z; hv_vals : valset; hv_round : Z;
  hv_sets : list (Z * (voteset * voteset));       (* round -> (prevotes, precommits) *)
  hv_catchup : list (N * list Z)                  (* peer -> catch-up rounds (at most 2) *)
}.

Fixpoint lookup_round (r : Z) (l : list (Z * (voteset * voteset))) : option (voteset * voteset) :=
  match l with [] => None | (r', x) :: t => if r =? r' then Some x else lookup_round r t end.
Fixpoint update_round (r : Z) (x : voteset * voteset) (l : list (Z * (voteset * voteset))) :=
  match l with
  | [] => [(r, x)]
  | (r', y) :: t => if r =? r' then (r, x) :: t else (r', y) :: update_round r x t
  end.

Definition hv_add_round (h : hvs) (r : Z) : hvs :=
  {| hv_height := hv_height h; hv_vals := hv_vals h; hv_round := hv_round h;
     hv_sets := update_round r (new_voteset (hv_height h) r PREVOTE (hv_vals h),
                                new_voteset (hv_height h) r PRECOMMIT (hv_vals h)) (hv_sets h);
     hv_catchup := hv_catchup h |}.

Definition new_hvs (height : Z) (vals : valset) : hvs :=
  hv_add_round {| hv_height := height; hv_vals := vals; hv_round := 0; hv_sets := []; hv_catchup := [] |} 0.

(* SetRound: creates rounds hvs.round-1 .. round that do not exist yet (from round 0 this
   includes round -1, as in the source) *)
Fixpoint add_rounds (h : hvs) (from : Z) (n : nat) : hvs :=
  match n with
  | O => h
  | S n' => let h' := match lookup_round from (hv_sets h) with Some _ => h | None => hv_add_round h from end in
            add_rounds h' (from + 1) n'
  end.
Definition hv_set_round (h : hvs) (round : Z) : hvs :=
  let nr := hv_round h - 1 in
  let h' := add_rounds h nr (Z.to_nat (round - nr + 1)) in
  {| hv_height := hv_height h'; hv_vals := hv_vals h'; hv_round := round;
     hv_sets := hv_sets h'; hv_catchup := hv_catchup h' |}.

Definition hv_get (h : hvs) (r : Z) (ty : N) : option voteset :=
  match lookup_round r (hv_sets h) with
  | Some (pv, pc) => if (ty =? PREVOTE)%N then Some pv else Some pc
  | None => None
  end.
Definition hv_put (h : hvs) (r : Z) (ty : N) (s : voteset) : hvs :=
  match lookup_round r (hv_sets h) with
  | Some (pv, pc) =>
    {| hv_height := hv_height h; hv_vals := hv_vals h; hv_round := hv_round h;
       hv_sets := update_round r (if (ty =? PREVOTE)%N then (s, pc) else (pv, s)) (hv_sets h);
       hv_catchup := hv_catchup h |}
  | None => h
  end.

Fixpoint lookup_catchup (p : N) (l : list (N * list Z)) : list Z :=
  match l with [] => [] | (q, rs) :: t => if (p =? q)%N then rs else lookup_catchup p t end.
Fixpoint update_catchup (p : N) (rs : list Z) (l : list (N * list Z)) :=
  match l with
  | [] => [(p, rs)]
  | (q, x) :: t => if (p =? q)%N then (p, rs) :: t else (q, x) :: update_catchup p rs t
  end.

(* HeightVoteSet.AddVote *)
Definition hv_add_vote (h : hvs) (v : vote) (peer : N) : hvs * bool * verr :=
  if negb ((v_type v =? PREVOTE)%N || (v_type v =? PRECOMMIT)%N) then (h, false, E_none)
  else
    let '(h1, ok) :=
      match hv_get h (v_round v) (v_type v) with
      | Some _ => (h, true)
      | None =>
        let rs := lookup_catchup peer (hv_catchup h) in
        if (length rs <? 2)%nat
        then let h' := hv_add_round h (v_round v) in
             ({| hv_height := hv_height h'; hv_vals := hv_vals h'; hv_round := hv_round h';
                 hv_sets := hv_sets h'; hv_catchup := update_catchup peer (rs ++ [v_round v]) (hv_catchup h') |}, true)
        else (h, false)
      end in
    if negb ok then (h, false, E_unwanted_round)
    else match hv_get h1 (v_round v) (v_type v) with
    | Some s => let '(s', added, e) := vs_add s v in (hv_put h1 (v_round v) (v_type v) s', added, e)
    | None => (h1, false, E_none)
    end.

(* HeightVoteSet.SetPeerMaj23: only for a round whose vote sets exist *)
Definition hv_set_peer_maj23 (h : hvs) (r : Z) (ty : N) (peer : N) (b : blockid) : hvs :=
  if negb ((ty =? PREVOTE)%N || (ty =? PRECOMMIT)%N) then h else
  match hv_get h r ty with
  | Some s => hv_put h r ty (vs_set_peer_maj23 s peer b)
  | None => h
  end.

Definition prevotes (h : hvs) (r : Z) : option voteset := hv_get h r PREVOTE.
Definition precommits (h : hvs) (r : Z) : option voteset := hv_get h r PRECOMMIT.

(* nil-receiver conventions of the Go methods *)
Definition o_maj23 (s : option voteset) : option blockid :=
  match s with Some x => vs_maj23 x | None => None end.
Definition o_has_maj23 (s : option voteset) : bool :=
  match s with Some x => has_two_thirds_majority x | None => false end.
Definition o_has_any (s : option voteset) : bool :=
  match s with Some x => has_two_thirds_any x | None => false end.
Definition o_has_all (s : option voteset) : bool :=
  match s with Some x => has_all x | None => false end.

(* POLInfo: last round <= hvs.round with +2/3 prevotes for something; -1 if none *)
Fixpoint pol_info_f (h : hvs) (r : Z) (fuel : nat) : Z * blockid :=
  match fuel with
  | O => (-1, None)
  | S f => if r <? 0 then (-1, None) else
           match o_maj23 (prevotes h r) with
           | Some b => (r, b)
           | None => pol_info_f h (r - 1) f
           end
  end.
Definition pol_info (h : hvs) : Z * blockid := pol_info_f h (hv_round h) (S (Z.to_nat (hv_round h))).

(* ------------------------------------------------------------------ consensus/state.go *)

Inductive step := SNewHeight | SNewRound | SPropose | SPrevote | SPrevoteWait | SPrecommit | SPrecommitWait | SCommit.
Definition step_rank (s : step) : Z :=
  match s with
  | SNewHeight => 1 | SNewRound => 2 | SPropose => 3 | SPrevote => 4 | SPrevoteWait => 5
  | SPrecommit => 6 | SPrecommitWait => 7 | SCommit => 8
  end.
Definition step_le (a b : step) : bool := step_rank a <=? step_rank b.
Definition step_eqb (a b : step) : bool := step_rank a =? step_rank b.

Record proposal := { pr_height : Z; pr_round : Z; pr_polr : Z; pr_bid : bid;
                     pr_signer : Z; pr_sigvalid : bool }.

Record tinfo := { ti_height : Z; ti_round : Z; ti_step : step }.
Definition tinfo_eqb (a b : tinfo) : bool :=
  (ti_height a =? ti_height b) && (ti_round a =? ti_round b) && step_eqb (ti_step a) (ti_step b).

Record env := {
  e_vals : valset;
  e_me : option Z;                         (* our validator index; None: no key / not in the set *)
  e_proposer : Z -> Z -> Z;                (* height -> round -> index of the proposer *)
  e_skip_timeout_commit : bool;
  e_initial_height : Z
}.

Record cstate := {
  cs_height : Z; cs_round : Z; cs_step : step;
  cs_triggered : bool;                      (* TriggeredTimeoutPrecommit *)
  cs_proposal : option proposal;
  cs_pblock : option block; cs_pparts : option partset;
  cs_lround : Z; cs_lblock : option block; cs_lparts : option partset;
  cs_vround : Z; cs_vblock : option block; cs_vparts : option partset;
  cs_commit_round : Z;
  cs_votes : hvs;
  cs_last_commit : option voteset;
  cs_scheduled : list tinfo;                (* the ticker: everything scheduled so far *)
  cs_halted : bool                          (* a panic stopped the receive routine *)
}.

Inductive output :=
| OSignVote (ty : N) (h r : Z) (b : blockid)
| OSignProposal (h r polr : Z) (reuse : option N)   (* Some hash: the valid block re-proposed; None: new block *)
| OSchedule (h r : Z) (st : step)
| ODecide (h r : Z) (b : N)                         (* finalizeCommit: height, commit round, block hash *)
| OVoteErr (e : verr)
| OPanic (code : N).

Definition M := cstate -> cstate * list output.
Definition ret : M := fun s => (s, []).
Definition seq (a b : M) : M :=
  fun s => let '(s1, o1) := a s in
           if cs_halted s1 then (s1, o1) else
           let '(s2, o2) := b s1 in (s2, o1 ++ o2).
Definition emit (o : output) : M := fun s => (s, [o]).
(* field setters *)
Definition set_rs (r : Z) (st : step) (s : cstate) : cstate :=
  {| cs_height := cs_height s; cs_round := r; cs_step := st;
     cs_triggered := cs_triggered s; cs_proposal := cs_proposal s;
     cs_pblock := cs_pblock s; cs_pparts := cs_pparts s;
     cs_lround := cs_lround s; cs_lblock := cs_lblock s; cs_lparts := cs_lparts s;
     cs_vround := cs_vround s; cs_vblock := cs_vblock s; cs_vparts := cs_vparts s;
     cs_commit_round := cs_commit_round s; cs_votes := cs_votes s;
     cs_last_commit := cs_last_commit s; cs_scheduled := cs_scheduled s; cs_halted := cs_halted s |}.
Definition set_triggered (b : bool) (s : cstate) : cstate :=
  {| cs_height := cs_height s; cs_round := cs_round s; cs_step := cs_step s;
     cs_triggered := b; cs_proposal := cs_proposal s;
     cs_pblock := cs_pblock s; cs_pparts := cs_pparts s;
     cs_lround := cs_lround s; cs_lblock := cs_lblock s; cs_lparts := cs_lparts s;
     cs_vround := cs_vround s; cs_vblock := cs_vblock s; cs_vparts := cs_vparts s;
     cs_commit_round := cs_commit_round s; cs_votes := cs_votes s;
     cs_last_commit := cs_last_commit s; cs_scheduled := cs_scheduled s; cs_halted := cs_halted s |}.
Definition set_prop (p : option proposal) (b : option block) (pp : option partset) (s : cstate) : cstate :=
  {| cs_height := cs_height s; cs_round := cs_round s; cs_step := cs_step s;
     cs_triggered := cs_triggered s; cs_proposal := p;
     cs_pblock := b; cs_pparts := pp;
     cs_lround := cs_lround s; cs_lblock := cs_lblock s; cs_lparts := cs_lparts s;
     cs_vround := cs_vround s; cs_vblock := cs_vblock s; cs_vparts := cs_vparts s;
     cs_commit_round := cs_commit_round s; cs_votes := cs_votes s;
     cs_last_commit := cs_last_commit s; cs_scheduled := cs_scheduled s; cs_halted := cs_halted s |}.
Definition set_locked (r : Z) (b : option block) (pp : option partset) (s : cstate) : cstate :=
  {| cs_height := cs_height s; cs_round := cs_round s; cs_step := cs_step s;
     cs_triggered := cs_triggered s; cs_proposal := cs_proposal s;
     cs_pblock := cs_pblock s; cs_pparts := cs_pparts s;
     cs_lround := r; cs_lblock := b; cs_lparts := pp;
     cs_vround := cs_vround s; cs_vblock := cs_vblock s; cs_vparts := cs_vparts s;
     cs_commit_round := cs_commit_round s; cs_votes := cs_votes s;
     cs_last_commit := cs_last_commit s; cs_scheduled := cs_scheduled s; cs_halted := cs_halted s |}.
Definition set_valid (r : Z) (b : option block) (pp : option partset) (s : cstate) : cstate :=
  {| cs_height := cs_height s; cs_round := cs_round s; cs_step := cs_step s;
     cs_triggered := cs_triggered s; cs_proposal := cs_proposal s;
     cs_pblock := cs_pblock s; cs_pparts := cs_pparts s;
     cs_lround := cs_lround s; cs_lblock := cs_lblock s; cs_lparts := cs_lparts s;
     cs_vround := r; cs_vblock := b; cs_vparts := pp;
     cs_commit_round := cs_commit_round s; cs_votes := cs_votes s;
     cs_last_commit := cs_last_commit s; cs_scheduled := cs_scheduled s; cs_halted := cs_halted s |}.
Definition set_votes (v : hvs) (s : cstate) : cstate :=
  {| cs_height := cs_height s; cs_round := cs_round s; cs_step := cs_step s;
     cs_triggered := cs_triggered s; cs_proposal := cs_proposal s;
     cs_pblock := cs_pblock s; cs_pparts := cs_pparts s;
     cs_lround := cs_lround s; cs_lblock := cs_lblock s; cs_lparts := cs_lparts s;
     cs_vround := cs_vround s; cs_vblock := cs_vblock s; cs_vparts := cs_vparts s;
     cs_commit_round := cs_commit_round s; cs_votes := v;
     cs_last_commit := cs_last_commit s; cs_scheduled := cs_scheduled s; cs_halted := cs_halted s |}.
Definition set_last_commit (lc : option voteset) (s : cstate) : cstate :=
  {| cs_height := cs_height s; cs_round := cs_round s; cs_step := cs_step s;
     cs_triggered := cs_triggered s; cs_proposal := cs_proposal s;
     cs_pblock := cs_pblock s; cs_pparts := cs_pparts s;
     cs_lround := cs_lround s; cs_lblock := cs_lblock s; cs_lparts := cs_lparts s;
     cs_vround := cs_vround s; cs_vblock := cs_vblock s; cs_vparts := cs_vparts s;
     cs_commit_round := cs_commit_round s; cs_votes := cs_votes s;
     cs_last_commit := lc; cs_scheduled := cs_scheduled s; cs_halted := cs_halted s |}.
Definition set_commit_round (r : Z) (s : cstate) : cstate :=
  {| cs_height := cs_height s; cs_round := cs_round s; cs_step := cs_step s;
     cs_triggered := cs_triggered s; cs_proposal := cs_proposal s;
     cs_pblock := cs_pblock s; cs_pparts := cs_pparts s;
     cs_lround := cs_lround s; cs_lblock := cs_lblock s; cs_lparts := cs_lparts s;
     cs_vround := cs_vround s; cs_vblock := cs_vblock s; cs_vparts := cs_vparts s;
     cs_commit_round := r; cs_votes := cs_votes s;
     cs_last_commit := cs_last_commit s; cs_scheduled := cs_scheduled s; cs_halted := cs_halted s |}.

Definition modify (f : cstate -> cstate) : M := fun s => (f s, []).

Definition add_sched (ti : tinfo) (s : cstate) : cstate :=
  {| cs_height := cs_height s; cs_round := cs_round s; cs_step := cs_step s; cs_triggered := cs_triggered s; cs_proposal := cs_proposal s; cs_pblock := cs_pblock s; cs_pparts := cs_pparts s; cs_lround := cs_lround s; cs_lblock := cs_lblock s; cs_lparts := cs_lparts s; cs_vround := cs_vround s; cs_vblock := cs_vblock s; cs_vparts := cs_vparts s; cs_commit_round := cs_commit_round s; cs_votes := cs_votes s; cs_last_commit := cs_last_commit s; cs_scheduled := ti :: cs_scheduled s; cs_halted := cs_halted s |}.
Definition set_halted (s : cstate) : cstate :=
  {| cs_height := cs_height s; cs_round := cs_round s; cs_step := cs_step s; cs_triggered := cs_triggered s; cs_proposal := cs_proposal s; cs_pblock := cs_pblock s; cs_pparts := cs_pparts s; cs_lround := cs_lround s; cs_lblock := cs_lblock s; cs_lparts := cs_lparts s; cs_vround := cs_vround s; cs_vblock := cs_vblock s; cs_vparts := cs_vparts s; cs_commit_round := cs_commit_round s; cs_votes := cs_votes s; cs_last_commit := cs_last_commit s; cs_scheduled := cs_scheduled s; cs_halted := true |}.

(* scheduleTimeout: recorded by the ticker *)
Definition schedule (h r : Z) (st : step) : M :=
  fun s => (add_sched {| ti_height := h; ti_round := r; ti_step := st |} s, [OSchedule h r st]).

Definition panic (code : N) : M := fun s => (set_halted s, [OPanic code]).

(* the unlock rule of defaultDoPrevote (repair of F70):
     for r := round; r > cs.LockedRound; r-- {
         blockID, ok := cs.Votes.Prevotes(r).TwoThirdsMajority()
         if ok && !cs.LockedBlock.HashesTo(blockID.Hash) { unlock; break } }
   is there, among the rounds r, r-1, ..., lr+1, one whose recorded +2/3 prevote majority is for
   something else than the locked block (nil included)? *)
Fixpoint later_polka_other (hv : hvs) (lb : block) (lr r : Z) (fuel : nat) : bool :=
  match fuel with
  | O => false
  | S f =>
    if r <=? lr then false else
    match o_maj23 (prevotes hv r) with
    | Some polka =>
      let h := match polka with Some (h, _) => h | None => 0%N end in
      let nonnil := match polka with Some _ => true | None => false end in
      if negb (nonnil && hashes_to (Some lb) h) then true else later_polka_other hv lb lr (r - 1) f
    | None => later_polka_other hv lb lr (r - 1) f
    end
  end.

Definition unlock_known (round : Z) (s : cstate) : cstate :=
  match cs_lblock s with
  | Some lb =>
    if later_polka_other (cs_votes s) lb (cs_lround s) round (S (Z.to_nat (round - cs_lround s)))
    then set_locked (-1) None None s else s
  | None => s
  end.

Section WithEnv.
Variable E : env.

Definition is_validator : bool := match e_me E with Some _ => true | None => false end.

(* signAddVote: the vote is signed for (cs.Height, cs.Round) — not for the round argument of
   the caller — and handed to the internal queue (an output here; the run feeds it back). *)
Definition sign_add_vote (ty : N) (b : blockid) : M :=
  fun s => if is_validator then (s, [OSignVote ty (cs_height s) (cs_round s) b]) else (s, []).

Definition block_id_of (b : block) (p : option partset) : blockid :=
  match p with Some pp => Some (b_hash b, pt_header pp) | None => Some (b_hash b, (0%N, 0%N)) end.

(* isProposalComplete *)
Definition is_proposal_complete (s : cstate) : bool :=
  match cs_proposal s, cs_pblock s with
  | Some p, Some _ => if pr_polr p <? 0 then true else o_has_maj23 (prevotes (cs_votes s) (pr_polr p))
  | _, _ => false
  end.

(* defaultDoPrevote before the repair of finding F70 (kept as the regression witness's subject) *)
Definition do_prevote_unfixed : M :=
  fun s =>
    match cs_lblock s with
    | Some lb => sign_add_vote PREVOTE (block_id_of lb (cs_lparts s)) s
    | None =>
      match cs_pblock s with
      | None => sign_add_vote PREVOTE None s
      | Some pb => if b_valid pb then sign_add_vote PREVOTE (block_id_of pb (cs_pparts s)) s
                   else sign_add_vote PREVOTE None s
      end
    end.

(* defaultDoPrevote (F70 repaired): first the unlock rule with the polkas held for the rounds
   round, round-1, ..., LockedRound+1, then: the locked block if (still) locked, else the valid
   proposal, else nil *)
Definition do_prevote (round : Z) : M :=
  fun s => do_prevote_unfixed (unlock_known round s).

(* enterPrevote *)
Definition enter_prevote (height round : Z) : M :=
  fun s =>
    if negb (cs_height s =? height) || (round <? cs_round s)
       || ((cs_round s =? round) && step_le SPrevote (cs_step s))
    then (s, [])
    else seq (do_prevote round) (modify (set_rs round SPrevote)) s.

(* defaultDecideProposal: the new block is created from the mempool — its identity is not
   known to the model (reuse = None); a valid block is re-proposed with its own identity.
   Signing is assumed to succeed (the signer is C04's business). *)
Definition decide_proposal (height round : Z) : M :=
  fun s =>
    match cs_vblock s with
    | Some vb => (s, [OSignProposal height round (cs_vround s) (Some (b_hash vb))])
    | None =>
      (* createProposalBlock needs a commit for the previous block *)
      if (cs_height s =? e_initial_height E) || match cs_last_commit s with Some lc => has_two_thirds_majority lc | None => false end
      then (s, [OSignProposal height round (cs_vround s) None])
      else (s, [])
    end.

(* enterPropose *)
Definition enter_propose (height round : Z) : M :=
  fun s =>
    if negb (cs_height s =? height) || (round <? cs_round s)
       || ((cs_round s =? round) && step_le SPropose (cs_step s))
    then (s, [])
    else
      let body :=
        seq (schedule height round SPropose)
            (fun s1 => match e_me E with
                       | Some me => if me =? e_proposer E (cs_height s1) (cs_round s1)
                                    then decide_proposal height round s1 else (s1, [])
                       | None => (s1, [])
                       end) in
      seq body
        (seq (modify (set_rs round SPropose))
             (fun s2 => if is_proposal_complete s2 then enter_prevote height (cs_round s2) s2 else (s2, []))) s.

(* enterNewRound *)
Definition enter_new_round (height round : Z) : M :=
  fun s =>
    if negb (cs_height s =? height) || (round <? cs_round s)
       || ((cs_round s =? round) && negb (step_eqb (cs_step s) SNewHeight))
    then (s, [])
    else
      let s1 := set_rs round SNewRound s in
      let s2 := if round =? 0 then s1 else set_prop None None None s1 in
      let s3 := set_triggered false (set_votes (hv_set_round (cs_votes s2) (round + 1)) s2) in
      (* CreateEmptyBlocks: no waiting for transactions *)
      enter_propose height round s3.

(* enterPrevoteWait *)
Definition enter_prevote_wait (height round : Z) : M :=
  fun s =>
    if negb (cs_height s =? height) || (round <? cs_round s)
       || ((cs_round s =? round) && step_le SPrevoteWait (cs_step s))
    then (s, [])
    else if negb (o_has_any (prevotes (cs_votes s) round)) then panic 1 s
    else seq (schedule height round SPrevoteWait) (modify (set_rs round SPrevoteWait)) s.

(* the re-lock of enterPrecommit: LockedRound := round; since the repair of F83 also
   ValidRound/ValidBlock/ValidBlockParts := round / LockedBlock / LockedBlockParts if ValidRound < round *)
Definition relock_unfixed (round : Z) (x : cstate) : cstate := set_locked round (cs_lblock x) (cs_lparts x) x.
Definition relock (round : Z) (x : cstate) : cstate :=
  let x1 := relock_unfixed round x in
  if cs_vround x1 <? round then set_valid round (cs_lblock x1) (cs_lparts x1) x1 else x1.

(* enterPrecommit *)
Definition enter_precommit (height round : Z) : M :=
  fun s =>
    if negb (cs_height s =? height) || (round <? cs_round s)
       || ((cs_round s =? round) && step_le SPrecommit (cs_step s))
    then (s, [])
    else
      let finish := modify (set_rs round SPrecommit) in
      match o_maj23 (prevotes (cs_votes s) round) with
      | None => seq (sign_add_vote PRECOMMIT None) finish s
      | Some polka =>
        if fst (pol_info (cs_votes s)) <? round then panic 2 s else
        match polka with
        | None =>
          (* +2/3 prevoted nil: unlock, precommit nil *)
          seq (modify (fun x => match cs_lblock x with Some _ => set_locked (-1) None None x | None => x end))
              (seq (sign_add_vote PRECOMMIT None) finish) s
        | Some (h, ph) =>
          if hashes_to (cs_lblock s) h then
            (* re-lock; repair of finding F83: the polka of this round is for the locked block, which
               becomes the valid block as well (when ValidRound < round) *)
            seq (modify (relock round))
                (seq (sign_add_vote PRECOMMIT (Some (h, ph))) finish) s
          else if hashes_to (cs_pblock s) h then
            match cs_pblock s with
            | Some pb =>
              if negb (b_valid pb) then panic 3 s else
              seq (modify (fun x => set_locked round (cs_pblock x) (cs_pparts x) x))
                  (seq (sign_add_vote PRECOMMIT (Some (h, ph))) finish) s
            | None => (s, [])
            end
          else
            (* polka for a block we do not have: unlock, fetch it, precommit nil *)
            seq (modify (fun x =>
                   let x1 := set_locked (-1) None None x in
                   if has_header (cs_pparts x1) ph then x1
                   else set_prop (cs_proposal x1) None (Some (new_parts ph)) x1))
                (seq (sign_add_vote PRECOMMIT None) finish) s
        end
      end.

(* enterPrecommitWait *)
Definition enter_precommit_wait (height round : Z) : M :=
  fun s =>
    if negb (cs_height s =? height) || (round <? cs_round s)
       || ((cs_round s =? round) && cs_triggered s)
    then (s, [])
    else if negb (o_has_any (precommits (cs_votes s) round)) then panic 4 s
    else seq (schedule height round SPrecommitWait) (modify (set_triggered true)) s.

(* updateToState for the next height (same validator set; LastCommit = the commit round's
   precommits) followed by scheduleRound0 *)
Definition update_to_next_height : M :=
  fun s =>
    let lc := precommits (cs_votes s) (cs_commit_round s) in
    if negb (o_has_maj23 lc) then panic 5 s else
    let h := cs_height s + 1 in
    seq (modify (fun _ =>
      {| cs_height := h; cs_round := 0; cs_step := SNewHeight; cs_triggered := false;
         cs_proposal := None; cs_pblock := None; cs_pparts := None;
         cs_lround := -1; cs_lblock := None; cs_lparts := None;
         cs_vround := -1; cs_vblock := None; cs_vparts := None;
         cs_commit_round := -1; cs_votes := new_hvs h (e_vals E);
         cs_last_commit := lc; cs_scheduled := cs_scheduled s; cs_halted := false |}))
      (schedule h 0 SNewHeight) s.

(* finalizeCommit *)
Definition finalize_commit (height : Z) : M :=
  fun s =>
    if negb (cs_height s =? height) || negb (step_eqb (cs_step s) SCommit) then (s, []) else
    match o_maj23 (precommits (cs_votes s) (cs_commit_round s)) with
    | None => panic 6 s
    | Some None => panic 7 s      (* HasHeader of a zero header against the block's parts fails *)
    | Some (Some (h, ph)) =>
      if negb (has_header (cs_pparts s) ph) then panic 7 s
      else if negb (hashes_to (cs_pblock s) h) then panic 8 s
      else match cs_pblock s with
           | Some pb => if negb (b_valid pb) then panic 9 s
                        (* BlockStore.SaveBlock: "can only save complete block part sets" — reachable when
                           +2/3 vote for the hash of the proposal block with another part-set header
                           (addVote then replaces the parts by an empty set and keeps the block) *)
                        else if negb (match cs_pparts s with Some p => pt_complete p | None => false end)
                             then panic 14 s
                        else seq (emit (ODecide height (cs_commit_round s) h)) update_to_next_height s
           | None => panic 8 s
           end
    end.

(* tryFinalizeCommit *)
Definition try_finalize_commit (height : Z) : M :=
  fun s =>
    if negb (cs_height s =? height) then panic 10 s else
    match o_maj23 (precommits (cs_votes s) (cs_commit_round s)) with
    | Some (Some (h, _)) => if hashes_to (cs_pblock s) h then finalize_commit height s else (s, [])
    | _ => (s, [])
    end.

(* enterCommit *)
Definition enter_commit (height commit_round : Z) : M :=
  fun s =>
    if negb (cs_height s =? height) || step_le SCommit (cs_step s) then (s, []) else
    match o_maj23 (precommits (cs_votes s) commit_round) with
    | None => panic 11 s
    | Some polka =>
      let h := match polka with Some (h, _) => h | None => 0%N end in
      let ph := match polka with Some (_, ph) => ph | None => (0%N, 0%N) end in
      let nonnil := match polka with Some _ => true | None => false end in
      let s1 := if nonnil && hashes_to (cs_lblock s) h
                then set_prop (cs_proposal s) (cs_lblock s) (cs_lparts s) s else s in
      let s2 := if negb (nonnil && hashes_to (cs_pblock s1) h)
                then (if negb (has_header (cs_pparts s1) ph)
                      then set_prop (cs_proposal s1) None (Some (new_parts ph)) s1 else s1)
                else s1 in
      let s3 := set_commit_round commit_round (set_rs (cs_round s2) SCommit s2) in
      try_finalize_commit height s3
    end.

(* handleCompleteProposal *)
Definition handle_complete_proposal (height : Z) : M :=
  fun s =>
    let maj := o_maj23 (prevotes (cs_votes s) (cs_round s)) in
    let s1 :=
      match maj with
      | Some (Some (h, _)) =>
        if (cs_vround s <? cs_round s) && hashes_to (cs_pblock s) h
        then set_valid (cs_round s) (cs_pblock s) (cs_pparts s) s else s
      | _ => s
      end in
    if step_le (cs_step s1) SPropose && is_proposal_complete s1 then
      seq (enter_prevote height (cs_round s1))
          (fun s2 => match maj with Some _ => enter_precommit height (cs_round s2) s2 | None => (s2, []) end) s1
    else if step_eqb (cs_step s1) SCommit then try_finalize_commit height s1
    else (s1, []).

(* defaultSetProposal *)
Definition set_proposal (p : proposal) : M :=
  fun s =>
    match cs_proposal s with
    | Some _ => (s, [])
    | None =>
      if negb (pr_height p =? cs_height s) || negb (pr_round p =? cs_round s) then (s, [])
      else if (pr_polr p <? -1) || ((0 <=? pr_polr p) && (pr_round p <=? pr_polr p)) then (s, [])
      else if negb (pr_sigvalid p && (pr_signer p =? e_proposer E (cs_height s) (cs_round s))) then (s, [])
      else
        let pp := match cs_pparts s with Some x => Some x | None => Some (new_parts (snd (pr_bid p))) end in
        (set_prop (Some p) (cs_pblock s) pp s, [])
    end.

(* addProposalBlockPart + the completion branch of handleMsg.  [decoded]: what the complete
   set with this header decodes to (None: not a block). *)
Definition add_part (height : Z) (ph : psh) (idx : N) (decoded : option block) : M :=
  fun s =>
    if negb (cs_height s =? height) then (s, []) else
    match cs_pparts s with
    | None => (s, [])
    | Some pp =>
      if negb (psh_eqb (pt_header pp) ph) then (s, [])                 (* proof does not verify *)
      else if (fst ph <=? idx)%N then (s, [])                          (* unexpected index *)
      else if existsb (N.eqb idx) (pt_have pp) then (s, [])            (* already have it *)
      else
        let pp' := {| pt_header := pt_header pp; pt_have := idx :: pt_have pp |} in
        if pt_complete pp' then
          match decoded with
          | Some b =>
            handle_complete_proposal height (set_prop (cs_proposal s) (Some b) (Some pp') s)
          | None =>
            (* decode error: added = true and the set is complete, so handleMsg still calls
               handleCompleteProposal, with the old ProposalBlock *)
            handle_complete_proposal height (set_prop (cs_proposal s) (cs_pblock s) (Some pp') s)
          end
        else (set_prop (cs_proposal s) (cs_pblock s) (Some pp') s, [])
    end.

(* the first part of the prevote branch of addVote: on a +2/3 prevote majority for round [vr],
   maybe unlock, maybe update the valid block / the block being fetched *)
Definition polka_update (vr : Z) (s1 : cstate) : cstate :=
  match o_maj23 (prevotes (cs_votes s1) vr) with
  | None => s1
  | Some polka =>
    let h := match polka with Some (h, _) => h | None => 0%N end in
    let nonnil := match polka with Some _ => true | None => false end in
    let s_u :=
      match cs_lblock s1 with
      | Some _ =>
        if (cs_lround s1 <? vr) && (vr <=? cs_round s1)
           && negb (nonnil && hashes_to (cs_lblock s1) h)
        then set_locked (-1) None None s1 else s1
      | None => s1
      end in
    match polka with
    | Some (h, ph) =>
      if (cs_vround s_u <? vr) && (vr =? cs_round s_u) then
        let s_v := if hashes_to (cs_pblock s_u) h
                   then set_valid vr (cs_pblock s_u) (cs_pparts s_u) s_u
                   else set_prop (cs_proposal s_u) None (cs_pparts s_u) s_u in
        if negb (has_header (cs_pparts s_v) ph)
        then set_prop (cs_proposal s_v) (cs_pblock s_v) (Some (new_parts ph)) s_v else s_v
      else s_u
    | None => s_u
    end
  end.

(* addVote (through tryAddVote) *)
Definition add_vote (v : vote) (peer : N) : M :=
  fun s =>
    if (v_height v + 1 =? cs_height s) && (v_type v =? PRECOMMIT)%N then
      (* precommit for the previous height *)
      if negb (step_eqb (cs_step s) SNewHeight) then (s, []) else
      match cs_last_commit s with
      | None => panic 12 s
      | Some lc =>
        let '(lc', added, e) := vs_add lc v in
        let s1 := set_last_commit (Some lc') s in
        let errs := match e with E_none => [] | _ => [OVoteErr e] end in
        if negb added then (s1, errs) else
        if e_skip_timeout_commit E && has_all lc'
        then let '(s2, o) := enter_new_round (cs_height s1) 0 s1 in (s2, errs ++ o)
        else (s1, errs)
      end
    else if negb (v_height v =? cs_height s) then (s, [])
    else
      let height := cs_height s in
      let '(hv', added, e) := hv_add_vote (cs_votes s) v peer in
      let s1 := set_votes hv' s in
      let errs := match e with E_none => [] | _ => [OVoteErr e] end in
      if negb added then (s1, errs) else
      let '(s9, o9) :=
        if (v_type v =? PREVOTE)%N then
          let s2 := polka_update (v_round v) s1 in
          let pv2 := prevotes (cs_votes s2) (v_round v) in
          if (cs_round s2 <? v_round v) && o_has_any pv2 then enter_new_round height (v_round v) s2
          else if (cs_round s2 =? v_round v) && step_le SPrevote (cs_step s2) then
            match o_maj23 pv2 with
            | Some polka =>
              if is_proposal_complete s2 || match polka with None => true | Some _ => false end
              then enter_precommit height (v_round v) s2
              else if o_has_any pv2 then enter_prevote_wait height (v_round v) s2 else (s2, [])
            | None => if o_has_any pv2 then enter_prevote_wait height (v_round v) s2 else (s2, [])
            end
          else match cs_proposal s2 with
               | Some p => if (0 <=? pr_polr p) && (pr_polr p =? v_round v) && is_proposal_complete s2
                           then enter_prevote height (cs_round s2) s2 else (s2, [])
               | None => (s2, [])
               end
        else
          let pc := precommits (cs_votes s1) (v_round v) in
          match o_maj23 pc with
          | Some polka =>
            seq (enter_new_round height (v_round v))
              (seq (enter_precommit height (v_round v))
                (match polka with
                 | Some _ =>
                   seq (enter_commit height (v_round v))
                       (fun x => if e_skip_timeout_commit E && o_has_all pc
                                 then enter_new_round (cs_height x) 0 x else (x, []))
                 | None => enter_precommit_wait height (v_round v)
                 end)) s1
          | None =>
            if (cs_round s1 <=? v_round v) && o_has_any pc
            then seq (enter_new_round height (v_round v)) (enter_precommit_wait height (v_round v)) s1
            else (s1, [])
          end in
      (s9, errs ++ o9).

(* handleTimeout (rs is the round state before; the ticker only fires what was scheduled) *)
Definition handle_timeout (ti : tinfo) : M :=
  fun s =>
    if negb (existsb (tinfo_eqb ti) (cs_scheduled s)) then (s, []) else
    if negb (ti_height ti =? cs_height s) || (ti_round ti <? cs_round s)
       || ((ti_round ti =? cs_round s) && (step_rank (ti_step ti) <? step_rank (cs_step s)))
    then (s, [])
    else match ti_step ti with
    | SNewHeight => enter_new_round (ti_height ti) 0 s
    | SNewRound => enter_propose (ti_height ti) 0 s
    | SPropose => enter_prevote (ti_height ti) (ti_round ti) s
    | SPrevoteWait => enter_precommit (ti_height ti) (ti_round ti) s
    | SPrecommitWait => seq (enter_precommit (ti_height ti) (ti_round ti))
                            (enter_new_round (ti_height ti) (ti_round ti + 1)) s
    | _ => panic 13 s
    end.

Inductive input :=
| IProposal (p : proposal)
| IPart (height : Z) (ph : psh) (idx : N) (decoded : option block)
| IVote (v : vote) (peer : N)
| ITimeout (ti : tinfo)
| IMaj23 (height round : Z) (ty : N) (peer : N) (b : blockid).   (* a peer's VoteSetMaj23 claim *)

(* one handleMsg / handleTimeout call; a halted machine handles nothing *)
Definition handle (s : cstate) (i : input) : cstate * list output :=
  if cs_halted s then (s, []) else
  match i with
  | IProposal p => set_proposal p s
  | IPart h ph idx d => add_part h ph idx d s
  | IVote v peer => add_vote v peer s
  | ITimeout ti => handle_timeout ti s
  | IMaj23 h r ty peer b =>
    (* consensus/reactor.go Receive, VoteSetMaj23Message: under the state lock,
       votes.SetPeerMaj23 when the height is the current one *)
    if h =? cs_height s then (set_votes (hv_set_peer_maj23 (cs_votes s) r ty peer b) s, []) else (s, [])
  end.

(* NewState + updateToState for the first height of a run, then scheduleRound0 *)
Definition init_state (height : Z) (last_commit : option voteset) : cstate :=
  {| cs_height := height; cs_round := 0; cs_step := SNewHeight; cs_triggered := false;
     cs_proposal := None; cs_pblock := None; cs_pparts := None;
     cs_lround := -1; cs_lblock := None; cs_lparts := None;
     cs_vround := -1; cs_vblock := None; cs_vparts := None;
     cs_commit_round := -1; cs_votes := new_hvs height (e_vals E);
     cs_last_commit := last_commit;
     cs_scheduled := [{| ti_height := height; ti_round := 0; ti_step := SNewHeight |}];
     cs_halted := false |}.

(* a run: the outputs of every step, in order *)
Fixpoint run (s : cstate) (ins : list input) : cstate * list (list output) :=
  match ins with
  | [] => (s, [])
  | i :: r => let '(s1, o) := handle s i in
              let '(s2, os) := run s1 r in (s2, o :: os)
  end.

End WithEnv.
