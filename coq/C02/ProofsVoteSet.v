(* C02 — soundness of the vote set: whatever sequence of votes and peer claims is applied,
   a recorded +2/3 majority for a block id is backed by verified votes for exactly that block
   id from distinct validators whose power reaches the quorum. *)
From Coq Require Import List ZArith NArith Bool Lia.
From TM Require Import C02.Model.
Import ListNotations.
Open Scope Z_scope.

(* ---------------------------------------------------------------- small helpers *)

Lemma psh_eqb_eq a b : psh_eqb a b = true <-> a = b.
Proof.
  destruct a as [a1 a2], b as [b1 b2]. unfold psh_eqb; cbn. rewrite andb_true_iff, !N.eqb_eq.
  split; [intros [-> ->]; reflexivity | intro E; injection E as -> ->; auto].
Qed.
Lemma bid_eqb_eq a b : bid_eqb a b = true <-> a = b.
Proof.
  destruct a as [a1 a2], b as [b1 b2]. unfold bid_eqb; cbn. rewrite andb_true_iff, N.eqb_eq, psh_eqb_eq.
  split; [intros [-> ->]; reflexivity | intro E; injection E as -> ->; auto].
Qed.
Lemma blockid_eqb_eq a b : blockid_eqb a b = true <-> a = b.
Proof.
  destruct a as [a|], b as [b|]; cbn; try (split; [discriminate|discriminate]); try (split; reflexivity).
  rewrite bid_eqb_eq. split; [intros ->; reflexivity | intro E; injection E as ->; reflexivity].
Qed.
Lemma blockid_eqb_refl a : blockid_eqb a a = true.
Proof. apply blockid_eqb_eq; reflexivity. Qed.
Lemma blockid_eqb_neq a b : blockid_eqb a b = false <-> a <> b.
Proof.
  split.
  - intros E ->. rewrite blockid_eqb_refl in E. discriminate.
  - intro N. destruct (blockid_eqb a b) eqn:E; [apply blockid_eqb_eq in E; contradiction | reflexivity].
Qed.

Lemma lookup_update_same k v l : lookup_bv k (update_bv k v l) = Some v.
Proof.
  induction l as [|[k' v'] l IH]; cbn.
  - rewrite blockid_eqb_refl. reflexivity.
  - destruct (blockid_eqb k k') eqn:E; cbn.
    + rewrite blockid_eqb_refl. reflexivity.
    + rewrite E. exact IH.
Qed.
Lemma lookup_update_other k k' v l : k' <> k -> lookup_bv k' (update_bv k v l) = lookup_bv k' l.
Proof.
  intro Hn. induction l as [|[k2 v2] l IH]; cbn.
  - apply blockid_eqb_neq in Hn. rewrite Hn. reflexivity.
  - destruct (blockid_eqb k k2) eqn:E; cbn.
    + apply blockid_eqb_eq in E. subst k2.
      apply blockid_eqb_neq in Hn. rewrite Hn. reflexivity.
    + destruct (blockid_eqb k' k2); [reflexivity | exact IH].
Qed.

Lemma set_nth_length {A} (n : nat) (x : A) l : length (set_nth n x l) = length l.
Proof. revert n; induction l as [|y l IH]; intros [|n]; cbn; try reflexivity. rewrite IH. reflexivity. Qed.

Lemma nth_set_nth_same {A} (n : nat) (x d : A) l : (n < length l)%nat -> nth n (set_nth n x l) d = x.
Proof. revert n; induction l as [|y l IH]; intros [|n] H; cbn in *; try lia; [reflexivity | apply IH; lia]. Qed.
Lemma nth_set_nth_other {A} (n m : nat) (x d : A) l : n <> m -> nth m (set_nth n x l) d = nth m l d.
Proof.
  revert n m; induction l as [|y l IH]; intros [|n] [|m] H; cbn; try reflexivity; try lia.
  apply IH. lia.
Qed.

(* ---------------------------------------------------------------- the power behind a slot list *)

Definition power_at (vals : valset) (i : nat) : Z :=
  match nth_error vals i with Some (_, p) => p | None => 0 end.

(* sum of the powers of the occupied slots (slot i belongs to validator i) *)
Fixpoint slots_power (vals : valset) (slots : list (option vote)) (i : nat) : Z :=
  match slots with
  | [] => 0
  | o :: r => (match o with Some _ => power_at vals i | None => 0 end) + slots_power vals r (S i)
  end.

Lemma slots_power_repeat vals n i : slots_power vals (repeat None n) i = 0.
Proof. revert i; induction n as [|n IH]; intro i; cbn; [reflexivity | rewrite IH; reflexivity]. Qed.

Lemma slots_power_set vals : forall slots i0 k v,
  nth k slots None = None -> (k < length slots)%nat ->
  slots_power vals (set_nth k (Some v) slots) i0 = slots_power vals slots i0 + power_at vals (i0 + k).
Proof.
  induction slots as [|o r IH]; intros i0 k v Hn Hk; cbn in Hk; [lia|].
  destruct k as [|k]; cbn in *.
  - subst o. rewrite Nat.add_0_r. lia.
  - rewrite IH by (try assumption; lia). replace (S i0 + k)%nat with (i0 + S k)%nat by lia. lia.
Qed.

(* ---------------------------------------------------------------- invariant *)

Definition slots_ok (P : nat -> vote -> Prop) (slots : list (option vote)) : Prop :=
  forall i v, nth i slots None = Some v -> P i v.

Lemma nth_repeat_none {A} n i : nth i (repeat (@None A) n) None = None.
Proof. revert i; induction n as [|n IH]; intros [|i]; cbn; auto. Qed.

Lemma slots_ok_repeat P n : slots_ok P (repeat None n).
Proof. intros i v H. rewrite nth_repeat_none in H. discriminate. Qed.

Lemma slots_ok_set P l k v : slots_ok P l -> P k v -> slots_ok P (set_nth k (Some v) l).
Proof.
  intros Hl Hp i w H. destruct (Nat.eq_dec k i) as [<-|Hne].
  - destruct (Nat.lt_ge_cases k (length l)) as [Hlt|Hge].
    + rewrite nth_set_nth_same in H by exact Hlt. injection H as <-. exact Hp.
    + rewrite nth_overflow in H by (rewrite set_nth_length; exact Hge). discriminate.
  - rewrite nth_set_nth_other in H by exact Hne. apply Hl. exact H.
Qed.

(* what a recorded vote for key [k] in slot [i] of set [s] satisfies *)
Definition vote_ok (s : voteset) (k : blockid) (i : nat) (v : vote) : Prop :=
  v_ok v = true /\ v_bid v = k /\ v_idx v = Z.of_nat i /\
  v_height v = vs_height s /\ v_round v = vs_round s /\ v_type v = vs_type s /\
  (exists a p, nth_error (vs_vals s) i = Some (a, p) /\ v_addr v = a).

Definition bv_ok (s : voteset) (k : blockid) (bv : blockvotes) : Prop :=
  length (bv_votes bv) = length (vs_vals s) /\
  bv_sum bv = slots_power (vs_vals s) (bv_votes bv) 0 /\
  slots_ok (vote_ok s k) (bv_votes bv).

Definition VSInv (s : voteset) : Prop :=
  (forall k bv, lookup_bv k (vs_byblock s) = Some bv -> bv_ok s k bv) /\
  (forall k, vs_maj23 s = Some k ->
     exists bv, lookup_bv k (vs_byblock s) = Some bv /\ quorum (vs_vals s) <= bv_sum bv).

Lemma new_voteset_inv h r ty vals : VSInv (new_voteset h r ty vals).
Proof. split; cbn; intros; discriminate. Qed.

Definition same_frame (s s' : voteset) : Prop :=
  vs_vals s' = vs_vals s /\ vs_height s' = vs_height s /\ vs_round s' = vs_round s /\ vs_type s' = vs_type s.

Lemma bv_ok_frame s s' k bv : same_frame s s' -> bv_ok s k bv -> bv_ok s' k bv.
Proof.
  intros (E1 & E2 & E3 & E4) (A & B & C). unfold bv_ok, vote_ok in *. rewrite E1, E2, E3, E4. auto.
Qed.

Lemma VSInv_frame s s' :
  same_frame s s' -> vs_byblock s' = vs_byblock s -> vs_maj23 s' = vs_maj23 s -> VSInv s -> VSInv s'.
Proof.
  intros F Eb Em [IB IM]. split.
  - intros k bv H. rewrite Eb in H. eapply bv_ok_frame; [exact F | apply IB; exact H].
  - intros k H. rewrite Em in H. destruct (IM k H) as (bv & L & Q). exists bv.
    rewrite Eb. destruct F as (E1 & _). rewrite E1. auto.
Qed.

Definition powers_nonneg (vals : valset) : Prop := Forall (fun v => 0 <= snd v) vals.

Lemma power_at_nonneg vals i : powers_nonneg vals -> 0 <= power_at vals i.
Proof.
  intro H. unfold power_at. destruct (nth_error vals i) as [[a p]|] eqn:E; [|lia].
  apply nth_error_In in E. unfold powers_nonneg in H. rewrite Forall_forall in H. apply (H _ E).
Qed.

(* one entry gets a verified vote added (or is left alone when the slot is taken) *)
Lemma bv_add_ok s k bv v a power :
  bv_ok s k bv -> vote_ok s k (Z.to_nat (v_idx v)) v ->
  nth_error (vs_vals s) (Z.to_nat (v_idx v)) = Some (a, power) ->
  bv_ok s k (bv_add bv v power) /\ (0 <= power -> bv_sum bv <= bv_sum (bv_add bv v power)).
Proof.
  intros (A & B & C) Hv Hnth. unfold bv_add, get_slot.
  destruct (nth (Z.to_nat (v_idx v)) (bv_votes bv) None) eqn:Slot.
  - split; [split; [exact A | split; [exact B | exact C]] | lia].
  - assert (Hlt : (Z.to_nat (v_idx v) < length (vs_vals s))%nat) by (apply nth_error_Some; rewrite Hnth; discriminate).
    split; [|cbn; lia]. split; [|split]; cbn.
    + rewrite set_nth_length. exact A.
    + rewrite slots_power_set by (try exact Slot; lia). cbn. unfold power_at. rewrite Hnth. lia.
    + apply slots_ok_set; assumption.
Qed.

Lemma commit_entry_inv s votes1 sum1 key old_sum bv' :
  VSInv s ->
  (match lookup_bv key (vs_byblock s) with Some bv => bv_sum bv = old_sum | None => True end) ->
  bv_ok s key bv' -> old_sum <= bv_sum bv' ->
  VSInv (commit_entry s votes1 sum1 key old_sum bv') /\ same_frame s (commit_entry s votes1 sum1 key old_sum bv').
Proof.
  intros [IB IM] Hold Hok' Hle.
  assert (F : same_frame s (commit_entry s votes1 sum1 key old_sum bv')) by (repeat split).
  split; [|exact F]. split.
  - intros k bv H. cbn in H. destruct (blockid_eqb k key) eqn:E.
    + apply blockid_eqb_eq in E. subst k. rewrite lookup_update_same in H. injection H as <-.
      eapply bv_ok_frame; [exact F | exact Hok'].
    + apply blockid_eqb_neq in E. rewrite lookup_update_other in H by exact E.
      eapply bv_ok_frame; [exact F | apply IB; exact H].
  - intros k H. cbn in H. cbn [vs_byblock vs_vals commit_entry].
    assert (Keep : vs_maj23 s = Some k ->
              exists bv, lookup_bv k (update_bv key bv' (vs_byblock s)) = Some bv /\ quorum (vs_vals s) <= bv_sum bv).
    { intro Hm. destruct (IM k Hm) as (bv & L & Q).
      destruct (blockid_eqb k key) eqn:E.
      - apply blockid_eqb_eq in E. subst k. exists bv'. rewrite lookup_update_same. split; [reflexivity|].
        rewrite L in Hold. lia.
      - apply blockid_eqb_neq in E. exists bv. rewrite lookup_update_other by exact E. auto. }
    destruct ((old_sum <? quorum (vs_vals s)) && (quorum (vs_vals s) <=? bv_sum bv')) eqn:Cr.
    + destruct (vs_maj23 s) as [m|] eqn:Em.
      * injection H as <-. apply Keep. reflexivity.
      * injection H as <-. exists bv'. rewrite lookup_update_same. split; [reflexivity|].
        apply andb_true_iff in Cr as [_ Cr]. apply Z.leb_le in Cr. exact Cr.
    + apply Keep. exact H.
Qed.

Lemma add_verified_inv s v a power :
  VSInv s -> powers_nonneg (vs_vals s) ->
  vote_ok s (v_bid v) (Z.to_nat (v_idx v)) v ->
  nth_error (vs_vals s) (Z.to_nat (v_idx v)) = Some (a, power) ->
  VSInv (fst (fst (add_verified s v power))) /\ same_frame s (fst (fst (add_verified s v power))).
Proof.
  intros I Hnn Hv Hnth.
  assert (Hp : 0 <= power).
  { pose proof (power_at_nonneg (vs_vals s) (Z.to_nat (v_idx v)) Hnn) as P. unfold power_at in P. rewrite Hnth in P. exact P. }
  assert (Hlt : (Z.to_nat (v_idx v) < length (vs_vals s))%nat) by (apply nth_error_Some; rewrite Hnth; discriminate).
  unfold add_verified.
  match goal with |- context [(?x, false, true)] => set (s1 := x) end.
  assert (F1 : same_frame s s1) by (repeat split).
  assert (I1 : VSInv s1) by (apply (VSInv_frame s s1 F1); [reflexivity | reflexivity | exact I]).
  destruct (lookup_bv (v_bid v) (vs_byblock s)) as [bv|] eqn:Track.
  - destruct ((match get_slot (vs_votes s) (v_idx v) with Some _ => true | None => false end) && negb (bv_peermaj bv)).
    + cbn [fst]. split; [exact I1 | exact F1].
    + cbn [fst]. destruct I as [IB IM].
      destruct (bv_add_ok s (v_bid v) bv v a power (IB _ _ Track) Hv Hnth) as [Hok' Hle].
      apply commit_entry_inv; [split; assumption | rewrite Track; reflexivity | exact Hok' | apply Hle; exact Hp].
  - destruct (match get_slot (vs_votes s) (v_idx v) with Some _ => true | None => false end).
    + cbn [fst]. split; [exact I1 | exact F1].
    + cbn [fst].
      set (bv0 := {| bv_peermaj := false; bv_votes := repeat None (length (vs_vals s)); bv_sum := 0 |}).
      assert (Hok0 : bv_ok s (v_bid v) bv0).
      { split; [|split]; cbn.
        - apply repeat_length.
        - rewrite slots_power_repeat. reflexivity.
        - apply slots_ok_repeat. }
      destruct (bv_add_ok s (v_bid v) bv0 v a power Hok0 Hv Hnth) as [Hok' Hle].
      apply commit_entry_inv; [exact I | rewrite Track; exact Logic.I | exact Hok' | apply Hle; exact Hp].
Qed.

(* VoteSet.addVote as a whole *)
Lemma vs_add_inv s v :
  VSInv s -> powers_nonneg (vs_vals s) ->
  VSInv (fst (fst (vs_add s v))) /\ same_frame s (fst (fst (vs_add s v))).
Proof.
  intros I Hnn. unfold vs_add.
  assert (Same : VSInv s /\ same_frame s s) by (split; [exact I | repeat split]).
  destruct (v_idx v <? 0) eqn:Ei; [exact Same|].
  destruct ((v_addr v =? 0)%N); [exact Same|].
  destruct ((v_height v =? vs_height s) && (v_round v =? vs_round s) && (v_type v =? vs_type s)%N) eqn:Est; [|exact Same].
  cbn [negb].
  destruct (nth_error (vs_vals s) (Z.to_nat (v_idx v))) as [[addr power]|] eqn:Hnth; [|exact Same].
  destruct ((v_addr v =? addr)%N) eqn:Ea; [|exact Same]. cbn [negb].
  destruct (get_vote s (v_idx v) (v_bid v)) as [e|].
  - destruct ((v_sig e =? v_sig v)%N); exact Same.
  - destruct (v_ok v) eqn:Eok; [|exact Same]. cbn [negb].
    apply andb_true_iff in Est as [Est Et]. apply andb_true_iff in Est as [Eh Er].
    apply Z.eqb_eq in Eh, Er. apply N.eqb_eq in Et, Ea. apply Z.ltb_ge in Ei.
    assert (Hv : vote_ok s (v_bid v) (Z.to_nat (v_idx v)) v).
    { repeat split; try assumption; try lia. exists addr, power. auto. }
    pose proof (add_verified_inv s v addr power I Hnn Hv Hnth) as R.
    destruct (add_verified s v power) as [[s' added] conflicting]. exact R.
Qed.

Lemma vs_set_peer_maj23_inv s peer key :
  VSInv s -> VSInv (vs_set_peer_maj23 s peer key) /\ same_frame s (vs_set_peer_maj23 s peer key).
Proof.
  intros [IB IM]. unfold vs_set_peer_maj23.
  destruct (lookup_peer peer (vs_peermaj s)); [split; [split; assumption | repeat split]|].
  split; [|destruct (lookup_bv key (vs_byblock s)); repeat split].
  assert (G : forall bvn, (match lookup_bv key (vs_byblock s) with
                           | Some bv => bv_votes bvn = bv_votes bv /\ bv_sum bvn = bv_sum bv
                           | None => bv_votes bvn = repeat None (length (vs_vals s)) /\ bv_sum bvn = 0 end) ->
            VSInv {| vs_height := vs_height s; vs_round := vs_round s; vs_type := vs_type s; vs_vals := vs_vals s;
                     vs_votes := vs_votes s; vs_sum := vs_sum s; vs_maj23 := vs_maj23 s;
                     vs_byblock := update_bv key bvn (vs_byblock s); vs_peermaj := (peer, key) :: vs_peermaj s |}).
  { intros bvn Hb. split; cbn.
    - intros k bv H. destruct (blockid_eqb k key) eqn:E.
      + apply blockid_eqb_eq in E. subst k. rewrite lookup_update_same in H. injection H as <-.
        destruct (lookup_bv key (vs_byblock s)) as [bv|] eqn:L.
        * destruct Hb as [Hv Hs]. destruct (IB _ _ L) as (A & B & C).
          split; [|split]; cbn; rewrite ?Hv, ?Hs; assumption.
        * destruct Hb as [Hv Hs]. split; [|split]; cbn; rewrite ?Hv, ?Hs.
          -- apply repeat_length.
          -- rewrite slots_power_repeat. reflexivity.
          -- apply slots_ok_repeat.
      + apply blockid_eqb_neq in E. rewrite lookup_update_other in H by exact E.
        destruct (IB _ _ H) as (A & B & C). split; [|split]; cbn; assumption.
    - intros k H. destruct (IM k H) as (bv & L & Q).
      destruct (blockid_eqb k key) eqn:E.
      + apply blockid_eqb_eq in E. subst k. exists bvn. rewrite lookup_update_same. split; [reflexivity|].
        rewrite L in Hb. destruct Hb as [_ Hs]. rewrite Hs. exact Q.
      + apply blockid_eqb_neq in E. exists bv. rewrite lookup_update_other by exact E. auto. }
  destruct (lookup_bv key (vs_byblock s)) as [bv|] eqn:L.
  - apply G; try rewrite L; cbn; auto.
  - apply G; try rewrite L; cbn; auto.
Qed.

(* ---------------------------------------------------------------- the soundness statement *)

Inductive vsop := VAdd (v : vote) | VPeer (peer : N) (key : blockid).
Definition vs_apply (s : voteset) (o : vsop) : voteset :=
  match o with VAdd v => fst (fst (vs_add s v)) | VPeer p k => vs_set_peer_maj23 s p k end.

Lemma vs_ops_inv ops : forall s, VSInv s -> powers_nonneg (vs_vals s) ->
  VSInv (fold_left vs_apply ops s) /\ same_frame s (fold_left vs_apply ops s).
Proof.
  induction ops as [|o ops IH]; intros s I Hnn; cbn [fold_left].
  - split; [exact I | repeat split].
  - assert (Step : VSInv (vs_apply s o) /\ same_frame s (vs_apply s o)).
    { destruct o; cbn; [apply vs_add_inv; assumption | apply vs_set_peer_maj23_inv; exact I]. }
    destruct Step as [I' F']. destruct F' as (E1 & E2 & E3 & E4).
    destruct (IH (vs_apply s o) I' ltac:(rewrite E1; exact Hnn)) as [I'' (G1 & G2 & G3 & G4)].
    split; [exact I''|]. repeat split; congruence.
Qed.

(* the distinct validators that back an entry *)
Definition backers (bv : blockvotes) : list nat :=
  filter (fun i => match nth i (bv_votes bv) None with Some _ => true | None => false end)
         (List.seq 0 (length (bv_votes bv))).

Lemma slots_power_as_sum vals : forall slots i0,
  slots_power vals slots i0 =
  fold_right (fun i acc => power_at vals i + acc) 0
    (filter (fun i => match nth (i - i0) slots None with Some _ => true | None => false end)
            (List.seq i0 (length slots))).
Proof.
  induction slots as [|o r IH]; intro i0; [reflexivity|].
  cbn [slots_power length List.seq filter]. rewrite Nat.sub_diag. cbn [nth].
  rewrite IH.
  assert (E : filter (fun i => match nth (i - S i0) r None with Some _ => true | None => false end) (List.seq (S i0) (length r))
            = filter (fun i => match nth (i - i0) (o :: r) None with Some _ => true | None => false end) (List.seq (S i0) (length r))).
  { apply filter_ext_in. intros i Hi. apply in_seq in Hi.
    replace (i - i0)%nat with (S (i - S i0)) by lia. reflexivity. }
  rewrite E. destruct o; cbn; lia.
Qed.

Lemma quorum_strict total x : total * 2 / 3 + 1 <= x -> 3 * x > 2 * total.
Proof. intro H. pose proof (Z.div_mod (total * 2) 3 ltac:(lia)). pose proof (Z.mod_pos_bound (total * 2) 3 ltac:(lia)). lia. Qed.

Definition backers_power (vals : valset) (bv : blockvotes) : Z :=
  fold_right (fun i acc => power_at vals i + acc) 0 (backers bv).

(* Whatever votes and peer claims a vote set has processed: a recorded +2/3 majority for key k
   is backed by an entry whose occupied slots are verified votes for exactly k, for this
   height/round/type, one per validator index (slot i = validator i, address checked), and the
   power of those distinct validators is strictly more than two thirds of the total. *)
Theorem maj23_sound vals h r ty ops k :
  powers_nonneg vals ->
  let s := fold_left vs_apply ops (new_voteset h r ty vals) in
  vs_maj23 s = Some k ->
  exists bv, lookup_bv k (vs_byblock s) = Some bv /\
    slots_ok (fun i v => v_ok v = true /\ v_bid v = k /\ v_idx v = Z.of_nat i /\
                         v_height v = h /\ v_round v = r /\ v_type v = ty /\
                         exists a p, nth_error vals i = Some (a, p) /\ v_addr v = a) (bv_votes bv) /\
    NoDup (backers bv) /\
    3 * backers_power vals bv > 2 * total_power vals.
Proof.
  intros Hnn s Hm.
  destruct (vs_ops_inv ops (new_voteset h r ty vals) (new_voteset_inv h r ty vals) Hnn) as [[IB IM] (E1 & E2 & E3 & E4)].
  fold s in IB, IM, E1, E2, E3, E4. cbn in E1, E2, E3, E4.
  destruct (IM k Hm) as (bv & L & Q). exists bv. split; [exact L|].
  destruct (IB k bv L) as (A & B & C).
  split; [|split].
  - intros i v Hi. specialize (C i v Hi). unfold vote_ok in C. rewrite E1, E2, E3, E4 in C. exact C.
  - unfold backers. apply NoDup_filter. apply seq_NoDup.
  - rewrite E1 in Q, B. apply quorum_strict.
    unfold backers_power, backers. rewrite B in Q. rewrite slots_power_as_sum in Q.
    assert (Efil : filter (fun i => match nth (i - 0) (bv_votes bv) None with Some _ => true | None => false end) (List.seq 0 (length (bv_votes bv)))
                 = filter (fun i => match nth i (bv_votes bv) None with Some _ => true | None => false end) (List.seq 0 (length (bv_votes bv)))).
    { apply filter_ext. intro i. rewrite Nat.sub_0_r. reflexivity. }
    rewrite Efil in Q. exact Q.
Qed.

Lemma maj23_backed s k :
  VSInv s -> vs_maj23 s = Some k ->
  exists bv, lookup_bv k (vs_byblock s) = Some bv /\ slots_ok (vote_ok s k) (bv_votes bv) /\
    NoDup (backers bv) /\ 3 * backers_power (vs_vals s) bv > 2 * total_power (vs_vals s).
Proof.
  intros [IB IM] Hm. destruct (IM k Hm) as (bv & L & Q). exists bv. split; [exact L|].
  destruct (IB k bv L) as (A & B & C). split; [exact C|]. split.
  - unfold backers. apply NoDup_filter. apply seq_NoDup.
  - apply quorum_strict. unfold backers_power, backers. rewrite B in Q. rewrite slots_power_as_sum in Q.
    assert (Efil : filter (fun i => match nth (i - 0) (bv_votes bv) None with Some _ => true | None => false end) (List.seq 0 (length (bv_votes bv)))
                 = filter (fun i => match nth i (bv_votes bv) None with Some _ => true | None => false end) (List.seq 0 (length (bv_votes bv)))).
    { apply filter_ext. intro i. rewrite Nat.sub_0_r. reflexivity. }
    rewrite Efil in Q. exact Q.
Qed.

(* all recorded votes come from a given list (the votes delivered so far) *)
Definition VotesIn (D : list vote) (s : voteset) : Prop :=
  forall k bv, lookup_bv k (vs_byblock s) = Some bv -> slots_ok (fun _ v => In v D) (bv_votes bv).

Lemma VotesIn_mono D D' s : (forall v, In v D -> In v D') -> VotesIn D s -> VotesIn D' s.
Proof. intros Hs H k bv L i v Hi. apply Hs. eapply H; eassumption. Qed.

Lemma new_voteset_votes_in D h r ty vals : VotesIn D (new_voteset h r ty vals).
Proof. intros k bv L. cbn in L. discriminate. Qed.

Lemma bv_add_votes_in D bv v power :
  In v D -> slots_ok (fun _ w => In w D) (bv_votes bv) -> slots_ok (fun _ w => In w D) (bv_votes (bv_add bv v power)).
Proof.
  intros Hv H. unfold bv_add. destruct (get_slot (bv_votes bv) (v_idx v)); [exact H|].
  cbn. apply slots_ok_set; assumption.
Qed.

Lemma commit_entry_votes_in D s votes1 sum1 key old bv' :
  VotesIn D s -> slots_ok (fun _ w => In w D) (bv_votes bv') -> VotesIn D (commit_entry s votes1 sum1 key old bv').
Proof.
  intros H Hb k bv L. cbn in L. destruct (blockid_eqb k key) eqn:E.
  - apply blockid_eqb_eq in E. subst k. rewrite lookup_update_same in L. injection L as <-. exact Hb.
  - apply blockid_eqb_neq in E. rewrite lookup_update_other in L by exact E. eapply H; exact L.
Qed.

Lemma vs_add_votes_in D s v : In v D -> VotesIn D s -> VotesIn D (fst (fst (vs_add s v))).
Proof.
  intros Hv H. unfold vs_add.
  destruct (v_idx v <? 0); [exact H|]. destruct ((v_addr v =? 0)%N); [exact H|].
  destruct (negb _); [exact H|].
  destruct (nth_error (vs_vals s) (Z.to_nat (v_idx v))) as [[addr power]|]; [|exact H].
  destruct (negb (v_addr v =? addr)%N); [exact H|].
  destruct (get_vote s (v_idx v) (v_bid v)) as [e|]; [destruct ((v_sig e =? v_sig v)%N); exact H|].
  destruct (negb (v_ok v)); [exact H|].
  unfold add_verified.
  destruct (lookup_bv (v_bid v) (vs_byblock s)) as [bv|] eqn:Track.
  - destruct (_ && negb (bv_peermaj bv)); cbn [fst].
    + intros k b L. cbn in L. eapply H; exact L.
    + apply commit_entry_votes_in; [exact H | apply bv_add_votes_in; [exact Hv | eapply H; exact Track]].
  - destruct (match get_slot (vs_votes s) (v_idx v) with Some _ => true | None => false end); cbn [fst].
    + intros k b L. cbn in L. eapply H; exact L.
    + apply commit_entry_votes_in; [exact H | apply bv_add_votes_in; [exact Hv | cbn; apply slots_ok_repeat]].
Qed.
