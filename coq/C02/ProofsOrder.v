(* C02 — every message a validator signs sits strictly above everything it signed before in
   the order (height, round, step): hence at most one proposal, one prevote and one precommit
   per height and round, for every sequence of inputs.  (This is also why the sign-state check
   of the private validator, C04, never fires in a crash-free run.) *)
From Coq Require Import List ZArith NArith Bool Lia.
From TM Require Import C02.Model C02.Setters.
Import ListNotations.
Open Scope Z_scope.

(* ---------------------------------------------------------------- the order *)

Definition key := (Z * Z * Z)%type.
Definition lt3 (a b : key) : Prop :=
  let '(a1, a2, a3) := a in let '(b1, b2, b3) := b in
  a1 < b1 \/ (a1 = b1 /\ (a2 < b2 \/ (a2 = b2 /\ a3 < b3))).
Definition le3 (a b : key) : Prop :=
  let '(a1, a2, a3) := a in let '(b1, b2, b3) := b in
  a1 < b1 \/ (a1 = b1 /\ (a2 < b2 \/ (a2 = b2 /\ a3 <= b3))).

Ltac key_solve :=
  unfold lt3, le3 in *;
  repeat match goal with
         | k : key |- _ => destruct k as [[? ?] ?]
         | H : (_, _, _) = (_, _, _) |- _ => injection H as ? ? ?
         end; subst; try lia.

Lemma lt3_trans a b c : lt3 a b -> lt3 b c -> lt3 a c. Proof. key_solve. Qed.
Lemma lt3_le3_trans a b c : lt3 a b -> le3 b c -> lt3 a c. Proof. key_solve. Qed.
Lemma le3_lt3_trans a b c : le3 a b -> lt3 b c -> lt3 a c. Proof. key_solve. Qed.
Lemma le3_trans a b c : le3 a b -> le3 b c -> le3 a c. Proof. key_solve. Qed.
Lemma le3_refl a : le3 a a. Proof. key_solve. Qed.
Lemma lt3_le3 a b : lt3 a b -> le3 a b. Proof. key_solve. Qed.
Lemma lt3_irrefl a : ~ lt3 a a. Proof. key_solve. Qed.

Definition pos (s : cstate) : key := (cs_height s, cs_round s, step_rank (cs_step s)).

(* rank of a signed message among the steps: proposal 3 (Propose), prevote 4, precommit 6 *)
Definition vote_rank (ty : N) : Z := if (ty =? PREVOTE)%N then 4 else 6.
Definition okey (o : output) : list key :=
  match o with
  | OSignVote ty h r _ => [(h, r, vote_rank ty)]
  | OSignProposal h r _ _ => [(h, r, 3)]
  | _ => []
  end.
Definition keys (outs : list output) : list key := flat_map okey outs.

Lemma keys_app a b : keys (a ++ b) = keys a ++ keys b.
Proof. unfold keys. apply flat_map_app. Qed.

(* ks is strictly increasing, strictly above lo, at most hi *)
Fixpoint Incr (lo : key) (ks : list key) (hi : key) : Prop :=
  match ks with
  | [] => le3 lo hi
  | k :: r => lt3 lo k /\ Incr k r hi
  end.

Lemma Incr_le lo ks hi : Incr lo ks hi -> le3 lo hi.
Proof.
  revert lo; induction ks as [|k r IH]; intros lo H; cbn in H; [exact H|].
  destruct H as [H1 H2]. apply lt3_le3. eapply lt3_le3_trans; [exact H1 | apply IH; exact H2].
Qed.

Lemma Incr_app lo xs mid ys hi : Incr lo xs mid -> Incr mid ys hi -> Incr lo (xs ++ ys) hi.
Proof.
  revert lo; induction xs as [|k r IH]; intros lo H1 H2; cbn in *.
  - destruct ys as [|y ys]; cbn in *.
    + eapply le3_trans; eassumption.
    + destruct H2 as [H2 H3]. split; [eapply le3_lt3_trans; eassumption | exact H3].
  - destruct H1 as [H1 H1']. split; [exact H1 | apply IH; assumption].
Qed.

Lemma Incr_weaken_lo lo lo' ks hi : le3 lo' lo -> Incr lo ks hi -> Incr lo' ks hi.
Proof.
  intros L H. destruct ks as [|k r]; cbn in *.
  - eapply le3_trans; eassumption.
  - destruct H as [H1 H2]. split; [eapply le3_lt3_trans; eassumption | exact H2].
Qed.

Lemma Incr_all_above lo ks hi k : Incr lo ks hi -> In k ks -> lt3 lo k /\ le3 k hi.
Proof.
  revert lo; induction ks as [|x r IH]; intros lo H Hin; [destruct Hin|].
  cbn in H. destruct H as [H1 H2]. destruct Hin as [->|Hin].
  - split; [exact H1 | eapply Incr_le; exact H2].
  - destruct (IH x H2 Hin) as [A B]. split; [eapply lt3_trans; eassumption | exact B].
Qed.

Lemma Incr_NoDup lo ks hi : Incr lo ks hi -> NoDup ks.
Proof.
  revert lo; induction ks as [|x r IH]; intros lo H; [constructor|].
  cbn in H. destruct H as [H1 H2]. constructor; [|eapply IH; exact H2].
  intro Hin. destruct (Incr_all_above x r hi x H2 Hin) as [A _]. exact (lt3_irrefl x A).
Qed.

(* ---------------------------------------------------------------- what each function guarantees *)

(* every timeout handed to the ticker is for a (height, round) the node has reached *)
Definition SchedInv (s : cstate) : Prop :=
  forall ti, In ti (cs_scheduled s) ->
    ti_height ti < cs_height s \/ (ti_height ti = cs_height s /\ ti_round ti <= cs_round s).

Definition Good (s s' : cstate) (o : list output) : Prop :=
  Incr (pos s) (keys o) (pos s') /\ (SchedInv s -> SchedInv s').

Lemma good_nil s : Good s s [].
Proof. split; [apply le3_refl | auto]. Qed.

Lemma good_trans a b c o1 o2 : Good a b o1 -> Good b c o2 -> Good a c (o1 ++ o2).
Proof.
  intros [A1 A2] [B1 B2]. split; [rewrite keys_app; eapply Incr_app; eassumption | auto].
Qed.

Lemma good_same s s' : pos s' = pos s -> cs_scheduled s' = cs_scheduled s -> Good s s' [].
Proof.
  intros Hp Hs. split; [cbn [keys flat_map Incr]; rewrite Hp; apply le3_refl|].
  intros I ti Hin. rewrite Hs in Hin. specialize (I ti Hin).
  unfold pos in Hp. injection Hp as E1 E2 E3. rewrite E1, E2. exact I.
Qed.

Lemma seq_good (f g : M) s :
  (forall s1 o1, f s = (s1, o1) -> Good s s1 o1) ->
  (forall s1 o1 s2 o2, f s = (s1, o1) -> g s1 = (s2, o2) -> Good s1 s2 o2) ->
  forall s' o, seq f g s = (s', o) -> Good s s' o.
Proof.
  intros Hf Hg s' o E. unfold seq in E. destruct (f s) as [s1 o1] eqn:Ef.
  destruct (cs_halted s1).
  - injection E as <- <-. apply Hf. reflexivity.
  - destruct (g s1) as [s2 o2] eqn:Eg. injection E as <- <-.
    eapply good_trans; [apply Hf; reflexivity | eapply Hg; [reflexivity | exact Eg]].
Qed.

Lemma pos_eq s s' : cs_height s' = cs_height s -> cs_round s' = cs_round s -> cs_step s' = cs_step s -> pos s' = pos s.
Proof. intros A B C. unfold pos. rewrite A, B, C. reflexivity. Qed.

Lemma panic_good c s : Good s (fst (panic c s)) (snd (panic c s)).
Proof. unfold panic. cbn [fst snd]. apply good_same; [apply pos_eq|]; autorewrite with cs; reflexivity. Qed.

Ltac bool_to_prop :=
  repeat match goal with
         | H : _ || _ = true |- _ => apply orb_true_iff in H
         | H : _ || _ = false |- _ => apply orb_false_iff in H; destruct H
         | H : _ && _ = true |- _ => apply andb_true_iff in H; destruct H
         | H : _ && _ = false |- _ => apply andb_false_iff in H
         | H : negb _ = true |- _ => apply negb_true_iff in H
         | H : negb _ = false |- _ => apply negb_false_iff in H
         | H : (_ =? _) = true |- _ => apply Z.eqb_eq in H
         | H : (_ =? _) = false |- _ => apply Z.eqb_neq in H
         | H : (_ <? _) = true |- _ => apply Z.ltb_lt in H
         | H : (_ <? _) = false |- _ => apply Z.ltb_ge in H
         | H : (_ <=? _) = true |- _ => apply Z.leb_le in H
         | H : (_ <=? _) = false |- _ => apply Z.leb_gt in H
         end.

Lemma step_rank_range st : 1 <= step_rank st <= 8.
Proof. destruct st; cbn; lia. Qed.

Section WithEnv.
Variable E : env.

(* signAddVote signs for the current (height, round) *)
Lemma sign_add_vote_keys ty b s :
  (ty = PREVOTE \/ ty = PRECOMMIT) ->
  fst (sign_add_vote E ty b s) = s /\
  (keys (snd (sign_add_vote E ty b s)) = [] \/
   keys (snd (sign_add_vote E ty b s)) = [(cs_height s, cs_round s, vote_rank ty)]).
Proof.
  intros _. unfold sign_add_vote. destruct (is_validator E); cbn; auto.
Qed.

Lemma do_prevote_keys round s :
  fst (do_prevote E round s) = unlock_known round s /\
  (keys (snd (do_prevote E round s)) = [] \/ keys (snd (do_prevote E round s)) = [(cs_height s, cs_round s, 4)]).
Proof.
  unfold do_prevote, do_prevote_unfixed.
  assert (A : forall b, fst (sign_add_vote E PREVOTE b (unlock_known round s)) = unlock_known round s /\
            (keys (snd (sign_add_vote E PREVOTE b (unlock_known round s))) = [] \/
             keys (snd (sign_add_vote E PREVOTE b (unlock_known round s))) = [(cs_height s, cs_round s, 4)])).
  { intro b. pose proof (sign_add_vote_keys PREVOTE b (unlock_known round s) ltac:(auto)) as H.
    autorewrite with cs in H. exact H. }
  destruct (cs_lblock (unlock_known round s)); [apply A|].
  destruct (cs_pblock (unlock_known round s)) as [pb|]; [destruct (b_valid pb)|]; apply A.
Qed.

(* rounds an enter-function may be asked for: not ahead of the node's own round *)
Definition round_ok (height round : Z) (s : cstate) : Prop := cs_height s = height -> round <= cs_round s.

(* Good, plus: the height did not change and the round did not decrease *)
Definition RGood (s s' : cstate) (o : list output) : Prop :=
  Good s s' o /\ cs_height s' = cs_height s /\ cs_round s <= cs_round s'.

Lemma rgood_nil s : RGood s s [].
Proof. split; [apply good_nil | split; [reflexivity | lia]]. Qed.

Lemma rgood_trans a b c o1 o2 : RGood a b o1 -> RGood b c o2 -> RGood a c (o1 ++ o2).
Proof.
  intros (G1 & H1 & R1) (G2 & H2 & R2). split; [eapply good_trans; eassumption | split; [congruence | lia]].
Qed.

Lemma sched_step s s' :
  (forall ti, In ti (cs_scheduled s') ->
     In ti (cs_scheduled s) \/ ti_height ti < cs_height s' \/ (ti_height ti = cs_height s' /\ ti_round ti <= cs_round s')) ->
  (cs_height s < cs_height s' \/ (cs_height s = cs_height s' /\ cs_round s <= cs_round s')) ->
  SchedInv s -> SchedInv s'.
Proof.
  intros Hin Hle I ti Hti. destruct (Hin ti Hti) as [Hold|Hnew]; [|exact Hnew].
  specialize (I ti Hold). lia.
Qed.

(* a state change that keeps the height, does not lower the round, adds no timeout and signs
   nothing is good as soon as the position does not go down *)
Lemma rgood_quiet s s' :
  cs_height s' = cs_height s -> cs_round s <= cs_round s' ->
  (cs_round s' = cs_round s -> step_rank (cs_step s) <= step_rank (cs_step s')) ->
  cs_scheduled s' = cs_scheduled s -> RGood s s' [].
Proof.
  intros Hh Hr Hs Hsch. split; [|split; assumption].
  split.
  - cbn. unfold pos. rewrite Hh. destruct (Z.eq_dec (cs_round s') (cs_round s)) as [e|n]; [specialize (Hs e)|]; lia.
  - apply sched_step; [rewrite Hsch; auto | lia].
Qed.

Ltac cs := autorewrite with cs in *.
Ltac ord := unfold lt3, le3, pos in *; cs; cbn [step_rank] in *; lia.

Lemma enter_prevote_good height round s s' o :
  cs_halted s = false -> round_ok height round s -> enter_prevote E height round s = (s', o) ->
  RGood s s' o /\ cs_halted s' = false.
Proof.
  intros Hh Hr Eq. unfold enter_prevote in Eq.
  destruct (negb (cs_height s =? height) || (round <? cs_round s) || ((cs_round s =? round) && step_le SPrevote (cs_step s))) eqn:G.
  - injection Eq as <- <-. split; [apply rgood_nil | exact Hh].
  - unfold step_le in G. bool_to_prop. specialize (Hr ltac:(lia)).
    assert (round = cs_round s) by lia. subst round.
    unfold seq in Eq. destruct (do_prevote_keys (cs_round s) s) as [Es Ek].
    destruct (do_prevote E (cs_round s) s) as [s1 o1]. cbn [fst snd] in Es, Ek. subst s1.
    replace (cs_halted (unlock_known (cs_round s) s)) with false in Eq by (autorewrite with cs; auto).
    unfold modify in Eq. injection Eq as <- <-. rewrite app_nil_r.
    split; [|cs; exact Hh]. split; [|split; cs; [reflexivity | lia]].
    split.
    + assert (Hst : step_rank (cs_step s) < 4) by (cbn in *; lia).
      destruct Ek as [-> | ->]; cbn [Incr]; ord.
    + apply sched_step; cs; [auto | lia].
Qed.

Lemma seq_modify (f : cstate -> cstate) (g : M) s :
  cs_halted (f s) = false -> seq (modify f) g s = g (f s).
Proof.
  intro Hh. unfold seq, modify. rewrite Hh. destruct (g (f s)) as [s2 o2]. reflexivity.
Qed.

Lemma seq_schedule h r st (g : M) s :
  cs_halted s = false ->
  seq (schedule h r st) g s =
  let '(s2, o2) := g (add_sched {| ti_height := h; ti_round := r; ti_step := st |} s) in (s2, OSchedule h r st :: o2).
Proof.
  intro Hh. unfold seq, schedule. cs. rewrite Hh. reflexivity.
Qed.

Lemma decide_proposal_keys height round s :
  fst (decide_proposal E height round s) = s /\
  (keys (snd (decide_proposal E height round s)) = [] \/
   keys (snd (decide_proposal E height round s)) = [(height, round, 3)]).
Proof.
  unfold decide_proposal. destruct (cs_vblock s); cbn; auto.
  destruct ((cs_height s =? e_initial_height E) || _); cbn; auto.
Qed.

Lemma enter_propose_good height round s s' o :
  cs_halted s = false -> enter_propose E height round s = (s', o) ->
  RGood s s' o /\ cs_halted s' = false /\ round_ok height round s'.
Proof.
  intros Hh Eq. unfold enter_propose in Eq.
  destruct (negb (cs_height s =? height) || (round <? cs_round s) || ((cs_round s =? round) && step_le SPropose (cs_step s))) eqn:G.
  - injection Eq as <- <-. split; [apply rgood_nil | split; [exact Hh|]].
    unfold step_le in G. intro Hs. bool_to_prop. destruct G as [G|G]; bool_to_prop; [destruct G as [G|G]; bool_to_prop|]; lia.
  - unfold step_le in G. bool_to_prop.
    set (s1 := add_sched {| ti_height := height; ti_round := round; ti_step := SPropose |} s) in *.
    assert (Hh1 : cs_halted s1 = false) by (subst s1; cs; exact Hh).
    (* the proposal part: state unchanged, at most one key (height, round, 3) *)
    assert (Dec : exists od, (match e_me E with
                     | Some me => if me =? e_proposer E (cs_height s1) (cs_round s1) then decide_proposal E height round s1 else (s1, [])
                     | None => (s1, []) end) = (s1, od) /\ (keys od = [] \/ keys od = [(height, round, 3)])).
    { destruct (e_me E) as [me|]; [|exists []; cbn; auto].
      destruct (me =? e_proposer E (cs_height s1) (cs_round s1)); [|exists []; cbn; auto].
      destruct (decide_proposal_keys height round s1) as [A B].
      destruct (decide_proposal E height round s1) as [x od]. cbn [fst snd] in A, B. subst x. exists od. auto. }
    destruct Dec as (od & Ed & Kd).
    unfold seq at 1 in Eq. rewrite seq_schedule in Eq by exact Hh. fold s1 in Eq. rewrite Ed in Eq.
    rewrite Hh1 in Eq. rewrite seq_modify in Eq by (cs; exact Hh1).
    set (s2 := set_rs round SPropose s1) in *.
    assert (Hh2 : cs_halted s2 = false) by (subst s2; cs; exact Hh1).
    assert (G2 : RGood s s2 (OSchedule height round SPropose :: od)).
    { split; [|split; subst s2 s1; cs; [reflexivity | lia]]. split.
      - change (keys (OSchedule height round SPropose :: od)) with (keys od).
        destruct Kd as [-> | ->]; cbn [Incr]; subst s2 s1; ord.
      - apply sched_step; subst s2 s1; cs; [|lia]. intros ti [<-|Hin]; [cbn; lia | auto]. }
    destruct (is_proposal_complete s2).
    + destruct (enter_prevote E height (cs_round s2) s2) as [s3 o3] eqn:E3.
      destruct (enter_prevote_good height (cs_round s2) s2 s3 o3 Hh2 ltac:(intro; lia) E3) as [G3 H3].
      injection Eq as <- <-.
      split; [|split; [exact H3|]].
      * change (OSchedule height round SPropose :: od ++ o3) with ((OSchedule height round SPropose :: od) ++ o3).
        eapply rgood_trans; eassumption.
      * destruct G3 as (_ & _ & R3). intro. subst s2. cs. exact R3.
    + injection Eq as <- <-. rewrite app_nil_r.
      split; [exact G2 | split; [exact Hh2 | intro; subst s2; cs; lia]].
Qed.

Lemma enter_new_round_good height round s s' o :
  cs_halted s = false -> enter_new_round E height round s = (s', o) ->
  RGood s s' o /\ cs_halted s' = false /\ round_ok height round s'.
Proof.
  intros Hh Eq. unfold enter_new_round in Eq.
  destruct (negb (cs_height s =? height) || (round <? cs_round s) || ((cs_round s =? round) && negb (step_eqb (cs_step s) SNewHeight))) eqn:G.
  - injection Eq as <- <-. split; [apply rgood_nil | split; [exact Hh|]].
    intro Hs. unfold step_eqb in G. bool_to_prop. destruct G as [G|G]; bool_to_prop; [destruct G as [G|G]; bool_to_prop|]; lia.
  - unfold step_eqb in G. bool_to_prop.
    match type of Eq with enter_propose E height round ?x = _ => set (s3 := x) in * end.
    assert (Q : RGood s s3 []).
    { apply rgood_quiet; subst s3; destruct (round =? 0); cs; try reflexivity; try lia.
      - intro Er. destruct H0 as [H0|H0]; bool_to_prop; [lia|]. rewrite H0. cbn. lia.
      - intro Er. destruct H0 as [H0|H0]; bool_to_prop; [lia|]. rewrite H0. cbn. lia. }
    assert (Hh3 : cs_halted s3 = false) by (subst s3; destruct (round =? 0); cs; exact Hh).
    destruct (enter_propose_good height round s3 s' o Hh3 Eq) as (G3 & H3 & R3).
    split; [|split; assumption].
    change o with ([] ++ o). eapply rgood_trans; eassumption.
Qed.


Lemma panic_rgood c s : RGood s (fst (panic c s)) (snd (panic c s)).
Proof. unfold panic. cbn [fst snd]. apply rgood_quiet; cs; try reflexivity; lia. Qed.

Lemma enter_prevote_wait_good height round s s' o :
  cs_halted s = false -> round_ok height round s -> enter_prevote_wait height round s = (s', o) ->
  RGood s s' o.
Proof.
  intros Hh Hr Eq. unfold enter_prevote_wait in Eq.
  destruct (negb (cs_height s =? height) || (round <? cs_round s) || ((cs_round s =? round) && step_le SPrevoteWait (cs_step s))) eqn:G.
  - injection Eq as <- <-. apply rgood_nil.
  - unfold step_le in G. bool_to_prop. specialize (Hr ltac:(lia)). assert (round = cs_round s) by lia. subst round.
    destruct (negb (o_has_any (prevotes (cs_votes s) (cs_round s)))).
    + pose proof (panic_rgood 1 s) as P. rewrite Eq in P. exact P.
    + rewrite seq_schedule in Eq by exact Hh. unfold modify in Eq. injection Eq as <- <-.
      split; [|split; cs; [reflexivity | lia]]. split.
      * cbn [keys flat_map okey app Incr]. ord.
      * apply sched_step; cs; [|lia]. intros ti [<-|Hin]; [cbn; lia | auto].
Qed.

(* the tail of every branch of enterPrecommit: sign (maybe), then step := Precommit *)
Lemma precommit_tail b x s' o :
  cs_halted x = false -> step_rank (cs_step x) < 6 ->
  seq (sign_add_vote E PRECOMMIT b) (modify (set_rs (cs_round x) SPrecommit)) x = (s', o) ->
  RGood x s' o /\ cs_halted s' = false.
Proof.
  intros Hh Hst Eq. unfold seq in Eq.
  destruct (sign_add_vote_keys PRECOMMIT b x ltac:(auto)) as [Es Ek].
  destruct (sign_add_vote E PRECOMMIT b x) as [x1 o1]. cbn [fst snd] in Es, Ek. subst x1.
  rewrite Hh in Eq. unfold modify in Eq. injection Eq as <- <-. rewrite app_nil_r.
  split; [|cs; exact Hh]. split; [|split; cs; [reflexivity | lia]]. split.
  - destruct Ek as [-> | ->]; cbn [Incr]; unfold vote_rank; cbn [N.eqb PRECOMMIT PREVOTE Pos.eqb]; ord.
  - apply sched_step; cs; [auto | lia].
Qed.

Lemma enter_precommit_good height round s s' o :
  cs_halted s = false -> round_ok height round s -> enter_precommit E height round s = (s', o) ->
  RGood s s' o.
Proof.
  intros Hh Hr Eq. unfold enter_precommit in Eq.
  destruct (negb (cs_height s =? height) || (round <? cs_round s) || ((cs_round s =? round) && step_le SPrecommit (cs_step s))) eqn:G.
  - injection Eq as <- <-. apply rgood_nil.
  - unfold step_le in G. bool_to_prop. specialize (Hr ltac:(lia)). assert (round = cs_round s) by lia. subst round.
    assert (Hst : step_rank (cs_step s) < 6) by (cbn in *; lia).
    (* a quiet modification followed by the tail *)
    assert (Tail : forall (f : cstate -> cstate) b,
              cs_height (f s) = cs_height s -> cs_round (f s) = cs_round s -> cs_step (f s) = cs_step s ->
              cs_scheduled (f s) = cs_scheduled s -> cs_halted (f s) = false ->
              seq (modify f) (seq (sign_add_vote E PRECOMMIT b) (modify (set_rs (cs_round s) SPrecommit))) s = (s', o) ->
              RGood s s' o).
    { intros f b F1 F2 F3 F4 F5 Eq'. rewrite seq_modify in Eq' by exact F5.
      rewrite <- F2 in Eq'. destruct (precommit_tail b (f s) s' o F5 ltac:(rewrite F3; exact Hst) Eq') as [T _].
      change o with ([] ++ o). eapply rgood_trans; [|exact T].
      apply rgood_quiet; try assumption; try lia. intros _. rewrite F3. lia. }
    destruct (o_maj23 (prevotes (cs_votes s) (cs_round s))) as [polka|].
    2:{ apply (precommit_tail None s s' o Hh Hst Eq). }
    destruct (fst (pol_info (cs_votes s)) <? cs_round s).
    { pose proof (panic_rgood 2 s) as P. rewrite Eq in P. exact P. }
    destruct polka as [[h ph]|].
    2:{ refine (Tail _ _ _ _ _ _ _ Eq); cbv beta; destruct (cs_lblock s); cs; try reflexivity; exact Hh. }
    destruct (hashes_to (cs_lblock s) h).
    { refine (Tail _ _ _ _ _ _ _ Eq); cbv beta; cs; try reflexivity; exact Hh. }
    destruct (hashes_to (cs_pblock s) h).
    { destruct (cs_pblock s) as [pb|]; [|injection Eq as <- <-; apply rgood_nil].
      destruct (negb (b_valid pb)).
      - pose proof (panic_rgood 3 s) as P. rewrite Eq in P. exact P.
      - refine (Tail _ _ _ _ _ _ _ Eq); cbv beta; cs; try reflexivity; exact Hh. }
    refine (Tail _ _ _ _ _ _ _ Eq); cbv beta zeta;
      destruct (has_header (cs_pparts (set_locked (-1) None None s)) ph); cs; try reflexivity; exact Hh.
Qed.

Lemma enter_precommit_wait_good height round s s' o :
  cs_halted s = false -> round_ok height round s -> enter_precommit_wait height round s = (s', o) ->
  RGood s s' o.
Proof.
  intros Hh Hr Eq. unfold enter_precommit_wait in Eq.
  destruct (negb (cs_height s =? height) || (round <? cs_round s) || ((cs_round s =? round) && cs_triggered s)) eqn:G.
  - injection Eq as <- <-. apply rgood_nil.
  - bool_to_prop. specialize (Hr ltac:(lia)). assert (round = cs_round s) by lia. subst round.
    destruct (negb (o_has_any (precommits (cs_votes s) (cs_round s)))).
    + pose proof (panic_rgood 4 s) as P. rewrite Eq in P. exact P.
    + rewrite seq_schedule in Eq by exact Hh. unfold modify in Eq. injection Eq as <- <-.
      split; [|split; cs; [reflexivity | lia]]. split.
      * cbn [keys flat_map okey app Incr]. ord.
      * apply sched_step; cs; [|lia]. intros ti [<-|Hin]; [cbn; lia | auto].
Qed.

(* ---- functions that may move to the next height: only [Good] *)

Lemma rgood_good s s' o : RGood s s' o -> Good s s' o.
Proof. intros [G _]. exact G. Qed.

Lemma update_to_next_height_good s s' o :
  cs_halted s = false -> update_to_next_height E s = (s', o) -> Good s s' o.
Proof.
  intros Hh Eq. unfold update_to_next_height in Eq.
  destruct (negb (o_has_maj23 (precommits (cs_votes s) (cs_commit_round s)))).
  - pose proof (panic_rgood 5 s) as P. rewrite Eq in P. apply rgood_good. exact P.
  - rewrite seq_modify in Eq by reflexivity. unfold schedule in Eq. injection Eq as <- <-.
    split.
    + cbn [keys flat_map okey app Incr]. unfold le3, pos. cs. cbn. lia.
    + apply sched_step; cs; cbn; [|lia]. intros ti [<-|Hin]; [cbn; lia | auto].
Qed.

Lemma finalize_commit_good height s s' o :
  cs_halted s = false -> finalize_commit E height s = (s', o) -> Good s s' o.
Proof.
  intros Hh Eq. unfold finalize_commit in Eq.
  destruct (negb (cs_height s =? height) || negb (step_eqb (cs_step s) SCommit)); [injection Eq as <- <-; apply good_nil|].
  assert (P : forall c, panic c s = (s', o) -> Good s s' o).
  { intros c Ep. pose proof (panic_rgood c s) as P. rewrite Ep in P. apply rgood_good. exact P. }
  destruct (o_maj23 (precommits (cs_votes s) (cs_commit_round s))) as [[[h ph]|]|]; try (eapply P; exact Eq).
  destruct (negb (has_header (cs_pparts s) ph)); [eapply P; exact Eq|].
  destruct (negb (hashes_to (cs_pblock s) h)); [eapply P; exact Eq|].
  destruct (cs_pblock s) as [pb|]; [|eapply P; exact Eq].
  destruct (negb (b_valid pb)); [eapply P; exact Eq|].
  destruct (negb (match cs_pparts s with Some p => pt_complete p | None => false end)); [eapply P; exact Eq|].
  unfold seq, emit in Eq. rewrite Hh in Eq.
  destruct (update_to_next_height E s) as [s2 o2] eqn:Eu. injection Eq as <- <-.
  pose proof (update_to_next_height_good s s2 o2 Hh Eu) as [A B].
  split; [exact A | exact B].
Qed.

Lemma try_finalize_commit_good height s s' o :
  cs_halted s = false -> try_finalize_commit E height s = (s', o) -> Good s s' o.
Proof.
  intros Hh Eq. unfold try_finalize_commit in Eq.
  destruct (negb (cs_height s =? height)).
  { pose proof (panic_rgood 10 s) as P. rewrite Eq in P. apply rgood_good. exact P. }
  destruct (o_maj23 (precommits (cs_votes s) (cs_commit_round s))) as [[[h ph]|]|];
    try (injection Eq as <- <-; apply good_nil).
  destruct (hashes_to (cs_pblock s) h); [|injection Eq as <- <-; apply good_nil].
  eapply finalize_commit_good; eassumption.
Qed.

Lemma enter_commit_good height cr s s' o :
  cs_halted s = false -> enter_commit E height cr s = (s', o) -> Good s s' o.
Proof.
  intros Hh Eq. unfold enter_commit in Eq.
  destruct (negb (cs_height s =? height) || step_le SCommit (cs_step s)) eqn:G; [injection Eq as <- <-; apply good_nil|].
  unfold step_le in G. bool_to_prop.
  destruct (o_maj23 (precommits (cs_votes s) cr)) as [polka|].
  2:{ pose proof (panic_rgood 11 s) as P. rewrite Eq in P. apply rgood_good. exact P. }
  match type of Eq with try_finalize_commit E height ?x = _ => set (s3 := x) in * end.
  assert (Q : RGood s s3 [] /\ cs_halted s3 = false).
  { subst s3.
    repeat match goal with |- context [if ?c then _ else _] => destruct c end;
      (split; [apply rgood_quiet; cs; try reflexivity; try lia; intros _; pose proof (step_rank_range (cs_step s)); cbn; lia | cs; exact Hh]). }
  destruct Q as [Q Hh3].
  pose proof (try_finalize_commit_good height s3 s' o Hh3 Eq) as T.
  change o with ([] ++ o). eapply good_trans; [apply rgood_good; exact Q | exact T].
Qed.


Lemma seq_good' (f g : M) s s' o (P : cstate -> Prop) :
  seq f g s = (s', o) ->
  (forall s1 o1, f s = (s1, o1) -> Good s s1 o1 /\ (cs_halted s1 = false -> P s1)) ->
  (forall s1 s2 o2, cs_halted s1 = false -> P s1 -> g s1 = (s2, o2) -> Good s1 s2 o2) ->
  Good s s' o.
Proof.
  intros Eq Hf Hg. unfold seq in Eq. destruct (f s) as [s1 o1] eqn:Ef.
  destruct (Hf s1 o1 eq_refl) as [G1 P1].
  destruct (cs_halted s1) eqn:Hh1.
  - injection Eq as <- <-. exact G1.
  - destruct (g s1) as [s2 o2] eqn:Eg. injection Eq as <- <-.
    eapply good_trans; [exact G1 | eapply Hg; [exact Hh1 | apply P1; reflexivity | exact Eg]].
Qed.

Lemma round_ok_rgood height round s s' o : round_ok height round s -> RGood s s' o -> round_ok height round s'.
Proof. intros Hr (_ & Hh & Hrr) Hs. rewrite Hh in Hs. specialize (Hr Hs). lia. Qed.

(* quiet: nothing the order or the ticker depends on changed *)
Definition Quiet (a b : cstate) : Prop :=
  cs_height b = cs_height a /\ cs_round b = cs_round a /\ cs_step b = cs_step a /\
  cs_scheduled b = cs_scheduled a /\ cs_halted b = cs_halted a.

Lemma quiet_refl a : Quiet a a. Proof. repeat split. Qed.
Lemma quiet_rgood a b : Quiet a b -> RGood a b [].
Proof. intros (A & B & C & D & _). apply rgood_quiet; try assumption; try lia. intros _. rewrite C. lia. Qed.
Lemma quiet_round_ok height round a b : Quiet a b -> (round_ok height round a <-> round_ok height round b).
Proof. intros (A & B & _). unfold round_ok. rewrite A, B. tauto. Qed.

Ltac quiet_solve :=
  repeat match goal with
         | |- context [if ?c then _ else _] => destruct c
         | |- context [match ?x with _ => _ end] => destruct x
         end; unfold Quiet; cs; repeat split; reflexivity.

Lemma handle_complete_proposal_good height s s' o :
  cs_halted s = false -> handle_complete_proposal E height s = (s', o) -> Good s s' o.
Proof.
  intros Hh Eq. unfold handle_complete_proposal in Eq.
  match type of Eq with context [is_proposal_complete ?x] => set (s1 := x) in * end.
  assert (Q : Quiet s s1) by (subst s1; quiet_solve).
  assert (Hh1 : cs_halted s1 = false) by (destruct Q as (_ & _ & _ & _ & Q5); rewrite Q5; exact Hh).
  assert (G01 : Good s s1 []) by (apply rgood_good, quiet_rgood; exact Q).
  change o with ([] ++ o). eapply good_trans; [exact G01|]. clear G01.
  destruct (step_le (cs_step s1) SPropose && is_proposal_complete s1).
  - eapply (seq_good' _ _ s1 s' o (fun _ => True) Eq).
    + intros s2 o2 E2. destruct (enter_prevote_good height (cs_round s1) s1 s2 o2 Hh1 ltac:(intro; lia) E2) as [G2 _].
      split; [apply rgood_good; exact G2 | auto].
    + intros s2 s3 o3 Hh2 _ E3.
      destruct (o_maj23 (prevotes (cs_votes s) (cs_round s))); [|injection E3 as <- <-; apply good_nil].
      apply rgood_good. refine (enter_precommit_good _ _ _ _ _ Hh2 _ E3). intro; lia.
  - destruct (step_eqb (cs_step s1) SCommit).
    + eapply try_finalize_commit_good; eassumption.
    + injection Eq as <- <-. apply good_nil.
Qed.

Lemma set_proposal_good p s s' o : set_proposal E p s = (s', o) -> Good s s' o.
Proof.
  intro Eq. unfold set_proposal in Eq.
  assert (Q : Quiet s s' /\ o = []).
  { repeat match type of Eq with
           | context [if ?c then _ else _] => destruct c
           | context [match ?x with _ => _ end] => destruct x
           end; injection Eq as <- <-; (split; [unfold Quiet; cs; repeat split; reflexivity | reflexivity]). }
  destruct Q as [Q ->]. apply rgood_good, quiet_rgood. exact Q.
Qed.

Lemma add_part_good height ph idx d s s' o :
  cs_halted s = false -> add_part E height ph idx d s = (s', o) -> Good s s' o.
Proof.
  intros Hh Eq. unfold add_part in Eq.
  destruct (negb (cs_height s =? height)); [injection Eq as <- <-; apply good_nil|].
  destruct (cs_pparts s) as [pp|]; [|injection Eq as <- <-; apply good_nil].
  destruct (negb (psh_eqb (pt_header pp) ph)); [injection Eq as <- <-; apply good_nil|].
  destruct ((fst ph <=? idx)%N); [injection Eq as <- <-; apply good_nil|].
  destruct (existsb (N.eqb idx) (pt_have pp)); [injection Eq as <- <-; apply good_nil|].
  match type of Eq with context [pt_complete ?x] => set (pp' := x) in * end.
  destruct (pt_complete pp').
  - destruct d as [b|].
    + change o with ([] ++ o). eapply good_trans;
        [apply rgood_good, quiet_rgood; instantiate (1 := set_prop (cs_proposal s) (Some b) (Some pp') s); unfold Quiet; cs; repeat split; reflexivity|].
      eapply handle_complete_proposal_good; [cs; exact Hh | exact Eq].
    + change o with ([] ++ o). eapply good_trans;
        [apply rgood_good, quiet_rgood; instantiate (1 := set_prop (cs_proposal s) (cs_pblock s) (Some pp') s); unfold Quiet; cs; repeat split; reflexivity|].
      eapply handle_complete_proposal_good; [cs; exact Hh | exact Eq].
  - injection Eq as <- <-. apply rgood_good, quiet_rgood. unfold Quiet; cs; repeat split; reflexivity.
Qed.

Lemma keys_errs (e : verr) o : keys ((match e with E_none => [] | _ => [OVoteErr e] end) ++ o) = keys o.
Proof. destruct e; reflexivity. Qed.

Lemma good_errs s s' (e : verr) o :
  Good s s' o -> Good s s' ((match e with E_none => [] | _ => [OVoteErr e] end) ++ o).
Proof. intros [A B]. split; [rewrite keys_errs; exact A | exact B]. Qed.

Lemma good_errs_nil s s' (e : verr) :
  Good s s' [] -> Good s s' (match e with E_none => [] | _ => [OVoteErr e] end).
Proof. intro G. rewrite <- (app_nil_r (match e with E_none => [] | _ => [OVoteErr e] end)). apply good_errs. exact G. Qed.


Lemma add_vote_good v peer s s' o :
  cs_halted s = false -> add_vote E v peer s = (s', o) -> Good s s' o.
Proof.
  intros Hh Eq. unfold add_vote in Eq.
  destruct ((v_height v + 1 =? cs_height s) && (v_type v =? PRECOMMIT)%N).
  { (* a precommit of the previous height *)
    destruct (negb (step_eqb (cs_step s) SNewHeight)); [injection Eq as <- <-; apply good_nil|].
    destruct (cs_last_commit s) as [lc|].
    2:{ pose proof (panic_rgood 12 s) as P. rewrite Eq in P. apply rgood_good. exact P. }
    destruct (vs_add lc v) as [[lc' added] e].
    set (s1 := set_last_commit (Some lc') s) in *.
    assert (Q : Quiet s s1) by (subst s1; unfold Quiet; cs; repeat split; reflexivity).
    assert (Hh1 : cs_halted s1 = false) by (subst s1; cs; exact Hh).
    destruct (negb added).
    { injection Eq as <- <-. apply good_errs_nil. apply rgood_good, quiet_rgood. exact Q. }
    destruct (e_skip_timeout_commit E && has_all lc').
    - destruct (enter_new_round E (cs_height s1) 0 s1) as [s2 o2] eqn:E2. injection Eq as <- <-.
      apply good_errs. change o2 with ([] ++ o2).
      eapply good_trans; [apply rgood_good, quiet_rgood; exact Q|].
      destruct (enter_new_round_good _ _ _ _ _ Hh1 E2) as (G2 & _). apply rgood_good. exact G2.
    - injection Eq as <- <-. apply good_errs_nil. apply rgood_good, quiet_rgood. exact Q. }
  destruct (negb (v_height v =? cs_height s)); [injection Eq as <- <-; apply good_nil|].
  destruct (hv_add_vote (cs_votes s) v peer) as [[hv' added] e].
  set (s1 := set_votes hv' s) in *.
  assert (Q1 : Quiet s s1) by (subst s1; unfold Quiet; cs; repeat split; reflexivity).
  assert (Hh1 : cs_halted s1 = false) by (subst s1; cs; exact Hh).
  destruct (negb added).
  { injection Eq as <- <-. apply good_errs_nil. apply rgood_good, quiet_rgood. exact Q1. }
  match type of Eq with (let '(s9, o9) := ?body in _) = _ => destruct body as [s9 o9] eqn:Eb end.
  injection Eq as <- <-. apply good_errs.
  change o9 with ([] ++ o9). eapply good_trans; [apply rgood_good, quiet_rgood; exact Q1|].
  destruct ((v_type v =? PREVOTE)%N).
  - (* prevote *)
    set (s2 := polka_update (v_round v) s1) in *.
    assert (Q2 : Quiet s1 s2) by (subst s2; unfold polka_update; quiet_solve).
    assert (Hh2 : cs_halted s2 = false) by (destruct Q2 as (_ & _ & _ & _ & Q5); rewrite Q5; exact Hh1).
    change o9 with ([] ++ o9). eapply good_trans; [apply rgood_good, quiet_rgood; exact Q2|].
    destruct ((cs_round s2 <? v_round v) && o_has_any (prevotes (cs_votes s2) (v_round v))).
    { destruct (enter_new_round_good _ _ _ _ _ Hh2 Eb) as (G & _). apply rgood_good. exact G. }
    destruct ((cs_round s2 =? v_round v) && step_le SPrevote (cs_step s2)) eqn:Cur.
    { bool_to_prop.
      assert (Rk : round_ok (cs_height s) (v_round v) s2) by (intro; lia).
      destruct (o_maj23 (prevotes (cs_votes s2) (v_round v))) as [polka|].
      - destruct (is_proposal_complete s2 || match polka with None => true | Some _ => false end).
        + apply rgood_good. eapply enter_precommit_good; eassumption.
        + destruct (o_has_any (prevotes (cs_votes s2) (v_round v))); [|injection Eb as <- <-; apply good_nil].
          apply rgood_good. eapply enter_prevote_wait_good; eassumption.
      - destruct (o_has_any (prevotes (cs_votes s2) (v_round v))); [|injection Eb as <- <-; apply good_nil].
        apply rgood_good. eapply enter_prevote_wait_good; eassumption. }
    destruct (cs_proposal s2) as [p|]; [|injection Eb as <- <-; apply good_nil].
    destruct ((0 <=? pr_polr p) && (pr_polr p =? v_round v) && is_proposal_complete s2); [|injection Eb as <- <-; apply good_nil].
    apply rgood_good. refine (proj1 (enter_prevote_good _ _ _ _ _ Hh2 _ Eb)). intro; lia.
  - (* precommit *)
    destruct (o_maj23 (precommits (cs_votes s1) (v_round v))) as [polka|].
    + eapply (seq_good' _ _ s1 s9 o9 (round_ok (cs_height s) (v_round v)) Eb).
      * intros sa oa Ea. destruct (enter_new_round_good _ _ _ _ _ Hh1 Ea) as (G & _ & R).
        split; [apply rgood_good; exact G | intros _; exact R].
      * intros sa sb ob Hha Ra Eb2.
        eapply (seq_good' _ _ sa sb ob (round_ok (cs_height s) (v_round v)) Eb2).
        -- intros sc oc Ec. pose proof (enter_precommit_good _ _ _ _ _ Hha Ra Ec) as G.
           split; [apply rgood_good; exact G | intros _; eapply round_ok_rgood; eassumption].
        -- intros sc sd od Hhc Rc Ed. destruct polka as [bb|].
           ++ eapply (seq_good' _ _ sc sd od (fun _ => True) Ed).
              ** intros se oe Ee. split; [eapply enter_commit_good; eassumption | auto].
              ** intros se sf of Hhe _ Ef.
                 destruct (e_skip_timeout_commit E && o_has_all (precommits (cs_votes s1) (v_round v)));
                   [|injection Ef as <- <-; apply good_nil].
                 destruct (enter_new_round_good _ _ _ _ _ Hhe Ef) as (G & _). apply rgood_good. exact G.
           ++ apply rgood_good. eapply enter_precommit_wait_good; eassumption.
    + destruct ((cs_round s1 <=? v_round v) && o_has_any (precommits (cs_votes s1) (v_round v))); [|injection Eb as <- <-; apply good_nil].
      eapply (seq_good' _ _ s1 s9 o9 (round_ok (cs_height s) (v_round v)) Eb).
      * intros sa oa Ea. destruct (enter_new_round_good _ _ _ _ _ Hh1 Ea) as (G & _ & R).
        split; [apply rgood_good; exact G | intros _; exact R].
      * intros sa sb ob Hha Ra Eb2. apply rgood_good. eapply enter_precommit_wait_good; eassumption.
Qed.

Lemma handle_timeout_good ti s s' o :
  cs_halted s = false -> SchedInv s -> handle_timeout E ti s = (s', o) -> Good s s' o.
Proof.
  intros Hh SI Eq. unfold handle_timeout in Eq.
  destruct (negb (existsb (tinfo_eqb ti) (cs_scheduled s))) eqn:Ex; [injection Eq as <- <-; apply good_nil|].
  destruct (negb (ti_height ti =? cs_height s) || (ti_round ti <? cs_round s)
            || ((ti_round ti =? cs_round s) && (step_rank (ti_step ti) <? step_rank (cs_step s)))) eqn:G;
    [injection Eq as <- <-; apply good_nil|].
  bool_to_prop.
  (* the timeout was scheduled, so its round is not ahead of ours *)
  assert (Rk : round_ok (ti_height ti) (ti_round ti) s).
  { apply existsb_exists in Ex. destruct Ex as (tj & Hin & Et). unfold tinfo_eqb in Et. bool_to_prop.
    specialize (SI tj Hin). intro. lia. }
  destruct (ti_step ti).
  - destruct (enter_new_round_good _ _ _ _ _ Hh Eq) as (G' & _). apply rgood_good. exact G'.
  - destruct (enter_propose_good _ _ _ _ _ Hh Eq) as (G' & _). apply rgood_good. exact G'.
  - apply rgood_good. exact (proj1 (enter_prevote_good _ _ _ _ _ Hh Rk Eq)).
  - pose proof (panic_rgood 13 s) as P. rewrite Eq in P. apply rgood_good. exact P.
  - apply rgood_good. eapply enter_precommit_good; eassumption.
  - pose proof (panic_rgood 13 s) as P. rewrite Eq in P. apply rgood_good. exact P.
  - eapply (seq_good' _ _ s s' o (fun _ => True) Eq).
    + intros s1 o1 E1. split; [apply rgood_good; eapply enter_precommit_good; eassumption | auto].
    + intros s1 s2 o2 Hh1 _ E2. destruct (enter_new_round_good _ _ _ _ _ Hh1 E2) as (G' & _). apply rgood_good. exact G'.
  - pose proof (panic_rgood 13 s) as P. rewrite Eq in P. apply rgood_good. exact P.
Qed.

Lemma handle_good i s s' o : SchedInv s -> handle E s i = (s', o) -> Good s s' o.
Proof.
  intros SI Eq. unfold handle in Eq.
  destruct (cs_halted s) eqn:Hh; [injection Eq as <- <-; apply good_nil|].
  destruct i.
  - eapply set_proposal_good; eassumption.
  - eapply add_part_good; eassumption.
  - eapply add_vote_good; eassumption.
  - eapply handle_timeout_good; eassumption.
  - destruct (height =? cs_height s); injection Eq as <- <-; [|apply good_nil].
    apply rgood_good, quiet_rgood. unfold Quiet. cs. repeat split; reflexivity.
Qed.

(* a whole run: the keys of everything signed, in order, strictly increase *)
Lemma run_good : forall ins s s' os,
  SchedInv s -> run E s ins = (s', os) -> Good s s' (concat os).
Proof.
  induction ins as [|i ins IH]; intros s s' os SI Eq; cbn [run] in Eq.
  - injection Eq as <- <-. apply good_nil.
  - destruct (handle E s i) as [s1 o1] eqn:E1. destruct (run E s1 ins) as [s2 os2] eqn:E2.
    injection Eq as <- <-. cbn [concat].
    pose proof (handle_good i s s1 o1 SI E1) as G1.
    eapply good_trans; [exact G1 | apply (IH s1); [apply G1; exact SI | exact E2]].
Qed.

Lemma init_sched height lc : SchedInv (init_state E height lc).
Proof. intros ti [<-|[]]. cbn. lia. Qed.

End WithEnv.

(* The keys (height, round, rank) of all proposals and votes signed during any run from the
   initial state are strictly increasing: in particular pairwise distinct. *)
Theorem signed_keys_increasing E height lc ins :
  let '(s', os) := run E (init_state E height lc) ins in
  Incr (pos (init_state E height lc)) (keys (concat os)) (pos s').
Proof.
  destruct (run E (init_state E height lc) ins) as [s' os] eqn:Er.
  exact (proj1 (run_good E ins _ _ _ (init_sched E height lc) Er)).
Qed.

Theorem signed_keys_nodup E height lc ins :
  NoDup (keys (concat (snd (run E (init_state E height lc) ins)))).
Proof.
  pose proof (signed_keys_increasing E height lc ins) as H.
  destruct (run E (init_state E height lc) ins) as [s' os]. cbn [snd].
  eapply Incr_NoDup. exact H.
Qed.
