(* C02 — the height vote set only ever holds verified votes that were delivered, and a
   recorded +2/3 prevote majority is a polka among the delivered votes. *)
From Coq Require Import List ZArith NArith Bool Lia.
From TM Require Import C02.Model C02.ProofsVoteSet.
Import ListNotations.
Open Scope Z_scope.

(* A quorum among the delivered votes [D]: distinct validators, each with a verified vote of
   type [ty] for exactly (h, r, x) in D, holding more than 2/3 of the power. *)
Definition Quorum (D : list vote) (vals : valset) (ty : N) (h r : Z) (x : blockid) : Prop :=
  exists voters : list nat, NoDup voters /\
    (forall i, In i voters -> exists v, In v D /\ v_ok v = true /\ v_type v = ty /\
        v_height v = h /\ v_round v = r /\ v_bid v = x /\ v_idx v = Z.of_nat i /\
        exists a p, nth_error vals i = Some (a, p) /\ v_addr v = a) /\
    3 * fold_right (fun i acc => power_at vals i + acc) 0 voters > 2 * total_power vals.

Lemma Quorum_mono D D' vals ty h r x :
  (forall v, In v D -> In v D') -> Quorum D vals ty h r x -> Quorum D' vals ty h r x.
Proof.
  intros Hs (vs & ND & Hv & Hq). exists vs. split; [exact ND|]. split; [|exact Hq].
  intros i Hi. destruct (Hv i Hi) as (v & Hin & R). exists v. split; [apply Hs; exact Hin | exact R].
Qed.

(* a vote set of the height vote set: sound, fed from D, and labelled correctly *)
Definition good_set (D : list vote) (height : Z) (vals : valset) (r : Z) (ty : N) (s : voteset) : Prop :=
  VSInv s /\ VotesIn D s /\ vs_height s = height /\ vs_round s = r /\ vs_type s = ty /\ vs_vals s = vals.

Lemma good_set_mono D D' height vals r ty s :
  (forall v, In v D -> In v D') -> good_set D height vals r ty s -> good_set D' height vals r ty s.
Proof. intros Hs (A & B & C). split; [exact A|]. split; [eapply VotesIn_mono; eassumption | exact C]. Qed.

Lemma good_set_quorum D height vals r ty s k :
  good_set D height vals r ty s -> vs_maj23 s = Some k -> Quorum D vals ty height r k.
Proof.
  intros (I & VI & Eh & Er & Et & Ev) Hm.
  destruct (maj23_backed s k I Hm) as (bv & L & Ok & ND & Q).
  exists (backers bv). split; [exact ND|]. split.
  - intros i Hi. unfold backers in Hi. apply filter_In in Hi as [_ Hi].
    destruct (nth i (bv_votes bv) None) as [v|] eqn:Ei; [|discriminate].
    destruct (Ok i v Ei) as (O1 & O2 & O3 & O4 & O5 & O6 & O7).
    exists v. split; [eapply VI; eassumption|].
    rewrite <- Eh, <- Er, <- Et, <- Ev. repeat split; assumption.
  - rewrite <- Ev. exact Q.
Qed.

Definition HVInv (D : list vote) (vals : valset) (h : hvs) : Prop :=
  hv_vals h = vals /\
  forall r pv pc, lookup_round r (hv_sets h) = Some (pv, pc) ->
    good_set D (hv_height h) vals r PREVOTE pv /\ good_set D (hv_height h) vals r PRECOMMIT pc.

Lemma HVInv_mono D D' vals h : (forall v, In v D -> In v D') -> HVInv D vals h -> HVInv D' vals h.
Proof.
  intros Hs [A B]. split; [exact A|]. intros r pv pc L. destruct (B r pv pc L) as [G1 G2].
  split; eapply good_set_mono; eassumption.
Qed.

Lemma lookup_update_round_same r x l : lookup_round r (update_round r x l) = Some x.
Proof.
  induction l as [|[r' y] l IH]; cbn; [rewrite Z.eqb_refl; reflexivity|].
  destruct (r =? r') eqn:E; cbn; [rewrite Z.eqb_refl; reflexivity | rewrite E; exact IH].
Qed.
Lemma lookup_update_round_other r r' x l : r' <> r -> lookup_round r' (update_round r x l) = lookup_round r' l.
Proof.
  intro Hn. induction l as [|[r2 y] l IH]; cbn.
  - destruct (r' =? r) eqn:E; [apply Z.eqb_eq in E; contradiction | reflexivity].
  - destruct (r =? r2) eqn:E; cbn.
    + apply Z.eqb_eq in E. subst r2. destruct (r' =? r) eqn:E2; [apply Z.eqb_eq in E2; contradiction | reflexivity].
    + destruct (r' =? r2); [reflexivity | exact IH].
Qed.

Lemma new_good_set D height vals r ty : good_set D height vals r ty (new_voteset height r ty vals).
Proof. split; [apply new_voteset_inv|]. split; [apply new_voteset_votes_in | repeat split]. Qed.

Lemma hv_add_round_inv D vals h r : HVInv D vals h -> HVInv D vals (hv_add_round h r).
Proof.
  intros [A B]. split; [exact A|]. intros r' pv pc L. cbn in L |- *.
  destruct (Z.eq_dec r' r) as [->|Hn].
  - rewrite lookup_update_round_same in L. injection L as <- <-. rewrite A. split; apply new_good_set.
  - rewrite lookup_update_round_other in L by exact Hn. apply B. exact L.
Qed.

Lemma hv_add_round_height h r : hv_height (hv_add_round h r) = hv_height h. Proof. reflexivity. Qed.

Lemma add_rounds_inv D vals n : forall h from, HVInv D vals h ->
  HVInv D vals (add_rounds h from n) /\ hv_height (add_rounds h from n) = hv_height h.
Proof.
  induction n as [|n IH]; intros h from I; cbn; [split; [exact I | reflexivity]|].
  destruct (lookup_round from (hv_sets h)).
  - apply IH. exact I.
  - destruct (IH (hv_add_round h from) (from + 1) (hv_add_round_inv D vals h from I)) as [A B].
    split; [exact A | rewrite B; reflexivity].
Qed.

Lemma hv_set_round_inv D vals h round : HVInv D vals h ->
  HVInv D vals (hv_set_round h round) /\ hv_height (hv_set_round h round) = hv_height h.
Proof.
  intro I. unfold hv_set_round.
  destruct (add_rounds_inv D vals (Z.to_nat (round - (hv_round h - 1) + 1)) h (hv_round h - 1) I) as [[A B] C].
  split; [|exact C]. split; [exact A|]. cbn. intros r pv pc L. specialize (B r pv pc L). exact B.
Qed.

Lemma new_hvs_inv D height vals : HVInv D vals (new_hvs height vals) /\ hv_height (new_hvs height vals) = height.
Proof.
  split; [|reflexivity]. unfold new_hvs. apply hv_add_round_inv. split; [reflexivity|].
  intros r pv pc L. cbn in L. discriminate.
Qed.

Lemma hv_put_inv D vals h r ty s :
  HVInv D vals h -> (ty = PREVOTE \/ ty = PRECOMMIT) -> good_set D (hv_height h) vals r ty s ->
  HVInv D vals (hv_put h r ty s) /\ hv_height (hv_put h r ty s) = hv_height h.
Proof.
  intros [A B] Hty G. unfold hv_put. destruct (lookup_round r (hv_sets h)) as [[pv pc]|] eqn:L; [|split; [split; assumption | reflexivity]].
  split; [|reflexivity]. split; [exact A|]. intros r' pv' pc' L'. cbn in L' |- *.
  destruct (Z.eq_dec r' r) as [->|Hn].
  - rewrite lookup_update_round_same in L'. destruct (B r pv pc L) as [G1 G2].
    destruct Hty as [-> | ->]; cbn in L'; injection L' as <- <-; split; assumption.
  - rewrite lookup_update_round_other in L' by exact Hn. apply B. exact L'.
Qed.

Lemma hv_get_good D vals h r ty s :
  HVInv D vals h -> hv_get h r ty = Some s ->
  good_set D (hv_height h) vals r (if (ty =? PREVOTE)%N then PREVOTE else PRECOMMIT) s.
Proof.
  intros [A B] G. unfold hv_get in G. destruct (lookup_round r (hv_sets h)) as [[pv pc]|] eqn:L; [|discriminate].
  destruct (B r pv pc L) as [G1 G2]. destruct ((ty =? PREVOTE)%N); injection G as <-; assumption.
Qed.

Lemma vs_add_good D height vals r ty s v :
  powers_nonneg vals -> In v D -> good_set D height vals r ty s -> good_set D height vals r ty (fst (fst (vs_add s v))).
Proof.
  intros Hnn Hv (I & VI & Eh & Er & Et & Ev).
  destruct (vs_add_inv s v I ltac:(rewrite Ev; exact Hnn)) as [I' (F1 & F2 & F3 & F4)].
  split; [exact I'|]. split; [apply vs_add_votes_in; assumption|].
  repeat split; congruence.
Qed.

Lemma hv_add_vote_inv D vals h v peer :
  powers_nonneg vals -> In v D -> HVInv D vals h ->
  HVInv D vals (fst (fst (hv_add_vote h v peer))) /\ hv_height (fst (fst (hv_add_vote h v peer))) = hv_height h.
Proof.
  intros Hnn Hv I. unfold hv_add_vote.
  destruct (negb ((v_type v =? PREVOTE)%N || (v_type v =? PRECOMMIT)%N)) eqn:Ty; [split; [exact I | reflexivity]|].
  apply negb_false_iff in Ty.
  assert (Hty : v_type v = PREVOTE \/ v_type v = PRECOMMIT).
  { apply orb_true_iff in Ty as [T|T]; apply N.eqb_eq in T; auto. }
  (* the (possibly extended) height vote set h1 *)
  match goal with |- context [let '(h1, ok) := ?X in _] => destruct X as [h1 ok] eqn:E1 end.
  assert (I1 : HVInv D vals h1 /\ hv_height h1 = hv_height h).
  { destruct (hv_get h (v_round v) (v_type v)).
    - injection E1 as <- <-. split; [exact I | reflexivity].
    - destruct (length (lookup_catchup peer (hv_catchup h)) <? 2)%nat.
      + injection E1 as <- <-. pose proof (hv_add_round_inv D vals h (v_round v) I) as [A B].
        split; [split; [exact A | exact B] | reflexivity].
      + injection E1 as <- <-. split; [exact I | reflexivity]. }
  destruct I1 as [I1 H1].
  destruct (negb ok); [split; [exact I | reflexivity]|].
  destruct (hv_get h1 (v_round v) (v_type v)) as [s|] eqn:G; [|split; [exact I1 | exact H1]].
  destruct (vs_add s v) as [[s' added] e] eqn:Ea. cbn [fst].
  pose proof (hv_get_good D vals h1 _ _ _ I1 G) as Gs.
  assert (Tyeq : (if (v_type v =? PREVOTE)%N then PREVOTE else PRECOMMIT) = v_type v).
  { destruct Hty as [-> | ->]; reflexivity. }
  rewrite Tyeq in Gs.
  pose proof (vs_add_good D _ vals _ _ s v Hnn Hv Gs) as Gs'. rewrite Ea in Gs'. cbn [fst] in Gs'.
  destruct (hv_put_inv D vals h1 (v_round v) (v_type v) s' I1 Hty Gs') as [A B].
  split; [exact A | rewrite B; exact H1].
Qed.

Lemma vs_set_peer_maj23_votes_in D s peer key : VotesIn D s -> VotesIn D (vs_set_peer_maj23 s peer key).
Proof.
  intro H. unfold vs_set_peer_maj23. destruct (lookup_peer peer (vs_peermaj s)); [exact H|].
  intros k bv L. cbn in L.
  destruct (lookup_bv key (vs_byblock s)) as [bv0|] eqn:L0.
  - destruct (blockid_eqb k key) eqn:E.
    + apply blockid_eqb_eq in E. subst k. rewrite lookup_update_same in L. injection L as <-. cbn. eapply H; exact L0.
    + apply blockid_eqb_neq in E. rewrite lookup_update_other in L by exact E. eapply H; exact L.
  - destruct (blockid_eqb k key) eqn:E.
    + apply blockid_eqb_eq in E. subst k. rewrite lookup_update_same in L. injection L as <-. cbn. apply slots_ok_repeat.
    + apply blockid_eqb_neq in E. rewrite lookup_update_other in L by exact E. eapply H; exact L.
Qed.

Lemma hv_set_peer_maj23_inv D vals h r ty peer b :
  HVInv D vals h ->
  HVInv D vals (hv_set_peer_maj23 h r ty peer b) /\ hv_height (hv_set_peer_maj23 h r ty peer b) = hv_height h.
Proof.
  intro I. unfold hv_set_peer_maj23.
  destruct (negb ((ty =? PREVOTE)%N || (ty =? PRECOMMIT)%N)) eqn:Ty; [split; [exact I | reflexivity]|].
  apply negb_false_iff in Ty.
  assert (Hty : ty = PREVOTE \/ ty = PRECOMMIT).
  { apply orb_true_iff in Ty as [T|T]; apply N.eqb_eq in T; auto. }
  destruct (hv_get h r ty) as [s|] eqn:G; [|split; [exact I | reflexivity]].
  pose proof (hv_get_good D vals h r ty s I G) as Gs.
  assert (Tyeq : (if (ty =? PREVOTE)%N then PREVOTE else PRECOMMIT) = ty) by (destruct Hty as [-> | ->]; reflexivity).
  rewrite Tyeq in Gs. destruct Gs as (A & B & C1 & C2 & C3 & C4).
  destruct (vs_set_peer_maj23_inv s peer b A) as [A' (F1 & F2 & F3 & F4)].
  apply hv_put_inv; [exact I | exact Hty|].
  split; [exact A'|]. split; [apply vs_set_peer_maj23_votes_in; exact B|]. repeat split; congruence.
Qed.
