(* C02 — executable side of the correspondence check for the consensus state machine.
   The Go harness (harness/overlay/consensus/verif_c02_test.go) drives a real consensus.State
   synchronously (handleMsg / handleTimeout, internal queue drained in order) and writes, per
   history, the inputs and after every input the projected round state and what the node
   signed / scheduled / decided.  [check] replays the inputs through the model, compares, and
   evaluates the three clauses of the property on the implementation's own outputs. *)
From Coq Require Import List ZArith NArith Bool.
From TM Require Import Common.Hex.
From TM Require Export C02.Model.
Import ListNotations.
Open Scope Z_scope.

(* projected round state + outputs after one input *)
Record obs := {
  o_h : Z; o_r : Z; o_step : Z;
  o_lround : Z; o_lblock : N;          (* 0 = none *)
  o_vround : Z; o_vblock : N;
  o_pblock : N; o_pparts : option psh;
  o_cround : Z; o_trig : bool;
  o_prop : bool;                       (* cs.Proposal != nil *)
  o_outs : list output;                (* signed votes/proposals, schedules, decisions, in order *)
  o_panic : bool;
  o_proposer : Z                       (* index of cs.Validators.GetProposer() *)
}.

Inductive case :=
| CRun (vals : valset) (me : option Z) (skip : bool) (initial_height : Z)
       (proposers : list (Z * list Z))        (* height -> proposer index per round *)
       (steps : list (input * obs)).

Fixpoint lookup_props (h : Z) (l : list (Z * list Z)) : list Z :=
  match l with [] => [] | (h', x) :: t => if h =? h' then x else lookup_props h t end.

Definition mk_env (vals : valset) (me : option Z) (skip : bool) (ih : Z) (props : list (Z * list Z)) : env :=
  {| e_vals := vals; e_me := me;
     e_proposer := fun h r => nth (Z.to_nat r) (lookup_props h props) (-1);
     e_skip_timeout_commit := skip; e_initial_height := ih |}.

Definition ob (b : option block) : N := match b with Some x => b_hash x | None => 0%N end.
Definition opsh_eqb (a b : option psh) : bool :=
  match a, b with None, None => true | Some x, Some y => psh_eqb x y | _, _ => false end.

Definition output_eqb (a b : output) : bool :=
  match a, b with
  | OSignVote t h r x, OSignVote t' h' r' x' => (t =? t')%N && (h =? h') && (r =? r') && blockid_eqb x x'
  | OSignProposal h r p u, OSignProposal h' r' p' u' =>
    (h =? h') && (r =? r') && (p =? p') &&
    match u, u' with
    | None, None => true
    | Some x, Some y => (x =? y)%N
    | _, _ => false
    end
  | OSchedule h r s, OSchedule h' r' s' => (h =? h') && (r =? r') && step_eqb s s'
  | ODecide h r b, ODecide h' r' b' => (h =? h') && (r =? r') && (b =? b')%N
  | OPanic _, OPanic _ => true
  | OVoteErr _, OVoteErr _ => true
  | _, _ => false
  end.

Fixpoint outs_eqb (a b : list output) : bool :=
  match a, b with
  | [], [] => true
  | x :: a', y :: b' => output_eqb x y && outs_eqb a' b'
  | _, _ => false
  end.

Definition not_err (o : output) : bool := match o with OVoteErr _ => false | _ => true end.

(* compare the model state/outputs with the observation; returns the code of the first
   differing observable (0 = equal) *)
Definition diff_obs (E : env) (s : cstate) (outs : list output) (o : obs) : N :=
  if negb (Bool.eqb (cs_halted s) (o_panic o)) then 1%N
  else if o_panic o then 0%N
  else if negb (cs_height s =? o_h o) then 2%N
  else if negb (cs_round s =? o_r o) then 3%N
  else if negb (step_rank (cs_step s) =? o_step o) then 4%N
  else if negb ((cs_lround s =? o_lround o) && (ob (cs_lblock s) =? o_lblock o)%N) then 5%N
  else if negb ((cs_vround s =? o_vround o) && (ob (cs_vblock s) =? o_vblock o)%N) then 6%N
  else if negb (ob (cs_pblock s) =? o_pblock o)%N then 7%N
  else if negb (opsh_eqb (match cs_pparts s with Some p => Some (pt_header p) | None => None end) (o_pparts o)) then 8%N
  else if negb (cs_commit_round s =? o_cround o) then 9%N
  else if negb (Bool.eqb (cs_triggered s) (o_trig o)) then 10%N
  else if negb (Bool.eqb (match cs_proposal s with Some _ => true | None => false end) (o_prop o)) then 11%N
  else if negb (outs_eqb (filter not_err outs) (filter not_err (o_outs o))) then 12%N
  else if negb (e_proposer E (cs_height s) (cs_round s) =? o_proposer o) then 13%N
  else 0%N.

Fixpoint replay (E : env) (s : cstate) (steps : list (input * obs)) (k : N) : N * N (* step, code *) :=
  match steps with
  | [] => (0, 0)%N
  | (i, o) :: r =>
    let '(s', outs) := handle E s i in
    let d := diff_obs E s' outs o in
    if (d =? 0)%N then (if o_panic o then (0, 0)%N else replay E s' r (k + 1)%N) else (k, d)
  end.

(* ------------------------------------------------------------------ monitors *)
(* They look only at the inputs delivered and at what the implementation signed. *)

Definition signed_votes (steps : list (input * obs)) : list (N * Z * Z * blockid) :=
  flat_map (fun io => flat_map (fun o => match o with OSignVote t h r b => [(t, h, r, b)] | _ => [] end)
                               (o_outs (snd io))) steps.
Definition signed_props (steps : list (input * obs)) : list (Z * Z) :=
  flat_map (fun io => flat_map (fun o => match o with OSignProposal h r _ _ => [(h, r)] | _ => [] end)
                               (o_outs (snd io))) steps.

Fixpoint nodup_by {A} (eqb : A -> A -> bool) (l : list A) : bool :=
  match l with
  | [] => true
  | x :: r => negb (existsb (eqb x) r) && nodup_by eqb r
  end.

Definition hrs_eqb (a b : N * Z * Z * blockid) : bool :=
  let '(t, h, r, _) := a in let '(t', h', r', _) := b in (t =? t')%N && (h =? h') && (r =? r').

(* clause 1: at most one prevote, one precommit, one proposal per height and round *)
Definition mon_one_per_step (steps : list (input * obs)) : bool :=
  nodup_by hrs_eqb (signed_votes steps) &&
  nodup_by (fun a b => (fst a =? fst b) && (snd a =? snd b)) (signed_props steps).

(* valid votes delivered so far: (type,h,r,bid,idx), one entry per distinct validator & block *)
Definition vkey := (N * Z * Z * blockid * Z)%type.
Definition delivered_votes (vals : valset) (ins : list input) : list vkey :=
  flat_map (fun i => match i with
                     | IVote v _ =>
                       match nth_error vals (Z.to_nat (v_idx v)) with
                       | Some (a, _) => if v_ok v && (0 <=? v_idx v) && (a =? v_addr v)%N
                                        then [(v_type v, v_height v, v_round v, v_bid v, v_idx v)] else []
                       | None => []
                       end
                     | _ => [] end) ins.

Definition power_of (vals : valset) (i : Z) : Z :=
  match nth_error vals (Z.to_nat i) with Some (_, p) => p | None => 0 end.

(* power of the distinct validators that cast (ty,h,r) votes satisfying [sel] *)
Definition tally (vals : valset) (dv : list vkey) (ty : N) (h r : Z) (sel : blockid -> bool) : Z :=
  let idxs := flat_map (fun k => let '(t, h', r', b, i) := k in
                                 if (t =? ty)%N && (h' =? h) && (r' =? r) && sel b then [i] else []) dv in
  fold_right (fun i acc => power_of vals i + acc) 0 (nodup Z.eq_dec idxs).

Definition is_quorum (vals : valset) (p : Z) : bool := 3 * p >? 2 * total_power vals.

(* blocks the node can hold: every part of the block's part set was delivered at some time
   (own proposals arrive the same way, through the internal queue) *)
Definition part_delivered (ins : list input) (ph : psh) (idx : N) : bool :=
  existsb (fun i => match i with IPart _ ph' idx' _ => psh_eqb ph ph' && (idx =? idx')%N | _ => false end) ins.
Definition all_parts_delivered (ins : list input) (ph : psh) : bool :=
  forallb (fun k => part_delivered ins ph (N.of_nat k)) (List.seq 0%nat (N.to_nat (fst ph))).
Definition held_blocks (ins : list input) : list N :=
  flat_map (fun i => match i with
                     | IPart _ ph _ (Some b) => if all_parts_delivered ins ph then [b_hash b] else []
                     | _ => [] end) ins.

(* clause 2: a precommit for a block only with the block in hand and +2/3 prevotes for it in
   that round among the votes received so far *)
Fixpoint mon_precommit_justified (vals : valset) (seen : list input) (steps : list (input * obs)) : bool :=
  match steps with
  | [] => true
  | (i, o) :: r =>
    let seen' := seen ++ [i] in
    let dv := delivered_votes vals seen' in
    forallb (fun out => match out with
                        | OSignVote t h rd (Some b) =>
                          if (t =? PRECOMMIT)%N
                          then is_quorum vals (tally vals dv PREVOTE h rd (blockid_eqb (Some b)))
                               && existsb (N.eqb (fst b)) (held_blocks seen')
                          else true
                        | _ => true end) (o_outs o)
    && mon_precommit_justified vals seen' r
  end.

(* clause 3: after precommitting block b in round r, any prevote for something else in a later
   round r' of that height needs a +2/3 prevote quorum for something other than b in some
   round r'' with r < r'' <= r' among the votes received before *)
Fixpoint exists_round (f : Z -> bool) (from : Z) (n : nat) : bool :=
  match n with O => false | S n' => f from || exists_round f (from + 1) n' end.

Definition same_hash (x : blockid) (b : bid) : bool :=
  match x with Some (h, _) => (h =? fst b)%N | None => false end.

Definition other_polka (vals : valset) (dv : list vkey) (h : Z) (b : bid) (r r' : Z) : bool :=
  exists_round (fun r'' =>
     (* some single value other than block b (compared by block hash) with +2/3: nil or any id seen *)
     existsb (fun k => let '(_, _, _, x, _) := k in
                       negb (same_hash x b) &&
                       is_quorum vals (tally vals dv PREVOTE h r'' (blockid_eqb x))) dv)
    (r + 1) (Z.to_nat (r' - r)).

Fixpoint mon_lock (vals : valset) (seen : list input) (locks : list (Z * Z * bid))
         (steps : list (input * obs)) : bool :=
  match steps with
  | [] => true
  | (i, o) :: rest =>
    let seen' := seen ++ [i] in
    let dv := delivered_votes vals seen' in
    let ok := forallb (fun out => match out with
                | OSignVote t h r' x =>
                  if (t =? PREVOTE)%N then
                    forallb (fun l => let '(lh, lr, lb) := l in
                       if (lh =? h) && (lr <? r') && negb (same_hash x lb)
                       then other_polka vals dv h lb lr r' else true) locks
                  else true
                | _ => true end) (o_outs o) in
    let locks' := locks ++ flat_map (fun out => match out with
                | OSignVote t h r (Some b) => if (t =? PRECOMMIT)%N then [(h, r, b)] else []
                | _ => [] end) (o_outs o) in
    ok && mon_lock vals seen' locks' rest
  end.

(* decision backed: a decided block was held, valid, and has +2/3 precommits in one round *)
Fixpoint mon_decide (vals : valset) (seen : list input) (steps : list (input * obs)) : bool :=
  match steps with
  | [] => true
  | (i, o) :: r =>
    let seen' := seen ++ [i] in
    let dv := delivered_votes vals seen' in
    forallb (fun out => match out with
                        | ODecide h rd b =>
                          existsb (fun k => let '(_, _, _, x, _) := k in
                                            match x with
                                            | Some (bh, ph) => (bh =? b)%N &&
                                                is_quorum vals (tally vals dv PRECOMMIT h rd (blockid_eqb x))
                                            | None => false end) dv
                          && existsb (fun i' => match i' with
                                                | IPart _ ph _ (Some blk) => (b_hash blk =? b)%N && b_valid blk && all_parts_delivered seen' ph
                                                | _ => false end) seen'
                        | _ => true end) (o_outs o)
    && mon_decide vals seen' r
  end.

Definition viol (b : bool) (clause : N) : verdict := if b then V_ok else V_violation clause.

Definition check (c : case) : verdict :=
  match c with
  | CRun vals me skip ih props steps =>
    let E := mk_env vals me skip ih props in
    let '(k, code) := replay E (init_state E ih None) steps 0%N in
    first_of [
      viol (mon_one_per_step steps) 1;
      viol (mon_precommit_justified vals [] steps) 2;
      viol (mon_lock vals [] [] steps) 3;
      viol (mon_decide vals [] steps) 4;
      (if (code =? 0)%N then V_ok else V_mismatch (1000 * k + code)) ]
  end.
