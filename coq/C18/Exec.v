(* C18 — executable side of the correspondence check.  The Go harnesses
   (harness/overlay/store/verif_c18_store_test.go, harness/overlay/state/verif_c18_state_test.go,
   and for the composite prune of both stores harness/overlay/consensus/verif_c18_prune_test.go)
   run the real BlockStore / state.Store on a memdb behind a recording wrapper and write, per
   case: the operations, the journal of atomic write steps the implementation performed (keys
   and values parsed back into the structured form of Model.v), the result of the Go-side audit
   (real loaders) on the store re-opened from every prefix of the journal, and the final
   contents.  [check] (a) evaluates the property's monitors on the implementation's own journal
   and answers, (b) compares them with the model.  Depends on Model.v only. *)
From Coq Require Import List ZArith NArith Bool.
From TM Require Import Common.Hex Generated.Consts.
From TM Require Export C18.Model.
Import ListNotations.
Open Scope Z_scope.

(* ------------------------------------------------------------------ equality tests *)

Definition bval_eqb (a b : bval) : bool :=
  match a, b with
  | VMeta i t v p, VMeta i' t' v' p' => (i =? i') && Nat.eqb t t' && (v =? v') && (p =? p')
  | VPart i j, VPart i' j' => (i =? i') && (j =? j')
  | VCommit x t, VCommit x' t' => (x =? x') && (t =? t')
  | VHeight h, VHeight h' => h =? h'
  | VDesc x y, VDesc x' y' => (x =? x') && (y =? y')
  | _, _ => false
  end.

Definition oz_eqb (a b : option Z) : bool :=
  match a, b with Some x, Some y => x =? y | None, None => true | _, _ => false end.

Definition sval_eqb (a b : sval) : bool :=
  match a, b with
  | SVVals l v, SVVals l' v' => (l =? l') && oz_eqb v v'
  | SVParams l v, SVParams l' v' => (l =? l') && oz_eqb v v'
  | SVABCI, SVABCI => true
  | SVState n, SVState n' => n =? n'
  | SVLastABCI n, SVLastABCI n' => n =? n'
  | _, _ => false
  end.

Section Eq.
  Variables K V : Type.
  Variable keqb : K -> K -> bool.
  Variable veqb : V -> V -> bool.

  Definition list_eqb {A A'} (eqb : A -> A' -> bool) (a : list A) (b : list A') : bool :=
    Nat.eqb (List.length a) (List.length b) && forallb (fun '(x, y) => eqb x y) (combine a b).

  Definition wop_eqb (a b : wop K V) : bool :=
    match a, b with
    | WPut k v, WPut k' v' => keqb k k' && veqb v v'
    | WDel k, WDel k' => keqb k k'
    | _, _ => false
    end.

  Definition step_eqb (a b : step K V) : bool :=
    match a, b with
    | SSet k v, SSet k' v' => keqb k k' && veqb v v'
    | SSetSync k v, SSetSync k' v' => keqb k k' && veqb v v'
    | SBatch l s, SBatch l' s' => list_eqb wop_eqb l l' && Bool.eqb s s'
    | _, _ => false
    end.

  Definition ov_eqb (a b : option V) : bool :=
    match a, b with Some x, Some y => veqb x y | None, None => true | _, _ => false end.

  (* two association lists bind the same keys to the same values *)
  Definition kv_equiv (a b : kv K V) : bool :=
    forallb (fun e => ov_eqb (get keqb a (fst e)) (get keqb b (fst e))) (a ++ b).

  (* databases after every prefix of a journal: [d; d+s1; d+s1+s2; …] *)
  Fixpoint prefixes (l : list (step K V)) (d : kv K V) : list (kv K V) :=
    match l with
    | [] => [d]
    | s :: r => d :: prefixes r (apply_step keqb d s)
    end.
End Eq.
Arguments list_eqb {A A'}.
Arguments step_eqb {K V}.
Arguments ov_eqb {V}.
Arguments kv_equiv {K V}.
Arguments prefixes {K V}.

Definition zz_eqb (a b : Z * Z) : bool := (fst a =? fst b) && (snd a =? snd b).

Definition mism (b : bool) (code : N) : verdict := if b then V_ok else V_mismatch code.
Definition viol (b : bool) (clause : N) : verdict := if b then V_ok else V_violation clause.

(* ------------------------------------------------------------------ block store cases *)

Definition blockT := (Z * Z * nat * Z * Z * (Z * Z))%type.  (* height, id, parts, vals hash, params hash, LastCommit (blk, tag) *)
Definition mk_commit (c : Z * Z) : commit := {| c_blk := fst c; c_tag := snd c |}.
Definition mk_block (t : blockT) : block :=
  let '(h, id, n, vh, ph, lc) := t in
  {| b_height := h; b_id := id; b_total := n; b_vh := vh; b_ph := ph; b_last := mk_commit lc |}.

(* an operation and its crash point: crash < 0: runs to completion; crash = k >= 0: the process
   dies after k write steps of this operation (k >= number of steps: it completes), after which
   the store is re-opened from the database *)
Inductive bopT :=
| TSave (b : blockT) (seen : Z * Z) (crash : Z)
| TPrune (retain : Z) (crash : Z).

Definition bopT_op (o : bopT) : bop * Z :=
  match o with
  | TSave b s c => (OSave (mk_block b) (mk_commit s), c)
  | TPrune r c => (OPrune r, c)
  end.

(* monomorphic abbreviations used by the harness-written terms (cheaper to elaborate) *)
Definition bS (k : bkey) (v : bval) : bstep := SSet k v.
Definition bY (k : bkey) (v : bval) : bstep := SSetSync k v.
Definition bB (l : list bwop) (b : bool) : bstep := SBatch l b.
Definition bD (k : bkey) : bwop := WDel k.
Definition bP (k : bkey) (v : bval) : bwop := WPut k v.

(* per operation, what the implementation answered: result code (0 ok, 1..3 PruneBlocks error,
   10 SaveBlock panic, 99 crashed), Base(), Height() of the live (or re-opened) store after it,
   number of write steps it performed, Go audit of the live store after it (fail height, reason) *)
Definition bresT := (Z * Z * Z * Z * Z * Z)%type.

(* model run of a history: results and journal *)
Fixpoint run_bops (B : Z) (m : mem) (d : bdb) (ops : list bopT) : list (Z * Z * Z * Z) * list bstep :=
  match ops with
  | [] => ([], [])
  | o :: r =>
    let '(op, crash) := bopT_op o in
    let '(code, m1, l, d1) := bop_run B m d op in
    let crashed := (0 <=? crash) && (crash <? Z.of_nat (List.length l)) in
    let l' := if crashed then firstn (Z.to_nat crash) l else l in
    let d' := if crashed then breplay l' d else d1 in
    let m' := if 0 <=? crash then load_state d' else m1 in
    let '(rs, js) := run_bops B m' d' r in
    (((if crashed then 99 else code), m_base m', m_height m', Z.of_nat (List.length l')) :: rs, l' ++ js)
  end.

(* key -> the height the entry belongs to (hash index entries: the height they point to) *)
Definition entry_height (e : bkey * bval) : option Z :=
  match e with
  | (KMeta h, _) | (KPart h _, _) | (KCommit h, _) | (KSeen h, _) => Some h
  | (KHash _, VHeight h) => Some h
  | _ => None
  end.

(* prune-exactness monitor on databases before/after a completed PruneBlocks(retain) *)
Definition kept_ok (before after : bdb) (retain : Z) : bool :=
  forallb (fun e => match entry_height e with
                    | Some h => if retain <=? h
                                then ov_eqb bval_eqb (bget before (fst e)) (bget after (fst e))
                                else true
                    | None => true
                    end) before.

Definition height_gone (before after : bdb) (h : Z) : bool :=
  match load_meta before h with
  | Some (id, t, _, _) =>
    match bget after (KMeta h), bget after (KCommit h), bget after (KSeen h), bget after (KHash id) with
    | None, None, None, None => forallb (fun i => match bget after (KPart h i) with None => true | _ => false end) (zseq t)
    | _, _, _, _ => false
    end
  | None => match bget after (KMeta h) with None => true | _ => false end
  end.

Definition removed_ok (before after : bdb) (oldbase retain : Z) : bool :=
  forallb (height_gone before after) (map (fun i => oldbase + Z.of_nat i) (seq 0 (Z.to_nat (retain - oldbase)))).

(* walk the operations along the databases after every journal prefix ([dbs] = prefixes of the
   implementation's own journal, head = database before the operation); returns
   (base-moved-ok, kept-ok, removed-ok, memory=descriptor ok) *)
Fixpoint prune_monitor (ops : list bopT) (res : list bresT) (dbs : list bdb)
  : bool * bool * bool * bool :=
  match ops, res with
  | o :: ops', (code, base, height, n, _, _) :: res' =>
    let d := hd [] dbs in
    let dbs' := skipn (Z.to_nat n) dbs in
    let d' := hd [] dbs' in
    let '(a, b, c, e) := prune_monitor ops' res' dbs' in
    let mem_ok := zz_eqb (m_base (load_state d'), m_height (load_state d')) (base, height) in
    match o with
    | TPrune r _ =>
      if code =? 0 then
        let old := load_state d in
        (a && zz_eqb (base, height) (r, m_height old), b && kept_ok d d' r,
         c && removed_ok d d' (m_base old) r, e && mem_ok)
      else if code =? 99 then (a, b, c, e && mem_ok)
      else (a, b && kv_equiv bkey_eqb bval_eqb d d', c, e && mem_ok)
    | _ => (a, b, c, e && mem_ok)
    end
  | _, _ => (true, true, true, true)
  end.

Definition audit4 (d : bdb) : Z * Z * Z * Z :=
  let m := load_state d in let '(h, r) := audit d in (m_base m, m_height m, h, r).
Definition q4_eqb (a b : Z * Z * Z * Z) : bool :=
  let '(a1, a2, a3, a4) := a in let '(b1, b2, b3, b4) := b in
  (a1 =? b1) && (a2 =? b2) && (a3 =? b3) && (a4 =? b4).
Definition q4_ok (a : Z * Z * Z * Z) : bool := let '(_, _, h, r) := a in (h =? 0) && (r =? 0).
Definition bres_model_eqb (m : Z * Z * Z * Z) (i : bresT) : bool :=
  let '(c, b, h, n) := m in let '(c', b', h', n', _, _) := i in
  (c =? c') && (b =? b') && (h =? h') && (n =? n').
Definition bres_live_ok (i : bresT) : bool := let '(_, _, _, _, fh, fr) := i in (fh =? 0) && (fr =? 0).

(* compact journal of the large pruning case: deletions only *)
Inductive cstep :=
| BD (base height : Z)                 (* SetSync of the range descriptor *)
| BB (dels : list (Z * Z * Z)).        (* WriteSync of a batch of deletions (kind, a, b) *)
Definition ckey (t : Z * Z * Z) : bkey :=
  let '(k, a, b) := t in
  if k =? 1 then KMeta a else if k =? 2 then KHash a else if k =? 3 then KCommit a
  else if k =? 4 then KSeen a else KPart a b.
Definition cstep_step (c : cstep) : bstep :=
  match c with
  | BD b h => SSetSync KDesc (VDesc b h)
  | BB l => SBatch (map (fun t => WDel (ckey t)) l) true
  end.

(* the chain of the large case: heights 1..n, id = height, one part, LastCommit (h-1, 0), seen (h, 1) *)
Definition big_block (h : Z) : bopT := TSave (h, h, 1%nat, 1, 1, (h - 1, 0)) (h, 1) (-1).

(* ------------------------------------------------------------------ state store cases *)

Definition sstateT := (Z * Z * Z * Z * Z * Z * Z)%type.  (* last, initial, vals, next vals, lhvc, params, lhpc *)
Definition mk_sstate (t : sstateT) : sstate :=
  let '(a, b, c, d, e, f, g) := t in
  {| s_last := a; s_initial := b; s_vals := c; s_next_vals := d; s_lhvc := e; s_params := f; s_lhpc := g |}.

Inductive sopT :=
| TSSave (last initial vals next_vals lhvc params lhpc : Z) (crash : Z)
| TSPrune (from to : Z) (crash : Z).
Definition sopT_op (o : sopT) : sop * Z :=
  match o with
  | TSSave a b c d e f g cr => (SOSave (mk_sstate (a, b, c, d, e, f, g)), cr)
  | TSPrune f t c => (SOPrune f t, c)
  end.

(* monomorphic abbreviations used by the harness-written terms (cheaper to elaborate) *)
Definition sS (k : skey) (v : sval) : sstep := SSet k v.
Definition sY (k : skey) (v : sval) : sstep := SSetSync k v.
Definition sB (l : list swop) (b : bool) : sstep := SBatch l b.
Definition sD (k : skey) : swop := WDel k.
Definition sP (k : skey) (v : sval) : swop := WPut k v.

(* run-length decoding of per-prefix lists: (count, a, b) *)
Definition rle (l : list (Z * Z * Z)) : list (Z * Z) :=
  flat_map (fun '(n, a, b) => repeat (a, b) (Z.to_nat n)) l.

Fixpoint run_sops (K B : Z) (d : sdb) (ops : list sopT) : list (Z * Z) * list sstep :=
  match ops with
  | [] => ([], [])
  | o :: r =>
    let '(op, crash) := sopT_op o in
    let '(code, l) := sop_run K B d op in
    let crashed := (0 <=? crash) && (crash <? Z.of_nat (List.length l)) in
    let l' := if crashed then firstn (Z.to_nat crash) l else l in
    let d' := sreplay l' d in
    let '(rs, js) := run_sops K B d' r in
    (((if crashed then 99 else code), Z.of_nat (List.length l')) :: rs, l' ++ js)
  end.

(* the heights that must resolve while / after each operation runs, given by the harness from the
   block store range it emulates: one (lo, hi) per journal prefix *)
Definition saudit_at (K : Z) (d : sdb) (rng : Z * Z) : Z * Z := saudit K d (fst rng) (snd rng).

(* resolved hashes agree with the chain's (expected hash lists are indexed from lo) *)
Definition resolved_hashes (K : Z) (d : sdb) (lo hi : Z) : list (Z * Z) :=
  map (fun i => let h := lo + Z.of_nat i in
                (match load_validators K d h with Some v => v | None => -1 end,
                 match load_consensus_params d h with Some (Some p) => p | _ => -1 end))
      (seq 0 (Z.to_nat (hi - lo + 1))).

(* ------------------------------------------------------------------ composite prune cases
   (harness/overlay/consensus/verif_c18_prune_test.go: the real pruneBlocks method of consensus.State
   over a real store.BlockStore and a real state.Store on two recording / fault-injecting
   databases, the chain produced by SaveBlock + BlockExecutor.ApplyBlock) *)

Definition xb (s : bstep) : xstep := XB s.
Definition xs (s : sstep) : xstep := XS s.

Definition xstep_eqb (a b : xstep) : bool :=
  match a, b with
  | XB s, XB s' => step_eqb bkey_eqb bval_eqb s s'
  | XS s, XS s' => step_eqb skey_eqb sval_eqb s s'
  | _, _ => false
  end.

(* one step of the node's life:
   XGenesis: Save(genesis state);
   XBlock:   SaveBlock(block, parts, seen commit), then ApplyBlock = SaveABCIResponses(h) and
             Save(state after the block);
   XPrune:   pruneBlocks(retain) with a fault: fk = 0 none; fk = 1 the process dies at its
             fn-th database write (0-based: fn writes are performed), both stores re-opened;
             fk = 2 that write returns an error once (the process goes on with the live stores,
             unless the code panics on it, after which the stores are re-opened) *)
Inductive xopT :=
| XGenesis (st : sstateT)
| XBlock (b : blockT) (seen : Z * Z) (st : sstateT)
| XPrune (retain fk fn : Z).

(* result code (0 nil; 1..3 PruneBlocks refused; 7 PruneBlocks failed otherwise; 21..25
   PruneStates error; 10 SaveBlock panicked / Save failed; 98 panic; 99 crashed), Base(),
   Height() of the live (or re-opened) block store, number of write steps *)
Definition xresT := (Z * Z * Z * Z)%type.

Definition xprune_run (K B : Z) (m : mem) (d : xdb) (r fk fn : Z) : Z * mem * list xstep :=
  let '(c, m1, l) := composite_prune K B m (fst d) (snd d) r in
  if (0 <? fk) && (0 <=? fn) && (fn <? Z.of_nat (List.length l)) then
    let l' := firstn (Z.to_nat fn) l in
    let code := if fk =? 1 then 99
                else match nth_error l (Z.to_nat fn) with
                     | Some (XB (SBatch _ _)) => 7       (* batch.WriteSync failed: PruneBlocks returns the error *)
                     | Some (XB _) => 98                 (* saveState panics *)
                     | Some (XS _) => 25                 (* batch.Write / WriteSync failed: PruneStates returns the error *)
                     | None => 97
                     end in
    (code, load_state (fst (xreplay l' d)), l')
  else (c, m1, l).

Definition xop_run (K B : Z) (m : mem) (d : xdb) (o : xopT) : Z * mem * list xstep :=
  match o with
  | XGenesis st =>
    let '(sl, ok) := state_save K (mk_sstate st) in ((if ok then 0 else 10), m, map XS sl)
  | XBlock b seen st =>
    match save_block m (mk_block b) (mk_commit seen) with
    | None => (10, m, [])
    | Some (m1, bl) =>
      let '(sl, ok) := state_save K (mk_sstate st) in
      ((if ok then 0 else 10), m1, map XB bl ++ map XS (save_abci (b_height (mk_block b)) ++ sl))
    end
  | XPrune r fk fn => xprune_run K B m d r fk fn
  end.

Fixpoint run_xops (K B : Z) (m : mem) (d : xdb) (ops : list xopT) : list xresT * list xstep :=
  match ops with
  | [] => ([], [])
  | o :: r =>
    let '(code, m', l) := xop_run K B m d o in
    let '(rs, js) := run_xops K B m' (xreplay l d) r in
    ((code, m_base m', m_height m', Z.of_nat (List.length l)) :: rs, l ++ js)
  end.

Fixpoint xprefixes (l : list xstep) (d : xdb) : list xdb :=
  match l with
  | [] => [d]
  | s :: r => d :: xprefixes r (xapply d s)
  end.

(* the journal prefixes at which both stores are audited: after every operation, and after every
   write step of a pruneBlocks *)
Fixpoint audit_points (ops : list xopT) (res : list xresT) (start : Z) : list Z :=
  match ops, res with
  | o :: ops', (_, _, _, n) :: res' =>
    (match o with
     | XPrune _ _ _ => map (fun i => start + Z.of_nat i) (seq 0 (S (Z.to_nat n)))
     | _ => [start + n]
     end) ++ audit_points ops' res' (start + n)
  | _, _ => []
  end.

(* an audit: journal prefix, Base(), Height(), block store audit (height, reason), cross-store
   audit (height, reason) *)
Definition xauditT := (Z * Z * Z * Z * Z * Z * Z)%type.
Definition xaudit7 (K : Z) (k : Z) (d : xdb) : xauditT :=
  let m := load_state (fst d) in
  let '(bh, br) := audit (fst d) in
  let '(sh, sr) := xaudit K d in
  (k, m_base m, m_height m, bh, br, sh, sr).
Definition xa_eqb (a b : xauditT) : bool :=
  let '(a1, a2, a3, a4, a5, a6, a7) := a in let '(b1, b2, b3, b4, b5, b6, b7) := b in
  (a1 =? b1) && (a2 =? b2) && (a3 =? b3) && (a4 =? b4) && (a5 =? b5) && (a6 =? b6) && (a7 =? b7).
Definition xa_block_ok (a : xauditT) : bool := let '(_, _, _, bh, br, _, _) := a in (bh =? 0) && (br =? 0).
Definition xa_state_ok (a : xauditT) : bool := let '(_, _, _, _, _, sh, sr) := a in (sh =? 0) && (sr =? 0).
Definition xres_eqb (a b : xresT) : bool :=
  let '(a1, a2, a3, a4) := a in let '(b1, b2, b3, b4) := b in
  (a1 =? b1) && (a2 =? b2) && (a3 =? b3) && (a4 =? b4).

(* pruneBlocks(retain) on the store [old base, height]:
   - no fault injected: retain <= old base: nil error, nothing written; old base < retain <= height:
     nil error, base = retain, height unchanged, and of the state records of the pruned heights
     [old base, retain) only those PruneStates must keep for the record of [retain]
     (LastHeightChanged and the last checkpoint) are left; retain > height: nothing written;
   - fault injected but the call completed with a nil error: as above *)
Definition states_removed_ok (K : Z) (sd' : sdb) (lo hi : Z) : bool :=
  let keepV := match load_vals_info sd' hi with
               | Some (l, None) => [l; last_stored_height_for K hi l] | _ => [] end in
  let keepP := match load_params_info sd' hi with Some (l, None) => [l] | _ => [] end in
  forallb (fun i => let h := lo + Z.of_nat i in
                    match sget sd' (SKABCI h) with None => true | _ => false end
                    && match sget sd' (SKVals h) with None => true | _ => zmem h keepV end
                    && match sget sd' (SKParams h) with None => true | _ => zmem h keepP end)
          (seq 0 (Z.to_nat (hi - lo))).

Fixpoint xprune_monitor (K : Z) (ops : list xopT) (res : list xresT) (dbs : list xdb) : bool :=
  match ops, res with
  | o :: ops', (code, base, height, n) :: res' =>
    let d := hd ([], []) dbs in
    let dbs' := skipn (Z.to_nat n) dbs in
    let d' := hd ([], []) dbs' in
    xprune_monitor K ops' res' dbs' &&
    match o with
    | XPrune r fk _ =>
      let old := load_state (fst d) in
      let done := (base =? r) && (height =? m_height old) && states_removed_ok K (snd d') (m_base old) r in
      if fk =? 0 then
        if r <=? m_base old then (code =? 0) && (n =? 0)
        else if r <=? m_height old then (code =? 0) && done
        else n =? 0
      else if code =? 0 then
        (if r <=? m_base old then n =? 0 else done)
      else true
    | _ => true
    end
  | _, _ => true
  end.

Inductive case :=
(* block store history with crash points *)
| CHist (ops : list bopT) (res_i : list bresT) (steps_i : list bstep)
        (audits_i : list (Z * Z * Z * Z))       (* Go audit of the store re-opened from each journal prefix: base, height, fail height, reason *)
        (final_i : list (bkey * bval))
(* n blocks, then prunes (more than one batch); compact journal of the prunes *)
| CBig (n : Z) (prunes : list (Z * Z)) (res_i : list bresT) (steps_i : list cstep)
       (audits_i : list (Z * Z * Z * Z))
(* state store history with crash points; per journal prefix the range that must resolve and
   what the Go-side audit found (fail height, reason); [truth]: per height from [tlo] the
   (validators hash, params hash) of the chain; after the last prefix the hashes resolved by
   the implementation for its final range *)
| CState (ops : list sopT) (res_i : list (Z * Z))
         (skip : Z) (steps_i : list sstep)       (* the journal without its first [skip] steps (large case: the model's steps stand in for them) *)
         (ranges_rle : list (Z * Z * Z)) (audits_rle : list (Z * Z * Z))
         (tlo : Z) (truth : list (Z * Z)) (resolved_i : list (Z * Z))
         (final_i : list (skey * sval))
(* history of a node over both stores with composite prunes; the journal of both databases,
   the Go audits (real loaders on both stores re-opened from the journal prefix) at the audit
   points, the final contents of both databases *)
| CComp (ops : list xopT) (res_i : list xresT) (steps_i : list xstep)
        (audits_i : list xauditT)
        (finalb_i : list (bkey * bval)) (finals_i : list (skey * sval)).

Definition B := prune_batch.
Definition K := valset_checkpoint_interval.

Definition check_bhist (ops : list bopT) (res_i : list bresT) (steps_i : list bstep)
           (audits_i : list (Z * Z * Z * Z)) (final_i : option (list (bkey * bval))) (d0 : bdb) (m0 : mem) : verdict :=
  let '(res_m, steps_m) := run_bops B m0 d0 ops in
  let dbs := prefixes bkey_eqb steps_i d0 in
  let auds := map audit4 dbs in
  let '(pm_base, pm_kept, pm_removed, pm_mem) := prune_monitor ops res_i dbs in
  first_of [
    (* the property on the implementation's answers *)
    viol (forallb q4_ok audits_i && forallb bres_live_ok res_i) 1;
    viol (forallb q4_ok auds) 2;
    viol pm_base 3;
    viol pm_kept 4;
    viol pm_removed 5;
    viol pm_mem 6;
    (* model vs implementation *)
    mism (list_eqb (step_eqb bkey_eqb bval_eqb) steps_m steps_i) 11;
    mism (list_eqb bres_model_eqb res_m res_i) 12;
    mism (list_eqb q4_eqb auds audits_i) 13;
    mism (match final_i with
          | Some f => kv_equiv bkey_eqb bval_eqb (last dbs []) f
          | None => true end) 14 ].

Definition truth_ok (tlo : Z) (truth : list (Z * Z)) (lo : Z) (resolved : list (Z * Z)) : bool :=
  forallb (fun '(i, r) => match nth_error truth (Z.to_nat (lo + Z.of_nat i - tlo)) with
                          | Some t => zz_eqb t r
                          | None => false
                          end) (combine (seq 0 (List.length resolved)) resolved).

Definition check (c : case) : verdict :=
  match c with
  | CHist ops res_i steps_i audits_i final_i =>
    check_bhist ops res_i steps_i audits_i (Some final_i) [] {| m_base := 0; m_height := 0 |}
  | CBig n prunes res_i steps_i audits_i =>
    let saves := map (fun i => big_block (1 + Z.of_nat i)) (seq 0 (Z.to_nat n)) in
    let '(_, js) := run_bops B {| m_base := 0; m_height := 0 |} [] saves in
    let d0 := breplay js [] in
    check_bhist (map (fun p => TPrune (fst p) (snd p)) prunes) res_i (map cstep_step steps_i) audits_i None
                d0 (load_state d0)
  | CState ops res_i skip steps_i0 ranges_rle audits_rle tlo truth resolved_i final_i =>
    let '(res_m, steps_m) := run_sops K B [] ops in
    let steps_i := firstn (Z.to_nat skip) steps_m ++ steps_i0 in
    let ranges := rle ranges_rle in
    let audits_i := rle audits_rle in
    let dbs := prefixes skey_eqb steps_i [] in
    let dfin := sreplay steps_i [] in
    let last_rng := last ranges (1, 0) in
    first_of [
      viol (forallb (fun a => zz_eqb a (0, 0)) audits_i) 7;                      (* Go: every height of the range resolves *)
      viol (forallb (fun '(d, r) => zz_eqb (saudit_at K d r) (0, 0)) (combine dbs ranges)) 8;
      viol (truth_ok tlo truth (fst last_rng) resolved_i) 9;                     (* resolved sets/params are the chain's *)
      mism (list_eqb (step_eqb skey_eqb sval_eqb) steps_m steps_i) 21;
      mism (list_eqb zz_eqb res_m res_i) 22;
      mism (list_eqb zz_eqb (map (fun '(d, r) => saudit_at K d r) (combine dbs ranges)) audits_i) 23;
      mism (list_eqb zz_eqb (resolved_hashes K dfin (fst last_rng) (snd last_rng)) resolved_i) 24;
      mism (kv_equiv skey_eqb sval_eqb dfin final_i) 25 ]
  | CComp ops res_i steps_i audits_i finalb_i finals_i =>
    let m0 := {| m_base := 0; m_height := 0 |} in
    let d0 : xdb := ([], []) in
    let '(res_m, steps_m) := run_xops K B m0 d0 ops in
    let dbs := xprefixes steps_i d0 in
    let pts := audit_points ops res_i 0 in
    let auds := map (fun k => xaudit7 K k (nth (Z.to_nat k) dbs d0)) pts in
    let dfin := last dbs d0 in
    first_of [
      (* the property on the implementation's answers *)
      viol (forallb xa_block_ok audits_i) 1;
      viol (forallb xa_state_ok audits_i) 30;
      viol (forallb xa_block_ok auds) 2;
      viol (forallb xa_state_ok auds) 31;
      viol (xprune_monitor K ops res_i dbs) 32;
      (* model vs implementation *)
      mism (list_eqb xstep_eqb steps_m steps_i) 41;
      mism (list_eqb xres_eqb res_m res_i) 42;
      mism (list_eqb xa_eqb auds audits_i) 43;
      mism (kv_equiv bkey_eqb bval_eqb (fst dfin) finalb_i && kv_equiv skey_eqb sval_eqb (snd dfin) finals_i) 44 ]
  end.
