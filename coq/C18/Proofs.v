(* C18 — proofs.  Part 1: generic key-value facts; Part 2: block store (SaveBlock, PruneBlocks,
   crash prefixes); Part 3: state store (save, PruneStates); Part 4: the composite prune of
   consensus/state.go pruneBlocks over both stores. *)
From Coq Require Import List ZArith Bool Lia.
From TM Require Import Generated.Consts C18.Model.
Import ListNotations.
Open Scope Z_scope.

(* ================================================================== Part 1: key-value facts *)

Section KVfacts.
  Variables K V : Type.
  Variable keqb : K -> K -> bool.
  Hypothesis keqb_eq : forall a b, keqb a b = true <-> a = b.

  Lemma keqb_refl : forall a, keqb a a = true.
  Proof. intro a. apply keqb_eq. reflexivity. Qed.

  Lemma keqb_neq : forall a b, a <> b -> keqb a b = false.
  Proof. intros a b N. destruct (keqb a b) eqn:E; [apply keqb_eq in E; contradiction | reflexivity]. Qed.

  Lemma get_set : forall (d : kv K V) k v k',
      get keqb (set d k v) k' = if keqb k' k then Some v else get keqb d k'.
  Proof. reflexivity. Qed.

  Lemma get_del : forall (d : kv K V) k k',
      get keqb (del keqb d k) k' = if keqb k' k then None else get keqb d k'.
  Proof.
    induction d as [|[k0 v0] d IH]; intros k k'; simpl.
    - destruct (keqb k' k); reflexivity.
    - destruct (keqb k k0) eqn:E; simpl.
      + apply keqb_eq in E. subst k0. rewrite IH.
        destruct (keqb k' k) eqn:E2; reflexivity.
      + rewrite IH. destruct (keqb k' k) eqn:E2; [|reflexivity].
        apply keqb_eq in E2. subst k'. rewrite E. reflexivity.
  Qed.

  Definition is_del (w : wop K V) : Prop := match w with WDel _ => True | WPut _ _ => False end.
  Definition wkey (w : wop K V) : K := match w with WPut k _ => k | WDel k => k end.

  Lemma get_dels_in : forall (ws : list (wop K V)) d k,
      Forall is_del ws -> In (WDel k) ws -> get keqb (fold_left (apply_wop keqb) ws d) k = None.
  Proof.
    assert (Hnone : forall (ws : list (wop K V)) d k, Forall is_del ws -> get keqb d k = None ->
                              get keqb (fold_left (apply_wop keqb) ws d) k = None).
    { induction ws as [|w ws IH]; intros d k F Hn; simpl; [exact Hn|].
      inversion F as [|? ? Hw F']; subst. destruct w as [|k0]; [contradiction|].
      apply IH; [exact F'|]. simpl. rewrite get_del, Hn. destruct (keqb k k0); reflexivity. }
    induction ws as [|w ws IH]; intros d k F I; [contradiction|].
    inversion F as [|? ? Hw F']; subst. simpl. destruct I as [->|I].
    - apply Hnone; [exact F'|]. simpl. rewrite get_del, keqb_refl. reflexivity.
    - apply IH; assumption.
  Qed.

  Lemma get_dels_notin : forall (ws : list (wop K V)) d k,
      Forall is_del ws -> (forall w, In w ws -> wkey w <> k) ->
      get keqb (fold_left (apply_wop keqb) ws d) k = get keqb d k.
  Proof.
    induction ws as [|w ws IH]; intros d k F N; simpl; [reflexivity|].
    inversion F as [|? ? Hw F']; subst. destruct w as [|k0]; [contradiction|].
    rewrite IH; [|exact F'|intros w I; apply N; right; exact I].
    simpl. rewrite get_del. rewrite keqb_neq; [reflexivity|].
    intro E. apply (N (WDel k0)); [left; reflexivity|]. simpl. congruence.
  Qed.

  Lemma replay_app : forall (l1 l2 : list (step K V)) d,
      replay keqb (l1 ++ l2) d = replay keqb l2 (replay keqb l1 d).
  Proof. intros. unfold replay. apply fold_left_app. Qed.
End KVfacts.

Lemma firstn_app_cases : forall {A} (n : nat) (l1 l2 : list A),
    (firstn n (l1 ++ l2) = firstn n l1 /\ (n <= length l1)%nat) \/
    (exists m, firstn n (l1 ++ l2) = l1 ++ firstn m l2 /\ (n = length l1 + m)%nat).
Proof.
  intros A n l1 l2. destruct (Nat.le_gt_cases n (length l1)) as [L|G].
  - left. split; [|exact L]. rewrite firstn_app.
    replace (n - length l1)%nat with 0%nat by lia. simpl. apply app_nil_r.
  - right. exists (n - length l1)%nat. split; [|lia].
    rewrite firstn_app. rewrite firstn_all2 by lia. reflexivity.
Qed.

(* ================================================================== Part 2: block store *)

Lemma bkey_eqb_eq : forall a b, bkey_eqb a b = true <-> a = b.
Proof.
  intros a b; split; intro E.
  - destruct a, b; simpl in E; try discriminate;
      rewrite ?andb_true_iff, ?Z.eqb_eq in E;
      repeat match goal with H : _ /\ _ |- _ => destruct H end; subst; reflexivity.
  - subst b. destruct a; simpl; rewrite ?Z.eqb_refl; reflexivity.
Qed.

Definition bset (d : bdb) (k : bkey) (v : bval) : bdb := set d k v.

Lemma bget_set : forall d k v k', bget (bset d k v) k' = if bkey_eqb k' k then Some v else bget d k'.
Proof. reflexivity. Qed.

Lemma bget_set_same : forall d k v, bget (bset d k v) k = Some v.
Proof. intros. rewrite bget_set. rewrite (keqb_refl _ _ bkey_eqb_eq). reflexivity. Qed.

Lemma bget_set_other : forall d k v k', k' <> k -> bget (bset d k v) k' = bget d k'.
Proof. intros. rewrite bget_set. rewrite (keqb_neq _ _ bkey_eqb_eq) by assumption. reflexivity. Qed.

Definition simple (s : bstep) : Prop := match s with SBatch _ _ => False | _ => True end.
Definition stkey (s : bstep) : bkey := match s with SSet k _ | SSetSync k _ => k | SBatch _ _ => KDesc end.

Lemma bapply_simple : forall d s, simple s ->
    exists v, bapply d s = bset d (stkey s) v.
Proof. intros d [k v|k v|ws b] S; try contradiction; exists v; reflexivity. Qed.

Lemma bget_replay_untouched : forall (l : list bstep) d k,
    (forall s, In s l -> simple s /\ stkey s <> k) -> bget (breplay l d) k = bget d k.
Proof.
  induction l as [|s l IH]; intros d k Hs; [reflexivity|].
  unfold breplay, replay in *. simpl.
  rewrite IH by (intros s' I; apply Hs; right; exact I).
  destruct (Hs s (or_introl eq_refl)) as [S N].
  destruct (bapply_simple d s S) as [v E]. unfold bapply in E. rewrite E.
  apply bget_set_other. congruence.
Qed.

Lemma breplay_app : forall l1 l2 d, breplay (l1 ++ l2) d = breplay l2 (breplay l1 d).
Proof. intros. apply replay_app. Qed.

Lemma breplay_cons : forall s l d, breplay (s :: l) d = breplay l (bapply d s).
Proof. reflexivity. Qed.

(* ---- the consistency predicate (what the audit decides) *)

Definition hgood (d : bdb) (tip h : Z) : Prop :=
  exists id t vh ph,
    load_meta d h = Some (id, t, vh, ph) /\
    (forall i, 0 <= i < Z.of_nat t -> load_part d h i = Some (id, i)) /\
    load_hash d id = Some h /\
    exists c, (if h =? tip then load_seen d h else load_commit d h) = Some c /\ c_blk c = id.

Definition range_good (d : bdb) (base height : Z) : Prop :=
  forall h, base <= h <= height -> hgood d height h.

Definition Consistent (d : bdb) : Prop :=
  let m := load_state d in
  (m_height m = 0 /\ m_base m = 0) \/
  (1 <= m_base m <= m_height m /\ range_good d (m_base m) (m_height m)).

(* ---- audit decides Consistent *)

Lemma in_zseq : forall n i, In i (zseq n) <-> 0 <= i < Z.of_nat n.
Proof.
  intros n i. unfold zseq. rewrite in_map_iff. split.
  - intros [x [E I]]. apply in_seq in I. lia.
  - intros R. exists (Z.to_nat i). split; [lia|]. apply in_seq. lia.
Qed.

Lemma part_ok_spec : forall d h id i, part_ok d h id i = true <-> load_part d h i = Some (id, i).
Proof.
  intros. unfold part_ok. destruct (load_part d h i) as [[id' j]|]; [|split; discriminate].
  rewrite andb_true_iff, !Z.eqb_eq. split; [intros [-> ->]; reflexivity | intro E; inversion E; auto].
Qed.

Lemma audit_height_spec : forall d tip h, audit_height d tip h = 0 <-> hgood d tip h.
Proof.
  intros d tip h. unfold audit_height, hgood, load_block.
  destruct (load_meta d h) as [[[[id t] vh] ph]|] eqn:M.
  2:{ split; [discriminate|]. intros (?&?&?&?&E&_). discriminate. }
  destruct (forallb (part_ok d h id) (zseq t)) eqn:P.
  - rewrite forallb_forall in P. rewrite Z.eqb_refl. simpl.
    destruct (load_hash d id) as [h'|] eqn:HH.
    2:{ split; [discriminate|]. intros (?&?&?&?&E&_&E2&_). inversion E; subst. congruence. }
    destruct (h' =? h) eqn:Eh; simpl.
    2:{ split; [discriminate|]. intros (?&?&?&?&E&_&E2&_). inversion E; subst.
        rewrite HH in E2. inversion E2. subst. rewrite Z.eqb_refl in Eh. discriminate. }
    apply Z.eqb_eq in Eh. subst h'.
    destruct (if h =? tip then load_seen d h else load_commit d h) as [c|] eqn:C.
    2:{ split; [discriminate|]. intros (?&?&?&?&_&_&_&c&E&_). discriminate. }
    destruct (c_blk c =? id) eqn:Ec.
    + apply Z.eqb_eq in Ec. split; [|reflexivity]. intros _.
      exists id, t, vh, ph. split; [reflexivity|]. split.
      { intros i R. apply part_ok_spec. apply P. apply in_zseq. exact R. }
      split; [exact HH|]. exists c. split; [first [reflexivity | exact C] | exact Ec].
    + split; [discriminate|]. intros (?&?&?&?&E&_&_&c'&E2&E3). inversion E; subst.
      inversion E2; subst. rewrite Z.eqb_refl in Ec. discriminate.
  - split; [discriminate|]. intros (id'&t'&?&?&E&Pa&_). inversion E; subst.
    assert (forallb (part_ok d h id') (zseq t') = true); [|congruence].
    apply forallb_forall. intros i I. apply part_ok_spec. apply Pa. apply in_zseq. exact I.
Qed.

Lemma audit_range_spec : forall d tip n h,
    audit_range d tip n h = (0, 0) <-> (forall x, h <= x < h + Z.of_nat n -> hgood d tip x).
Proof.
  intros d tip n. induction n as [|n IH]; intro h.
  - simpl. split; [intros _ x R; lia | reflexivity].
  - cbn [audit_range]. destruct (audit_height d tip h =? 0) eqn:E.
    + apply Z.eqb_eq in E. rewrite IH. split.
      * intros Hx x R. destruct (Z.eq_dec x h) as [->|N]; [apply audit_height_spec; exact E|].
        apply Hx. lia.
      * intros Hx x R. apply Hx. lia.
    + split.
      * intro Eq. inversion Eq; subst. rewrite H1 in E. discriminate.
      * intros Hx. assert (G : hgood d tip h) by (apply Hx; lia).
        apply audit_height_spec in G. rewrite G in E. discriminate.
Qed.

Lemma audit_spec : forall d, audit d = (0, 0) <-> Consistent d.
Proof.
  intro d. unfold audit, Consistent, range_good. set (m := load_state d).
  destruct (m_height m =? 0) eqn:H0.
  - apply Z.eqb_eq in H0. destruct (m_base m =? 0) eqn:B0.
    + apply Z.eqb_eq in B0. split; [intros _; left; auto | reflexivity].
    + apply Z.eqb_neq in B0. split; [discriminate|]. intros [[_ E]|[R _]]; [contradiction|lia].
  - apply Z.eqb_neq in H0.
    destruct ((m_base m <? 1) || (m_height m <? m_base m)) eqn:R.
    + split; [discriminate|]. apply orb_true_iff in R. rewrite !Z.ltb_lt in R.
      intros [[E _]|[R' _]]; [contradiction|lia].
    + apply orb_false_iff in R. rewrite !Z.ltb_ge in R. rewrite audit_range_spec. split.
      * intros Hx. right. split; [lia|]. intros h Rh. apply Hx. lia.
      * intros [[E _]|[_ Hx]]; [contradiction|]. intros x Rx. apply Hx. lia.
Qed.

(* ---- frame: hgood only looks at the keys of its height *)

(* keys that hgood d tip h reads, given the id and part count recorded in the meta of h *)
Definition reads (tip h id : Z) (t : nat) (k : bkey) : Prop :=
  k = KMeta h \/ (exists i, 0 <= i < Z.of_nat t /\ k = KPart h i) \/ k = KHash id \/
  k = (if h =? tip then KSeen h else KCommit h).

Lemma hgood_ext : forall d d' tip h,
    hgood d tip h ->
    (forall id t vh ph k, load_meta d h = Some (id, t, vh, ph) -> reads tip h id t k -> bget d' k = bget d k) ->
    hgood d' tip h.
Proof.
  intros d d' tip h (id&t&vh&ph&M&P&HH&c&C&Ec) F.
  assert (Fk : forall k, reads tip h id t k -> bget d' k = bget d k) by (intros k; apply (F id t vh ph k M)).
  exists id, t, vh, ph. unfold load_meta, load_part, load_hash, load_seen, load_commit in *.
  split; [rewrite Fk by (left; reflexivity); exact M|].
  split; [intros i R; rewrite Fk by (right; left; exists i; auto); apply P; exact R|].
  split; [rewrite Fk by (right; right; left; reflexivity); exact HH|].
  exists c. split; [|exact Ec].
  destruct (h =? tip) eqn:E.
  - rewrite Fk by (right; right; right; rewrite E; reflexivity). exact C.
  - rewrite Fk by (right; right; right; rewrite E; reflexivity). exact C.
Qed.

(* ids of two good heights are different: the hash index is a function *)
Lemma good_ids_distinct : forall d tip h1 h2 id t1 v1 p1 t2 v2 p2,
    hgood d tip h1 -> hgood d tip h2 ->
    load_meta d h1 = Some (id, t1, v1, p1) -> load_meta d h2 = Some (id, t2, v2, p2) -> h1 = h2.
Proof.
  intros d tip h1 h2 id t1 v1 p1 t2 v2 p2 (i1&?&?&?&M1&_&H1&_) (i2&?&?&?&M2&_&H2&_) E1 E2.
  rewrite E1 in M1. rewrite E2 in M2. inversion M1; inversion M2; subst. congruence.
Qed.

Lemma load_state_ext : forall d d', bget d' KDesc = bget d KDesc -> load_state d' = load_state d.
Proof. intros d d' E. unfold load_state. rewrite E. reflexivity. Qed.

(* ---- SaveBlock *)

Definition wf (m : mem) (d : bdb) : Prop := m = load_state d /\ Consistent d.

(* what the callers of SaveBlock guarantee (consensus finalizeCommit, blockchain reactors):
   a positive height, a seen commit for this block, a block hash different from the hashes of
   the stored blocks (the header hash covers the height), and LastCommit committing the block
   stored at the tip (block validation, C06). *)
Definition save_ok (d : bdb) (b : block) (seen : commit) : Prop :=
  let m := load_state d in
  1 <= b_height b /\ c_blk seen = b_id b /\
  (forall h id t vh ph, m_base m <= h <= m_height m ->
                        load_meta d h = Some (id, t, vh, ph) -> id <> b_id b) /\
  (forall id t vh ph, 0 < m_base m -> load_meta d (m_height m) = Some (id, t, vh, ph) ->
                      c_blk (b_last b) = id).

Definition part_steps (h id : Z) (l : list Z) : list bstep :=
  map (fun i => SSet (KPart h i) (VPart id i)) l.

Lemma part_steps_simple : forall h id l s, In s (part_steps h id l) ->
    simple s /\ exists i, In i l /\ stkey s = KPart h i.
Proof.
  intros h id l s I. apply in_map_iff in I. destruct I as [i [<- I]]. split; [exact Logic.I|]. exists i. auto.
Qed.

Lemma bget_parts_in : forall h id l d j, In j l ->
    bget (breplay (part_steps h id l) d) (KPart h j) = Some (VPart id j).
Proof.
  induction l as [|a l IH]; intros d j I; [contradiction|].
  cbn [part_steps map]. rewrite breplay_cons. cbn [bapply apply_step].
  destruct (in_dec Z.eq_dec j l) as [Il|Nl].
  - apply IH. exact Il.
  - destruct I as [->|I]; [|contradiction].
    fold (part_steps h id l). rewrite bget_replay_untouched.
    + apply bget_set_same.
    + intros s Is. destruct (part_steps_simple _ _ _ _ Is) as [S [i [Ii E]]]. split; [exact S|].
      rewrite E. intro Q. inversion Q. subst. contradiction.
Qed.

Lemma load_state_desc : forall d b h, 1 <= b -> 1 <= h ->
    load_state (bset d KDesc (VDesc b h)) = {| m_base := b; m_height := h |}.
Proof.
  intros. unfold load_state. rewrite bget_set_same.
  replace (b =? 0) with false by (symmetry; apply Z.eqb_neq; lia). rewrite andb_false_r. reflexivity.
Qed.

Lemma consistent_base_pos : forall d, Consistent d -> 0 < m_base (load_state d) ->
    1 <= m_base (load_state d) <= m_height (load_state d) /\
    range_good d (m_base (load_state d)) (m_height (load_state d)).
Proof. intros d [[_ E]|R] P; [lia | exact R]. Qed.

Lemma consistent_base_zero : forall d, Consistent d -> m_base (load_state d) = 0 ->
    m_height (load_state d) = 0.
Proof. intros d [[E _]|[R _]] P; [exact E | lia]. Qed.

Definition save_body (b : block) (seen : commit) : list bstep :=
  part_steps (b_height b) (b_id b) (zseq (b_total b))
  ++ [ SSet (KMeta (b_height b)) (VMeta (b_id b) (b_total b) (b_vh b) (b_ph b));
       SSet (KHash (b_id b)) (VHeight (b_height b));
       SSet (KCommit (b_height b - 1)) (VCommit (c_blk (b_last b)) (c_tag (b_last b)));
       SSet (KSeen (b_height b)) (VCommit (c_blk seen) (c_tag seen)) ].

Lemma save_block_shape : forall m b seen m' l,
    save_block m b seen = Some (m', l) ->
    ((0 <? m_base m) && negb (b_height b =? m_height m + 1) = false) /\
    m' = {| m_base := if m_base m =? 0 then b_height b else m_base m; m_height := b_height b |} /\
    l = save_body b seen ++ [desc_step m'].
Proof.
  intros m b seen m' l E. unfold save_block in E.
  destruct ((0 <? m_base m) && negb (b_height b =? m_height m + 1)) eqn:C; [discriminate|].
  inversion E; subst. split; [reflexivity|]. split; [reflexivity|].
  unfold save_body, part_steps. rewrite <- app_assoc. reflexivity.
Qed.

Lemma save_body_keys : forall b seen s, In s (save_body b seen) ->
    simple s /\ ((exists i, stkey s = KPart (b_height b) i) \/ stkey s = KMeta (b_height b) \/
                 stkey s = KHash (b_id b) \/ stkey s = KCommit (b_height b - 1) \/
                 stkey s = KSeen (b_height b)).
Proof.
  intros b seen s I. unfold save_body in I. apply in_app_or in I. destruct I as [I|I].
  - destruct (part_steps_simple _ _ _ _ I) as [S [i [_ E]]]. split; [exact S|]. left. exists i. exact E.
  - cbn in I. destruct I as [<-|[<-|[<-|[<-|[]]]]]; (split; [exact Logic.I|]); cbn; auto.
Qed.

(* the keys written before the descriptor are not read by the audit of the old range *)
Lemma save_body_frame : forall d b seen,
    Consistent d -> save_ok d b seen ->
    (0 <? m_base (load_state d)) && negb (b_height b =? m_height (load_state d) + 1) = false ->
    forall l, (forall s, In s l -> In s (save_body b seen)) ->
    Consistent (breplay l d).
Proof.
  intros d b seen C (Hpos & Hseen & Hfresh & Hlink) Chk l Sub.
  assert (Edesc : bget (breplay l d) KDesc = bget d KDesc).
  { apply bget_replay_untouched. intros s I. destruct (save_body_keys _ _ _ (Sub s I)) as [S K]. split; [exact S|].
    destruct K as [ [i -> ] | [ -> | [ -> | [ -> | -> ] ] ] ]; discriminate. }
  assert (Est := load_state_ext _ _ Edesc).
  unfold Consistent. rewrite Est.
  destruct C as [C|[R G]]; [left; exact C|]. right. split; [exact R|].
  set (m := load_state d) in *.
  assert (Hh : b_height b = m_height m + 1).
  { apply andb_false_iff in Chk. destruct Chk as [Chk|Chk].
    - apply Z.ltb_ge in Chk. lia.
    - apply negb_false_iff in Chk. apply Z.eqb_eq in Chk. exact Chk. }
  intros h Rh. apply (hgood_ext d); [apply G; exact Rh|].
  intros id t vh ph k M Rd. apply bget_replay_untouched.
  intros s I. destruct (save_body_keys _ _ _ (Sub s I)) as [S K]. split; [exact S|].
  intro Q. rewrite Q in K. clear Q.
  destruct Rd as [ -> | [ [i [Ri -> ] ] | [ -> | -> ] ] ].
  - destruct K as [[i K]|[K|[K|[K|K]]]]; try discriminate. inversion K. lia.
  - destruct K as [[i' K]|[K|[K|[K|K]]]]; try discriminate. inversion K. lia.
  - destruct K as [[i' K]|[K|[K|[K|K]]]]; try discriminate. inversion K.
    apply (Hfresh h id t vh ph Rh M). assumption.
  - destruct (h =? m_height m) eqn:E.
    + destruct K as [[i' K]|[K|[K|[K|K]]]]; try discriminate. inversion K. lia.
    + apply Z.eqb_neq in E.
      destruct K as [[i' K]|[K|[K|[K|K]]]]; try discriminate. inversion K. lia.
Qed.

Ltac zeqb_decide :=
  repeat match goal with
         | |- context [?a =? ?b] =>
           first [ replace (a =? b) with true by (symmetry; apply Z.eqb_eq; lia)
                 | replace (a =? b) with false by (symmetry; apply Z.eqb_neq; lia) ]
         end; cbn [andb orb negb].

Lemma save_final_get : forall b seen m' d k,
    bget (breplay (save_body b seen ++ [desc_step m']) d) k =
    if bkey_eqb k KDesc then Some (VDesc (m_base m') (m_height m'))
    else if bkey_eqb k (KSeen (b_height b)) then Some (VCommit (c_blk seen) (c_tag seen))
    else if bkey_eqb k (KCommit (b_height b - 1)) then Some (VCommit (c_blk (b_last b)) (c_tag (b_last b)))
    else if bkey_eqb k (KHash (b_id b)) then Some (VHeight (b_height b))
    else if bkey_eqb k (KMeta (b_height b)) then Some (VMeta (b_id b) (b_total b) (b_vh b) (b_ph b))
    else bget (breplay (part_steps (b_height b) (b_id b) (zseq (b_total b))) d) k.
Proof.
  intros. unfold save_body. rewrite !breplay_app. reflexivity.
Qed.

Lemma parts_untouched : forall h id l d k, (forall i, k <> KPart h i) ->
    bget (breplay (part_steps h id l) d) k = bget d k.
Proof.
  intros. apply bget_replay_untouched. intros s Hs.
  destruct (part_steps_simple _ _ _ _ Hs) as [S [i [_ E]]]. split; [exact S|]. rewrite E. auto.
Qed.

Lemma save_full : forall m d b seen m' l,
    wf m d -> save_ok d b seen -> save_block m b seen = Some (m', l) ->
    Consistent (breplay l d) /\ m' = load_state (breplay l d).
Proof.
  intros m d b seen m' l [Em C] Ok E.
  destruct (save_block_shape _ _ _ _ _ E) as (Chk & Em' & El). subst l.
  destruct Ok as (Hpos & Hseen & Hfresh & Hlink).
  set (D := breplay (save_body b seen ++ [desc_step m']) d).
  assert (Hbase : m_base m = 0 \/ 1 <= m_base m).
  { subst m. destruct C as [[_ E0]|[R _]]; [left; exact E0 | right; lia]. }
  assert (Hb' : 1 <= m_base m' /\ m_height m' = b_height b).
  { subst m'. cbn. split; [|reflexivity]. destruct (m_base m =? 0) eqn:Eb; [lia|].
    apply Z.eqb_neq in Eb. lia. }
  assert (Est : load_state D = m').
  { unfold load_state, D. rewrite save_final_get. cbn [bkey_eqb].
    replace (m_base m' =? 0) with false by (symmetry; apply Z.eqb_neq; lia).
    rewrite andb_false_r. destruct m'; reflexivity. }
  split; [|symmetry; exact Est].
  unfold Consistent. rewrite Est. right. destruct Hb' as [Hb1 Hb2]. split; [rewrite Hb2; subst m'; cbn in *;
    destruct (m_base m =? 0) eqn:Eb; [lia|]|].
  { apply Z.eqb_neq in Eb. apply andb_false_iff in Chk. destruct Chk as [Chk|Chk].
    - apply Z.ltb_ge in Chk. lia.
    - apply negb_false_iff, Z.eqb_eq in Chk. subst m.
      destruct (consistent_base_pos d C) as [R _]; lia. }
  rewrite Hb2. intros h Rh.
  destruct (Z.eq_dec h (b_height b)) as [->|Nh].
  - (* the new block *)
    exists (b_id b), (b_total b), (b_vh b), (b_ph b).
    split; [|split; [|split]].
    + unfold load_meta, D. rewrite save_final_get. cbn [bkey_eqb]. rewrite Z.eqb_refl. reflexivity.
    + intros i Ri. unfold load_part, D. rewrite save_final_get. cbn [bkey_eqb].
      rewrite bget_parts_in by (apply in_zseq; exact Ri). reflexivity.
    + unfold load_hash, D. rewrite save_final_get. cbn [bkey_eqb]. rewrite Z.eqb_refl. reflexivity.
    + exists {| c_blk := c_blk seen; c_tag := c_tag seen |}. rewrite Z.eqb_refl. split; [|exact Hseen].
      unfold load_seen, D. rewrite save_final_get. cbn [bkey_eqb]. rewrite Z.eqb_refl. reflexivity.
  - (* a block of the old range *)
    assert (Hold : 1 <= m_base m /\ b_height b = m_height m + 1 /\ m_base m' = m_base m).
    { subst m'. cbn in Rh |- *. destruct (m_base m =? 0) eqn:Eb; [lia|]. apply Z.eqb_neq in Eb.
      apply andb_false_iff in Chk. destruct Chk as [Chk|Chk].
      - apply Z.ltb_ge in Chk. lia.
      - apply negb_false_iff, Z.eqb_eq in Chk. lia. }
    destruct Hold as (Hb & Hh & Hbb). rewrite Hbb in Rh.
    assert (Rold : m_base m <= h <= m_height m) by lia.
    subst m. destruct (consistent_base_pos d C ltac:(lia)) as [_ G].
    destruct (G h Rold) as (id & t & vh & ph & M & P & HH & c & Cc & Ec).
    assert (Hid : id <> b_id b) by (apply (Hfresh h id t vh ph Rold M)).
    exists id, t, vh, ph. split; [|split; [|split]].
    + unfold load_meta, D. rewrite save_final_get. cbn [bkey_eqb]. zeqb_decide.
      rewrite parts_untouched by discriminate. exact M.
    + intros i Ri. unfold load_part, D. rewrite save_final_get. cbn [bkey_eqb].
      rewrite parts_untouched by (intros i' Q; inversion Q; lia). apply P. exact Ri.
    + unfold load_hash, D. rewrite save_final_get. cbn [bkey_eqb]. zeqb_decide.
      rewrite parts_untouched by discriminate. exact HH.
    + replace (h =? b_height b) with false by (symmetry; apply Z.eqb_neq; lia).
      destruct (h =? m_height (load_state d)) eqn:Et.
      * apply Z.eqb_eq in Et. subst h.
        exists {| c_blk := c_blk (b_last b); c_tag := c_tag (b_last b) |}. split.
        -- unfold load_commit, D. rewrite save_final_get. cbn [bkey_eqb]. zeqb_decide. reflexivity.
        -- cbn. apply (Hlink id t vh ph); [lia | exact M].
      * apply Z.eqb_neq in Et. exists c. split; [|exact Ec].
        unfold load_commit, D. rewrite save_final_get. cbn [bkey_eqb]. zeqb_decide.
        rewrite parts_untouched by discriminate. exact Cc.
Qed.

Lemma in_firstn : forall {A} (n : nat) (l : list A) x, In x (firstn n l) -> In x l.
Proof.
  intros A n l x Hx. rewrite <- (firstn_skipn n l). apply in_or_app. left. exact Hx.
Qed.

Lemma save_prefixes : forall m d b seen m' l,
    wf m d -> save_ok d b seen -> save_block m b seen = Some (m', l) ->
    forall n, Consistent (breplay (firstn n l) d).
Proof.
  intros m d b seen m' l W Ok E n.
  destruct (save_block_shape _ _ _ _ _ E) as (Chk & Em' & El).
  destruct W as [Em C]. subst m.
  rewrite El. destruct (firstn_app_cases n (save_body b seen) [desc_step m']) as [[-> _]|[k [-> _]]].
  - apply (save_body_frame d b seen C Ok Chk). intros s Hs. apply (in_firstn _ _ _ Hs).
  - destruct k as [|k].
    + cbn [firstn]. rewrite app_nil_r. apply (save_body_frame d b seen C Ok Chk). auto.
    + cbn [firstn]. rewrite firstn_nil. rewrite <- El.
      apply (save_full (load_state d) d b seen m' l); [split; [reflexivity|exact C] | exact Ok | exact E].
Qed.

(* ---- PruneBlocks *)

Lemma get_dels_none : forall (ws : list bwop) d k,
    Forall (is_del bkey bval) ws -> bget d k = None ->
    bget (fold_left (apply_wop bkey_eqb) ws d) k = None.
Proof.
  induction ws as [|w ws IH]; intros d k F Hn; simpl; [exact Hn|].
  inversion F as [|? ? Hw F']; subst. destruct w as [|k0]; [contradiction|].
  apply IH; [exact F'|]. simpl. unfold bget. rewrite (get_del _ _ _ bkey_eqb_eq).
  unfold bget in Hn. rewrite Hn. destruct (bkey_eqb k k0); reflexivity.
Qed.

Section Prune.
  Variable B : Z.
  Variable d0 : bdb.
  Variables b0 H : Z.
  Hypothesis Hst : load_state d0 = {| m_base := b0; m_height := H |}.
  Hypothesis Hrange : 1 <= b0 <= H.
  Hypothesis Hgood : range_good d0 b0 H.

  (* the keys PruneBlocks(nb) deletes: everything stored for the heights b0 <= x < nb *)
  Definition dead (nb : Z) (k : bkey) : Prop :=
    match k with
    | KMeta x | KCommit x | KSeen x => b0 <= x < nb
    | KPart x i => b0 <= x < nb /\ exists id t vh ph, load_meta d0 x = Some (id, t, vh, ph) /\ 0 <= i < Z.of_nat t
    | KHash id => exists x t vh ph, b0 <= x < nb /\ load_meta d0 x = Some (id, t, vh, ph)
    | KDesc => False
    end.

  Lemma dead_mono : forall nb nb' k, nb <= nb' -> dead nb k -> dead nb' k.
  Proof.
    intros nb nb' k L D. destruct k; cbn in *; try lia; try exact D.
    - destruct D as [R E]. split; [lia|exact E].
    - destruct D as (x&t&vh&ph&R&E). exists x, t, vh, ph. split; [lia|exact E].
  Qed.

  Record PI (st : pst) (h : Z) : Prop := {
    pi_db : p_db st = breplay (p_steps st) d0;
    pi_mem : p_mem st = load_state (p_db st);
    pi_height : m_height (p_mem st) = H;
    pi_base : b0 <= m_base (p_mem st) <= h;
    pi_cons : Consistent (p_db st);
    pi_batch : forall w, In w (p_batch st) -> exists k, w = WDel k /\ dead h k;
    pi_keep : forall k, k <> KDesc -> ~ dead h k -> bget (p_db st) k = bget d0 k;
    pi_gone : forall k, dead h k -> bget (p_db st) k = None \/ In (WDel k) (p_batch st);
    pi_pref : forall n, Consistent (breplay (firstn n (p_steps st)) d0);
    (* the range descriptor after every prefix of the write steps: base only moves up, to at
       most the height the loop has reached; height never changes *)
    pi_prange : forall n, b0 <= m_base (load_state (breplay (firstn n (p_steps st)) d0)) <= h /\
                          m_height (load_state (breplay (firstn n (p_steps st)) d0)) = H
  }.

  Definition pst0 : pst :=
    {| p_db := d0; p_mem := {| m_base := b0; m_height := H |}; p_batch := []; p_pruned := 0; p_steps := [] |}.

  Lemma cons_d0 : Consistent d0.
  Proof. unfold Consistent. rewrite Hst. right. split; [exact Hrange | exact Hgood]. Qed.

  Lemma dead_empty : forall k, ~ dead b0 k.
  Proof.
    intros k D. destruct k; cbn in D; try lia; try exact D.
    all: try (destruct D as (x&?&?&?&R&_); lia).
  Qed.

  Lemma PI_init : PI pst0 b0.
  Proof.
    constructor; cbn.
    - reflexivity.
    - symmetry. exact Hst.
    - reflexivity.
    - lia.
    - exact cons_d0.
    - intros w [].
    - reflexivity.
    - intros k D. exfalso. exact (dead_empty k D).
    - intros n. rewrite firstn_nil. exact cons_d0.
    - intros n. rewrite firstn_nil. change (breplay [] d0) with d0. rewrite Hst. cbn. lia.
  Qed.

  Lemma range_of_cons : forall d bb, load_state d = {| m_base := bb; m_height := H |} ->
      Consistent d -> 1 <= bb <= H /\ range_good d bb H.
  Proof.
    intros d bb E C. unfold Consistent in C. rewrite E in C. cbn in C.
    destruct C as [[E0 _]|R]; [lia | exact R].
  Qed.

  Lemma reads_not_desc : forall tip h id t k, reads tip h id t k -> k <> KDesc.
  Proof.
    intros tip h id t k [ -> | [ [i [_ -> ] ] | [ -> | -> ] ] ]; try discriminate. destruct (h =? tip); discriminate.
  Qed.

  (* flush(nb) when everything pending belongs to heights below nb *)
  Lemma PI_flush : forall st nb, PI st nb -> nb <= H ->
      PI (flush st nb) nb /\ p_batch (flush st nb) = [] /\ m_base (p_mem (flush st nb)) = nb.
  Proof.
    intros st nb P L. destruct P as [Pdb Pmem Ph Pb Pc Pbatch Pkeep Pgone Ppref Prange].
    set (d := p_db st) in *.
    set (d1 := bset d KDesc (VDesc nb H)).
    set (d2 := fold_left (apply_wop bkey_eqb) (rev (p_batch st)) d1).
    assert (Edb : p_db (flush st nb) = d2).
    { unfold flush, desc_step. cbn. rewrite Ph. reflexivity. }
    assert (Hnb : 1 <= nb) by lia.
    assert (F : Forall (is_del bkey bval) (rev (p_batch st))).
    { apply Forall_forall. intros w Hw. apply in_rev in Hw. destruct (Pbatch w Hw) as [k [-> _]]. exact Logic.I. }
    assert (G1 : forall k, k <> KDesc -> bget d1 k = bget d k) by (intros k N; apply bget_set_other; exact N).
    assert (G2 : forall k, ~ dead nb k -> bget d2 k = bget d1 k).
    { intros k N. apply (get_dels_notin _ _ _ bkey_eqb_eq); [exact F|].
      intros w Hw. apply in_rev in Hw. destruct (Pbatch w Hw) as [k' [-> D]]. cbn. intro E. subst. contradiction. }
    assert (Est1 : load_state d1 = {| m_base := nb; m_height := H |}) by (apply load_state_desc; lia).
    assert (Est2 : load_state d2 = {| m_base := nb; m_height := H |}).
    { rewrite <- Est1. apply load_state_ext. apply G2. intro D. exact D. }
    assert (Estd : load_state d = {| m_base := m_base (p_mem st); m_height := H |}).
    { rewrite <- Pmem. destruct (p_mem st); cbn in *. subst. reflexivity. }
    destruct (range_of_cons d _ Estd Pc) as [Rd Gd].
    assert (C1 : Consistent d1).
    { unfold Consistent. rewrite Est1. cbn. right. split; [lia|].
      intros y Ry. apply (hgood_ext d); [apply Gd; lia|].
      intros id t vh ph k _ Rk. apply G1. apply (reads_not_desc _ _ _ _ _ Rk). }
    assert (C2 : Consistent d2).
    { unfold Consistent. rewrite Est2. cbn. right. split; [lia|].
      destruct (range_of_cons d1 _ Est1 C1) as [_ G1r].
      intros y Ry. apply (hgood_ext d1); [apply G1r; exact Ry|].
      intros id t vh ph k M Rk. apply G2. intro D.
      destruct Rk as [ -> | [ [i [_ -> ] ] | [ -> | -> ] ] ].
      - cbn in D. lia.
      - cbn in D. lia.
      - cbn in D. destruct D as (x&t'&vh'&ph'&Rx&Mx).
        assert (My : load_meta d0 y = Some (id, t, vh, ph)).
        { unfold load_meta in *. rewrite <- (Pkeep (KMeta y)); [|discriminate|cbn; lia].
          fold d. rewrite <- G1 by discriminate. exact M. }
        assert (x = y); [|lia].
        apply (good_ids_distinct d0 H x y id t' vh' ph' t vh ph); [apply Hgood; lia|apply Hgood; lia|exact Mx|exact My].
      - destruct (y =? H); cbn in D; lia. }
    split; [|split].
    - constructor.
      + rewrite Edb. unfold flush. cbn [p_steps]. rewrite breplay_app, <- Pdb. unfold desc_step. cbn. rewrite Ph. reflexivity.
      + rewrite Edb, Est2. unfold flush. cbn. rewrite Ph. reflexivity.
      + unfold flush. cbn. exact Ph.
      + unfold flush. cbn. lia.
      + rewrite Edb. exact C2.
      + unfold flush. cbn. intros w [].
      + rewrite Edb. intros k N ND. rewrite G2 by exact ND. rewrite G1 by exact N. apply Pkeep; assumption.
      + rewrite Edb. intros k D. left.
        assert (N : k <> KDesc) by (intro E; subst; exact D).
        destruct (Pgone k D) as [Hn|Hin].
        * apply get_dels_none; [exact F|]. rewrite G1 by exact N. exact Hn.
        * apply (get_dels_in _ _ _ bkey_eqb_eq); [exact F|]. apply in_rev. rewrite rev_involutive. exact Hin.
      + intros n. unfold flush. cbn [p_steps].
        destruct (firstn_app_cases n (p_steps st) [desc_step {| m_base := nb; m_height := m_height (p_mem st) |};
                                                   SBatch (rev (p_batch st)) true]) as [[-> _]|[k [-> _]]].
        * apply Ppref.
        * rewrite breplay_app, <- Pdb. fold d. destruct k as [|[|k]]; cbn [firstn].
          -- exact Pc.
          -- unfold desc_step. cbn. rewrite Ph. exact C1.
          -- rewrite firstn_nil. unfold desc_step. cbn. rewrite Ph. exact C2.
      + assert (G : forall dd bb, load_state dd = {| m_base := bb; m_height := H |} -> b0 <= bb <= nb ->
                    b0 <= m_base (load_state dd) <= nb /\ m_height (load_state dd) = H)
          by (intros dd bb E Rb; rewrite E; cbn; lia).
        intros n. unfold flush. cbn [p_steps].
        destruct (firstn_app_cases n (p_steps st) [desc_step {| m_base := nb; m_height := m_height (p_mem st) |};
                                                   SBatch (rev (p_batch st)) true]) as [[-> _]|[k [-> _]]].
        * apply Prange.
        * rewrite breplay_app, <- Pdb. fold d. destruct k as [|[|k]]; cbn [firstn].
          -- exact (G d _ Estd Pb).
          -- unfold desc_step. cbn. rewrite Ph. exact (G d1 nb Est1 ltac:(lia)).
          -- rewrite firstn_nil. unfold desc_step. cbn. rewrite Ph. exact (G d2 nb Est2 ltac:(lia)).
    - reflexivity.
    - reflexivity.
  Qed.

  Lemma PI_body : forall st h, PI st h -> h < H -> PI (prune_body B 1 h st) (h + 1).
  Proof.
    intros st h P L.
    assert (P' := P). destruct P' as [Pdb Pmem Ph Pb Pc Pbatch Pkeep Pgone Ppref Prange].
    assert (Estd : load_state (p_db st) = {| m_base := m_base (p_mem st); m_height := H |}).
    { rewrite <- Pmem. destruct (p_mem st); cbn in *. subst. reflexivity. }
    destruct (range_of_cons _ _ Estd Pc) as [Rd Gd].
    assert (Mk : load_meta (p_db st) h = load_meta d0 h).
    { unfold load_meta. rewrite Pkeep; [reflexivity|discriminate|cbn; lia]. }
    destruct (Gd h ltac:(lia)) as (id&t&vh&ph&M&_).
    unfold prune_body. rewrite M.
    set (st1 := {| p_db := p_db st; p_mem := p_mem st;
                   p_batch := rev_append (del_block_wops h id t) (p_batch st);
                   p_pruned := p_pruned st + 1; p_steps := p_steps st |}).
    assert (M0 : load_meta d0 h = Some (id, t, vh, ph)) by (rewrite <- Mk; exact M).
    assert (P1 : PI st1 (h + 1)).
    { constructor; cbn [st1 p_db p_mem p_batch p_steps].
      - exact Pdb.
      - exact Pmem.
      - exact Ph.
      - lia.
      - exact Pc.
      - intros w Hw. rewrite rev_append_rev in Hw. apply in_app_or in Hw. destruct Hw as [Hw|Hw].
        + apply in_rev in Hw. unfold del_block_wops in Hw. cbn [app In] in Hw.
          destruct Hw as [<-|[<-|[<-|[<-|Hw]]]].
          * exists (KMeta h). split; [reflexivity|cbn; lia].
          * exists (KHash id). split; [reflexivity|]. cbn. exists h, t, vh, ph. split; [lia|exact M0].
          * exists (KCommit h). split; [reflexivity|cbn; lia].
          * exists (KSeen h). split; [reflexivity|cbn; lia].
          * apply in_map_iff in Hw. destruct Hw as [i [<- Hi]]. apply in_zseq in Hi.
            exists (KPart h i). split; [reflexivity|]. cbn. split; [lia|].
            exists id, t, vh, ph. split; [exact M0 | exact Hi].
        + destruct (Pbatch w Hw) as [k [E D]]. exists k. split; [exact E|].
          apply (dead_mono h); [lia|exact D].
      - intros k N ND. apply Pkeep; [exact N|]. intro D. apply ND. apply (dead_mono h); [lia|exact D].
      - intros k D.
        assert (Hcase : dead h k \/ In (WDel k) (del_block_wops h id t)).
        { destruct k as [x|x i|x|x|id'|]; cbn in D |- *.
          - destruct (Z.eq_dec x h) as [->|N]; [right; left; reflexivity | left; lia].
          - destruct D as [R (id'&t'&vh'&ph'&Mx&Ri)]. destruct (Z.eq_dec x h) as [->|N].
            + right. rewrite M0 in Mx. inversion Mx; subst.
              right; right; right; right. apply in_map_iff. exists i. split; [reflexivity|apply in_zseq; exact Ri].
            + left. split; [lia|]. exists id', t', vh', ph'. auto.
          - destruct (Z.eq_dec x h) as [->|N]; [right; right; right; left; reflexivity | left; lia].
          - destruct (Z.eq_dec x h) as [->|N]; [right; right; right; right; left; reflexivity | left; lia].
          - destruct D as (x&t'&vh'&ph'&R&Mx). destruct (Z.eq_dec x h) as [->|N].
            + right. rewrite M0 in Mx. inversion Mx; subst. right; left; reflexivity.
            + left. exists x, t', vh', ph'. split; [lia|exact Mx].
          - contradiction. }
        destruct Hcase as [Dh|Hin].
        + destruct (Pgone k Dh) as [Hn|Hb]; [left; exact Hn|].
          right. rewrite rev_append_rev. apply in_or_app. right. exact Hb.
        + right. rewrite rev_append_rev. apply in_or_app. left. apply -> in_rev. exact Hin.
      - exact Ppref.
      - intros n. destruct (Prange n) as [Rb Rh]. split; [lia|exact Rh]. }
    destruct (p_pruned st1 mod B =? 0).
    - apply PI_flush; [exact P1 | lia].
    - exact P1.
  Qed.

  Lemma PI_loop : forall n st h, PI st h -> h + Z.of_nat n <= H ->
      PI (prune_loop B 1 n h st) (h + Z.of_nat n).
  Proof.
    induction n as [|n IH]; intros st h P L; cbn [prune_loop].
    - replace (h + Z.of_nat 0) with h by lia. exact P.
    - replace (h + Z.of_nat (S n)) with ((h + 1) + Z.of_nat n) by lia.
      apply IH; [apply PI_body; [exact P|lia] | lia].
  Qed.
End Prune.

(* PruneBlocks(r) from a consistent store: every prefix of its write steps leaves a consistent
   database, it ends with base = r, deletes exactly the keys of the heights [base, r) and
   changes nothing else but the range descriptor. *)
Lemma prune_ok : forall B m d r,
    wf m d ->
    match prune_blocks B m d r with
    | PErr _ => True
    | POk _ m' l d' =>
      d' = breplay l d /\ m' = load_state d' /\
      m' = {| m_base := r; m_height := m_height m |} /\ m_base m <= r <= m_height m /\
      (forall n, Consistent (breplay (firstn n l) d)) /\ Consistent d' /\
      (forall k, k <> KDesc -> ~ dead d (m_base m) r k -> bget d' k = bget d k) /\
      (forall k, dead d (m_base m) r k -> bget d' k = None)
    end.
Proof.
  intros B m d r [Em C]. unfold prune_blocks, prune_blocks_gen.
  destruct (r <=? 0) eqn:E1; [exact Logic.I|]. apply Z.leb_gt in E1.
  destruct (m_height m <? r) eqn:E2; [exact Logic.I|]. apply Z.ltb_ge in E2.
  destruct (r <? m_base m) eqn:E3; [exact Logic.I|]. apply Z.ltb_ge in E3.
  assert (Hst : load_state d = {| m_base := m_base m; m_height := m_height m |}).
  { rewrite <- Em. destruct m; reflexivity. }
  assert (R : 1 <= m_base m <= m_height m /\ range_good d (m_base m) (m_height m)).
  { unfold Consistent in C. rewrite Hst in C. cbn in C. destruct C as [[E0 _]|R]; [lia|exact R]. }
  destruct R as [R G].
  pose proof (PI_init d (m_base m) (m_height m) Hst R G) as P0.
  pose proof (PI_loop B d (m_base m) (m_height m) Hst R G (Z.to_nat (r - m_base m)) _ _ P0) as P1.
  replace (m_base m + Z.of_nat (Z.to_nat (r - m_base m))) with r in P1 by lia.
  specialize (P1 ltac:(lia)).
  unfold pst0 in P1. replace {| m_base := m_base m; m_height := m_height m |} with m in P1 by (destruct m; reflexivity).
  destruct (PI_flush d (m_base m) (m_height m) Hst R G _ r P1 ltac:(lia)) as (P2 & Eb & Ebase).
  destruct P2 as [Pdb Pmem Ph Pb Pc Pbatch Pkeep Pgone Ppref _].
  split; [exact Pdb|]. split; [exact Pmem|]. split.
  { destruct (p_mem (flush _ r)) as [bb hh]; cbn in *. subst. reflexivity. }
  split; [lia|]. split; [exact Ppref|]. split; [exact Pc|]. split; [exact Pkeep|].
  intros k D. destruct (Pgone k D) as [Hn|Hin]; [exact Hn|]. rewrite Eb in Hin. destruct Hin.
Qed.

(* ---- histories with crashes *)

Definition bop_ok (d : bdb) (o : bop) : Prop :=
  match o with OSave b seen => save_ok d b seen | OPrune _ => True end.

Lemma bop_run_ok : forall B m d o code m' l d',
    wf m d -> bop_ok d o -> bop_run B m d o = (code, m', l, d') ->
    d' = breplay l d /\ wf m' d' /\ forall n, Consistent (breplay (firstn n l) d).
Proof.
  intros B m d o code m' l d' W Ok E. destruct o as [b seen|r]; cbn in E, Ok.
  - destruct (save_block m b seen) as [[m1 l1]|] eqn:S; inversion E; subst.
    + split; [reflexivity|]. destruct (save_full _ _ _ _ _ _ W Ok S) as [C Em]. split; [split; assumption|].
      apply (save_prefixes _ _ _ _ _ _ W Ok S).
    + split; [reflexivity|]. split; [exact W|]. intros n. rewrite firstn_nil. exact (proj2 W).
  - pose proof (prune_ok B m d r W) as P. destruct (prune_blocks B m d r) as [c|pr m1 l1 d1]; inversion E; subst.
    + split; [reflexivity|]. split; [exact W|]. intros n. rewrite firstn_nil. exact (proj2 W).
    + destruct P as (Ed & Em & _ & _ & Pp & C & _). split; [exact Ed|]. split; [split; assumption|exact Pp].
Qed.

(* states reachable by any sequence of SaveBlock / PruneBlocks calls, each of which may be cut
   short by a crash after any number of its write steps, followed by a restart
   (NewBlockStore re-reads the range descriptor) *)
Inductive Reach (B : Z) : mem -> bdb -> Prop :=
| R_init : Reach B {| m_base := 0; m_height := 0 |} []
| R_op : forall m d o code m' l d',
    Reach B m d -> bop_ok d o -> bop_run B m d o = (code, m', l, d') -> Reach B m' d'
| R_crash : forall m d o code m' l d' n,
    Reach B m d -> bop_ok d o -> bop_run B m d o = (code, m', l, d') ->
    Reach B (load_state (breplay (firstn n l) d)) (breplay (firstn n l) d).

Lemma reach_wf : forall B m d, Reach B m d -> wf m d.
Proof.
  intros B m d R. induction R.
  - split; [reflexivity|]. left. split; reflexivity.
  - destruct (bop_run_ok _ _ _ _ _ _ _ _ IHR H H0) as (_ & W & _). exact W.
  - destruct (bop_run_ok _ _ _ _ _ _ _ _ IHR H H0) as (_ & _ & P). split; [reflexivity|apply P].
Qed.

Lemma audit_invariant : forall B m d, Reach B m d -> audit d = (0, 0) /\ m = load_state d.
Proof.
  intros B m d R. destruct (reach_wf _ _ _ R) as [E C]. split; [apply audit_spec; exact C | exact E].
Qed.

Lemma audit_crash_points : forall B m d o code m' l d',
    Reach B m d -> bop_ok d o -> bop_run B m d o = (code, m', l, d') ->
    forall n, audit (breplay (firstn n l) d) = (0, 0).
Proof.
  intros B m d o code m' l d' R Ok E n. apply audit_spec.
  destruct (bop_run_ok _ _ _ _ _ _ _ _ (reach_wf _ _ _ R) Ok E) as (_ & _ & P). apply P.
Qed.

Lemma audit_sound : forall d, audit d = (0, 0) -> Consistent d.
Proof. intros d. apply audit_spec. Qed.

Lemma prune_exact : forall B m d r pruned m' l d',
    Reach B m d -> prune_blocks B m d r = POk pruned m' l d' ->
    d' = breplay l d /\
    load_state d' = {| m_base := r; m_height := m_height m |} /\ m_base m <= r <= m_height m /\
    (forall k, k <> KDesc -> ~ dead d (m_base m) r k -> bget d' k = bget d k) /\
    (forall k, dead d (m_base m) r k -> bget d' k = None).
Proof.
  intros B m d r pruned m' l d' R E. pose proof (prune_ok B m d r (reach_wf _ _ _ R)) as P.
  rewrite E in P. destruct P as (Ed & Em & Em' & Rr & _ & _ & K & G).
  split; [exact Ed|]. split; [congruence|]. split; [exact Rr|]. split; assumption.
Qed.

(* a refused prune writes nothing *)
Lemma prune_refused : forall B m d r c, prune_blocks B m d r = PErr c ->
    bop_run B m d (OPrune r) = (c, m, [], d).
Proof. intros B m d r c E. cbn. rewrite E. reflexivity. Qed.

(* ================================================================== Part 3: state store *)

Lemma ckpt_eq : forall K h t, 0 < K -> h - h mod K < t <= h -> t - t mod K = h - h mod K.
Proof.
  intros K h t HK R.
  rewrite (Z.mod_eq h K), (Z.mod_eq t K) in * by lia.
  assert (E : t / K = h / K).
  { apply Z.le_antisymm.
    - apply Z.div_le_mono; lia.
    - apply Z.div_le_lower_bound; lia. }
  rewrite E. lia.
Qed.

Section LastChanged.
  Variable K : Z.
  Hypothesis HK : 0 < K.
  (* L h = the last height <= h at which the validator set (resp. the parameters) changed *)
  Variable L : Z -> Z.
  Hypothesis L_le : forall h, L h <= h.
  Hypothesis L_stable : forall h x, L h <= x <= h -> L x = L h.

  (* the record a retained height resolves through is either retained itself or is the one
     PruneStates keeps for [to] *)
  Lemma keep_sufficient : forall t h, t <= h ->
      t <= last_stored_height_for K h (L h) \/
      last_stored_height_for K h (L h) = last_stored_height_for K t (L t).
  Proof.
    intros t h R. unfold last_stored_height_for.
    destruct (Z_lt_le_dec (Z.max (h - h mod K) (L h)) t) as [Lt|Ge]; [right|left; exact Ge].
    assert (E1 : L t = L h) by (apply L_stable; pose proof (L_le h); lia).
    assert (E2 : t - t mod K = h - h mod K) by (apply ckpt_eq; lia).
    rewrite E1, E2. reflexivity.
  Qed.

  Lemma keep_sufficient_full : forall t h, t <= h -> (L t = t \/ t mod K = 0) ->
      t <= last_stored_height_for K h (L h).
  Proof.
    intros t h R C. destruct (keep_sufficient t h R) as [G|E]; [exact G|].
    rewrite E. unfold last_stored_height_for. destruct C as [C|C]; [rewrite C|rewrite C]; lia.
  Qed.

  (* PruneStates(from, to) keeps the records LastHeightChanged(to) and
     lastStoredHeightFor(to, LastHeightChanged(to)) when the record of [to] carries no set; any
     database d' that agrees with d on the records at or above [to] and on those two resolves
     every retained height exactly as d does. *)
  Lemma vals_keep_set_sufficient : forall (d d' : sdb) t hi,
      (forall h, t <= h <= hi -> exists o, load_vals_info d h = Some (L h, o) /\
                                           (o <> None -> L h = h \/ h mod K = 0)) ->
      (forall x, t <= x -> load_vals_info d' x = load_vals_info d x) ->
      (forall lt, load_vals_info d t = Some (lt, None) ->
                  load_vals_info d' (last_stored_height_for K t lt) =
                  load_vals_info d (last_stored_height_for K t lt)) ->
      forall h, t <= h <= hi -> load_validators K d' h = load_validators K d h.
  Proof.
    intros d d' t hi Shape Above Keep h R. unfold load_validators.
    rewrite (Above h) by lia. destruct (Shape h R) as [o [E Ho]]. rewrite E.
    destruct o as [v|]; [reflexivity|].
    destruct (keep_sufficient t h ltac:(lia)) as [G|Eq].
    - rewrite (Above _ G). reflexivity.
    - rewrite Eq. destruct (Shape t ltac:(lia)) as [ot [Et Hot]].
      destruct ot as [vt|].
      + pose proof (keep_sufficient_full t h ltac:(lia) (Hot ltac:(discriminate))) as G.
        rewrite <- Eq. rewrite (Above _ G). reflexivity.
      + rewrite (Keep (L t) Et). reflexivity.
  Qed.

  (* the same for the consensus parameters: PruneStates keeps LastHeightChanged(to) *)
  Lemma params_keep_set_sufficient : forall (d d' : sdb) t hi,
      (forall h, t <= h <= hi -> exists o, load_params_info d h = Some (L h, o) /\ (o <> None -> L h = h)) ->
      (forall x, t <= x -> load_params_info d' x = load_params_info d x) ->
      (forall lt, load_params_info d t = Some (lt, None) -> load_params_info d' lt = load_params_info d lt) ->
      forall h, t <= h <= hi -> load_consensus_params d' h = load_consensus_params d h.
  Proof.
    intros d d' t hi Shape Above Keep h R. unfold load_consensus_params.
    rewrite (Above h) by lia. destruct (Shape h R) as [o [E Ho]]. rewrite E.
    destruct o as [v|]; [reflexivity|].
    destruct (Z_lt_le_dec (L h) t) as [Lt|Ge].
    - assert (E1 : L t = L h) by (apply L_stable; lia).
      destruct (Shape t ltac:(lia)) as [ot [Et Hot]]. destruct ot as [vt|].
      + pose proof (Hot ltac:(discriminate)). lia.
      + rewrite <- E1. rewrite (Keep (L t) Et). reflexivity.
    - rewrite (Above _ Ge). reflexivity.
  Qed.
End LastChanged.

(* dbStore.save writes the records the invariant above asks for *)
Lemma state_save_writes : forall K st l,
    state_save K st = (l, true) -> s_last st + 1 <> 1 ->
    l = [ SSet (SKVals (s_last st + 2))
               (SVVals (s_lhvc st) (if (s_last st + 2 =? s_lhvc st) || ((s_last st + 2) mod K =? 0)
                                    then Some (s_next_vals st) else None));
          SSet (SKParams (s_last st + 1))
               (SVParams (s_lhpc st) (if s_lhpc st =? s_last st + 1 then Some (s_params st) else None));
          SSetSync SKState (SVState (s_last st)) ].
Proof.
  intros K st l E N. unfold state_save in E.
  replace (s_last st + 1 =? 1) with false in E by (symmetry; apply Z.eqb_neq; exact N).
  unfold save_vals_info in E. destruct (s_last st + 1 + 1 <? s_lhvc st); [discriminate|].
  inversion E. unfold save_params_info. replace (s_last st + 1 + 1) with (s_last st + 2) by lia. reflexivity.
Qed.

(* ================================================================== Part 4: the composite prune *)

(* ---- PruneBlocks: the range descriptor after every prefix of its write steps *)
Lemma prune_prefix_range : forall B m d r pruned m' l d',
    wf m d -> prune_blocks B m d r = POk pruned m' l d' ->
    m_base m <= r <= m_height m /\
    load_state (breplay l d) = {| m_base := r; m_height := m_height m |} /\
    forall n, m_base m <= m_base (load_state (breplay (firstn n l) d)) <= r /\
              m_height (load_state (breplay (firstn n l) d)) = m_height m.
Proof.
  intros B m d r pruned m' l d' [Em C] E. unfold prune_blocks, prune_blocks_gen in E.
  destruct (r <=? 0) eqn:E1; [discriminate|]. apply Z.leb_gt in E1.
  destruct (m_height m <? r) eqn:E2; [discriminate|]. apply Z.ltb_ge in E2.
  destruct (r <? m_base m) eqn:E3; [discriminate|]. apply Z.ltb_ge in E3.
  assert (Hst : load_state d = {| m_base := m_base m; m_height := m_height m |}).
  { rewrite <- Em. destruct m; reflexivity. }
  assert (R : 1 <= m_base m <= m_height m /\ range_good d (m_base m) (m_height m)).
  { unfold Consistent in C. rewrite Hst in C. cbn in C. destruct C as [[E0 _]|R]; [lia|exact R]. }
  destruct R as [R G].
  pose proof (PI_init d (m_base m) (m_height m) Hst R G) as P0.
  pose proof (PI_loop B d (m_base m) (m_height m) Hst R G (Z.to_nat (r - m_base m)) _ _ P0) as P1.
  replace (m_base m + Z.of_nat (Z.to_nat (r - m_base m))) with r in P1 by lia.
  specialize (P1 ltac:(lia)).
  unfold pst0 in P1. replace {| m_base := m_base m; m_height := m_height m |} with m in P1 by (destruct m; reflexivity).
  destruct (PI_flush d (m_base m) (m_height m) Hst R G _ r P1 ltac:(lia)) as (P2 & Eb & Ebase).
  destruct P2 as [Pdb Pmem Ph Pb Pc Pbatch Pkeep Pgone Ppref Prange].
  assert (El : l = p_steps (flush (prune_loop B 1 (Z.to_nat (r - m_base m)) (m_base m)
                   {| p_db := d; p_mem := m; p_batch := []; p_pruned := 0; p_steps := [] |}) r))
    by (inversion E; reflexivity).
  split; [lia|]. rewrite El. split.
  - rewrite <- Pdb, <- Pmem. destruct (p_mem (flush _ r)) as [bb hh]; cbn in *. rewrite Ph, Ebase. reflexivity.
  - exact Prange.
Qed.

(* ---- PruneStates: its write steps only delete records below [to] outside the keep set *)

Lemma skey_eqb_eq : forall a b, skey_eqb a b = true <-> a = b.
Proof.
  intros a b; split; intro E.
  - destruct a, b; simpl in E; try discriminate; rewrite ?Z.eqb_eq in E; subst; reflexivity.
  - subst b. destruct a; simpl; rewrite ?Z.eqb_refl; reflexivity.
Qed.

Lemma zmem_spec : forall x l, zmem x l = true <-> In x l.
Proof.
  intros x l. unfold zmem. rewrite existsb_exists. split.
  - intros [y [I E]]. apply Z.eqb_eq in E. subst. exact I.
  - intros I. exists x. split; [exact I|apply Z.eqb_refl].
Qed.

Lemma sreplay_app : forall l1 l2 d, sreplay (l1 ++ l2) d = sreplay l2 (sreplay l1 d).
Proof. intros. apply replay_app. Qed.

Section SPrune.
  Variables K B : Z.
  Variable d : sdb.
  Variables from to : Z.
  Variables keepV keepP : list Z.

  (* the records a retained height may resolve through *)
  Definition sprot (k : skey) : Prop :=
    match k with
    | SKVals x => to <= x \/ In x keepV
    | SKParams x => to <= x \/ In x keepP
    | SKABCI x => to <= x
    | SKState | SKLastABCI => True
    end.
  Definition harmless (w : swop) : Prop := match w with WDel k => ~ sprot k | WPut _ _ => False end.
  Definition hstep (s : sstep) : Prop := match s with SBatch ws _ => Forall harmless ws | _ => False end.

  (* the kept records already carry their set / parameters (save() writes them so: the record at
     LastHeightChanged and the one at a checkpoint height are full) *)
  Hypothesis HkV : forall x, In x keepV -> from <= x < to -> exists l v, load_vals_info d x = Some (l, Some v).
  Hypothesis HkP : forall x, In x keepP -> from <= x < to -> exists l p, load_params_info d x = Some (l, Some p).

  Lemma harmless_dels : forall ws, Forall harmless ws -> Forall (is_del skey sval) ws.
  Proof.
    intros ws F. induction F as [|w ws Hw F IH]; constructor; [|exact IH].
    destruct w; [contradiction|exact Logic.I].
  Qed.

  Lemma sget_hstep : forall s dd k, hstep s -> sprot k -> sget (sapply dd s) k = sget dd k.
  Proof.
    intros [k0 v|k0 v|ws b] dd k Hs Pk; try contradiction. cbn in Hs.
    unfold sapply, apply_step, sget.
    apply (get_dels_notin _ _ _ skey_eqb_eq); [apply harmless_dels; exact Hs|].
    intros w I E. rewrite Forall_forall in Hs. specialize (Hs w I).
    destruct w as [k1 v1|k1]; [contradiction|]. cbn in E. subst k1. exact (Hs Pk).
  Qed.

  Lemma sget_hsteps : forall l dd k, Forall hstep l -> sprot k -> sget (sreplay l dd) k = sget dd k.
  Proof.
    induction l as [|s l IH]; intros dd k F Pk; [reflexivity|].
    inversion F as [|? ? Hs F']; subst.
    change (sreplay (s :: l) dd) with (sreplay l (sapply dd s)).
    rewrite IH by assumption. apply sget_hstep; assumption.
  Qed.

  Lemma Forall_firstn : forall {A} (P : A -> Prop) n l, Forall P l -> Forall P (firstn n l).
  Proof.
    intros A P n l F. apply Forall_forall. intros x I. rewrite Forall_forall in F. apply F.
    exact (in_firstn _ _ _ I).
  Qed.

  Record SI (st : sst) : Prop := {
    si_db : q_db st = sreplay (q_steps st) d;
    si_steps : Forall hstep (q_steps st);
    si_batch : Forall harmless (q_batch st)
  }.

  Lemma SI_tail : forall h st (wv wp : list swop), h < to ->
      Forall harmless wv -> Forall harmless wp -> SI st ->
      SI (if (q_pruned st + 1) mod B =? 0
          then {| q_db := sapply (q_db st) (SBatch (rev (rev_append (wv ++ wp ++ [WDel (SKABCI h)]) (q_batch st))) false);
                  q_batch := []; q_pruned := q_pruned st + 1;
                  q_steps := q_steps st ++ [SBatch (rev (rev_append (wv ++ wp ++ [WDel (SKABCI h)]) (q_batch st))) false];
                  q_err := false |}
          else {| q_db := q_db st; q_batch := rev_append (wv ++ wp ++ [WDel (SKABCI h)]) (q_batch st);
                  q_pruned := q_pruned st + 1; q_steps := q_steps st; q_err := false |}).
  Proof.
    intros h st wv wp Hlt Hwv Hwp [Sdb Ss Sb].
    assert (Hb : Forall harmless (rev_append (wv ++ wp ++ [WDel (SKABCI h)]) (q_batch st))).
    { rewrite rev_append_rev. apply Forall_app. split; [|exact Sb]. apply Forall_rev.
      apply Forall_app. split; [exact Hwv|]. apply Forall_app. split; [exact Hwp|].
      constructor; [|constructor]. cbn. lia. }
    destruct ((q_pruned st + 1) mod B =? 0).
    - constructor; cbn [q_db q_steps q_batch].
      + rewrite sreplay_app, <- Sdb. reflexivity.
      + apply Forall_app. split; [exact Ss|]. constructor; [|constructor]. cbn. apply Forall_rev. exact Hb.
      + constructor.
    - constructor; cbn [q_db q_steps q_batch]; assumption.
  Qed.

  Lemma SI_body : forall h st, from <= h < to -> SI st -> SI (sprune_body K B keepV keepP h st).
  Proof.
    intros h st R S. assert (S' := S). destruct S' as [Sdb Ss Sb]. unfold sprune_body.
    destruct (q_err st); [exact S|]. cbv zeta.
    assert (HV0 : Forall harmless (@nil swop)) by constructor.
    assert (HVd : ~ In h keepV -> Forall harmless [@WDel skey sval (SKVals h)]).
    { intros N. constructor; [|constructor]. cbn. intros [G|I]; [lia|contradiction]. }
    assert (HPd : ~ In h keepP -> Forall harmless [@WDel skey sval (SKParams h)]).
    { intros N. constructor; [|constructor]. cbn. intros [G|I]; [lia|contradiction]. }
    assert (Hh : h < to) by lia.
    destruct (zmem h keepV) eqn:ZV.
    - apply zmem_spec in ZV. destruct (HkV h ZV R) as (l & v & E).
      assert (E' : load_vals_info (q_db st) h = Some (l, Some v)).
      { unfold load_vals_info in *. rewrite Sdb, sget_hsteps; [exact E|exact Ss|]. cbn. right. exact ZV. }
      rewrite E'.
      destruct (zmem h keepP) eqn:ZP.
      + apply zmem_spec in ZP. destruct (HkP h ZP R) as (lp & p & Ep).
        assert (Ep' : load_params_info (q_db st) h = Some (lp, Some p)).
        { unfold load_params_info in *. rewrite Sdb, sget_hsteps; [exact Ep|exact Ss|]. cbn. right. exact ZP. }
        rewrite Ep'. apply SI_tail; auto.
      + apply SI_tail; auto. apply HPd. intro I. apply zmem_spec in I. congruence.
    - assert (NV : ~ In h keepV) by (intro I; apply zmem_spec in I; congruence).
      destruct (zmem h keepP) eqn:ZP.
      + apply zmem_spec in ZP. destruct (HkP h ZP R) as (lp & p & Ep).
        assert (Ep' : load_params_info (q_db st) h = Some (lp, Some p)).
        { unfold load_params_info in *. rewrite Sdb, sget_hsteps; [exact Ep|exact Ss|]. cbn. right. exact ZP. }
        rewrite Ep'. apply SI_tail; auto.
      + apply SI_tail; auto. apply HPd. intro I. apply zmem_spec in I. congruence.
  Qed.

  Lemma SI_loop : forall n h st, h < to -> from <= h - Z.of_nat n + 1 -> SI st ->
      SI (sprune_loop K B keepV keepP n h st).
  Proof.
    induction n as [|n IH]; intros h st Hh Hf S; cbn [sprune_loop]; [exact S|].
    apply IH; [lia|lia|]. apply SI_body; [lia|exact S].
  Qed.
End SPrune.

(* every write step of PruneStates(from, to) deletes only records below [to] outside the keep
   set computed from the records of [to]; hence after every prefix of its steps (completed
   call, crash, or an error return) every protected record reads as before *)
Definition keepV_of (K : Z) (d : sdb) (to : Z) : list Z :=
  match load_vals_info d to with
  | Some (vl, None) => [vl; last_stored_height_for K to vl]
  | _ => []
  end.
Definition keepP_of (d : sdb) (to : Z) : list Z :=
  match load_params_info d to with Some (pl, None) => [pl] | _ => [] end.

Lemma prune_states_protected : forall K B d from to code l,
    (forall x, In x (keepV_of K d to) -> from <= x < to -> exists l v, load_vals_info d x = Some (l, Some v)) ->
    (forall x, In x (keepP_of d to) -> from <= x < to -> exists l p, load_params_info d x = Some (l, Some p)) ->
    prune_states K B d from to = (code, l) ->
    forall n k, sprot to (keepV_of K d to) (keepP_of d to) k -> sget (sreplay (firstn n l) d) k = sget d k.
Proof.
  intros K B d from to code l HkV HkP E n k Pk.
  assert (F : Forall (hstep to (keepV_of K d to) (keepP_of d to)) l).
  { unfold prune_states in E.
    destruct ((from <=? 0) || (to <=? 0)); [inversion E; constructor|].
    destruct (to <=? from) eqn:Eft; [inversion E; constructor|]. apply Z.leb_gt in Eft.
    unfold keepV_of, keepP_of in *.
    destruct (load_vals_info d to) as [[vl vv]|]; [|inversion E; constructor].
    destruct (load_params_info d to) as [[pl pp]|]; [|inversion E; constructor].
    set (kV := match vv with None => [vl; last_stored_height_for K to vl] | Some _ => [] end) in *.
    set (kP := match pp with None => [pl] | Some _ => [] end) in *.
    set (st0 := {| q_db := d; q_batch := []; q_pruned := 0; q_steps := []; q_err := false |}) in *.
    assert (S0 : SI d to kV kP st0) by (constructor; cbn; [reflexivity|constructor|constructor]).
    pose proof (SI_loop K B d from to kV kP HkV HkP (Z.to_nat (to - from)) (to - 1) st0
                        ltac:(lia) ltac:(lia) S0) as [Sdb Ss Sb].
    destruct (q_err _); inversion E; subst; [exact Ss|].
    apply Forall_app. split; [exact Ss|]. constructor; [|constructor]. cbn. apply Forall_rev. exact Sb. }
  apply (sget_hsteps to (keepV_of K d to) (keepP_of d to)); [|exact Pk]. apply Forall_firstn. exact F.
Qed.

(* ---- what the state database must look like (the shape save() produces), for the records of
   the heights [to, hi] and for the records PruneStates(from, to) keeps *)
Record StateShape (K : Z) (L Lp : Z -> Z) (sd : sdb) (from to hi : Z) : Prop := {
  ss_L_le : forall h, L h <= h;
  ss_L_stable : forall h x, L h <= x <= h -> L x = L h;
  ss_Lp_le : forall h, Lp h <= h;
  ss_Lp_stable : forall h x, Lp h <= x <= h -> Lp x = Lp h;
  ss_vals : forall h, to <= h <= hi ->
      exists o, load_vals_info sd h = Some (L h, o) /\ (o <> None -> L h = h \/ h mod K = 0);
  ss_params : forall h, to <= h <= hi ->
      exists o, load_params_info sd h = Some (Lp h, o) /\ (o <> None -> Lp h = h);
  ss_keepV : forall x, from <= x < to -> x = L to \/ x = last_stored_height_for K to (L to) ->
      exists l v, load_vals_info sd x = Some (l, Some v);
  ss_keepP : forall x, from <= x < to -> x = Lp to ->
      exists l p, load_params_info sd x = Some (l, Some p)
}.

Lemma prune_states_prefix_resolves : forall K B L Lp sd from to hi code l,
    0 < K -> to <= hi -> StateShape K L Lp sd from to hi ->
    prune_states K B sd from to = (code, l) ->
    forall n h, to <= h <= hi ->
      load_validators K (sreplay (firstn n l) sd) h = load_validators K sd h /\
      load_consensus_params (sreplay (firstn n l) sd) h = load_consensus_params sd h /\
      load_abci (sreplay (firstn n l) sd) h = load_abci sd h.
Proof.
  intros K B L Lp sd from to hi code l HK Hhi [Lle Lst Lple Lpst Sv Sp SkV SkP] E n h R.
  destruct (Sv to ltac:(lia)) as (ot & Et & _). destruct (Sp to ltac:(lia)) as (pt & Ept & _).
  assert (HkV : forall x, In x (keepV_of K sd to) -> from <= x < to -> exists l v, load_vals_info sd x = Some (l, Some v)).
  { intros x I Rx. apply SkV; [exact Rx|]. unfold keepV_of in I. rewrite Et in I.
    destruct ot; [contradiction|]. destruct I as [<-|[<-|[]]]; [left|right]; reflexivity. }
  assert (HkP : forall x, In x (keepP_of sd to) -> from <= x < to -> exists l p, load_params_info sd x = Some (l, Some p)).
  { intros x I Rx. apply SkP; [exact Rx|]. unfold keepP_of in I. rewrite Ept in I.
    destruct pt; [contradiction|]. destruct I as [<-|[]]. reflexivity. }
  pose proof (prune_states_protected K B sd from to code l HkV HkP E n) as Prot.
  split; [|split].
  - apply (vals_keep_set_sufficient K HK L Lle Lst sd _ to hi Sv); [| |exact R].
    + intros x Rx. unfold load_vals_info. rewrite Prot; [reflexivity|]. cbn. left. exact Rx.
    + intros lt Elt. unfold load_vals_info. rewrite Prot; [reflexivity|]. cbn. right.
      unfold keepV_of. rewrite Elt. right; left; reflexivity.
  - apply (params_keep_set_sufficient Lp Lpst sd _ to hi Sp); [| |exact R].
    + intros x Rx. unfold load_params_info. rewrite Prot; [reflexivity|]. cbn. left. exact Rx.
    + intros lt Elt. unfold load_params_info. rewrite Prot; [reflexivity|]. cbn. right.
      unfold keepP_of. rewrite Elt. left; reflexivity.
  - unfold load_abci. rewrite Prot; [reflexivity|]. cbn. lia.
Qed.

(* ---- the composite *)

Lemma xreplay_app : forall l1 l2 d, xreplay (l1 ++ l2) d = xreplay l2 (xreplay l1 d).
Proof. intros. unfold xreplay. apply fold_left_app. Qed.

Lemma xreplay_XB : forall l bd sd, xreplay (map XB l) (bd, sd) = (breplay l bd, sd).
Proof. induction l as [|s l IH]; intros bd sd; [reflexivity|]. cbn. rewrite IH. reflexivity. Qed.

Lemma xreplay_XS : forall l bd sd, xreplay (map XS l) (bd, sd) = (bd, sreplay l sd).
Proof. induction l as [|s l IH]; intros bd sd; [reflexivity|]. cbn. rewrite IH. reflexivity. Qed.

Lemma firstn_map' : forall {A B} (f : A -> B) n l, firstn n (map f l) = map f (firstn n l).
Proof. induction n as [|n IH]; intros [|x l]; cbn; try reflexivity. rewrite IH. reflexivity. Qed.

(* pruneBlocks(retain) in the order of the code (block store first): after every prefix of the
   composite's write steps - a crash at any write of either half, an error return of either
   half, or completion - the block store's base has only moved up, its height is unchanged, and
   every height from the (new) base to height + 1 resolves in the state store exactly as before
   the call. *)
Lemma composite_prune_prefix : forall K B L Lp m bd sd retain code m' steps,
    0 < K -> wf m bd ->
    StateShape K L Lp sd (m_base m) retain (m_height m + 1) ->
    composite_prune K B m bd sd retain = (code, m', steps) ->
    forall n,
      m_base m <= m_base (load_state (fst (xreplay (firstn n steps) (bd, sd)))) /\
      m_height (load_state (fst (xreplay (firstn n steps) (bd, sd)))) = m_height m /\
      forall h, m_base (load_state (fst (xreplay (firstn n steps) (bd, sd)))) <= h <= m_height m + 1 ->
        load_validators K (snd (xreplay (firstn n steps) (bd, sd))) h = load_validators K sd h /\
        load_consensus_params (snd (xreplay (firstn n steps) (bd, sd))) h = load_consensus_params sd h /\
        load_abci (snd (xreplay (firstn n steps) (bd, sd))) h = load_abci sd h.
Proof.
  intros K B L Lp m bd sd retain code m' steps HK W Sh E n.
  assert (Triv : forall n, firstn n (@nil xstep) = []) by (intros; apply firstn_nil).
  assert (Em : load_state bd = m) by (destruct W as [-> _]; reflexivity).
  assert (T : steps = [] ->
    m_base m <= m_base (load_state (fst (xreplay (firstn n steps) (bd, sd)))) /\
    m_height (load_state (fst (xreplay (firstn n steps) (bd, sd)))) = m_height m /\
    forall h, m_base (load_state (fst (xreplay (firstn n steps) (bd, sd)))) <= h <= m_height m + 1 ->
      load_validators K (snd (xreplay (firstn n steps) (bd, sd))) h = load_validators K sd h /\
      load_consensus_params (snd (xreplay (firstn n steps) (bd, sd))) h = load_consensus_params sd h /\
      load_abci (snd (xreplay (firstn n steps) (bd, sd))) h = load_abci sd h).
  { intros ->. rewrite Triv. cbn [xreplay fold_left fst snd]. rewrite Em. repeat split; lia. }
  unfold composite_prune, composite_prune_gen in E.
  destruct (retain <=? m_base m); [inversion E; subst; apply T; reflexivity|].
  destruct (prune_blocks B m bd retain) as [c|pr m1 l d1] eqn:EP; [inversion E; subst; apply T; reflexivity|].
  destruct (prune_states K B sd (m_base m) retain) as [sc sl] eqn:ES.
  assert (Est : steps = map XB l ++ map XS sl) by (inversion E; reflexivity).
  destruct (prune_prefix_range B m bd retain pr m1 l d1 W EP) as (Rr & Efull & Pref).
  rewrite Est.
  destruct (firstn_app_cases n (map XB l) (map XS sl)) as [[-> _]|[k [-> _]]].
  - rewrite firstn_map', xreplay_XB. cbn [fst snd]. destruct (Pref n) as [Rb Rh].
    split; [lia|]. split; [exact Rh|]. intros; repeat split; reflexivity.
  - rewrite xreplay_app, xreplay_XB, firstn_map', xreplay_XS. cbn [fst snd]. rewrite Efull. cbn [m_base m_height].
    split; [lia|]. split; [reflexivity|]. intros h Rh.
    apply (prune_states_prefix_resolves K B L Lp sd (m_base m) retain (m_height m + 1) sc sl HK ltac:(lia) Sh ES k h Rh).
Qed.

(* "every block the block store retains has its state-store records": the validator set of
   every height of [base, height + 1] loads, the consensus parameters and the ABCI responses of
   every height of [base, height] load *)
Definition Covered (K : Z) (d : xdb) : Prop :=
  let m := load_state (fst d) in
  forall h, m_base m <= h <= m_height m + 1 ->
    load_validators K (snd d) h <> None /\
    (h <= m_height m -> (exists p, load_consensus_params (snd d) h = Some (Some p)) /\ load_abci (snd d) h = true).

Lemma composite_prune_covered : forall K B L Lp m bd sd retain code m' steps,
    0 < K -> wf m bd ->
    StateShape K L Lp sd (m_base m) retain (m_height m + 1) ->
    composite_prune K B m bd sd retain = (code, m', steps) ->
    Covered K (bd, sd) ->
    forall n, Covered K (xreplay (firstn n steps) (bd, sd)).
Proof.
  intros K B L Lp m bd sd retain code m' steps HK W Sh E C n.
  destruct (composite_prune_prefix K B L Lp m bd sd retain code m' steps HK W Sh E n) as (Rb & Rh & Eq).
  unfold Covered in *. cbn [fst snd] in C. destruct W as [Em _]. rewrite <- Em in C.
  intros h R. rewrite Rh in R. destruct (Eq h R) as (Ev & Ep & Ea). rewrite Ev, Ep, Ea, Rh.
  apply C. lia.
Qed.

(* the same with the executable form of the hypothesis on the block store *)
Lemma wf_of_audit : forall m d, audit d = (0, 0) -> m = load_state d -> wf m d.
Proof. intros m d A E. split; [exact E|apply audit_spec; exact A]. Qed.

Lemma prune_prefix_range_audit : forall B m d r pruned m' l d',
    audit d = (0, 0) -> m = load_state d -> prune_blocks B m d r = POk pruned m' l d' ->
    m_base m <= r <= m_height m /\
    load_state (breplay l d) = {| m_base := r; m_height := m_height m |} /\
    forall n, m_base m <= m_base (load_state (breplay (firstn n l) d)) <= r /\
              m_height (load_state (breplay (firstn n l) d)) = m_height m.
Proof. intros B m d r pruned m' l d' A E. apply prune_prefix_range. apply wf_of_audit; assumption. Qed.

Lemma composite_prune_prefix_audit : forall K B L Lp m bd sd retain code m' steps,
    0 < K -> audit bd = (0, 0) -> m = load_state bd ->
    StateShape K L Lp sd (m_base m) retain (m_height m + 1) ->
    composite_prune K B m bd sd retain = (code, m', steps) ->
    forall n,
      m_base m <= m_base (load_state (fst (xreplay (firstn n steps) (bd, sd)))) /\
      m_height (load_state (fst (xreplay (firstn n steps) (bd, sd)))) = m_height m /\
      forall h, m_base (load_state (fst (xreplay (firstn n steps) (bd, sd)))) <= h <= m_height m + 1 ->
        load_validators K (snd (xreplay (firstn n steps) (bd, sd))) h = load_validators K sd h /\
        load_consensus_params (snd (xreplay (firstn n steps) (bd, sd))) h = load_consensus_params sd h /\
        load_abci (snd (xreplay (firstn n steps) (bd, sd))) h = load_abci sd h.
Proof.
  intros K B L Lp m bd sd retain code m' steps HK A E.
  apply composite_prune_prefix; [exact HK|apply wf_of_audit; assumption].
Qed.

Lemma composite_prune_covered_audit : forall K B L Lp m bd sd retain code m' steps,
    0 < K -> audit bd = (0, 0) -> m = load_state bd ->
    StateShape K L Lp sd (m_base m) retain (m_height m + 1) ->
    composite_prune K B m bd sd retain = (code, m', steps) ->
    Covered K (bd, sd) ->
    forall n, Covered K (xreplay (firstn n steps) (bd, sd)).
Proof.
  intros K B L Lp m bd sd retain code m' steps HK A E.
  apply composite_prune_covered; [exact HK|apply wf_of_audit; assumption].
Qed.
