(* C18 — proofs, part 6: the stores a node reaches.  The joint history of blockstore.db and
   state.db as consensus drives them (consensus/state.go finalizeCommit, consensus/replay.go
   Handshaker.ReplayBlocks): genesis Save; per block SaveBlock, then ApplyBlock =
   SaveABCIResponses + Save(updateState ...); then pruneBlocks(retain) when the application asks for
   it - every one of these calls possibly cut by a crash after any number of its database writes,
   a crashed SaveBlock followed by a SaveBlock of a possibly different block at the same height,
   a crashed ApplyBlock followed by its re-execution (with a possibly different outcome).

   On every such store the composite-prune theorems hold without the StateShape hypothesis
   (ProofsShape.v shows the state database has that shape), and every retained block has its
   state-store records.  No axioms. *)
From Coq Require Import List ZArith Bool Lia.
From TM Require Import Generated.Consts C18.Model C18.Proofs C18.ProofsShape.
Import ListNotations.
Open Scope Z_scope.

(* a prefix of SaveBlock's writes: either the range descriptor is still the old one and only keys
   of the new block were written, or it is the whole sequence *)
Lemma save_prefix_state : forall m d b seen m' l,
    wf m d -> save_ok d b seen -> save_block m b seen = Some (m', l) ->
    forall n, load_state (breplay (firstn n l) d) = m \/
              (firstn n l = l /\ load_state (breplay l d) = m').
Proof.
  intros m d b seen m' l W Ok E n.
  destruct (save_block_shape _ _ _ _ _ E) as (Chk & Em' & El).
  assert (Hbody : forall l0, (forall s, In s l0 -> In s (save_body b seen)) -> load_state (breplay l0 d) = m).
  { intros l0 Sub. destruct W as [Q _]. rewrite Q. apply load_state_ext. apply bget_replay_untouched.
    intros s I. destruct (save_body_keys _ _ _ (Sub s I)) as [S K]. split; [exact S|].
    destruct K as [ [i -> ] | [ -> | [ -> | [ -> | -> ] ] ] ]; discriminate. }
  destruct (save_full m d b seen m' l W Ok E) as [_ Q].
  rewrite El in *. destruct (firstn_app_cases n (save_body b seen) [desc_step m']) as [[-> _]|[k [-> _]]].
  - left. apply Hbody. intros s Hs. apply (in_firstn _ _ _ Hs).
  - destruct k as [|k].
    + left. cbn [firstn]. rewrite app_nil_r. apply Hbody. auto.
    + right. cbn [firstn]. rewrite firstn_nil. split; [reflexivity|symmetry; exact Q].
Qed.

(* the metas of other heights are not touched by any prefix of SaveBlock's writes *)
Lemma save_prefix_meta : forall m d b seen m' l n h,
    save_block m b seen = Some (m', l) -> h <> b_height b ->
    load_meta (breplay (firstn n l) d) h = load_meta d h.
Proof.
  intros m d b seen m' l n h E N. destruct (save_block_shape _ _ _ _ _ E) as (_ & _ & El).
  unfold load_meta. rewrite bget_replay_untouched; [reflexivity|].
  intros s I. apply in_firstn in I. rewrite El in I. apply in_app_or in I. destruct I as [I|[<-|[]]].
  - destruct (save_body_keys _ _ _ I) as [S K]. split; [exact S|].
    destruct K as [ [i -> ] | [ -> | [ -> | [ -> | -> ] ] ] ]; try discriminate. intro Q. inversion Q. congruence.
  - split; [exact Logic.I|discriminate].
Qed.

Lemma save_full_meta : forall m d b seen m' l,
    save_block m b seen = Some (m', l) ->
    load_meta (breplay l d) (b_height b) = Some (b_id b, b_total b, b_vh b, b_ph b).
Proof.
  intros m d b seen m' l E. destruct (save_block_shape _ _ _ _ _ E) as (_ & _ & El).
  unfold load_meta. rewrite El, save_final_get. cbn [bkey_eqb]. rewrite Z.eqb_refl. reflexivity.
Qed.

(* ---- the write steps of PruneBlocks only move the range descriptor and delete *)
Definition hdel (s : bstep) : Prop :=
  match s with
  | SSetSync KDesc _ => True
  | SBatch ws _ => Forall (is_del bkey bval) ws
  | _ => False
  end.

Lemma bget_dels : forall (ws : list bwop) d k, Forall (is_del bkey bval) ws ->
    bget (fold_left (apply_wop bkey_eqb) ws d) k = None \/
    bget (fold_left (apply_wop bkey_eqb) ws d) k = bget d k.
Proof.
  induction ws as [|w ws IH]; intros d k F; [right; reflexivity|].
  inversion F as [|? ? Hw F']; subst. destruct w as [|k0]; [contradiction|]. cbn [fold_left apply_wop].
  destruct (IH (del bkey_eqb d k0) k F') as [E|E]; [left; exact E|]. rewrite E. unfold bget.
  rewrite (get_del _ _ _ bkey_eqb_eq). destruct (bkey_eqb k k0); [left|right]; reflexivity.
Qed.

Lemma bget_hdel_steps : forall (l : list bstep) d k, Forall hdel l -> k <> KDesc ->
    bget (breplay l d) k = None \/ bget (breplay l d) k = bget d k.
Proof.
  induction l as [|s l IH]; intros d k F N; [right; reflexivity|].
  inversion F as [|? ? Hs F']; subst. rewrite breplay_cons.
  destruct (IH (bapply d s) k F' N) as [E|E]; [left; exact E|]. rewrite E.
  destruct s as [k0 v|k0 v|ws b]; cbn in Hs; [contradiction| |].
  - destruct k0; try contradiction. right. apply bget_set_other. exact N.
  - apply bget_dels. exact Hs.
Qed.

Definition QI (st : pst) : Prop := Forall hdel (p_steps st) /\ Forall (is_del bkey bval) (p_batch st).

Lemma QI_flush : forall st nb, QI st -> QI (flush st nb).
Proof.
  intros st nb [Qs Qb]. split; cbn [flush p_steps p_batch]; [|constructor].
  apply Forall_app. split; [exact Qs|]. constructor; [exact Logic.I|]. constructor; [|constructor].
  cbn. apply Forall_rev. exact Qb.
Qed.

Lemma del_block_wops_dels : forall h id t, Forall (is_del bkey bval) (del_block_wops h id t).
Proof.
  intros. unfold del_block_wops. apply Forall_app. split.
  - repeat constructor.
  - apply Forall_forall. intros w I. apply in_map_iff in I. destruct I as [i [<- _]]. exact Logic.I.
Qed.

Lemma QI_body : forall B off h st, QI st -> QI (prune_body B off h st).
Proof.
  intros B off h st Q. unfold prune_body. destruct (load_meta (p_db st) h) as [[[[id t] vh] ph]|]; [|exact Q].
  match goal with |- QI (if _ then flush ?s _ else _) => assert (Q1 : QI s) end.
  { destruct Q as [Qs Qb]. split; cbn [p_steps p_batch]; [exact Qs|].
    rewrite rev_append_rev. apply Forall_app. split; [apply Forall_rev; apply del_block_wops_dels|exact Qb]. }
  destruct (_ =? 0); [apply QI_flush; exact Q1|exact Q1].
Qed.

Lemma QI_loop : forall B off n h st, QI st -> QI (prune_loop B off n h st).
Proof.
  induction n as [|n IH]; intros h st Q; cbn [prune_loop]; [exact Q|]. apply IH. apply QI_body. exact Q.
Qed.

Lemma prune_steps_hdel : forall B m d r pr m' l d', prune_blocks B m d r = POk pr m' l d' -> Forall hdel l.
Proof.
  intros B m d r pr m' l d' E. unfold prune_blocks, prune_blocks_gen in E.
  destruct (r <=? 0); [discriminate|]. destruct (m_height m <? r); [discriminate|].
  destruct (r <? m_base m); [discriminate|]. inversion E. apply QI_flush. apply QI_loop.
  split; constructor.
Qed.

(* ------------------------------------------------------------------ ABCI responses: presence *)

Lemma abci_after_abci : forall sd h n x,
    load_abci sd x = true -> load_abci (sreplay (firstn n (save_abci h)) sd) x = true.
Proof.
  intros sd h n x H. unfold save_abci. unfold load_abci, sget in H.
  destruct n as [|[|n]]; cbn [firstn]; rewrite ?firstn_nil;
    unfold load_abci, sget, sreplay, replay; cbn [fold_left apply_step set get skey_eqb].
  - exact H.
  - destruct (x =? h); [reflexivity|exact H].
  - destruct (x =? h); [reflexivity|exact H].
Qed.

Lemma abci_saved : forall sd h, load_abci (sreplay (save_abci h) sd) h = true.
Proof.
  intros. unfold save_abci, load_abci, sget, sreplay, replay. cbn [fold_left apply_step set get skey_eqb].
  rewrite Z.eqb_refl. reflexivity.
Qed.

Lemma state_save_keys : forall K st s, In s (fst (state_save K st)) ->
    ssimple s /\ forall x, sstkey s <> SKABCI x.
Proof.
  intros K st s I. unfold state_save, save_vals_info, save_params_info in I.
  repeat match type of I with context [if ?c then _ else _] => destruct c end;
    cbn in I; repeat (destruct I as [<-|I]; [split; [exact Logic.I|intros x; discriminate]|]); contradiction.
Qed.

Lemma abci_after_state_save : forall K st sd n x,
    load_abci (sreplay (firstn n (fst (state_save K st))) sd) x = load_abci sd x.
Proof.
  intros K st sd n x. unfold load_abci. rewrite sget_replay_untouched; [reflexivity|].
  intros s I. apply in_firstn in I. destruct (state_save_keys K st s I) as [S N]. split; [exact S|apply N].
Qed.

(* ------------------------------------------------------------------ the joint history *)

Inductive XReach (K B : Z) : list sstate -> sstate -> mem -> bdb -> sdb -> Prop :=
| XR_genesis : forall st d0, genesis_state st ->
    XReach K B [st] st {| m_base := 0; m_height := 0 |} [] (sreplay (fst (state_save K st)) d0)
| XR_block : forall hist st m bd sd b seen m' l n,
    XReach K B hist st m bd sd -> m_height m = s_last st ->
    b_height b = nh st -> b_vh b = s_vals st -> b_ph b = s_params st ->
    save_ok bd b seen -> save_block m b seen = Some (m', l) ->
    XReach K B hist st (load_state (breplay (firstn n l) bd)) (breplay (firstn n l) bd) sd
| XR_abci : forall hist st m bd sd h n,
    XReach K B hist st m bd sd -> XReach K B hist st m bd (sreplay (firstn n (save_abci h)) sd)
| XR_state : forall hist st st' m bd sd,
    XReach K B hist st m bd sd -> m_height m = nh st -> load_abci sd (nh st) = true ->
    successor st st' ->
    XReach K B (st' :: hist) st' m bd (sreplay (fst (state_save K st')) sd)
| XR_state_crash : forall hist st st' m bd sd n,
    XReach K B hist st m bd sd -> successor st st' ->
    XReach K B hist st m bd (sreplay (firstn n (fst (state_save K st'))) sd)
| XR_prune : forall hist st m bd sd retain code m' steps n,
    XReach K B hist st m bd sd -> m_height m = s_last st ->
    composite_prune K B m bd sd retain = (code, m', steps) ->
    XReach K B hist st (load_state (fst (xreplay (firstn n steps) (bd, sd))))
           (fst (xreplay (firstn n steps) (bd, sd))) (snd (xreplay (firstn n steps) (bd, sd))).

(* what holds of every such store: the block store is consistent, the state database is one
   ProofsShape.v speaks about, its lower bound is not above the block store's base, the block
   store is level with the state or one block ahead, the ABCI responses of [lo, last] are there *)
Definition XI (K B : Z) (hist : list sstate) (st : sstate) (m : mem) (bd : bdb) (sd : sdb) : Prop :=
  wf m bd /\
  exists lo, SReach K B hist st lo sd /\ (m_base m = 0 \/ lo <= m_base m) /\
             (m_height m = s_last st \/ m_height m = nh st) /\
             (forall h, lo <= h <= s_last st -> load_abci sd h = true).

Lemma xreach_inv : forall K B hist st m bd sd, 0 < K -> XReach K B hist st m bd sd -> XI K B hist st m bd sd.
Proof.
  intros K B hist st m bd sd HK R. induction R.
  - (* genesis *)
    split; [split; [reflexivity|left; split; reflexivity]|]. exists (s_initial st).
    split; [apply SR_genesis; exact H|]. split; [left; reflexivity|].
    destruct H as (E0 & HI & _). split; [left; symmetry; exact E0|]. intros h Rh. lia.
  - (* SaveBlock, any prefix *)
    destruct IHR as (W & lo & SR & Hb & Hh & Ha).
    split; [split; [reflexivity|apply (save_prefixes m bd b seen m' l W H3 H4)]|].
    exists lo. split; [exact SR|].
    destruct (save_history_covers K B hist st lo sd SR) as (HI & Hlo & _).
    destruct (save_prefix_state m bd b seen m' l W H3 H4 n) as [Q|[Q1 Q]]; [|rewrite Q1]; rewrite Q.
    + split; [exact Hb|]. split; [exact Hh|exact Ha].
    + destruct (save_block_shape _ _ _ _ _ H4) as (_ & Em' & _). rewrite Em'. cbn [m_base m_height].
      split; [|split; [right; exact H0|exact Ha]].
      right. destruct (m_base m =? 0) eqn:E; [lia|]. apply Z.eqb_neq in E. destruct Hb as [Hb|Hb]; [contradiction|exact Hb].
  - (* SaveABCIResponses, any prefix *)
    destruct IHR as (W & lo & SR & Hb & Hh & Ha). split; [exact W|]. exists lo.
    split; [apply SR_abci; exact SR|]. split; [exact Hb|]. split; [exact Hh|].
    intros x Rx. apply abci_after_abci. apply Ha. exact Rx.
  - (* Save(st') *)
    destruct IHR as (W & lo & SR & Hb & Hh & Ha). split; [exact W|]. exists lo.
    destruct (save_history_covers K B hist st lo sd SR) as (HI & Hlo & _).
    split; [apply (SR_save K B hist st st' lo sd SR H1)|]. split; [exact Hb|].
    assert (El : s_last st' = nh st) by (destruct H1 as [E _]; exact E).
    split; [left; lia|].
    intros x Rx. replace (sreplay (fst (state_save K st')) sd)
      with (sreplay (firstn (length (fst (state_save K st'))) (fst (state_save K st'))) sd) by (rewrite firstn_all; reflexivity).
    rewrite abci_after_state_save. destruct (Z.eq_dec x (nh st)) as [->|N]; [exact H0|].
    apply Ha. pose proof (s_last_le_nh st HI). unfold nh in *.
    destruct (s_last st + 1 =? 1) eqn:E; [apply Z.eqb_eq in E; lia|lia].
  - (* Save(st') cut by a crash *)
    destruct IHR as (W & lo & SR & Hb & Hh & Ha). split; [exact W|]. exists lo.
    split; [apply (SR_save_crash K B hist st st' lo sd n SR H)|]. split; [exact Hb|]. split; [exact Hh|].
    intros x Rx. rewrite abci_after_state_save. apply Ha. exact Rx.
  - (* pruneBlocks, any prefix *)
    destruct IHR as (W & lo & SR & Hb & Hh & Ha).
    assert (Em : load_state bd = m) by (destruct W as [Q _]; symmetry; exact Q).
    assert (Same : XI K B hist st (load_state bd) bd sd).
    { rewrite Em. split; [exact W|]. exists lo. repeat split; assumption. }
    unfold composite_prune, composite_prune_gen in H0.
    destruct (retain <=? m_base m) eqn:E0;
      [inversion H0; subst; rewrite firstn_nil; cbn [xreplay fold_left fst snd]; exact Same|].
    apply Z.leb_gt in E0.
    pose proof (prune_ok B m bd retain W) as PO.
    destruct (prune_blocks B m bd retain) as [c|pr m1 l d1] eqn:EP;
      [inversion H0; subst; rewrite firstn_nil; cbn [xreplay fold_left fst snd]; exact Same|].
    destruct (prune_states K B sd (m_base m) retain) as [sc sl] eqn:ES.
    assert (Est : steps = map XB l ++ map XS sl) by (inversion H0; reflexivity).
    destruct PO as (Ed & _ & _ & Rr & Pp & C' & _).
    destruct (prune_prefix_range B m bd retain pr m1 l d1 W EP) as (_ & Efull & Pref).
    destruct (save_history_covers K B hist st lo sd SR) as (HI & Hlo & _).
    assert (Hlob : lo <= m_base m).
    { destruct Hb as [Hb|Hb]; [|exact Hb]. destruct W as [Q C]. rewrite Q in Hb.
      pose proof (consistent_base_zero bd C Hb). rewrite <- Q in *. lia. }
    rewrite Est.
    destruct (firstn_app_cases n (map XB l) (map XS sl)) as [[-> _]|[k [-> _]]].
    + rewrite firstn_map', xreplay_XB. cbn [fst snd]. destruct (Pref n) as [Rb Rh].
      split; [split; [reflexivity|apply Pp]|]. exists lo. split; [exact SR|].
      split; [right; lia|]. split; [left; lia|exact Ha].
    + rewrite xreplay_app, xreplay_XB, firstn_map', xreplay_XS. cbn [fst snd].
      split; [split; [reflexivity|rewrite <- Ed; exact C']|].
      rewrite Efull. cbn [m_base m_height]. exists retain.
      assert (Rt : retain <= nh st) by (pose proof (s_last_le_nh st HI); lia).
      split; [apply (SR_prune K B hist st lo sd (m_base m) retain sc sl k SR Hlob E0 Rt ES)|].
      split; [right; lia|]. split; [left; exact H|].
      intros x Rx. destruct (sreach_inv K B hist st lo sd HK SR) as (L & Lp & V & P & S & _).
      unfold load_abci.
      rewrite (shape_prune_protected K B L Lp V P sd lo (nh st) (m_base m) retain sc sl HK S Hlob E0 Rt ES k (SKABCI x));
        [apply Ha; lia|cbn; lia].
Qed.

(* ------------------------------------------------------------------ (2) the composite prune on reachable stores *)

(* when pruneBlocks is called (the block store is level with the state), either the call writes
   nothing or the state database has the shape the composite theorems ask for *)
Lemma reachable_shape_for_composite : forall K B hist st m bd sd retain code m' steps, 0 < K ->
    XReach K B hist st m bd sd -> m_height m = s_last st ->
    composite_prune K B m bd sd retain = (code, m', steps) ->
    wf m bd /\
    (steps = [] \/ exists L Lp, StateShape K L Lp sd (m_base m) retain (m_height m + 1)).
Proof.
  intros K B hist st m bd sd retain code m' steps HK R Hs E.
  destruct (xreach_inv K B hist st m bd sd HK R) as (W & lo & SR & Hb & _ & _).
  split; [exact W|].
  unfold composite_prune, composite_prune_gen in E.
  destruct (retain <=? m_base m) eqn:E0; [left; inversion E; reflexivity|]. apply Z.leb_gt in E0.
  pose proof (prune_ok B m bd retain W) as PO.
  destruct (prune_blocks B m bd retain) as [c|pr m1 l d1] eqn:EP; [left; inversion E; reflexivity|].
  right. destruct PO as (_ & _ & _ & Rr & _).
  destruct (save_history_covers K B hist st lo sd SR) as (HI & Hlo & _).
  assert (Hlob : lo <= m_base m).
  { destruct Hb as [Hb|Hb]; [|exact Hb]. destruct W as [Q C]. rewrite Q in Hb.
    pose proof (consistent_base_zero bd C Hb). rewrite <- Q in *. lia. }
  assert (Enh : nh st = m_height m + 1).
  { unfold nh. replace (s_last st + 1 =? 1) with false by (symmetry; apply Z.eqb_neq; lia). lia. }
  destruct (save_history_has_shape K B hist st lo sd HK SR) as (L & Lp & Sh).
  exists L, Lp. rewrite <- Enh. apply Sh; lia.
Qed.

Lemma composite_prune_prefix_reachable : forall K B hist st m bd sd retain code m' steps,
    0 < K -> XReach K B hist st m bd sd -> m_height m = s_last st ->
    composite_prune K B m bd sd retain = (code, m', steps) ->
    forall n,
      m_base m <= m_base (load_state (fst (xreplay (firstn n steps) (bd, sd)))) /\
      m_height (load_state (fst (xreplay (firstn n steps) (bd, sd)))) = m_height m /\
      forall h, m_base (load_state (fst (xreplay (firstn n steps) (bd, sd)))) <= h <= m_height m + 1 ->
        load_validators K (snd (xreplay (firstn n steps) (bd, sd))) h = load_validators K sd h /\
        load_consensus_params (snd (xreplay (firstn n steps) (bd, sd))) h = load_consensus_params sd h /\
        load_abci (snd (xreplay (firstn n steps) (bd, sd))) h = load_abci sd h.
Proof.
  intros K B hist st m bd sd retain code m' steps HK R Hs E n.
  destruct (reachable_shape_for_composite K B hist st m bd sd retain code m' steps HK R Hs E) as (W & [->|(L & Lp & Sh)]).
  - rewrite firstn_nil. cbn [xreplay fold_left fst snd]. destruct W as [<- _]. repeat split; lia.
  - apply (composite_prune_prefix K B L Lp m bd sd retain code m' steps HK W Sh E).
Qed.

(* every block a reachable node retains has its state-store records (when the block store is
   level with the state, i.e. outside the window between SaveBlock and the end of ApplyBlock, and
   holds at least one block) *)
Lemma xreach_covered : forall K B hist st m bd sd, 0 < K ->
    XReach K B hist st m bd sd -> m_height m = s_last st -> 1 <= m_height m -> Covered K (bd, sd).
Proof.
  intros K B hist st m bd sd HK R Hs Hpos.
  destruct (xreach_inv K B hist st m bd sd HK R) as (W & lo & SR & Hb & _ & Ha).
  destruct (save_history_covers K B hist st lo sd SR) as (HI & Hlo & _).
  destruct (save_history_resolves K B hist st lo sd HK SR) as (RV & RP & _).
  assert (Hlob : lo <= m_base m).
  { destruct Hb as [Hb|Hb]; [|exact Hb]. destruct W as [Q C]. rewrite Q in Hb.
    pose proof (consistent_base_zero bd C Hb). rewrite <- Q in *. lia. }
  pose proof (s_last_le_nh st HI) as Hln.
  unfold Covered. cbn [fst snd]. destruct W as [<- _]. intros h Rh. split.
  - apply RV. lia.
  - intros Rh2. split; [apply RP; lia|apply Ha; lia].
Qed.

Lemma composite_prune_covered_reachable : forall K B hist st m bd sd retain code m' steps,
    0 < K -> XReach K B hist st m bd sd -> m_height m = s_last st -> 1 <= m_height m ->
    composite_prune K B m bd sd retain = (code, m', steps) ->
    forall n, Covered K (xreplay (firstn n steps) (bd, sd)).
Proof.
  intros K B hist st m bd sd retain code m' steps HK R Hs Hpos E n.
  pose proof (XR_prune K B hist st m bd sd retain code m' steps n R Hs E) as R'.
  destruct (composite_prune_prefix_reachable K B hist st m bd sd retain code m' steps HK R Hs E n) as (_ & Eh & _).
  pose proof (xreach_covered K B hist st _ _ _ HK R' ltac:(lia) ltac:(lia)) as C.
  destruct (xreplay (firstn n steps) (bd, sd)) as [bd' sd']. exact C.
Qed.

(* ------------------------------------------------------------------ the retained blocks' headers name what the state store resolves *)

Lemma s_last_lt_nh : forall st, 1 <= s_initial st -> s_last st < nh st.
Proof.
  intros st HI. unfold nh. destruct (s_last st + 1 =? 1) eqn:E; [apply Z.eqb_eq in E; lia|lia].
Qed.

(* the meta of every retained height carries the hashes of the state that was in force when the
   block was made: block validation (state/validation.go validateBlock) checks
   Header.ValidatorsHash = state.Validators.Hash() and Header.ConsensusHash =
   state.ConsensusParams.Hash() - the two extra premises of [XR_block] *)
Definition Headers (hist : list sstate) (m : mem) (bd : bdb) : Prop :=
  forall h id t vh ph, m_base m <= h <= m_height m -> load_meta bd h = Some (id, t, vh, ph) ->
    exists s, In s hist /\ nh s = h /\ vh = s_vals s /\ ph = s_params s.

Lemma xreach_headers : forall K B hist st m bd sd, 0 < K ->
    XReach K B hist st m bd sd -> Headers hist m bd.
Proof.
  intros K B hist st m bd sd HK R.
  induction R as [st d0 Hg
                 | hist st m bd sd b seen m' l n R IHR Hs Hbh Hvh Hph Hok Hsb
                 | hist st m bd sd h0 n R IHR
                 | hist st st' m bd sd R IHR Hs Ha Hsu
                 | hist st st' m bd sd n R IHR Hsu
                 | hist st m bd sd retain code m' steps n R IHR Hs E].
  - intros h id t vh ph _ M. discriminate M.
  - destruct (xreach_inv K B hist st m bd sd HK R) as (W & lo & SR & Hb & _ & _).
    destruct (save_history_covers K B hist st lo sd SR) as (HI & Hlo & _).
    pose proof (s_last_lt_nh st HI) as Hlt.
    assert (HeadIn : In st hist).
    { clear -R. induction R; try assumption; left; reflexivity. }
    intros h id t vh ph Rh M.
    destruct (save_prefix_state m bd b seen m' l W Hok Hsb n) as [Q|[Q1 Q]].
    + rewrite Q in Rh. rewrite (save_prefix_meta m bd b seen m' l n h Hsb ltac:(lia)) in M.
      exact (IHR h id t vh ph Rh M).
    + rewrite Q1 in *. rewrite Q in Rh.
      destruct (save_block_shape _ _ _ _ _ Hsb) as (Chk & Em' & _). rewrite Em' in Rh. cbn [m_base m_height] in Rh.
      destruct (Z.eq_dec h (b_height b)) as [->|N].
      * rewrite (save_full_meta m bd b seen m' l Hsb) in M. inversion M; subst.
        exists st. split; [exact HeadIn|]. split; [symmetry; exact Hbh|]. split; assumption.
      * assert (Q2 : firstn (length l) l = l) by apply firstn_all.
        rewrite <- Q2 in M. rewrite (save_prefix_meta m bd b seen m' l (length l) h Hsb N) in M.
        apply (IHR h id t vh ph); [|exact M].
        destruct (m_base m =? 0) eqn:E0; [lia|]. apply Z.eqb_neq in E0.
        assert (Hbp : 0 < m_base m) by (destruct Hb as [Hb|Hb]; [contradiction|lia]).
        apply andb_false_iff in Chk. destruct Chk as [Chk|Chk]; [apply Z.ltb_ge in Chk; lia|].
        apply negb_false_iff, Z.eqb_eq in Chk. lia.
  - exact IHR.
  - intros h id t vh ph Rh M. destruct (IHR h id t vh ph Rh M) as (s & I & Q). exists s. split; [right; exact I|exact Q].
  - exact IHR.
  - destruct (xreach_inv K B hist st m bd sd HK R) as (W & _).
    assert (Em : load_state bd = m) by (destruct W as [Q _]; symmetry; exact Q).
    assert (Same : Headers hist (load_state bd) bd) by (rewrite Em; exact IHR).
    unfold composite_prune, composite_prune_gen in E.
    destruct (retain <=? m_base m) eqn:E0;
      [inversion E; subst; rewrite firstn_nil; cbn [xreplay fold_left fst snd]; exact Same|].
    destruct (prune_blocks B m bd retain) as [c|pr m1 l d1] eqn:EP;
      [inversion E; subst; rewrite firstn_nil; cbn [xreplay fold_left fst snd]; exact Same|].
    destruct (prune_states K B sd (m_base m) retain) as [sc sl] eqn:ES.
    assert (Est : steps = map XB l ++ map XS sl) by (inversion E; reflexivity).
    destruct (prune_prefix_range B m bd retain pr m1 l d1 W EP) as (_ & _ & Pref).
    pose proof (prune_steps_hdel B m bd retain pr m1 l d1 EP) as HD.
    assert (G : forall n', Headers hist (load_state (breplay (firstn n' l) bd)) (breplay (firstn n' l) bd)).
    { intros n' h id t vh ph Rh M. destruct (Pref n') as [Rb Rhh]. rewrite Rhh in Rh.
      apply (IHR h id t vh ph); [lia|]. unfold load_meta in *.
      destruct (bget_hdel_steps (firstn n' l) bd (KMeta h) (Forall_firstn _ _ _ HD) ltac:(discriminate)) as [Q|Q];
        rewrite Q in M; [discriminate M|exact M]. }
    rewrite Est.
    destruct (firstn_app_cases n (map XB l) (map XS sl)) as [[-> _]|[k [-> _]]].
    + rewrite firstn_map', xreplay_XB. cbn [fst snd]. apply G.
    + rewrite xreplay_app, xreplay_XB, firstn_map', xreplay_XS. cbn [fst snd].
      specialize (G (length l)). rewrite firstn_all in G. exact G.
Qed.

Lemma xaudit_range_ok : forall K bd sd n h0,
    (forall h, h0 <= h < h0 + Z.of_nat n -> xaudit_height K bd sd h = 0) ->
    load_validators K sd (h0 + Z.of_nat n) <> None ->
    xaudit_range K bd sd n h0 = (0, 0).
Proof.
  induction n as [|n IH]; intros h0 Hh Hv; cbn [xaudit_range].
  - replace (h0 + Z.of_nat 0) with h0 in Hv by lia. destruct (load_validators K sd h0); [reflexivity|contradiction].
  - rewrite (Hh h0) by lia. cbn. apply IH.
    + intros h R. apply Hh. lia.
    + replace (h0 + 1 + Z.of_nat n) with (h0 + Z.of_nat (S n)) by lia. exact Hv.
Qed.

(* the cross-store audit passes on every store a node reaches, whenever the block store is level
   with the state: for every retained block the validator set and the consensus parameters the
   state store resolves are the ones its header names, its ABCI responses are there, and the
   validators of height + 1 load *)
Lemma xreach_xaudit : forall K B hist st m bd sd, 0 < K ->
    XReach K B hist st m bd sd -> m_height m = s_last st -> xaudit K (bd, sd) = (0, 0).
Proof.
  intros K B hist st m bd sd HK R Hs.
  pose proof (xreach_headers K B hist st m bd sd HK R) as HH.
  destruct (xreach_inv K B hist st m bd sd HK R) as (W & lo & SR & Hb & _ & Ha).
  destruct (save_history_covers K B hist st lo sd SR) as (HI & Hlo & _).
  destruct (save_history_resolves K B hist st lo sd HK SR) as (RV & RP & RS).
  pose proof (s_last_le_nh st HI) as Hln.
  unfold xaudit. cbn [fst snd]. destruct W as [Em C]. rewrite <- Em.
  destruct ((m_height m <=? 0) || (m_base m <? 1) || (m_height m <? m_base m)) eqn:Cnd; [reflexivity|].
  apply orb_false_iff in Cnd. destruct Cnd as [Cnd C3]. apply orb_false_iff in Cnd. destruct Cnd as [C1 C2].
  apply Z.leb_gt in C1. apply Z.ltb_ge in C2. apply Z.ltb_ge in C3.
  assert (Hlob : lo <= m_base m) by (destruct Hb as [Hb|Hb]; [lia|exact Hb]).
  apply xaudit_range_ok.
  - intros h Rh. assert (Rh' : m_base m <= h <= m_height m) by lia. unfold xaudit_height.
    destruct (load_validators K sd h) as [v|] eqn:Ev; [|exfalso; apply (RV h); [lia|exact Ev]].
    destruct (RP h ltac:(lia)) as [p Ep]. rewrite Ep. rewrite (Ha h) by lia. cbn [negb].
    destruct (load_meta bd h) as [[[[id t] vh] ph]|] eqn:M; [|reflexivity].
    destruct (HH h id t vh ph Rh' M) as (s & I & En & -> & ->).
    destruct (RS s I) as [Q _]. rewrite En in Q. destruct (Q ltac:(lia)) as [Qv Qp].
    rewrite Ev in Qv. rewrite Ep in Qp. inversion Qv; inversion Qp; subst. rewrite !Z.eqb_refl. reflexivity.
  - apply RV. lia.
Qed.

(* convenience forms for building concrete histories *)
Lemma XR_prune' : forall K B hist st m bd sd retain n,
    XReach K B hist st m bd sd -> m_height m = s_last st ->
    let steps := snd (composite_prune K B m bd sd retain) in
    XReach K B hist st (load_state (fst (xreplay (firstn n steps) (bd, sd))))
           (fst (xreplay (firstn n steps) (bd, sd))) (snd (xreplay (firstn n steps) (bd, sd))).
Proof.
  intros K B hist st m bd sd retain n R Hs steps. unfold steps.
  destruct (composite_prune K B m bd sd retain) as [[code m'] l] eqn:E. cbn [snd].
  exact (XR_prune K B hist st m bd sd retain code m' l n R Hs E).
Qed.

Lemma XReach_eq : forall K B hist st m bd sd m2 bd2 sd2,
    XReach K B hist st m bd sd -> m = m2 -> bd = bd2 -> sd = sd2 -> XReach K B hist st m2 bd2 sd2.
Proof. intros; subst; assumption. Qed.

(* an executable form of the callers' obligations for SaveBlock (for concrete histories) *)
Definition save_ok_b (d : bdb) (b : block) (seen : commit) : bool :=
  let m := load_state d in
  (1 <=? b_height b) && (c_blk seen =? b_id b) &&
  forallb (fun h => match load_meta d h with Some (id, _, _, _) => negb (id =? b_id b) | None => true end)
          (map (fun i => m_base m + i) (zseq (Z.to_nat (m_height m - m_base m + 1)))) &&
  ((m_base m <=? 0) ||
   match load_meta d (m_height m) with Some (id, _, _, _) => c_blk (b_last b) =? id | None => true end).

Lemma save_ok_b_sound : forall d b seen, save_ok_b d b seen = true -> save_ok d b seen.
Proof.
  intros d b seen E. unfold save_ok_b in E. cbv zeta in E.
  apply andb_true_iff in E. destruct E as [E E4]. apply andb_true_iff in E. destruct E as [E E3].
  apply andb_true_iff in E. destruct E as [E1 E2]. apply Z.leb_le in E1. apply Z.eqb_eq in E2.
  unfold save_ok. cbv zeta. split; [exact E1|]. split; [exact E2|]. split.
  - intros h id t vh ph Rh M. rewrite forallb_forall in E3.
    specialize (E3 h). rewrite M in E3.
    assert (I : In h (map (fun i => m_base (load_state d) + i)
                          (zseq (Z.to_nat (m_height (load_state d) - m_base (load_state d) + 1))))).
    { apply in_map_iff. exists (h - m_base (load_state d)). split; [lia|]. apply in_zseq. lia. }
    specialize (E3 I). apply negb_true_iff, Z.eqb_neq in E3. exact E3.
  - intros id t vh ph Hp M. rewrite M in E4. apply orb_true_iff in E4. destruct E4 as [E4|E4].
    + apply Z.leb_le in E4. lia.
    + apply Z.eqb_eq in E4. exact E4.
Qed.

(* one complete block: SaveBlock, SaveABCIResponses, Save *)
Lemma XR_full_block : forall K B hist st st' m bd sd b seen m' l, 0 < K ->
    XReach K B hist st m bd sd -> m_height m = s_last st ->
    b_height b = nh st -> b_vh b = s_vals st -> b_ph b = s_params st ->
    save_ok bd b seen -> save_block m b seen = Some (m', l) -> successor st st' ->
    XReach K B (st' :: hist) st' m' (breplay l bd)
           (sreplay (save_abci (b_height b) ++ fst (state_save K st')) sd).
Proof.
  intros K B hist st st' m bd sd b seen m' l HK R Hs Hbh Hvh Hph Hok Hsb Hsu.
  destruct (xreach_inv K B hist st m bd sd HK R) as (W & _).
  destruct (save_full m bd b seen m' l W Hok Hsb) as [_ Em'].
  pose proof (XR_block K B hist st m bd sd b seen m' l (length l) R Hs Hbh Hvh Hph Hok Hsb) as R1.
  rewrite firstn_all in R1. rewrite <- Em' in R1.
  pose proof (XR_abci K B hist st m' (breplay l bd) sd (b_height b) 2 R1) as R2.
  change (firstn 2 (save_abci (b_height b))) with (save_abci (b_height b)) in R2.
  destruct (save_block_shape _ _ _ _ _ Hsb) as (_ & Em2 & _).
  assert (Hh : m_height m' = nh st) by (rewrite Em2; cbn; exact Hbh).
  pose proof (XR_state K B hist st st' m' (breplay l bd) _ R2 Hh) as R3.
  rewrite sreplay_app. apply R3; [|exact Hsu]. rewrite <- Hbh. apply abci_saved.
Qed.

Lemma XR_full_block' : forall K B hist st st' m bd sd b seen, 0 < K ->
    XReach K B hist st m bd sd -> m_height m = s_last st ->
    b_height b = nh st -> b_vh b = s_vals st -> b_ph b = s_params st ->
    save_ok_b bd b seen = true -> successor st st' ->
    match save_block m b seen with
    | Some (m', l) => XReach K B (st' :: hist) st' m' (breplay l bd)
                             (sreplay (save_abci (b_height b) ++ fst (state_save K st')) sd)
    | None => True
    end.
Proof.
  intros K B hist st st' m bd sd b seen HK R Hs Hbh Hvh Hph Hok Hsu.
  destruct (save_block m b seen) as [[m' l]|] eqn:E; [|exact Logic.I].
  apply (XR_full_block K B hist st st' m bd sd b seen m' l HK R Hs Hbh Hvh Hph (save_ok_b_sound _ _ _ Hok) E Hsu).
Qed.
