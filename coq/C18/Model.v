(* C18 — Stored chain data stays contiguous and consistent through pruning and crashes.

   Gallina transcription of
     store/store.go   SaveBlock, PruneBlocks (+ its flush closure), LoadBlockMeta, LoadBlockPart,
                      LoadBlock, LoadBlockByHash, LoadBlockCommit, LoadSeenCommit,
                      LoadBlockStoreState / NewBlockStore
     state/store.go   save, saveValidatorsInfo, saveConsensusParamsInfo, PruneStates,
                      LoadValidators, LoadConsensusParams, lastStoredHeightFor
     consensus/state.go  pruneBlocks (the composite prune of both stores, end of this file)
     state/store.go   SaveABCIResponses, LoadABCIResponses (presence only)
   No proofs in this file.

   Conventions (DESIGN.md §2.5, A.4)
   * A database is an association list; [set] conses (newest binding first, older bindings are
     shadowed), [del] filters.  Only [get] is observable.
   * Every call that reaches the database is one atomic *write step*: Set / SetSync of one key,
     or the Write / WriteSync of a whole batch.  An execution is the list of write steps it
     performs, a crash keeps a prefix of that list ([replay (firstn k steps) db]).
   * Keys are structured (their string encodings "H:%v", "P:%v:%v", "C:%v", "SC:%v", "BH:%x",
     "blockStore", "validatorsKey:%v", "consensusParamsKey:%v", "abciResponsesKey:%v",
     "stateKey" are parsed back by the harness, which refuses keys it cannot parse).
   * Block contents are abstract: a block is identified by its hash [b_id]; a part value says
     "part i of block id"; a commit says which block id it commits ([c_blk]) and carries a tag
     distinguishing different commits for the same block (seen commit vs. LastCommit of the next
     block).  Validator sets and consensus parameters are identified by their hashes.
   * PruneBlocks is modelled with the F9 repair (intermediate flush moves base to h+1); the
     offset is a parameter ([prune_blocks_gen … off]) so that the unrepaired code (off = 0) can
     be exhibited as refuted. *)
From Coq Require Import List ZArith Bool.
From TM Require Import Generated.Consts.
Import ListNotations.
Open Scope Z_scope.

(* ------------------------------------------------------------------ generic key-value store *)

Inductive wop (K V : Type) :=
| WPut (k : K) (v : V)
| WDel (k : K).
Arguments WPut {K V}.
Arguments WDel {K V}.

Inductive step (K V : Type) :=
| SSet (k : K) (v : V)                       (* db.Set *)
| SSetSync (k : K) (v : V)                   (* db.SetSync *)
| SBatch (ws : list (wop K V)) (sync : bool). (* batch.Write / batch.WriteSync *)
Arguments SSet {K V}.
Arguments SSetSync {K V}.
Arguments SBatch {K V}.

Section KV.
  Variables K V : Type.
  Variable keqb : K -> K -> bool.

  Definition kv := list (K * V).

  Fixpoint get (d : kv) (k : K) : option V :=
    match d with
    | [] => None
    | (k', v) :: r => if keqb k k' then Some v else get r k
    end.

  Definition set (d : kv) (k : K) (v : V) : kv := (k, v) :: d.
  Definition del (d : kv) (k : K) : kv := filter (fun e => negb (keqb k (fst e))) d.

  Definition apply_wop (d : kv) (w : wop K V) : kv :=
    match w with WPut k v => set d k v | WDel k => del d k end.

  Definition apply_step (d : kv) (s : step K V) : kv :=
    match s with
    | SSet k v => set d k v
    | SSetSync k v => set d k v
    | SBatch ws _ => fold_left apply_wop ws d
    end.

  Definition replay (steps : list (step K V)) (d : kv) : kv := fold_left apply_step steps d.
End KV.
Arguments get {K V}.
Arguments set {K V}.
Arguments del {K V}.
Arguments apply_wop {K V}.
Arguments apply_step {K V}.
Arguments replay {K V}.

Definition zseq (n : nat) : list Z := map Z.of_nat (seq 0 n).

(* ================================================================== block store *)

Inductive bkey :=
| KMeta (h : Z)          (* "H:h"    *)
| KPart (h i : Z)        (* "P:h:i"  *)
| KCommit (h : Z)        (* "C:h"    *)
| KSeen (h : Z)          (* "SC:h"   *)
| KHash (id : Z)         (* "BH:hex" *)
| KDesc.                 (* "blockStore" *)

Inductive bval :=
| VMeta (id : Z) (total : nat) (vh ph : Z)  (* BlockID.Hash, PartSetHeader.Total, Header.ValidatorsHash, Header.ConsensusHash *)
| VPart (id i : Z)                          (* the i-th part of block id *)
| VCommit (blk tag : Z)                     (* a commit whose BlockID.Hash is blk *)
| VHeight (h : Z)                           (* decimal height under a hash key *)
| VDesc (base height : Z).                  (* BlockStoreState *)

Definition bkey_eqb (a b : bkey) : bool :=
  match a, b with
  | KMeta h, KMeta h' => h =? h'
  | KPart h i, KPart h' i' => (h =? h') && (i =? i')
  | KCommit h, KCommit h' => h =? h'
  | KSeen h, KSeen h' => h =? h'
  | KHash x, KHash x' => x =? x'
  | KDesc, KDesc => true
  | _, _ => false
  end.

Definition bdb := kv bkey bval.
Definition bwop := wop bkey bval.
Definition bstep := step bkey bval.
Definition bget (d : bdb) (k : bkey) := get bkey_eqb d k.
Definition bapply (d : bdb) (s : bstep) := apply_step bkey_eqb d s.
Definition breplay (l : list bstep) (d : bdb) := replay bkey_eqb l d.

Record commit := { c_blk : Z; c_tag : Z }.
Record block := { b_height : Z; b_id : Z; b_total : nat; b_vh : Z; b_ph : Z; b_last : commit }.

(* the in-memory fields of BlockStore *)
Record mem := { m_base : Z; m_height : Z }.

(* ---- loaders *)

(* LoadBlockStoreState (NewBlockStore): zero value when absent; Height > 0 && Base == 0 => Base = 1 *)
Definition load_state (d : bdb) : mem :=
  match bget d KDesc with
  | Some (VDesc b h) => if (0 <? h) && (b =? 0) then {| m_base := 1; m_height := h |}
                        else {| m_base := b; m_height := h |}
  | _ => {| m_base := 0; m_height := 0 |}
  end.

Definition load_meta (d : bdb) (h : Z) : option (Z * nat * Z * Z) :=
  match bget d (KMeta h) with Some (VMeta id t vh ph) => Some (id, t, vh, ph) | _ => None end.
Definition load_part (d : bdb) (h i : Z) : option (Z * Z) :=
  match bget d (KPart h i) with Some (VPart id j) => Some (id, j) | _ => None end.
Definition load_commit (d : bdb) (h : Z) : option commit :=
  match bget d (KCommit h) with Some (VCommit b t) => Some {| c_blk := b; c_tag := t |} | _ => None end.
Definition load_seen (d : bdb) (h : Z) : option commit :=
  match bget d (KSeen h) with Some (VCommit b t) => Some {| c_blk := b; c_tag := t |} | _ => None end.
Definition load_hash (d : bdb) (id : Z) : option Z :=
  match bget d (KHash id) with Some (VHeight h) => Some h | _ => None end.

(* LoadBlock: meta present and every part 0..Total-1 present; the bytes reassemble to the block
   with hash [id] exactly when part i is "part i of id" for every i.  Result: the id of the
   block read back (None: nil, or bytes that are not that block). *)
Definition part_ok (d : bdb) (h id : Z) (i : Z) : bool :=
  match load_part d h i with Some (id', j) => (id' =? id) && (j =? i) | None => false end.
Definition load_block (d : bdb) (h : Z) : option Z :=
  match load_meta d h with
  | Some (id, t, _, _) => if forallb (part_ok d h id) (zseq t) then Some id else None
  | None => None
  end.

(* ---- SaveBlock.  None = panic before any write (non-contiguous height). *)
Definition desc_step (m : mem) : bstep := SSetSync KDesc (VDesc (m_base m) (m_height m)).

Definition save_block (m : mem) (b : block) (seen : commit) : option (mem * list bstep) :=
  let h := b_height b in
  if (0 <? m_base m) && negb (h =? m_height m + 1) then None
  else
    let m' := {| m_base := if m_base m =? 0 then h else m_base m; m_height := h |} in
    Some (m',
          map (fun i => SSet (KPart h i) (VPart (b_id b) i)) (zseq (b_total b))
          ++ [ SSet (KMeta h) (VMeta (b_id b) (b_total b) (b_vh b) (b_ph b));
               SSet (KHash (b_id b)) (VHeight h);
               SSet (KCommit (h - 1)) (VCommit (c_blk (b_last b)) (c_tag (b_last b)));
               SSet (KSeen h) (VCommit (c_blk seen) (c_tag seen));
               desc_step m' ]).

(* ---- PruneBlocks *)

(* the literal 1000 in "pruned%1000 == 0" (store/store.go PruneBlocks and state/store.go
   PruneStates) is not a named constant, so genconsts cannot read it; it is tied to the code by
   the two-batch case of the correspondence run *)
Definition prune_batch : Z := 1000.

Record pst := { p_db : bdb; p_mem : mem; p_batch : list bwop (* newest first *);
                p_pruned : Z; p_steps : list bstep }.

(* flush := func(batch, base): bs.base = base; saveState(); batch.WriteSync() *)
Definition flush (st : pst) (nb : Z) : pst :=
  let m' := {| m_base := nb; m_height := m_height (p_mem st) |} in
  let s1 := desc_step m' in
  let s2 := SBatch (rev (p_batch st)) true in
  {| p_db := bapply (bapply (p_db st) s1) s2; p_mem := m'; p_batch := [];
     p_pruned := p_pruned st; p_steps := p_steps st ++ [s1; s2] |}.

Definition del_block_wops (h id : Z) (total : nat) : list bwop :=
  [WDel (KMeta h); WDel (KHash id); WDel (KCommit h); WDel (KSeen h)]
  ++ map (fun i => WDel (KPart h i)) (zseq total).

(* one iteration of "for h := base; h < height; h++"; [off] = 1: repaired flush(batch, h+1),
   [off] = 0: the code before the F9 repair *)
Definition prune_body (B off : Z) (h : Z) (st : pst) : pst :=
  match load_meta (p_db st) h with
  | None => st                                          (* assume already deleted *)
  | Some (id, total, _, _) =>
    let st1 := {| p_db := p_db st; p_mem := p_mem st;
                  p_batch := rev_append (del_block_wops h id total) (p_batch st);
                  p_pruned := p_pruned st + 1; p_steps := p_steps st |} in
    if p_pruned st1 mod B =? 0 then flush st1 (h + off) else st1
  end.

Fixpoint prune_loop (B off : Z) (n : nat) (h : Z) (st : pst) : pst :=
  match n with
  | O => st
  | S n' => prune_loop B off n' (h + 1) (prune_body B off h st)
  end.

Inductive prune_res :=
| PErr (code : Z)                                   (* 1: height <= 0, 2: beyond latest height, 3: below base *)
| POk (pruned : Z) (m' : mem) (steps : list bstep) (d' : bdb).   (* d' = the database after the steps *)

Definition prune_blocks_gen (B off : Z) (m : mem) (d : bdb) (retain : Z) : prune_res :=
  if retain <=? 0 then PErr 1
  else if m_height m <? retain then PErr 2
  else if retain <? m_base m then PErr 3
  else
    let st0 := {| p_db := d; p_mem := m; p_batch := []; p_pruned := 0; p_steps := [] |} in
    let st := prune_loop B off (Z.to_nat (retain - m_base m)) (m_base m) st0 in
    let st' := flush st retain in
    POk (p_pruned st') (p_mem st') (p_steps st') (p_db st').

Definition prune_blocks (B : Z) := prune_blocks_gen B 1.

(* ---- histories *)

Inductive bop :=
| OSave (b : block) (seen : commit)
| OPrune (retain : Z).

(* the write steps of one operation started in memory state m on database d, the memory state
   and database it ends in, and a result code (0 ok, 10 SaveBlock panicked, 1..3 PruneBlocks
   errors) *)
Definition bop_run (B : Z) (m : mem) (d : bdb) (o : bop) : Z * mem * list bstep * bdb :=
  match o with
  | OSave b seen =>
    match save_block m b seen with
    | Some (m', l) => (0, m', l, breplay l d)
    | None => (10, m, [], d)
    end
  | OPrune r =>
    match prune_blocks B m d r with
    | POk _ m' l d' => (0, m', l, d')
    | PErr c => (c, m, [], d)
    end
  end.

(* ---- the audit of [base, height] *)

(* what must hold for height h; reasons: 1 meta missing, 2 block does not load / does not hash
   to the id of its meta, 3 hash index entry missing or pointing elsewhere, 4 commit (seen
   commit for the tip) missing or for another block *)
Definition audit_height (d : bdb) (tip : Z) (h : Z) : Z :=
  match load_meta d h with
  | None => 1
  | Some (id, _, _, _) =>
    match load_block d h with
    | None => 2
    | Some id' =>
      if negb (id' =? id) then 2
      else match load_hash d id with
           | None => 3
           | Some h' =>
             if negb (h' =? h) then 3
             else match (if h =? tip then load_seen d h else load_commit d h) with
                  | None => 4
                  | Some c => if c_blk c =? id then 0 else 4
                  end
           end
    end
  end.

Fixpoint audit_range (d : bdb) (tip : Z) (n : nat) (h : Z) : Z * Z :=
  match n with
  | O => (0, 0)
  | S n' => let r := audit_height d tip h in
            if r =? 0 then audit_range d tip n' (h + 1) else (h, r)
  end.

(* (0,0) = consistent; (h, reason) = first failing height; (0,5) = malformed range descriptor *)
Definition audit (d : bdb) : Z * Z :=
  let m := load_state d in
  if (m_height m =? 0) then (if m_base m =? 0 then (0, 0) else (0, 5))
  else if (m_base m <? 1) || (m_height m <? m_base m) then (0, 5)
  else audit_range d (m_height m) (Z.to_nat (m_height m - m_base m + 1)) (m_base m).

Definition audit_ok (d : bdb) : bool := let '(h, r) := audit d in (h =? 0) && (r =? 0).

(* ================================================================== state store *)

Inductive skey :=
| SKVals (h : Z)         (* "validatorsKey:h" *)
| SKParams (h : Z)       (* "consensusParamsKey:h" *)
| SKABCI (h : Z)         (* "abciResponsesKey:h" *)
| SKState                (* "stateKey" *)
| SKLastABCI.            (* "lastABCIResponseKey" *)

Inductive sval :=
| SVVals (lhc : Z) (vs : option Z)      (* ValidatorsInfo{LastHeightChanged, ValidatorSet?} (hash of the set) *)
| SVParams (lhc : Z) (ps : option Z)    (* ConsensusParamsInfo{LastHeightChanged, ConsensusParams (None = empty)} *)
| SVABCI
| SVState (last : Z)                    (* State (its LastBlockHeight) *)
| SVLastABCI (h : Z).                   (* ABCIResponsesInfo{Height} *)

Definition skey_eqb (a b : skey) : bool :=
  match a, b with
  | SKVals h, SKVals h' => h =? h'
  | SKParams h, SKParams h' => h =? h'
  | SKABCI h, SKABCI h' => h =? h'
  | SKState, SKState => true
  | SKLastABCI, SKLastABCI => true
  | _, _ => false
  end.

Definition sdb := kv skey sval.
Definition swop := wop skey sval.
Definition sstep := step skey sval.
Definition sget (d : sdb) (k : skey) := get skey_eqb d k.
Definition sapply (d : sdb) (s : sstep) := apply_step skey_eqb d s.
Definition sreplay (l : list sstep) (d : sdb) := replay skey_eqb l d.

(* the fields of sm.State that save() looks at; sets and params by hash *)
Record sstate := { s_last : Z; s_initial : Z; s_vals : Z; s_next_vals : Z; s_lhvc : Z;
                   s_params : Z; s_lhpc : Z }.

Definition load_vals_info (d : sdb) (h : Z) : option (Z * option Z) :=
  match sget d (SKVals h) with Some (SVVals l v) => Some (l, v) | _ => None end.
Definition load_params_info (d : sdb) (h : Z) : option (Z * option Z) :=
  match sget d (SKParams h) with Some (SVParams l p) => Some (l, p) | _ => None end.
Definition load_last (d : sdb) : Z :=
  match sget d SKState with Some (SVState n) => n | _ => 0 end.

(* lastStoredHeightFor *)
Definition last_stored_height_for (K h lhc : Z) : Z := Z.max (h - h mod K) lhc.

(* LoadValidators (the proposer-priority catch-up is C08's business; the hash of a set does not
   depend on priorities).  None = error. *)
Definition load_validators (K : Z) (d : sdb) (h : Z) : option Z :=
  match load_vals_info d h with
  | None => None
  | Some (_, Some v) => Some v
  | Some (lhc, None) =>
    match load_vals_info d (last_stored_height_for K h lhc) with
    | Some (_, Some v) => Some v
    | _ => None
    end
  end.

(* LoadConsensusParams. None = error; Some None = empty params returned without error (the code
   does not check the second record). *)
Definition load_consensus_params (d : sdb) (h : Z) : option (option Z) :=
  match load_params_info d h with
  | None => None
  | Some (_, Some p) => Some (Some p)
  | Some (lhc, None) =>
    match load_params_info d lhc with
    | None => None
    | Some (_, p) => Some p
    end
  end.

(* saveValidatorsInfo: None = error "lastHeightChanged cannot be greater than ValidatorsInfo height" *)
Definition save_vals_info (K h lhc vs : Z) : option sstep :=
  if h <? lhc then None
  else Some (SSet (SKVals h) (SVVals lhc (if (h =? lhc) || (h mod K =? 0) then Some vs else None))).

Definition save_params_info (nh lhc ps : Z) : sstep :=
  SSet (SKParams nh) (SVParams lhc (if lhc =? nh then Some ps else None)).

(* dbStore.save: the writes performed and whether it returned nil *)
Definition state_save (K : Z) (st : sstate) : list sstep * bool :=
  let first := s_last st + 1 =? 1 in
  let nh := if first then s_initial st else s_last st + 1 in
  let pre := if first
             then match save_vals_info K nh nh (s_vals st) with Some s => [s] | None => [] end
             else [] in
  match save_vals_info K (nh + 1) (s_lhvc st) (s_next_vals st) with
  | None => (pre, false)
  | Some s2 =>
    (pre ++ [s2; save_params_info nh (s_lhpc st) (s_params st); SSetSync SKState (SVState (s_last st))],
     true)
  end.

(* PruneStates.  Result code: 0 ok, 1 from/to <= 0, 2 from >= to, 3 validators at [to] not
   found, 4 params at [to] not found, 5 a kept height could not be completed (LoadValidators /
   loadConsensusParamsInfo / LoadConsensusParams failed inside the loop). *)
Record sst := { q_db : sdb; q_batch : list swop (* newest first *); q_pruned : Z;
                q_steps : list sstep; q_err : bool }.

Definition zmem (x : Z) (l : list Z) : bool := existsb (Z.eqb x) l.

Definition sprune_body (K B : Z) (keepV keepP : list Z) (h : Z) (st : sst) : sst :=
  if q_err st then st else
  (* validators *)
  let rv : option (list swop) :=
    if zmem h keepV then
      match load_vals_info (q_db st) h with
      | Some (_, Some _) => Some []
      | _ => match load_validators K (q_db st) h with
             | Some v => Some [WPut (SKVals h) (SVVals h (Some v))]
             | None => None
             end
      end
    else Some [WDel (SKVals h)] in
  match rv with
  | None => {| q_db := q_db st; q_batch := q_batch st; q_pruned := q_pruned st;
               q_steps := q_steps st; q_err := true |}
  | Some wv =>
    let rp : option (list swop) :=
      if zmem h keepP then
        match load_params_info (q_db st) h with
        | None => None
        | Some (_, Some _) => Some []
        | Some (_, None) =>
          match load_consensus_params (q_db st) h with
          | Some p => Some [WPut (SKParams h) (SVParams h p)]
          | None => None
          end
        end
      else Some [WDel (SKParams h)] in
    match rp with
    | None => {| q_db := q_db st; q_batch := q_batch st; q_pruned := q_pruned st;
                 q_steps := q_steps st; q_err := true |}
    | Some wp =>
      let batch := rev_append (wv ++ wp ++ [WDel (SKABCI h)]) (q_batch st) in
      let pruned := q_pruned st + 1 in
      if pruned mod B =? 0 then
        let s := SBatch (rev batch) false in
        {| q_db := sapply (q_db st) s; q_batch := []; q_pruned := pruned;
           q_steps := q_steps st ++ [s]; q_err := false |}
      else
        {| q_db := q_db st; q_batch := batch; q_pruned := pruned;
           q_steps := q_steps st; q_err := false |}
    end
  end.

(* for h := to-1; h >= from; h-- *)
Fixpoint sprune_loop (K B : Z) (keepV keepP : list Z) (n : nat) (h : Z) (st : sst) : sst :=
  match n with
  | O => st
  | S n' => sprune_loop K B keepV keepP n' (h - 1) (sprune_body K B keepV keepP h st)
  end.

Definition prune_states (K B : Z) (d : sdb) (from to : Z) : Z * list sstep :=
  if (from <=? 0) || (to <=? 0) then (1, [])
  else if to <=? from then (2, [])
  else match load_vals_info d to with
  | None => (3, [])
  | Some (vl, vv) =>
    match load_params_info d to with
    | None => (4, [])
    | Some (pl, pp) =>
      let keepV := match vv with None => [vl; last_stored_height_for K to vl] | Some _ => [] end in
      let keepP := match pp with None => [pl] | Some _ => [] end in
      let st0 := {| q_db := d; q_batch := []; q_pruned := 0; q_steps := []; q_err := false |} in
      let st := sprune_loop K B keepV keepP (Z.to_nat (to - from)) (to - 1) st0 in
      if q_err st then (5, q_steps st)
      else (0, q_steps st ++ [SBatch (rev (q_batch st)) true])
    end
  end.

Inductive sop :=
| SOSave (st : sstate)
| SOPrune (from to : Z).

Definition sop_run (K B : Z) (d : sdb) (o : sop) : Z * list sstep :=
  match o with
  | SOSave st => let '(l, ok) := state_save K st in ((if ok then 0 else 10), l)
  | SOPrune f t => prune_states K B d f t
  end.

(* every height of [lo, hi] resolves: (0,0) or (h, reason) with reason 1 = LoadValidators
   fails, 2 = LoadConsensusParams fails or returns empty params.  [want_v]/[want_p] give the
   expected hashes when known (the harness passes the hashes recorded in the block headers). *)
Fixpoint saudit_range (K : Z) (d : sdb) (n : nat) (h : Z) : Z * Z :=
  match n with
  | O => (0, 0)
  | S n' =>
    match load_validators K d h with
    | None => (h, 1)
    | Some _ =>
      match load_consensus_params d h with
      | Some (Some _) => saudit_range K d n' (h + 1)
      | _ => (h, 2)
      end
    end
  end.

Definition saudit (K : Z) (d : sdb) (lo hi : Z) : Z * Z :=
  saudit_range K d (Z.to_nat (hi - lo + 1)) lo.

(* ================================================================== the composite prune

   consensus/state.go

     func (cs *State) pruneBlocks(retainHeight int64) (uint64, error) {
         base := cs.blockStore.Base()
         if retainHeight <= base { return 0, nil }
         pruned, err := cs.blockStore.PruneBlocks(retainHeight)
         if err != nil { return 0, fmt.Errorf("failed to prune block store: %w", err) }
         err = cs.blockExec.Store().PruneStates(base, retainHeight)
         if err != nil { return 0, fmt.Errorf("failed to prune state database: %w", err) }
         return pruned, nil
     }

   run by finalizeCommit after SaveBlock and ApplyBlock (SaveABCIResponses, Save(state)) when the
   application's Commit returned a retain height > 0.  The two stores live in two databases; a
   write step of the composite is a write step of one of them, the composite's execution is the
   concatenation of the two halves' write sequences in the order of the calls, and a crash keeps
   a prefix of that concatenation (each half ends in a sync write).  The order of the two calls
   is a parameter so that the swapped order can be exhibited as refuted. *)

Inductive xstep :=
| XB (s : bstep)         (* a write step on blockstore.db *)
| XS (s : sstep).        (* a write step on state.db *)

Definition xdb := (bdb * sdb)%type.

Definition xapply (d : xdb) (s : xstep) : xdb :=
  match s with
  | XB s => (bapply (fst d) s, snd d)
  | XS s => (fst d, sapply (snd d) s)
  end.
Definition xreplay (l : list xstep) (d : xdb) : xdb := fold_left xapply l d.

(* state/store.go SaveABCIResponses(h) with DiscardABCIResponses = false *)
Definition save_abci (h : Z) : list sstep :=
  [SSet (SKABCI h) SVABCI; SSetSync SKLastABCI (SVLastABCI h)].

(* LoadABCIResponses(h) succeeds *)
Definition load_abci (d : sdb) (h : Z) : bool :=
  match sget d (SKABCI h) with Some SVABCI => true | _ => false end.

Inductive prune_order := BlocksFirst | StatesFirst.

(* result code: 0 nil error (also when retain <= base: nothing to do); 1..3 PruneBlocks refused
   (prune_res codes); 20 + c: PruneStates returned its error c.  The memory state of the block
   store after the call and the write steps performed. *)
Definition composite_prune_gen (ord : prune_order) (K B : Z) (m : mem) (bd : bdb) (sd : sdb) (retain : Z)
  : Z * mem * list xstep :=
  let base := m_base m in
  if retain <=? base then (0, m, [])
  else
    match ord with
    | BlocksFirst =>
      match prune_blocks B m bd retain with
      | PErr c => (c, m, [])
      | POk _ m' l _ =>
        let '(sc, sl) := prune_states K B sd base retain in
        ((if sc =? 0 then 0 else 20 + sc), m', map XB l ++ map XS sl)
      end
    | StatesFirst =>
      let '(sc, sl) := prune_states K B sd base retain in
      if negb (sc =? 0) then (20 + sc, m, map XS sl)
      else match prune_blocks B m bd retain with
           | PErr c => (c, m, map XS sl)
           | POk _ m' l _ => (0, m', map XS sl ++ map XB l)
           end
    end.

(* the order the code uses *)
Definition composite_prune := composite_prune_gen BlocksFirst.

(* ---- the cross-store audit: every block the block store retains has its state-store records.
   For h in [base, height]: 1 LoadValidators(h) fails, 2 LoadConsensusParams(h) fails or is
   empty, 3 LoadABCIResponses(h) fails, 4 the validator set is not the one the block header
   names, 5 the parameters are not the ones the header names; 6 (at height + 1) the validators
   of the next height do not load.  (0,0) = all present. *)
Definition xaudit_height (K : Z) (bd : bdb) (sd : sdb) (h : Z) : Z :=
  match load_validators K sd h with
  | None => 1
  | Some v =>
    match load_consensus_params sd h with
    | Some (Some p) =>
      if negb (load_abci sd h) then 3
      else match load_meta bd h with
           | Some (_, _, vh, ph) => if negb (v =? vh) then 4 else if negb (p =? ph) then 5 else 0
           | None => 0      (* reported by the block store audit *)
           end
    | _ => 2
    end
  end.

Fixpoint xaudit_range (K : Z) (bd : bdb) (sd : sdb) (n : nat) (h : Z) : Z * Z :=
  match n with
  | O => match load_validators K sd h with Some _ => (0, 0) | None => (h, 6) end
  | S n' => let r := xaudit_height K bd sd h in
            if r =? 0 then xaudit_range K bd sd n' (h + 1) else (h, r)
  end.

Definition xaudit (K : Z) (d : xdb) : Z * Z :=
  let m := load_state (fst d) in
  if (m_height m <=? 0) || (m_base m <? 1) || (m_height m <? m_base m) then (0, 0)
  else xaudit_range K (fst d) (snd d) (Z.to_nat (m_height m - m_base m + 1)) (m_base m).
