(* C18 — proofs, part 5: every history of state-store Save calls (as the callers make them),
   interleaved with completed, failed and crashed PruneStates calls and with crashes between any
   two database writes of save(), yields a database of the shape the composite-prune theorems
   assume ([StateShape], Proofs.v) - and every retained height resolves to what was saved for it.

   The callers (anchors):
     state/state.go MakeGenesisState      LastBlockHeight 0, LastHeightValidatorsChanged =
                                          LastHeightConsensusParamsChanged = InitialHeight,
                                          NextValidators = Validators.CopyIncrementProposerPriority(1)
                                          (same hash); consensus/replay.go ReplayBlocks after InitChain
                                          keeps these ([genesis_state])
     state/execution.go updateState       LastBlockHeight = header.Height; Validators = old
                                          NextValidators; on validator updates
                                          LastHeightValidatorsChanged = header.Height + 1 + 1, on
                                          parameter updates LastHeightConsensusParamsChanged =
                                          header.Height + 1, otherwise unchanged ([successor])
     consensus/state.go pruneBlocks       PruneStates(base, retain) with base >= every earlier
                                          retain height and retain <= the block store's height
   No axioms. *)
From Coq Require Import List ZArith Bool Lia.
From TM Require Import Generated.Consts C18.Model C18.Proofs.
Import ListNotations.
Open Scope Z_scope.

(* ------------------------------------------------------------------ the callers of Save *)

(* the height save() calls nextHeight *)
Definition nh (st : sstate) : Z := if s_last st + 1 =? 1 then s_initial st else s_last st + 1.

Definition genesis_state (st : sstate) : Prop :=
  s_last st = 0 /\ 1 <= s_initial st /\ s_lhvc st = s_initial st /\ s_lhpc st = s_initial st /\
  s_next_vals st = s_vals st.

(* updateState: the block executed has height [nh st] *)
Definition successor (st st' : sstate) : Prop :=
  s_last st' = nh st /\ s_initial st' = s_initial st /\
  s_vals st' = s_next_vals st /\
  (s_lhvc st' = nh st + 2 \/ (s_lhvc st' = s_lhvc st /\ s_next_vals st' = s_next_vals st)) /\
  (s_lhpc st' = nh st + 1 \/ (s_lhpc st' = s_lhpc st /\ s_params st' = s_params st)).

(* ------------------------------------------------------------------ state-store key-value facts *)

Lemma sget_sset : forall d k v k',
    sget (sapply d (SSet k v)) k' = if skey_eqb k' k then Some v else sget d k'.
Proof. reflexivity. Qed.

Lemma sget_ssetsync : forall d k v k',
    sget (sapply d (SSetSync k v)) k' = if skey_eqb k' k then Some v else sget d k'.
Proof. reflexivity. Qed.

Definition ssimple (s : sstep) : Prop := match s with SBatch _ _ => False | _ => True end.
Definition sstkey (s : sstep) : skey :=
  match s with SSet k _ | SSetSync k _ => k | SBatch _ _ => SKState end.

Lemma sreplay_cons : forall s l d, sreplay (s :: l) d = sreplay l (sapply d s).
Proof. reflexivity. Qed.

Lemma sget_replay_untouched : forall (l : list sstep) d k,
    (forall s, In s l -> ssimple s /\ sstkey s <> k) -> sget (sreplay l d) k = sget d k.
Proof.
  induction l as [|s l IH]; intros d k Hs; [reflexivity|].
  rewrite sreplay_cons. rewrite IH by (intros s' I; apply Hs; right; exact I).
  destruct (Hs s (or_introl eq_refl)) as [S N].
  destruct s as [k0 v|k0 v|ws b]; [| |contradiction]; cbn in N.
  - rewrite sget_sset. rewrite (keqb_neq _ skey_eqb skey_eqb_eq) by congruence. reflexivity.
  - rewrite sget_ssetsync. rewrite (keqb_neq _ skey_eqb skey_eqb_eq) by congruence. reflexivity.
Qed.

(* ------------------------------------------------------------------ arithmetic *)

Lemma ckpt_mod : forall K t, 0 < K -> (t - t mod K) mod K = 0.
Proof.
  intros K t HK. rewrite (Z.mod_eq t K) by lia.
  replace (t - (t - K * (t / K))) with ((t / K) * K) by lia. apply Z_mod_mult.
Qed.

Lemma lsh_le : forall K t l, 0 < K -> l <= t -> last_stored_height_for K t l <= t.
Proof.
  intros K t l HK Hl. unfold last_stored_height_for.
  pose proof (Z.mod_pos_bound t K HK). lia.
Qed.

Lemma lsh_ge : forall K t l, l <= last_stored_height_for K t l.
Proof. intros. unfold last_stored_height_for. lia. Qed.

Lemma lsh_cases : forall K t l, 0 < K ->
    last_stored_height_for K t l = l \/ (last_stored_height_for K t l) mod K = 0.
Proof.
  intros K t l HK. unfold last_stored_height_for.
  destruct (Z.max_spec (t - t mod K) l) as [[_ ->]|[_ ->]]; [left; reflexivity|right; apply ckpt_mod; exact HK].
Qed.

(* ------------------------------------------------------------------ the invariant

   Ghost functions: [L h] / [Lp h] = the LastHeightChanged the record of height h carries,
   [V h] / [P h] = the hash of the validator set / of the parameters of height h.  The database
   holds, for every height of [lo, top + 1] (validators) resp. [lo, top] (parameters), exactly the
   record save() writes: (L h, set iff h = L h or h is a checkpoint height) resp. (Lp h, params
   iff Lp h = h); below [lo] the only records it relies on are the last checkpoint record for
   [lo] and the last-changed parameter record for [lo], which carry their contents. *)
Record Shape (K : Z) (L Lp V P : Z -> Z) (d : sdb) (lo top : Z) : Prop := {
  sh_L_le : forall h, L h <= h;
  sh_L_st : forall h x, L h <= x <= h -> L x = L h;
  sh_V_st : forall h x, L h <= x <= h -> V x = V h;
  sh_Lp_le : forall h, Lp h <= h;
  sh_Lp_st : forall h x, Lp h <= x <= h -> Lp x = Lp h;
  sh_P_st : forall h x, Lp h <= x <= h -> P x = P h;
  sh_lo : lo <= top;
  sh_vals : forall h, lo <= h <= top + 1 ->
      load_vals_info d h = Some (L h, if (h =? L h) || (h mod K =? 0) then Some (V h) else None);
  sh_params : forall h, lo <= h <= top ->
      load_params_info d h = Some (Lp h, if Lp h =? h then Some (P h) else None);
  sh_ckpt : exists l, load_vals_info d (last_stored_height_for K lo (L lo)) = Some (l, Some (V lo));
  sh_pkept : exists l, load_params_info d (Lp lo) = Some (l, Some (P lo))
}.

(* the keys the invariant reads *)
Definition reads (K : Z) (L Lp : Z -> Z) (lo top : Z) (k : skey) : Prop :=
  match k with
  | SKVals x => lo <= x <= top + 1 \/ x = last_stored_height_for K lo (L lo)
  | SKParams x => lo <= x <= top \/ x = Lp lo
  | _ => False
  end.

Lemma shape_ext : forall K L Lp V P d d' lo top,
    Shape K L Lp V P d lo top ->
    (forall k, reads K L Lp lo top k -> sget d' k = sget d k) ->
    Shape K L Lp V P d' lo top.
Proof.
  intros K L Lp V P d d' lo top [A1 A2 A3 A4 A5 A6 A7 Sv Sp [lc Sc] [lk Sk]] E.
  constructor; try assumption.
  - intros h R. unfold load_vals_info. rewrite E by (cbn; left; exact R). exact (Sv h R).
  - intros h R. unfold load_params_info. rewrite E by (cbn; left; exact R). exact (Sp h R).
  - exists lc. unfold load_vals_info. rewrite E by (cbn; right; reflexivity). exact Sc.
  - exists lk. unfold load_params_info. rewrite E by (cbn; right; reflexivity). exact Sk.
Qed.

(* a record of the shaped range that sits at its own last-changed height or at a checkpoint
   height is full *)
Lemma shape_vals_full : forall K L Lp V P d lo top x,
    Shape K L Lp V P d lo top -> lo <= x <= top + 1 -> L x = x \/ x mod K = 0 ->
    load_vals_info d x = Some (L x, Some (V x)).
Proof.
  intros K L Lp V P d lo top x S R C. rewrite (sh_vals _ _ _ _ _ _ _ _ S x R).
  replace ((x =? L x) || (x mod K =? 0)) with true; [reflexivity|].
  symmetry. apply orb_true_iff. destruct C as [C|C]; [left; apply Z.eqb_eq; lia|right; apply Z.eqb_eq; exact C].
Qed.

Lemma shape_params_full : forall K L Lp V P d lo top x,
    Shape K L Lp V P d lo top -> lo <= x <= top -> Lp x = x ->
    load_params_info d x = Some (Lp x, Some (P x)).
Proof.
  intros K L Lp V P d lo top x S R C. rewrite (sh_params _ _ _ _ _ _ _ _ S x R).
  replace (Lp x =? x) with true by (symmetry; apply Z.eqb_eq; exact C). reflexivity.
Qed.

(* the checkpoint record / the last-changed parameter record for any height of the range *)
Lemma shape_ckpt_at : forall K L Lp V P d lo top t, 0 < K ->
    Shape K L Lp V P d lo top -> lo <= t <= top + 1 ->
    exists l, load_vals_info d (last_stored_height_for K t (L t)) = Some (l, Some (V t)).
Proof.
  intros K L Lp V P d lo top t HK S R.
  pose proof (sh_L_le _ _ _ _ _ _ _ _ S) as Lle. pose proof (sh_L_st _ _ _ _ _ _ _ _ S) as Lst.
  pose proof (sh_V_st _ _ _ _ _ _ _ _ S) as Vst.
  set (c := last_stored_height_for K t (L t)).
  assert (Hc1 : L t <= c) by apply lsh_ge.
  assert (Hc2 : c <= t) by (apply lsh_le; [exact HK|apply Lle]).
  destruct (Z_lt_le_dec c lo) as [Lt|Ge].
  - (* below the range: it is the checkpoint record kept for lo *)
    assert (E1 : L lo = L t) by (apply Lst; lia).
    assert (E2 : V lo = V t) by (apply Vst; lia).
    assert (E3 : lo - lo mod K = t - t mod K).
    { apply ckpt_eq; [exact HK|]. unfold c, last_stored_height_for in Lt. lia. }
    destruct (sh_ckpt _ _ _ _ _ _ _ _ S) as [l El]. exists l.
    unfold c, last_stored_height_for. rewrite <- E1, <- E3, <- E2. exact El.
  - exists (L c).
    assert (Ec : L c = L t) by (apply Lst; lia).
    assert (Ev : V c = V t) by (apply Vst; lia).
    rewrite <- Ev. apply (shape_vals_full K L Lp V P d lo top c S); [lia|].
    destruct (lsh_cases K t (L t) HK) as [E|E]; fold c in E; [left; lia|right; exact E].
Qed.

Lemma shape_pkept_at : forall K L Lp V P d lo top t,
    Shape K L Lp V P d lo top -> lo <= t <= top ->
    exists l, load_params_info d (Lp t) = Some (l, Some (P t)).
Proof.
  intros K L Lp V P d lo top t S R.
  pose proof (sh_Lp_le _ _ _ _ _ _ _ _ S) as Lle. pose proof (sh_Lp_st _ _ _ _ _ _ _ _ S) as Lst.
  pose proof (sh_P_st _ _ _ _ _ _ _ _ S) as Pst.
  destruct (Z_lt_le_dec (Lp t) lo) as [Lt|Ge].
  - assert (E1 : Lp lo = Lp t) by (apply Lst; lia).
    assert (E2 : P lo = P t) by (apply Pst; lia).
    destruct (sh_pkept _ _ _ _ _ _ _ _ S) as [l El]. exists l. rewrite <- E1, <- E2. exact El.
  - exists (Lp (Lp t)). pose proof (Lle t).
    assert (Ec : Lp (Lp t) = Lp t) by (apply Lst; lia).
    assert (Ev : P (Lp t) = P t) by (apply Pst; lia).
    rewrite <- Ev. apply (shape_params_full K L Lp V P d lo top (Lp t) S); [lia|exact Ec].
Qed.

(* the lower bound may move up *)
Lemma shape_weaken : forall K L Lp V P d lo top t, 0 < K ->
    Shape K L Lp V P d lo top -> lo <= t <= top -> Shape K L Lp V P d t top.
Proof.
  intros K L Lp V P d lo top t HK S R.
  pose proof (shape_ckpt_at K L Lp V P d lo top t HK S ltac:(lia)) as Ck.
  pose proof (shape_pkept_at K L Lp V P d lo top t S R) as Pk.
  destruct S as [A1 A2 A3 A4 A5 A6 A7 Sv Sp Sc Sk].
  constructor; try assumption; [lia| |].
  - intros h Rh. apply Sv. lia.
  - intros h Rh. apply Sp. lia.
Qed.

(* ------------------------------------------------------------------ what every retained height resolves to *)

Lemma shape_load_validators : forall K L Lp V P d lo top h, 0 < K ->
    Shape K L Lp V P d lo top -> lo <= h <= top + 1 -> load_validators K d h = Some (V h).
Proof.
  intros K L Lp V P d lo top h HK S R. unfold load_validators.
  rewrite (sh_vals _ _ _ _ _ _ _ _ S h R).
  destruct ((h =? L h) || (h mod K =? 0)); [reflexivity|].
  destruct (shape_ckpt_at K L Lp V P d lo top h HK S R) as [l ->]. reflexivity.
Qed.

Lemma shape_load_params : forall K L Lp V P d lo top h,
    Shape K L Lp V P d lo top -> lo <= h <= top -> load_consensus_params d h = Some (Some (P h)).
Proof.
  intros K L Lp V P d lo top h S R. unfold load_consensus_params.
  rewrite (sh_params _ _ _ _ _ _ _ _ S h R).
  destruct (Lp h =? h); [reflexivity|].
  destruct (shape_pkept_at K L Lp V P d lo top h S R) as [l ->]. reflexivity.
Qed.

(* ------------------------------------------------------------------ Shape gives StateShape *)

Lemma shape_state_shape : forall K L Lp V P d lo top from to, 0 < K ->
    Shape K L Lp V P d lo top -> lo <= from -> lo <= to <= top ->
    StateShape K L Lp d from to top.
Proof.
  intros K L Lp V P d lo top from to HK S Rf Rt.
  pose proof (sh_L_le _ _ _ _ _ _ _ _ S) as Lle. pose proof (sh_L_st _ _ _ _ _ _ _ _ S) as Lst.
  pose proof (sh_Lp_le _ _ _ _ _ _ _ _ S) as Lple. pose proof (sh_Lp_st _ _ _ _ _ _ _ _ S) as Lpst.
  constructor; try assumption.
  - intros h R. eexists. split; [apply (sh_vals _ _ _ _ _ _ _ _ S); lia|].
    destruct ((h =? L h) || (h mod K =? 0)) eqn:E; [|intros N; contradiction].
    intros _. apply orb_true_iff in E. destruct E as [E|E]; apply Z.eqb_eq in E; [left; lia|right; exact E].
  - intros h R. eexists. split; [apply (sh_params _ _ _ _ _ _ _ _ S); lia|].
    destruct (Lp h =? h) eqn:E; [|intros N; contradiction]. intros _. apply Z.eqb_eq. exact E.
  - intros x Rx C. exists (L x), (V x). apply (shape_vals_full K L Lp V P d lo top x S); [lia|].
    destruct C as [->| ->].
    + left. apply Lst. pose proof (Lle to). lia.
    + destruct (lsh_cases K to (L to) HK) as [E|E]; [|right; exact E].
      left. rewrite E. apply Lst. pose proof (Lle to). lia.
  - intros x Rx ->. exists (Lp (Lp to)), (P (Lp to)).
    apply (shape_params_full K L Lp V P d lo top (Lp to) S); [lia|].
    apply Lpst. pose proof (Lple to). lia.
Qed.

(* ------------------------------------------------------------------ PruneStates keeps the invariant *)

(* after ANY prefix of the write steps of PruneStates(from, to) - completed, failed inside the
   loop, or cut by a crash - with lo <= from < to <= top, the invariant holds with lower bound to *)
Lemma shape_prune_protected : forall K B L Lp V P d lo top from to code l, 0 < K ->
    Shape K L Lp V P d lo top -> lo <= from -> from < to -> to <= top ->
    prune_states K B d from to = (code, l) ->
    forall n k, sprot to (keepV_of K d to) (keepP_of d to) k -> sget (sreplay (firstn n l) d) k = sget d k.
Proof.
  intros K B L Lp V P d lo top from to code l HK S Rf Rft Rt E.
  pose proof (sh_L_le _ _ _ _ _ _ _ _ S) as Lle. pose proof (sh_L_st _ _ _ _ _ _ _ _ S) as Lst.
  pose proof (sh_Lp_le _ _ _ _ _ _ _ _ S) as Lple. pose proof (sh_Lp_st _ _ _ _ _ _ _ _ S) as Lpst.
  assert (Rto : lo <= to <= top + 1) by lia.
  pose proof (sh_vals _ _ _ _ _ _ _ _ S to Rto) as Evt.
  pose proof (sh_params _ _ _ _ _ _ _ _ S to ltac:(lia)) as Ept.
  assert (HkV : forall x, In x (keepV_of K d to) -> from <= x < to ->
                          exists l v, load_vals_info d x = Some (l, Some v)).
  { intros x I Rx. exists (L x), (V x). apply (shape_vals_full K L Lp V P d lo top x S); [lia|].
    unfold keepV_of in I. rewrite Evt in I.
    destruct ((to =? L to) || (to mod K =? 0)); [contradiction|].
    destruct I as [<-|[<-|[]]].
    - left. apply Lst. pose proof (Lle to). lia.
    - destruct (lsh_cases K to (L to) HK) as [E'|E']; [|right; exact E'].
      left. rewrite E'. apply Lst. pose proof (Lle to). lia. }
  assert (HkP : forall x, In x (keepP_of d to) -> from <= x < to ->
                          exists l p, load_params_info d x = Some (l, Some p)).
  { intros x I Rx. exists (Lp x), (P x). apply (shape_params_full K L Lp V P d lo top x S); [lia|].
    unfold keepP_of in I. rewrite Ept in I. destruct (Lp to =? to); [contradiction|].
    destruct I as [<-|[]]. apply Lpst. pose proof (Lple to). lia. }
  exact (prune_states_protected K B d from to code l HkV HkP E).
Qed.

Lemma shape_prune : forall K B L Lp V P d lo top from to code l n, 0 < K ->
    Shape K L Lp V P d lo top -> lo <= from -> from < to -> to <= top ->
    prune_states K B d from to = (code, l) ->
    Shape K L Lp V P (sreplay (firstn n l) d) to top.
Proof.
  intros K B L Lp V P d lo top from to code l n HK S Rf Rft Rt E.
  pose proof (sh_L_le _ _ _ _ _ _ _ _ S) as Lle. pose proof (sh_Lp_le _ _ _ _ _ _ _ _ S) as Lple.
  assert (Rto : lo <= to <= top + 1) by lia.
  pose proof (sh_vals _ _ _ _ _ _ _ _ S to Rto) as Evt.
  pose proof (sh_params _ _ _ _ _ _ _ _ S to ltac:(lia)) as Ept.
  pose proof (shape_prune_protected K B L Lp V P d lo top from to code l HK S Rf Rft Rt E n) as Prot.
  apply (shape_ext K L Lp V P d); [apply (shape_weaken K L Lp V P d lo top to HK S); lia|].
  intros k Rk. apply Prot. destruct k as [x|x|x| |]; cbn in Rk |- *; try contradiction.
  - destruct Rk as [Rk|Rk]; [left; lia|].
    unfold keepV_of. rewrite Evt.
    destruct ((to =? L to) || (to mod K =? 0)) eqn:C.
    + left. rewrite Rk. apply orb_true_iff in C. unfold last_stored_height_for.
      pose proof (Lle to). pose proof (Z.mod_pos_bound to K HK).
      destruct C as [C|C]; apply Z.eqb_eq in C; lia.
    + right. right. left. symmetry. exact Rk.
  - destruct Rk as [Rk|Rk]; [left; lia|].
    unfold keepP_of. rewrite Ept. destruct (Lp to =? to) eqn:C.
    + left. apply Z.eqb_eq in C. lia.
    + right. left. symmetry. exact Rk.
Qed.

(* ------------------------------------------------------------------ save() keeps / extends the invariant *)

(* extending a last-changed function and a value function at height t and above: either a change
   at t, or the values of t - 1 *)
Lemma extend_funs : forall (L V : Z -> Z) t c nv,
    (forall h, L h <= h) -> (forall h x, L h <= x <= h -> L x = L h) ->
    (forall h x, L h <= x <= h -> V x = V h) ->
    c = t \/ (c = L (t - 1) /\ nv = V (t - 1)) ->
    let L' := fun h => if h <? t then L h else c in
    let V' := fun h => if h <? t then V h else nv in
    (forall h, L' h <= h) /\ (forall h x, L' h <= x <= h -> L' x = L' h) /\
    (forall h x, L' h <= x <= h -> V' x = V' h).
Proof.
  intros L V t c nv Lle Lst Vst C L' V'. unfold L', V'. pose proof (Lle (t - 1)) as B.
  split; [|split].
  - intros h. destruct (h <? t) eqn:E; [apply Lle|]. apply Z.ltb_ge in E. lia.
  - intros h x. destruct (h <? t) eqn:E; destruct (x <? t) eqn:E'; intros R;
      try apply Z.ltb_ge in E; try apply Z.ltb_ge in E'; try apply Z.ltb_lt in E; try apply Z.ltb_lt in E'.
    + apply Lst. exact R.
    + lia.
    + destruct C as [C|[C _]]; [lia|]. rewrite C. apply Lst. lia.
    + reflexivity.
  - intros h x. destruct (h <? t) eqn:E; destruct (x <? t) eqn:E'; intros R;
      try apply Z.ltb_ge in E; try apply Z.ltb_ge in E'; try apply Z.ltb_lt in E; try apply Z.ltb_lt in E'.
    + apply Vst. exact R.
    + lia.
    + destruct C as [C|[C ->]]; [lia|]. apply Vst. lia.
    + reflexivity.
Qed.

(* the link between the ghost functions and the state the caller holds *)
Record Linked (L Lp V P : Z -> Z) (st : sstate) : Prop := {
  lk_pos : 1 <= nh st;
  lk_L : L (nh st + 1) = s_lhvc st;
  lk_V1 : V (nh st + 1) = s_next_vals st;
  lk_V0 : V (nh st) = s_vals st;
  lk_Lp : Lp (nh st) = s_lhpc st;
  lk_P : P (nh st) = s_params st
}.

(* what a completed Save(s) recorded: the validators of heights nh s and nh s + 1, the
   parameters of height nh s *)
Definition Rec (V P : Z -> Z) (top : Z) (s : sstate) : Prop :=
  nh s <= top /\ V (nh s + 1) = s_next_vals s /\ V (nh s) = s_vals s /\ P (nh s) = s_params s.

(* [hist]: the states of the completed Save calls, newest first *)
Definition Inv (K : Z) (hist : list sstate) (st : sstate) (lo : Z) (d : sdb) : Prop :=
  exists L Lp V P, Shape K L Lp V P d lo (nh st) /\ Linked L Lp V P st /\ Forall (Rec V P (nh st)) hist.

Lemma nh_succ : forall st st', 1 <= nh st -> successor st st' -> nh st' = nh st + 1.
Proof.
  intros st st' H (E & _). unfold nh at 1. rewrite E.
  replace (nh st + 1 =? 1) with false by (symmetry; apply Z.eqb_neq; lia). reflexivity.
Qed.

(* the writes of save(st') for a successor state *)
Lemma state_save_succ : forall K st', s_last st' + 1 <> 1 -> s_lhvc st' <= s_last st' + 2 ->
    state_save K st' =
    ([ SSet (SKVals (s_last st' + 2))
            (SVVals (s_lhvc st') (if (s_last st' + 2 =? s_lhvc st') || ((s_last st' + 2) mod K =? 0)
                                  then Some (s_next_vals st') else None));
       SSet (SKParams (s_last st' + 1))
            (SVParams (s_lhpc st') (if s_lhpc st' =? s_last st' + 1 then Some (s_params st') else None));
       SSetSync SKState (SVState (s_last st')) ], true).
Proof.
  intros K st N H. unfold state_save.
  replace (s_last st + 1 =? 1) with false by (symmetry; apply Z.eqb_neq; exact N).
  unfold save_vals_info. replace (s_last st + 1 + 1 <? s_lhvc st) with false by (symmetry; apply Z.ltb_ge; lia).
  unfold save_params_info. replace (s_last st + 1 + 1) with (s_last st + 2) by lia. reflexivity.
Qed.

Lemma successor_lhvc_le : forall L Lp V P st st', (forall h, L h <= h) ->
    Linked L Lp V P st -> successor st st' -> s_lhvc st' <= s_last st' + 2.
Proof.
  intros L Lp V P st st' Lle Lk (E & _ & _ & C & _). rewrite E.
  destruct C as [C|[C _]]; [lia|]. rewrite C, <- (lk_L _ _ _ _ _ Lk). pose proof (Lle (nh st + 1)). lia.
Qed.

(* a crash inside save(st'): any prefix of its writes leaves the invariant of the last completed
   save untouched (the writes go to the records of heights above the shaped range) *)
Lemma inv_save_prefix : forall K hist st st' lo d n, 0 < K ->
    Inv K hist st lo d -> successor st st' ->
    Inv K hist st lo (sreplay (firstn n (fst (state_save K st'))) d).
Proof.
  intros K hist st st' lo d n HK (L & Lp & V & P & S & Lk & Hh) Su.
  exists L, Lp, V, P. split; [|split; [exact Lk|exact Hh]].
  pose proof (sh_L_le _ _ _ _ _ _ _ _ S) as Lle. pose proof (sh_Lp_le _ _ _ _ _ _ _ _ S) as Lple.
  pose proof (sh_lo _ _ _ _ _ _ _ _ S) as Hlo. pose proof (lk_pos _ _ _ _ _ Lk) as Hpos.
  assert (El : s_last st' = nh st) by (destruct Su as [E _]; exact E).
  rewrite (state_save_succ K st') by (try (apply (successor_lhvc_le L Lp V P st st' Lle Lk Su)); lia).
  cbn [fst]. apply (shape_ext K L Lp V P d); [exact S|].
  intros k Rk. apply sget_replay_untouched. intros s I. apply in_firstn in I.
  assert (Hc : last_stored_height_for K lo (L lo) <= lo) by (apply lsh_le; [exact HK|apply Lle]).
  destruct I as [<-|[<-|[<-|[]]]]; (split; [exact Logic.I|]); cbn; destruct k; cbn in Rk; try contradiction; try discriminate.
  - intro Q. injection Q as Q. pose proof (Lple lo). lia.
  - intro Q. injection Q as Q. pose proof (Lple lo). lia.
Qed.

(* the database after the three writes of save() for a successor state *)
Lemma lvi_after_save : forall d a l o b lp op sv h,
    load_vals_info (sreplay [SSet (SKVals a) (SVVals l o); SSet (SKParams b) (SVParams lp op);
                             SSetSync SKState (SVState sv)] d) h =
    if h =? a then Some (l, o) else load_vals_info d h.
Proof.
  intros. unfold load_vals_info, sget, sreplay, replay. cbn [fold_left apply_step set get skey_eqb].
  destruct (h =? a); reflexivity.
Qed.

Lemma lpi_after_save : forall d a l o b lp op sv h,
    load_params_info (sreplay [SSet (SKVals a) (SVVals l o); SSet (SKParams b) (SVParams lp op);
                               SSetSync SKState (SVState sv)] d) h =
    if h =? b then Some (lp, op) else load_params_info d h.
Proof.
  intros. unfold load_params_info, sget, sreplay, replay. cbn [fold_left apply_step set get skey_eqb].
  destruct (h =? b); reflexivity.
Qed.

(* a completed save(st') of a successor state extends the invariant by one height *)
Lemma inv_save_full : forall K hist st st' lo d, 0 < K ->
    Inv K hist st lo d -> successor st st' ->
    Inv K (st' :: hist) st' lo (sreplay (fst (state_save K st')) d).
Proof.
  intros K hist st st' lo d HK (L & Lp & V & P & S & Lk & Hh) Su.
  pose proof (sh_L_le _ _ _ _ _ _ _ _ S) as Lle. pose proof (sh_L_st _ _ _ _ _ _ _ _ S) as Lst.
  pose proof (sh_V_st _ _ _ _ _ _ _ _ S) as Vst.
  pose proof (sh_Lp_le _ _ _ _ _ _ _ _ S) as Lple. pose proof (sh_Lp_st _ _ _ _ _ _ _ _ S) as Lpst.
  pose proof (sh_P_st _ _ _ _ _ _ _ _ S) as Pst.
  pose proof (sh_lo _ _ _ _ _ _ _ _ S) as Hlo. pose proof (lk_pos _ _ _ _ _ Lk) as Hpos.
  pose proof (nh_succ st st' Hpos Su) as Enh.
  pose proof (successor_lhvc_le L Lp V P st st' Lle Lk Su) as Hle.
  destruct Su as (El & Ei & Ev & Cv & Cp).
  rewrite (state_save_succ K st') by lia. cbn [fst]. rewrite El.
  destruct Lk as [_ QL QV1 QV0 QLp QP].
  set (top := nh st) in *.
  set (c := s_lhvc st') in *. set (nv := s_next_vals st') in *.
  set (cp := s_lhpc st') in *. set (np := s_params st') in *.
  assert (Cv' : c = top + 2 \/ (c = L (top + 2 - 1) /\ nv = V (top + 2 - 1))).
  { replace (top + 2 - 1) with (top + 1) by lia.
    destruct Cv as [Cv|[Cv1 Cv2]]; [left; exact Cv|right].
    rewrite QL, QV1. split; assumption. }
  assert (Cp' : cp = top + 1 \/ (cp = Lp (top + 1 - 1) /\ np = P (top + 1 - 1))).
  { replace (top + 1 - 1) with top by lia.
    destruct Cp as [Cp|[Cp1 Cp2]]; [left; exact Cp|right].
    rewrite QLp, QP. split; assumption. }
  destruct (extend_funs L V (top + 2) c nv Lle Lst Vst Cv') as (L'le & L'st & V'st).
  destruct (extend_funs Lp P (top + 1) cp np Lple Lpst Pst Cp') as (Lp'le & Lp'st & P'st).
  set (L' := fun h => if h <? top + 2 then L h else c) in *.
  set (V' := fun h => if h <? top + 2 then V h else nv) in *.
  set (Lp' := fun h => if h <? top + 1 then Lp h else cp) in *.
  set (P' := fun h => if h <? top + 1 then P h else np) in *.
  assert (EL : forall h, h < top + 2 -> L' h = L h /\ V' h = V h).
  { intros h R. unfold L', V'. replace (h <? top + 2) with true by (symmetry; apply Z.ltb_lt; exact R). split; reflexivity. }
  assert (EL2 : L' (top + 2) = c /\ V' (top + 2) = nv).
  { unfold L', V'. rewrite Z.ltb_irrefl. split; reflexivity. }
  assert (ELp : forall h, h < top + 1 -> Lp' h = Lp h /\ P' h = P h).
  { intros h R. unfold Lp', P'. replace (h <? top + 1) with true by (symmetry; apply Z.ltb_lt; exact R). split; reflexivity. }
  assert (ELp2 : Lp' (top + 1) = cp /\ P' (top + 1) = np).
  { unfold Lp', P'. rewrite Z.ltb_irrefl. split; reflexivity. }
  exists L', Lp', V', P'. split.
  - rewrite Enh. constructor; try assumption.
    + lia.
    + intros h R. rewrite lvi_after_save. destruct (Z.eq_dec h (top + 2)) as [->|N].
      * rewrite Z.eqb_refl. destruct EL2 as [-> ->]. reflexivity.
      * replace (h =? top + 2) with false by (symmetry; apply Z.eqb_neq; exact N).
        destruct (EL h ltac:(lia)) as [-> ->]. apply (sh_vals _ _ _ _ _ _ _ _ S). lia.
    + intros h R. rewrite lpi_after_save. destruct (Z.eq_dec h (top + 1)) as [->|N].
      * rewrite Z.eqb_refl. destruct ELp2 as [-> ->]. reflexivity.
      * replace (h =? top + 1) with false by (symmetry; apply Z.eqb_neq; exact N).
        destruct (ELp h ltac:(lia)) as [-> ->]. apply (sh_params _ _ _ _ _ _ _ _ S). lia.
    + destruct (EL lo ltac:(lia)) as [-> ->]. destruct (sh_ckpt _ _ _ _ _ _ _ _ S) as [l Sc]. exists l.
      rewrite lvi_after_save.
      pose proof (lsh_le K lo (L lo) HK (Lle lo)).
      replace (last_stored_height_for K lo (L lo) =? top + 2) with false by (symmetry; apply Z.eqb_neq; lia).
      exact Sc.
    + destruct (ELp lo ltac:(lia)) as [-> ->]. destruct (sh_pkept _ _ _ _ _ _ _ _ S) as [l Sk]. exists l.
      rewrite lpi_after_save. pose proof (Lple lo).
      replace (Lp lo =? top + 1) with false by (symmetry; apply Z.eqb_neq; lia).
      exact Sk.
  - assert (Lk' : Linked L' Lp' V' P' st').
    { constructor; rewrite Enh.
      + lia.
      + replace (top + 1 + 1) with (top + 2) by lia. apply EL2.
      + replace (top + 1 + 1) with (top + 2) by lia. apply EL2.
      + destruct (EL (top + 1) ltac:(lia)) as [_ ->]. rewrite QV1. symmetry. exact Ev.
      + apply ELp2.
      + apply ELp2. }
    split; [exact Lk'|]. constructor.
    + destruct Lk' as [_ _ R1 R0 _ RP']. unfold Rec. split; [lia|]. split; [exact R1|]. split; [exact R0|exact RP'].
    + rewrite Enh. eapply Forall_impl; [|exact Hh]. intros s (R0 & R1 & R2 & R3). unfold Rec.
      destruct (EL (nh s + 1) ltac:(lia)) as [_ ->]. destruct (EL (nh s) ltac:(lia)) as [_ ->].
      destruct (ELp (nh s) ltac:(lia)) as [_ ->]. repeat split; try assumption; lia.
Qed.

(* the genesis save, on ANY database (whatever an earlier, crashed attempt left behind) *)
Lemma inv_genesis : forall K st d, 0 < K -> genesis_state st ->
    Inv K [st] st (s_initial st) (sreplay (fst (state_save K st)) d).
Proof.
  intros K st d HK (E0 & HI & Ev & Ep & Env).
  set (I := s_initial st) in *.
  assert (Enh : nh st = I) by (unfold nh; rewrite E0; reflexivity).
  assert (Esave : fst (state_save K st) =
    [ SSet (SKVals I) (SVVals I (if (I =? I) || (I mod K =? 0) then Some (s_vals st) else None));
      SSet (SKVals (I + 1)) (SVVals I (if (I + 1 =? I) || ((I + 1) mod K =? 0) then Some (s_vals st) else None));
      SSet (SKParams I) (SVParams I (if I =? I then Some (s_params st) else None));
      SSetSync SKState (SVState 0) ]).
  { unfold state_save. rewrite E0. cbn [Z.add Z.eqb Pos.eqb]. fold I. unfold save_vals_info.
    rewrite Z.ltb_irrefl. rewrite Ev, Env.
    replace (I + 1 <? I) with false by (symmetry; apply Z.ltb_ge; lia).
    unfold save_params_info. rewrite Ep. reflexivity. }
  rewrite Esave.
  set (Lg := fun h : Z => if h <? I then h else I).
  assert (Lgle : forall h, Lg h <= h).
  { intros h. unfold Lg. destruct (h <? I) eqn:E; [lia|apply Z.ltb_ge in E; lia]. }
  assert (Lgst : forall h x, Lg h <= x <= h -> Lg x = Lg h).
  { intros h x. unfold Lg. destruct (h <? I) eqn:E; destruct (x <? I) eqn:E'; intros R;
      try apply Z.ltb_ge in E; try apply Z.ltb_ge in E'; try apply Z.ltb_lt in E; try apply Z.ltb_lt in E'; lia. }
  assert (LgI : forall h, I <= h -> Lg h = I).
  { intros h R. unfold Lg. replace (h <? I) with false by (symmetry; apply Z.ltb_ge; exact R). reflexivity. }
  assert (RV : forall h, load_vals_info (sreplay
      [ SSet (SKVals I) (SVVals I (if (I =? I) || (I mod K =? 0) then Some (s_vals st) else None));
        SSet (SKVals (I + 1)) (SVVals I (if (I + 1 =? I) || ((I + 1) mod K =? 0) then Some (s_vals st) else None));
        SSet (SKParams I) (SVParams I (if I =? I then Some (s_params st) else None));
        SSetSync SKState (SVState 0) ] d) h =
      if h =? I + 1 then Some (I, if (I + 1 =? I) || ((I + 1) mod K =? 0) then Some (s_vals st) else None)
      else if h =? I then Some (I, if (I =? I) || (I mod K =? 0) then Some (s_vals st) else None)
      else load_vals_info d h).
  { intros h. unfold load_vals_info, sget, sreplay, replay. cbn [fold_left apply_step set get skey_eqb].
    destruct (h =? I + 1); [reflexivity|]. destruct (h =? I); reflexivity. }
  assert (RP : forall h, load_params_info (sreplay
      [ SSet (SKVals I) (SVVals I (if (I =? I) || (I mod K =? 0) then Some (s_vals st) else None));
        SSet (SKVals (I + 1)) (SVVals I (if (I + 1 =? I) || ((I + 1) mod K =? 0) then Some (s_vals st) else None));
        SSet (SKParams I) (SVParams I (if I =? I then Some (s_params st) else None));
        SSetSync SKState (SVState 0) ] d) h =
      if h =? I then Some (I, if I =? I then Some (s_params st) else None) else load_params_info d h).
  { intros h. unfold load_params_info, sget, sreplay, replay. cbn [fold_left apply_step set get skey_eqb].
    destruct (h =? I); reflexivity. }
  exists Lg, Lg, (fun _ => s_vals st), (fun _ => s_params st). split.
  - rewrite Enh. constructor; try assumption; try (intros; reflexivity).
    + intros h R. rewrite RV. assert (C : h = I \/ h = I + 1) by lia. destruct C as [->| ->].
      * replace (I =? I + 1) with false by (symmetry; apply Z.eqb_neq; lia). rewrite Z.eqb_refl.
        rewrite (LgI I) by lia. rewrite ?Z.eqb_refl. reflexivity.
      * rewrite Z.eqb_refl. rewrite (LgI (I + 1)) by lia. reflexivity.
    + intros h R. rewrite RP. assert (h = I) by lia. subst h. rewrite Z.eqb_refl.
      rewrite (LgI I) by lia. rewrite ?Z.eqb_refl. reflexivity.
    + rewrite (LgI I) by lia. exists I. rewrite RV.
      assert (Ec : last_stored_height_for K I I = I).
      { unfold last_stored_height_for. pose proof (Z.mod_pos_bound I K HK). lia. }
      rewrite Ec. replace (I =? I + 1) with false by (symmetry; apply Z.eqb_neq; lia).
      rewrite !Z.eqb_refl. reflexivity.
    + rewrite (LgI I) by lia. exists I. rewrite RP. rewrite !Z.eqb_refl. reflexivity.
  - split.
    + constructor; rewrite ?Enh; try reflexivity.
      * exact HI.
      * rewrite (LgI (I + 1)) by lia. symmetry. exact Ev.
      * symmetry. exact Env.
      * rewrite (LgI I) by lia. symmetry. exact Ep.
    + constructor; [|constructor]. unfold Rec. split; [lia|]. split; [symmetry; exact Env|]. split; reflexivity.
Qed.

(* ------------------------------------------------------------------ histories

   The state databases reachable by the callers.  [SReach K B st lo d]: [st] is the state of the
   last completed Save, [lo] the retain height of the last PruneStates call that wrote anything
   (the initial height before the first one), [d] the database. *)
Inductive SReach (K B : Z) : list sstate -> sstate -> Z -> sdb -> Prop :=
| SR_genesis : forall st d0,
    genesis_state st -> SReach K B [st] st (s_initial st) (sreplay (fst (state_save K st)) d0)
| SR_save : forall hist st st' lo d,
    SReach K B hist st lo d -> successor st st' ->
    SReach K B (st' :: hist) st' lo (sreplay (fst (state_save K st')) d)
| SR_save_crash : forall hist st st' lo d n,
    SReach K B hist st lo d -> successor st st' ->
    SReach K B hist st lo (sreplay (firstn n (fst (state_save K st'))) d)
| SR_abci : forall hist st lo d h n,
    SReach K B hist st lo d -> SReach K B hist st lo (sreplay (firstn n (save_abci h)) d)
| SR_prune : forall hist st lo d from to code l n,
    SReach K B hist st lo d -> lo <= from -> from < to -> to <= nh st ->
    prune_states K B d from to = (code, l) ->
    SReach K B hist st to (sreplay (firstn n l) d)
| SR_prune_refused : forall hist st lo d from to code l n,
    SReach K B hist st lo d -> (to <= from \/ from <= 0) ->
    prune_states K B d from to = (code, l) ->
    SReach K B hist st lo (sreplay (firstn n l) d).

Lemma prune_states_refused : forall K B d from to code l,
    (to <= from \/ from <= 0) -> prune_states K B d from to = (code, l) -> l = [].
Proof.
  intros K B d from to code l C E. unfold prune_states in E.
  destruct ((from <=? 0) || (to <=? 0)) eqn:E1; [inversion E; reflexivity|].
  destruct (to <=? from) eqn:E2; [inversion E; reflexivity|].
  apply orb_false_iff in E1. destruct E1 as [E1 _]. apply Z.leb_gt in E1. apply Z.leb_gt in E2. lia.
Qed.

Lemma inv_abci : forall K hist st lo d h n,
    Inv K hist st lo d -> Inv K hist st lo (sreplay (firstn n (save_abci h)) d).
Proof.
  intros K hist st lo d h n (L & Lp & V & P & S & Lk). exists L, Lp, V, P. split; [|exact Lk].
  apply (shape_ext K L Lp V P d); [exact S|]. intros k Rk. apply sget_replay_untouched.
  intros s I. apply in_firstn in I. unfold save_abci in I.
  destruct I as [<-|[<-|[]]]; (split; [exact Logic.I|]); cbn; destruct k; cbn in Rk; try contradiction; discriminate.
Qed.

Lemma sreach_inv : forall K B hist st lo d, 0 < K -> SReach K B hist st lo d -> Inv K hist st lo d.
Proof.
  intros K B hist st lo d HK R. induction R.
  - apply inv_genesis; assumption.
  - apply (inv_save_full K hist st st' lo d HK IHR H).
  - apply (inv_save_prefix K hist st st' lo d n HK IHR H).
  - apply inv_abci; assumption.
  - destruct IHR as (L & Lp & V & P & S & Lk). exists L, Lp, V, P. split; [|exact Lk].
    apply (shape_prune K B L Lp V P d lo (nh st) from to code l n HK S); assumption.
  - rewrite (prune_states_refused K B d from to code l H H0). rewrite firstn_nil. exact IHR.
Qed.

(* ------------------------------------------------------------------ (1) every history has the shape *)

Lemma save_history_has_shape : forall K B hist st lo d, 0 < K -> SReach K B hist st lo d ->
    exists L Lp, forall from to, lo <= from -> lo <= to <= nh st -> StateShape K L Lp d from to (nh st).
Proof.
  intros K B hist st lo d HK R. destruct (sreach_inv K B hist st lo d HK R) as (L & Lp & V & P & S & _).
  exists L, Lp. intros from to Rf Rt. apply (shape_state_shape K L Lp V P d lo (nh st) from to HK S Rf Rt).
Qed.

(* ------------------------------------------------------------------ (3) every retained height resolves to what was saved for it *)

Lemma save_history_resolves : forall K B hist st lo d, 0 < K -> SReach K B hist st lo d ->
    (forall h, lo <= h <= nh st + 1 -> load_validators K d h <> None) /\
    (forall h, lo <= h <= nh st -> exists p, load_consensus_params d h = Some (Some p)) /\
    forall s, In s hist ->
      (lo <= nh s -> load_validators K d (nh s) = Some (s_vals s) /\
                     load_consensus_params d (nh s) = Some (Some (s_params s))) /\
      (lo <= nh s + 1 -> load_validators K d (nh s + 1) = Some (s_next_vals s)).
Proof.
  intros K B hist st lo d HK R.
  destruct (sreach_inv K B hist st lo d HK R) as (L & Lp & V & P & S & _ & Hh).
  split; [|split].
  - intros h Rh. rewrite (shape_load_validators K L Lp V P d lo (nh st) h HK S Rh). discriminate.
  - intros h Rh. exists (P h). apply (shape_load_params K L Lp V P d lo (nh st) h S Rh).
  - intros s I. rewrite Forall_forall in Hh. destruct (Hh s I) as (R0 & R1 & R2 & R3). split.
    + intros Rl. split.
      * rewrite (shape_load_validators K L Lp V P d lo (nh st) (nh s) HK S ltac:(lia)). rewrite R2. reflexivity.
      * rewrite (shape_load_params K L Lp V P d lo (nh st) (nh s) S ltac:(lia)). rewrite R3. reflexivity.
    + intros Rl. rewrite (shape_load_validators K L Lp V P d lo (nh st) (nh s + 1) HK S ltac:(lia)).
      rewrite R1. reflexivity.
Qed.

(* the completed saves cover every height from the initial one *)
Lemma save_history_covers : forall K B hist st lo d, SReach K B hist st lo d ->
    1 <= s_initial st /\ s_initial st <= lo <= nh st /\
    forall h, s_initial st <= h <= nh st -> exists s, In s hist /\ nh s = h.
Proof.
  intros K B hist st lo d R. induction R; try exact IHR.
  - destruct H as (E0 & HI & _). assert (Enh : nh st = s_initial st) by (unfold nh; rewrite E0; reflexivity).
    split; [exact HI|]. split; [lia|]. intros h Rh. exists st. split; [left; reflexivity|lia].
  - destruct IHR as (HI & Hlo & C).
    pose proof (nh_succ st st' ltac:(lia) H) as Enh. destruct H as (_ & Ei & _). rewrite Ei, Enh.
    split; [exact HI|]. split; [lia|]. intros h Rh.
    destruct (Z.eq_dec h (nh st + 1)) as [->|N].
    + exists st'. split; [left; reflexivity|exact Enh].
    + destruct (C h ltac:(lia)) as (s & I & E). exists s. split; [right; exact I|exact E].
  - destruct IHR as (HI & Hlo & C). split; [exact HI|]. split; [lia|exact C].
Qed.

Lemma s_last_le_nh : forall st, 1 <= s_initial st -> s_last st <= nh st.
Proof.
  intros st HI. unfold nh. destruct (s_last st + 1 =? 1) eqn:E; [apply Z.eqb_eq in E; lia|lia].
Qed.

(* convenience forms for building concrete histories *)
Lemma SR_prune' : forall K B hist st lo d from to n,
    SReach K B hist st lo d -> lo <= from -> from < to -> to <= nh st ->
    SReach K B hist st to (sreplay (firstn n (snd (prune_states K B d from to))) d).
Proof.
  intros K B hist st lo d from to n R R1 R2 R3.
  apply (SR_prune K B hist st lo d from to (fst (prune_states K B d from to)) _ n R R1 R2 R3).
  apply surjective_pairing.
Qed.
