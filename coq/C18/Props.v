(* C18 — Stored chain data stays contiguous and consistent through pruning and crashes.
   Only the property statements; each is closed by [exact] of a lemma of Proofs.v.

   Reading guide.  [bdb] is the block store's database, [sdb] the state store's (association
   lists of structured keys, Model.v).  An operation is the list of atomic write steps it
   performs (Set / SetSync of one key, Write / WriteSync of a batch); a crash keeps a prefix of
   that list ([breplay (firstn n l) d]), after which the store is re-opened from the database.
   [Consistent d] (Proofs.v) says: the range descriptor is (0,0), or 1 <= base <= height and for
   every h in [base, height] the meta of h, all parts announced by the meta (each being that
   part of the block the meta names), the hash-index entry of the block's hash (pointing back to
   h) and the commit for h (the seen commit when h = height) are present and name the same block;
   [audit d = (0,0)] is the executable form run by the correspondence check.
   The composite prune of both stores (consensus/state.go pruneBlocks) is at the end of this
   file: [xdb] = (block database, state database), [xstep] a write step of one of the two,
   [Covered K d]: every height the block store retains resolves in the state store. *)
From Coq Require Import List ZArith Bool Lia.
From TM Require Import Generated.Consts C18.Model C18.Proofs C18.ProofsShape C18.ProofsNode.
Import ListNotations.
Open Scope Z_scope.

(* ------------------------------------------------------------------ block store *)

(* The audit function decides the consistency predicate. *)
Theorem C18_audit_decides_consistent : forall d, audit d = (0, 0) <-> Consistent d.
Proof. exact audit_spec. Qed.
Print Assumptions C18_audit_decides_consistent.

(* For every batch size B and every sequence of SaveBlock / PruneBlocks calls (callers'
   obligations [bop_ok]: positive height, seen commit for the saved block, block hash not
   already stored, LastCommit commits the stored tip; PruneBlocks: none), each possibly cut
   short by a crash after any number of its write steps and followed by a restart: the database
   is consistent and the in-memory range equals the persisted descriptor. *)
Theorem C18_audit_invariant :
  forall B m d, Reach B m d -> audit d = (0, 0) /\ m = load_state d.
Proof. exact audit_invariant. Qed.
Print Assumptions C18_audit_invariant.

(* ... and so is whatever is on disk after a crash at any write step of the next operation. *)
Theorem C18_audit_every_crash_point :
  forall B m d o code m' l d',
    Reach B m d -> bop_ok d o -> bop_run B m d o = (code, m', l, d') ->
    forall n, audit (breplay (firstn n l) d) = (0, 0).
Proof. exact audit_crash_points. Qed.
Print Assumptions C18_audit_every_crash_point.

(* A completed PruneBlocks(r): base = r, height unchanged; exactly the keys of the heights
   [old base, r) are gone ([dead]: meta, the parts announced by the meta, commit, seen commit,
   hash-index entry of each of those heights) and no other key but the descriptor changed. *)
Theorem C18_prune_exact :
  forall B m d r pruned m' l d',
    Reach B m d -> prune_blocks B m d r = POk pruned m' l d' ->
    d' = breplay l d /\
    load_state d' = {| m_base := r; m_height := m_height m |} /\ m_base m <= r <= m_height m /\
    (forall k, k <> KDesc -> ~ dead d (m_base m) r k -> bget d' k = bget d k) /\
    (forall k, dead d (m_base m) r k -> bget d' k = None).
Proof. exact prune_exact. Qed.
Print Assumptions C18_prune_exact.

(* ---- non-vacuity: a concrete history with batch size 2 (three blocks, then PruneBlocks(3),
   which flushes an intermediate batch), reachable, consistent at every crash point, and
   non-trivial (blocks 1 and 2 are gone, block 3 is there). *)

Definition cm (b t : Z) : commit := {| c_blk := b; c_tag := t |}.
Definition blk (h id : Z) (n : nat) (last : commit) : block :=
  {| b_height := h; b_id := id; b_total := n; b_vh := 7; b_ph := 8; b_last := last |}.
Definition ex_ops : list bop :=
  [OSave (blk 1 11 2 (cm (-1) 0)) (cm 11 1); OSave (blk 2 12 1 (cm 11 2)) (cm 12 3);
   OSave (blk 3 13 3 (cm 12 4)) (cm 13 5)].

Definition st_of (x : Z * mem * list bstep * bdb) : mem * bdb := (snd (fst (fst x)), snd x).
Definition ex_run (B : Z) (s : mem * bdb) (o : bop) : mem * bdb := st_of (bop_run B (fst s) (snd s) o).
Definition ex_s0 : mem * bdb := ({| m_base := 0; m_height := 0 |}, []).
Definition ex_s3 : mem * bdb := Eval vm_compute in fold_left (ex_run 2) ex_ops ex_s0.

Lemma R_op' : forall B s o, Reach B (fst s) (snd s) -> bop_ok (snd s) o ->
    Reach B (fst (ex_run B s o)) (snd (ex_run B s o)).
Proof.
  intros B [m d] o R Ok. unfold ex_run, st_of. cbn [fst snd].
  destruct (bop_run B m d o) as [[[c m'] l] d'] eqn:E. cbn [fst snd]. exact (R_op B m d o c m' l d' R Ok E).
Qed.

Ltac with_state b h :=
  match goal with |- context [load_state ?d] =>
    let E := fresh "E" in
    assert (E : load_state d = {| m_base := b; m_height := h |}) by (vm_compute; reflexivity);
    rewrite E; cbn [m_base m_height]
  end.

Example C18_reach_nonvacuous :
  Reach 2 (fst ex_s3) (snd ex_s3) /\ load_state (snd ex_s3) = {| m_base := 1; m_height := 3 |}.
Proof.
  split; [|vm_compute; reflexivity].
  change ex_s3 with (fold_left (ex_run 2) ex_ops ex_s0). unfold ex_ops. cbn [fold_left].
  apply R_op'; [apply R_op'; [apply R_op'; [apply R_init|]|]|].
  - (* first block into the empty store *)
    unfold bop_ok, save_ok. cbn [snd ex_s0]. change (load_state []) with {| m_base := 0; m_height := 0 |}.
    cbn [m_base m_height]. repeat split.
    + cbn. lia.
    + intros h id t vh ph _ M. discriminate M.
    + intros id t vh ph P. lia.
  - unfold bop_ok, save_ok. with_state 1 1.
    repeat split.
    + vm_compute. discriminate.
    + intros h id t vh ph Rg M. assert (h = 1) by lia. subst h.
      vm_compute in M. inversion M. discriminate.
    + intros id t vh ph _ M. vm_compute in M. inversion M. reflexivity.
  - unfold bop_ok, save_ok. with_state 1 2.
    repeat split.
    + vm_compute. discriminate.
    + intros h id t vh ph Rg M. assert (h = 1 \/ h = 2) by lia.
      destruct H as [-> | ->]; vm_compute in M; inversion M; discriminate.
    + intros id t vh ph _ M. vm_compute in M. inversion M. reflexivity.
Qed.

(* PruneBlocks(3) with batch size 2 from that state: 4 write steps (descriptor, batch,
   descriptor, batch); every crash point is consistent, and the result is exactly block 3. *)
Example C18_prune_nonvacuous :
  match prune_blocks 2 (fst ex_s3) (snd ex_s3) 3 with
  | POk pruned m' l d' =>
    pruned = 2 /\ length l = 4%nat /\ m' = {| m_base := 3; m_height := 3 |} /\
    forallb (fun n => audit_ok (breplay (firstn n l) (snd ex_s3))) (seq 0 5) = true /\
    load_block d' 3 = Some 13 /\ load_meta d' 2 = None /\ load_hash d' 11 = None
  | PErr _ => False
  end.
Proof. vm_compute. repeat split; reflexivity. Qed.

(* The code before the F9 repair (intermediate flush with base = h, [off] = 0) violates the
   invariant: after the first batch of the same prune the descriptor says base = 2 while
   block 2 has just been deleted. *)
Example C18_unrepaired_flush_refuted :
  match prune_blocks_gen 2 0 (fst ex_s3) (snd ex_s3) 3 with
  | POk _ _ l _ => audit (breplay (firstn 2 l) (snd ex_s3)) = (2, 1)
  | PErr _ => False
  end.
Proof. vm_compute. reflexivity. Qed.

(* ------------------------------------------------------------------ state store (partial) *)

(* FULL STATEMENT AIMED AT (not proved; monitored by clauses 7-9 of the correspondence run):
     forall K B (0 < K) chains (tv, L, tp, Lp) and histories of Save / PruneStates(from, to) with
     every crash prefix of their write steps: for every h in [to, LastBlockHeight + 1]
       load_validators K db h = Some (tv h) /\ load_consensus_params db h = Some (Some (tp h)).
   PROVED below: the part that makes PruneStates "keep what is needed" — for every checkpoint
   interval K > 0 and every last-changed function L (L h <= h, constant on [L h, h]) the two
   records PruneStates decides to keep from the record of [to] (LastHeightChanged and the last
   checkpoint) are exactly what the retained heights resolve through: any database that
   agrees with the original on the records at or above [to] and on the kept ones resolves every
   retained height as before.  NOT proved: that the loop of PruneStates (batches of 1000,
   reverse order, re-writing of kept records) only deletes records below [to] outside the keep
   set, and the crash prefixes of that loop. *)
Theorem C18_state_prune_keeps_needed_partial :
  forall K, 0 < K ->
  forall L : Z -> Z, (forall h, L h <= h) -> (forall h x, L h <= x <= h -> L x = L h) ->
  forall (d d' : sdb) t hi,
    (forall h, t <= h <= hi -> exists o, load_vals_info d h = Some (L h, o) /\
                                         (o <> None -> L h = h \/ h mod K = 0)) ->
    (forall x, t <= x -> load_vals_info d' x = load_vals_info d x) ->
    (forall lt, load_vals_info d t = Some (lt, None) ->
                load_vals_info d' (last_stored_height_for K t lt) =
                load_vals_info d (last_stored_height_for K t lt)) ->
    forall h, t <= h <= hi -> load_validators K d' h = load_validators K d h.
Proof. exact vals_keep_set_sufficient. Qed.
Print Assumptions C18_state_prune_keeps_needed_partial.

Theorem C18_state_prune_keeps_params_partial :
  forall L : Z -> Z, (forall h, L h <= h) -> (forall h x, L h <= x <= h -> L x = L h) ->
  forall (d d' : sdb) t hi,
    (forall h, t <= h <= hi -> exists o, load_params_info d h = Some (L h, o) /\ (o <> None -> L h = h)) ->
    (forall x, t <= x -> load_params_info d' x = load_params_info d x) ->
    (forall lt, load_params_info d t = Some (lt, None) -> load_params_info d' lt = load_params_info d lt) ->
    forall h, t <= h <= hi -> load_consensus_params d' h = load_consensus_params d h.
Proof. intros L _. exact (params_keep_set_sufficient L). Qed.
Print Assumptions C18_state_prune_keeps_params_partial.

(* non-vacuity on the model of the real functions, checkpoint interval 10: a chain from height 7
   whose validators change at 8 and whose parameters change at 9; after saving up to
   LastBlockHeight = 13 and PruneStates(7, 12) (batch size 2: three batches) every height of
   [12, 15] still resolves — through the checkpoint record 10 and the last-changed record 9,
   both below 12 — after every crash prefix of the prune; and with the checkpoint record
   dropped from the database height 12 no longer resolves. *)
Definition ex_states : list sstate :=
  map (fun '(last, lhvc, nv, p, lhpc) =>
         {| s_last := last; s_initial := 7; s_vals := 1; s_next_vals := nv; s_lhvc := lhvc;
            s_params := p; s_lhpc := lhpc |})
      [(0, 7, 1, 1, 7); (7, 7, 1, 1, 7); (8, 7, 1, 2, 9); (9, 7, 1, 2, 9); (10, 7, 1, 2, 9);
       (11, 7, 1, 2, 9); (12, 7, 1, 2, 9); (13, 7, 1, 2, 9)].
Definition ex_sdb : sdb :=
  Eval vm_compute in fold_left (fun d st => sreplay (fst (state_save 10 st)) d) ex_states [].

Example C18_state_nonvacuous :
  let '(code, l) := prune_states 10 2 ex_sdb 7 12 in
  code = 0 /\ length l = 3%nat /\
  saudit 10 ex_sdb 7 14 = (0, 0) /\
  forallb (fun n => let '(a, b) := saudit 10 (sreplay (firstn n l) ex_sdb) 12 14 in (a =? 0) && (b =? 0))
          (seq 0 4) = true /\
  load_vals_info (sreplay l ex_sdb) 11 = None /\
  load_vals_info (sreplay l ex_sdb) 10 = Some (7, Some 1) /\
  load_vals_info (sreplay l ex_sdb) 12 = Some (7, None) /\
  saudit 10 (del skey_eqb (sreplay l ex_sdb) (SKVals 10)) 12 14 = (12, 1).
Proof. vm_compute. repeat split; reflexivity. Qed.

(* ------------------------------------------------------------------ the composite prune

   consensus/state.go pruneBlocks(retain) = PruneBlocks(retain) on blockstore.db, then
   PruneStates(old base, retain) on state.db ([composite_prune], Model.v).  Its execution is the
   concatenation of the write steps of the two halves ([XB s]: a step of the block store's
   database, [XS s]: a step of the state store's); a crash keeps a prefix of that sequence, an
   error return of either half (refused retain height, failed write) ends it after a prefix too.

   Hypotheses: the block store is consistent and its memory state is the persisted one ([audit]
   and [load_state], executable); the state database has the shape save() produces
   ([StateShape], Proofs.v): for last-changed functions L (validators) and Lp (parameters) with
   L h <= h, constant on [L h, h], the record of every height h of [retain, height + 1] is
   (L h, set?) with a set only when L h = h or h is a checkpoint height (resp. (Lp h, params?)
   with params only when Lp h = h), and the records PruneStates keeps for [retain] - at L retain,
   at the last checkpoint max (retain - retain mod K) (L retain), at Lp retain - carry their
   set / parameters when they lie in the pruned range. *)

(* The range descriptor after every prefix of PruneBlocks' own write steps: base only moves up,
   never beyond the retain height; the height does not change. *)
Theorem C18_prune_blocks_prefix_range :
  forall B m d r pruned m' l d',
    audit d = (0, 0) -> m = load_state d -> prune_blocks B m d r = POk pruned m' l d' ->
    m_base m <= r <= m_height m /\
    load_state (breplay l d) = {| m_base := r; m_height := m_height m |} /\
    forall n, m_base m <= m_base (load_state (breplay (firstn n l) d)) <= r /\
              m_height (load_state (breplay (firstn n l) d)) = m_height m.
Proof. exact prune_prefix_range_audit. Qed.
Print Assumptions C18_prune_blocks_prefix_range.

(* Every write step of PruneStates(from, to) - whatever it returns - deletes only records of
   heights below [to] that are not in the keep set computed from the records of [to]: after
   every prefix of its steps the record of every height >= to, the kept validator / parameter
   records, the state and the last-ABCI-response records read as before. *)
Theorem C18_prune_states_touches_only_unprotected :
  forall K B d from to code l,
    (forall x, In x (keepV_of K d to) -> from <= x < to -> exists l v, load_vals_info d x = Some (l, Some v)) ->
    (forall x, In x (keepP_of d to) -> from <= x < to -> exists l p, load_params_info d x = Some (l, Some p)) ->
    prune_states K B d from to = (code, l) ->
    forall n k,
      match k with
      | SKVals x => to <= x \/ In x (keepV_of K d to)
      | SKParams x => to <= x \/ In x (keepP_of d to)
      | SKABCI x => to <= x
      | SKState | SKLastABCI => True
      end ->
      sget (sreplay (firstn n l) d) k = sget d k.
Proof. exact prune_states_protected. Qed.
Print Assumptions C18_prune_states_touches_only_unprotected.

(* The composite in the order of the code (blocks first, then states): after a crash at ANY
   write step of either half, after an error return of either half, and after completion, the
   block store's base has only moved up, its height is unchanged, and every height from the
   (new) base to height + 1 resolves in the state store - validators, consensus parameters,
   ABCI responses - exactly as before the call. *)
Theorem C18_composite_prune_keeps_state_records :
  forall K B L Lp m bd sd retain code m' steps,
    0 < K -> audit bd = (0, 0) -> m = load_state bd ->
    StateShape K L Lp sd (m_base m) retain (m_height m + 1) ->
    composite_prune K B m bd sd retain = (code, m', steps) ->
    forall n,
      m_base m <= m_base (load_state (fst (xreplay (firstn n steps) (bd, sd)))) /\
      m_height (load_state (fst (xreplay (firstn n steps) (bd, sd)))) = m_height m /\
      forall h, m_base (load_state (fst (xreplay (firstn n steps) (bd, sd)))) <= h <= m_height m + 1 ->
        load_validators K (snd (xreplay (firstn n steps) (bd, sd))) h = load_validators K sd h /\
        load_consensus_params (snd (xreplay (firstn n steps) (bd, sd))) h = load_consensus_params sd h /\
        load_abci (snd (xreplay (firstn n steps) (bd, sd))) h = load_abci sd h.
Proof. exact composite_prune_prefix_audit. Qed.
Print Assumptions C18_composite_prune_keeps_state_records.

(* ... hence the invariant: if every block the block store retains had its state-store records
   before pruneBlocks(retain) ([Covered]: LoadValidators for [base, height + 1],
   LoadConsensusParams and LoadABCIResponses for [base, height] succeed), so it is after a
   crash at any point of the composite, after an error from either half, and after completion. *)
Theorem C18_composite_prune_crash_safe :
  forall K B L Lp m bd sd retain code m' steps,
    0 < K -> audit bd = (0, 0) -> m = load_state bd ->
    StateShape K L Lp sd (m_base m) retain (m_height m + 1) ->
    composite_prune K B m bd sd retain = (code, m', steps) ->
    Covered K (bd, sd) ->
    forall n, Covered K (xreplay (firstn n steps) (bd, sd)).
Proof. exact composite_prune_covered_audit. Qed.
Print Assumptions C18_composite_prune_crash_safe.

(* ---- non-vacuity and the swapped order.  Checkpoint interval 4, batch size 2.  A chain of five
   blocks from height 1: block 1 changes the consensus parameters (hash 8 -> 9 from height 2),
   block 2 changes the validators (hash 1 -> 2 from height 4).  Each block: SaveBlock, then
   SaveABCIResponses and Save(state) as ApplyBlock does. *)
Definition xblk (h id vh ph : Z) (last : commit) : block :=
  {| b_height := h; b_id := id; b_total := 1; b_vh := vh; b_ph := ph; b_last := last |}.
Definition xst (last vals nvals lhvc params lhpc : Z) : sstate :=
  {| s_last := last; s_initial := 1; s_vals := vals; s_next_vals := nvals; s_lhvc := lhvc;
     s_params := params; s_lhpc := lhpc |}.
Definition ex_chain : list (block * commit * sstate) :=
  [ (xblk 1 11 1 8 (cm (-1) 0), cm 11 1, xst 1 1 1 1 9 2);
    (xblk 2 12 1 9 (cm 11 2),   cm 12 3, xst 2 1 2 4 9 2);
    (xblk 3 13 1 9 (cm 12 4),   cm 13 5, xst 3 2 2 4 9 2);
    (xblk 4 14 2 9 (cm 13 6),   cm 14 7, xst 4 2 2 4 9 2);
    (xblk 5 15 2 9 (cm 14 8),   cm 15 9, xst 5 2 2 4 9 2) ].
Definition ex_xrun (s : mem * xdb) (x : block * commit * sstate) : mem * xdb :=
  let '(b, seen, st) := x in
  match save_block (fst s) b seen with
  | Some (m', l) =>
    (m', xreplay (map XB l ++ map XS (save_abci (b_height b) ++ fst (state_save 4 st))) (snd s))
  | None => s
  end.
Definition ex_x0 : mem * xdb :=
  ({| m_base := 0; m_height := 0 |}, ([], sreplay (fst (state_save 4 (xst 0 1 1 1 8 1))) [])).
Definition ex_x5 : mem * xdb := Eval vm_compute in fold_left ex_xrun ex_chain ex_x0.

Definition exL (h : Z) : Z := if h <? 1 then h else if h <? 4 then 1 else 4.
Definition exLp (h : Z) : Z := if h <? 1 then h else if h <? 2 then 1 else 2.

(* the hypotheses of the composite theorems hold of that state for pruneBlocks(5): consistent
   block store [1, 5], state database of the required shape (the validators of heights 5 and 6
   resolve through the record of height 4, the parameters through the record of height 2 - both
   below the retain height), everything covered *)
Example C18_composite_hypotheses_nonvacuous :
  audit (fst (snd ex_x5)) = (0, 0) /\ fst ex_x5 = load_state (fst (snd ex_x5)) /\
  fst ex_x5 = {| m_base := 1; m_height := 5 |} /\
  StateShape 4 exL exLp (snd (snd ex_x5)) 1 5 6 /\
  xaudit 4 (snd ex_x5) = (0, 0) /\
  load_vals_info (snd (snd ex_x5)) 5 = Some (4, None) /\
  load_params_info (snd (snd ex_x5)) 5 = Some (2, None).
Proof.
  split; [vm_compute; reflexivity|]. split; [vm_compute; reflexivity|]. split; [vm_compute; reflexivity|].
  split; [|vm_compute; repeat split; reflexivity].
  constructor.
  - intros h. unfold exL. destruct (h <? 1) eqn:A; [lia|]. destruct (h <? 4) eqn:A'; lia.
  - intros h x R. unfold exL in *. destruct (h <? 1) eqn:A.
    + assert (x = h) by lia. subst. rewrite A. reflexivity.
    + destruct (h <? 4) eqn:A'.
      * replace (x <? 1) with false by lia. replace (x <? 4) with true by lia. reflexivity.
      * replace (x <? 1) with false by lia. replace (x <? 4) with false by lia. reflexivity.
  - intros h. unfold exLp. destruct (h <? 1) eqn:A; [lia|]. destruct (h <? 2) eqn:A'; lia.
  - intros h x R. unfold exLp in *. destruct (h <? 1) eqn:A.
    + assert (x = h) by lia. subst. rewrite A. reflexivity.
    + destruct (h <? 2) eqn:A'.
      * replace (x <? 1) with false by lia. replace (x <? 2) with true by lia. reflexivity.
      * replace (x <? 1) with false by lia. replace (x <? 2) with false by lia. reflexivity.
  - intros h R. assert (C : h = 5 \/ h = 6) by lia.
    destruct C as [-> | ->]; exists None; (split; [vm_compute; reflexivity|intros N; contradiction]).
  - intros h R. assert (C : h = 5 \/ h = 6) by lia.
    destruct C as [-> | ->]; exists None; (split; [vm_compute; reflexivity|intros N; contradiction]).
  - intros x R [-> | ->]; vm_compute; eauto.
  - intros x R ->. vm_compute. eauto.
Qed.

Definition xaudit_ok (K : Z) (d : xdb) : bool := let '(h, r) := xaudit K d in (h =? 0) && (r =? 0).
Definition audit_all_prefixes (K : Z) (steps : list xstep) (d : xdb) : bool :=
  forallb (fun n => audit_ok (fst (xreplay (firstn n steps) d)) && xaudit_ok K (xreplay (firstn n steps) d))
          (seq 0 (S (length steps))).

(* pruneBlocks(5) in the order of the code: 6 write steps on the block store (two intermediate
   flushes and the final one), then 3 batches on the state store; after every one of the ten
   prefixes both audits pass; at the end only block 5 is left, the records of heights 1 and 3 are
   gone, the kept records (validators 4, parameters 2) are still there. *)
Example C18_composite_nonvacuous :
  let '(code, m', steps) := composite_prune 4 2 (fst ex_x5) (fst (snd ex_x5)) (snd (snd ex_x5)) 5 in
  code = 0 /\ m' = {| m_base := 5; m_height := 5 |} /\ length steps = 9%nat /\
  audit_all_prefixes 4 steps (snd ex_x5) = true /\
  load_vals_info (snd (xreplay steps (snd ex_x5))) 3 = None /\
  load_abci (snd (xreplay steps (snd ex_x5))) 1 = false /\
  load_vals_info (snd (xreplay steps (snd ex_x5))) 4 = Some (4, Some 2) /\
  load_params_info (snd (xreplay steps (snd ex_x5))) 2 = Some (2, Some 9).
Proof. vm_compute. repeat split; reflexivity. Qed.

(* THE SWAPPED ORDER IS REFUTED: with PruneStates before PruneBlocks ([StatesFirst]) the same
   call has the same steps in the other order and the same final state, but after its first
   write step (the first state-store batch: heights 4 and 3) the block store still is [1, 5]
   while LoadValidators(3) fails ... *)
Example C18_swapped_order_refuted_by_crash :
  let '(code, m', steps) := composite_prune_gen StatesFirst 4 2 (fst ex_x5) (fst (snd ex_x5)) (snd (snd ex_x5)) 5 in
  code = 0 /\ length steps = 9%nat /\
  load_state (fst (xreplay (firstn 1 steps) (snd ex_x5))) = {| m_base := 1; m_height := 5 |} /\
  xaudit 4 (xreplay (firstn 1 steps) (snd ex_x5)) = (3, 1) /\
  audit_all_prefixes 4 steps (snd ex_x5) = false /\
  xaudit 4 (xreplay steps (snd ex_x5)) = (0, 0).
Proof. vm_compute. repeat split; reflexivity. Qed.

(* ... and an error from the second half is enough, no crash needed: pruneBlocks(6), one past
   the tip.  The state store has the validators and parameters of height 6, so the swapped
   order prunes the states of [1, 6) and then PruneBlocks refuses (code 2): all five blocks are
   retained, none of them has its state records.  The order of the code returns the same error
   without having written anything. *)
Example C18_swapped_order_refuted_by_error :
  (let '(code, m', steps) := composite_prune_gen StatesFirst 4 2 (fst ex_x5) (fst (snd ex_x5)) (snd (snd ex_x5)) 6 in
   code = 2 /\ length steps = 3%nat /\
   load_state (fst (xreplay steps (snd ex_x5))) = {| m_base := 1; m_height := 5 |} /\
   xaudit 4 (xreplay steps (snd ex_x5)) = (1, 1)) /\
  composite_prune 4 2 (fst ex_x5) (fst (snd ex_x5)) (snd (snd ex_x5)) 6 = (2, fst ex_x5, []).
Proof. vm_compute. repeat split; reflexivity. Qed.

(* ------------------------------------------------------------------ every history of Save calls has the shape

   ProofsShape.v.  The callers of the state store: [genesis_state st] (state/state.go
   MakeGenesisState, consensus/replay.go after InitChain: LastBlockHeight 0, both LastHeight...
   Changed = InitialHeight >= 1, NextValidators = Validators up to priorities) and
   [successor st st'] (state/execution.go updateState for the block of height [nh st], the height
   save() calls nextHeight: LastBlockHeight' = nh st, Validators' = NextValidators, a validator
   change sets LastHeightValidatorsChanged' = nh st + 2 with ANY new set, a parameter change sets
   LastHeightConsensusParamsChanged' = nh st + 1 with ANY new parameters, otherwise both fields
   and values are carried over - at no, some or every height).

   [SReach K B hist st lo d]: the database d is reached by
     - the genesis Save on ANY database d0 (whatever an earlier crashed start left behind),
     - Save(st') of a successor of the last completed Save, completed or cut by a crash after
       ANY number of its database writes (the re-execution after the restart may produce a
       different successor),
     - SaveABCIResponses of any height, completed or cut,
     - PruneStates(from, to) with lo <= from < to <= nh st - as consensus calls it: from = the
       block store's base (never below an earlier retain height), to = the retain height (at most
       the block store's height) - completed, failed inside its loop, or cut by a crash after any
       number of its batches; and any refused call;
   for EVERY checkpoint interval K > 0 (valSetCheckpointInterval is one value of it) and every
   batch size B.  [hist] lists the states of the completed Saves, [st] the last of them, [lo] the
   retain height of the last PruneStates that may have written. *)

(* (1) the database then has the shape the composite-prune theorems assume, for every from / to
   the next PruneStates may be called with *)
Theorem C18_save_history_has_shape :
  forall K B hist st lo d, 0 < K -> SReach K B hist st lo d ->
    exists L Lp, forall from to, lo <= from -> lo <= to <= nh st -> StateShape K L Lp d from to (nh st).
Proof. exact save_history_has_shape. Qed.
Print Assumptions C18_save_history_has_shape.

(* (3) ... and LoadValidators resolves for every height of [lo, nh st + 1], LoadConsensusParams
   (to non-empty parameters) for every height of [lo, nh st], and they return exactly what the
   completed Save calls recorded for those heights - through the LastHeightChanged pointers, the
   checkpoints and the records PruneStates kept *)
Theorem C18_save_history_resolves :
  forall K B hist st lo d, 0 < K -> SReach K B hist st lo d ->
    (forall h, lo <= h <= nh st + 1 -> load_validators K d h <> None) /\
    (forall h, lo <= h <= nh st -> exists p, load_consensus_params d h = Some (Some p)) /\
    forall s, In s hist ->
      (lo <= nh s -> load_validators K d (nh s) = Some (s_vals s) /\
                     load_consensus_params d (nh s) = Some (Some (s_params s))) /\
      (lo <= nh s + 1 -> load_validators K d (nh s + 1) = Some (s_next_vals s)).
Proof. exact save_history_resolves. Qed.
Print Assumptions C18_save_history_resolves.

(* the completed Saves cover every height from the initial one (so the previous theorem speaks
   about every height of [lo, nh st + 1]) *)
Theorem C18_save_history_covers :
  forall K B hist st lo d, SReach K B hist st lo d ->
    1 <= s_initial st /\ s_initial st <= lo <= nh st /\
    forall h, s_initial st <= h <= nh st -> exists s, In s hist /\ nh s = h.
Proof. exact save_history_covers. Qed.
Print Assumptions C18_save_history_covers.

(* non-vacuity: checkpoint interval 4, batch size 2, initial height 3, a database that already
   holds a stale record; validators change in block 3 (in force from 5) and in block 7 (from 9),
   parameters in block 4 (from 5); a Save cut after its first write and re-executed; a
   PruneStates(3, 6) cut after its first batch, then PruneStates(6, 7) completed; two more
   blocks.  The resulting database resolves 7..10 (validators) / 7..9 (parameters) to the saved
   values although the records of height 7 and 8 point below the retain height (to the
   last-changed records 5, kept by the prune); the heights 4 (stale record included) and 6 are
   gone, the record of height 3 is left behind by the crashed prune (the later call starts at 6). *)
Definition hst (last vals nvals lhvc params lhpc : Z) : sstate :=
  {| s_last := last; s_initial := 3; s_vals := vals; s_next_vals := nvals; s_lhvc := lhvc;
     s_params := params; s_lhpc := lhpc |}.

Example C18_save_history_nonvacuous :
  exists hist st d,
    SReach 4 2 hist st 7 d /\ length hist = 7%nat /\ nh st = 9 /\
    map (load_validators 4 d) [6; 7; 8; 9; 10] = [None; Some 2; Some 2; Some 3; Some 3] /\
    map (load_consensus_params d) [6; 7; 8; 9] = [None; Some (Some 9); Some (Some 9); Some (Some 9)] /\
    load_vals_info d 7 = Some (5, None) /\ load_vals_info d 5 = Some (5, Some 2) /\
    load_vals_info d 3 = Some (3, Some 1) /\ load_vals_info d 4 = None /\ load_vals_info d 6 = None /\
    load_params_info d 7 = Some (5, None) /\ load_params_info d 5 = Some (5, Some 9).
Proof.
  assert (Hg : genesis_state (hst 0 1 1 3 8 3)) by (unfold genesis_state; cbn; repeat split; lia).
  pose proof (SR_genesis 4 2 _ [(SKVals 4, SVVals 99 None)] Hg) as R0.
  assert (S1 : successor (hst 0 1 1 3 8 3) (hst 3 1 2 5 8 3)) by (unfold successor, nh; cbn; repeat split; auto).
  pose proof (SR_save 4 2 _ _ _ _ _ R0 S1) as R1.
  assert (S2 : successor (hst 3 1 2 5 8 3) (hst 4 2 2 5 9 5)) by (unfold successor, nh; cbn; repeat split; auto).
  pose proof (SR_save 4 2 _ _ _ _ _ R1 S2) as R2.
  assert (S3 : successor (hst 4 2 2 5 9 5) (hst 5 2 2 5 9 5)) by (unfold successor, nh; cbn; repeat split; auto).
  pose proof (SR_save_crash 4 2 _ _ _ _ _ 1%nat R2 S3) as R2c.
  pose proof (SR_save 4 2 _ _ _ _ _ R2c S3) as R3.
  assert (S4 : successor (hst 5 2 2 5 9 5) (hst 6 2 2 5 9 5)) by (unfold successor, nh; cbn; repeat split; auto).
  pose proof (SR_save 4 2 _ _ _ _ _ R3 S4) as R4.
  pose proof (SR_prune' 4 2 _ _ _ _ 3 6 1%nat R4 ltac:(cbn; lia) ltac:(lia) ltac:(cbn; lia)) as R5.
  pose proof (SR_prune' 4 2 _ _ _ _ 6 7 5%nat R5 ltac:(lia) ltac:(lia) ltac:(cbn; lia)) as R6.
  assert (S5 : successor (hst 6 2 2 5 9 5) (hst 7 2 3 9 9 5)) by (unfold successor, nh; cbn; repeat split; auto).
  pose proof (SR_save 4 2 _ _ _ _ _ R6 S5) as R7.
  assert (S6 : successor (hst 7 2 3 9 9 5) (hst 8 3 3 9 9 5)) by (unfold successor, nh; cbn; repeat split; auto).
  pose proof (SR_save 4 2 _ _ _ _ _ R7 S6) as R8.
  eexists. eexists. eexists. split; [exact R8|]. vm_compute. repeat split; reflexivity.
Qed.

(* ------------------------------------------------------------------ the stores a node reaches (ProofsNode.v)

   [XReach K B hist st m bd sd]: the two databases as consensus drives them - the genesis Save
   (block store empty); per block SaveBlock (the block of height nh st whose header carries the
   hashes of the current validators and parameters - state/validation.go validateBlock - under
   the obligations [save_ok] of the block-store theorems), SaveABCIResponses, Save(successor);
   pruneBlocks(retain) for ANY retain value when the block store is level with the state - each of
   these completed or cut by a crash after ANY number of its database writes, both stores
   re-opened, a cut SaveBlock followed by a SaveBlock of a possibly different block, a cut
   ApplyBlock by its re-execution. *)

(* (2) the composite-prune theorems without the StateShape hypothesis: on every reachable store,
   after a crash at ANY write step of either half of pruneBlocks(retain), after an error return of
   either half and after completion, the block store's base has only moved up, its height is
   unchanged, and every height from the (new) base to height + 1 resolves in the state store -
   validators, consensus parameters, ABCI responses - exactly as before the call *)
Theorem C18_composite_prune_keeps_state_records_reachable :
  forall K B hist st m bd sd retain code m' steps,
    0 < K -> XReach K B hist st m bd sd -> m_height m = s_last st ->
    composite_prune K B m bd sd retain = (code, m', steps) ->
    forall n,
      m_base m <= m_base (load_state (fst (xreplay (firstn n steps) (bd, sd)))) /\
      m_height (load_state (fst (xreplay (firstn n steps) (bd, sd)))) = m_height m /\
      forall h, m_base (load_state (fst (xreplay (firstn n steps) (bd, sd)))) <= h <= m_height m + 1 ->
        load_validators K (snd (xreplay (firstn n steps) (bd, sd))) h = load_validators K sd h /\
        load_consensus_params (snd (xreplay (firstn n steps) (bd, sd))) h = load_consensus_params sd h /\
        load_abci (snd (xreplay (firstn n steps) (bd, sd))) h = load_abci sd h.
Proof. exact composite_prune_prefix_reachable. Qed.
Print Assumptions C18_composite_prune_keeps_state_records_reachable.

(* ... and [Covered] is no longer a hypothesis either: on every reachable store holding at least
   one block, after every prefix of the composite's write steps every block the block store
   retains has its state-store records *)
Theorem C18_composite_prune_crash_safe_reachable :
  forall K B hist st m bd sd retain code m' steps,
    0 < K -> XReach K B hist st m bd sd -> m_height m = s_last st -> 1 <= m_height m ->
    composite_prune K B m bd sd retain = (code, m', steps) ->
    forall n, Covered K (xreplay (firstn n steps) (bd, sd)).
Proof. exact composite_prune_covered_reachable. Qed.
Print Assumptions C18_composite_prune_crash_safe_reachable.

(* the invariant behind it: every reachable store has a consistent block store whose memory state
   is the persisted one ... *)
Theorem C18_reachable_block_store_consistent :
  forall K B hist st m bd sd, 0 < K -> XReach K B hist st m bd sd ->
    audit bd = (0, 0) /\ m = load_state bd.
Proof.
  intros K B hist st m bd sd HK R. destruct (xreach_inv K B hist st m bd sd HK R) as ((E & C) & _).
  split; [apply audit_spec; exact C|exact E].
Qed.
Print Assumptions C18_reachable_block_store_consistent.

(* ... and passes the cross-store audit whenever the block store is level with the state (i.e.
   everywhere except between SaveBlock and the end of ApplyBlock): for every retained block the
   validator set and the consensus parameters the state store resolves are the ones the block
   header names, its ABCI responses are present, the validators of height + 1 load (clauses
   30/31 of the monitor, which [xaudit] evaluates on the implementation's journal) *)
Theorem C18_reachable_cross_audit :
  forall K B hist st m bd sd, 0 < K ->
    XReach K B hist st m bd sd -> m_height m = s_last st -> xaudit K (bd, sd) = (0, 0).
Proof. exact xreach_xaudit. Qed.
Print Assumptions C18_reachable_cross_audit.

(* non-vacuity: the store of the composite examples above ([ex_x5]: five blocks from height 1,
   checkpoint interval 4, parameters changed by block 1, validators by block 2) is reachable, so is
   what a pruneBlocks(5) cut after 7 of its 9 write steps (in the middle of the state half)
   leaves, and one more block can be stored on top of that *)
Ltac succ_tac := unfold successor, nh; cbn; repeat split; auto.

Example C18_reachable_nonvacuous :
  exists hist st,
    XReach 4 2 hist st (fst ex_x5) (fst (snd ex_x5)) (snd (snd ex_x5)) /\
    m_height (fst ex_x5) = s_last st /\ length hist = 6%nat /\
    let steps := snd (composite_prune 4 2 (fst ex_x5) (fst (snd ex_x5)) (snd (snd ex_x5)) 5) in
    let d' := xreplay (firstn 7 steps) (snd ex_x5) in
    XReach 4 2 hist st (load_state (fst d')) (fst d') (snd d') /\
    load_state (fst d') = {| m_base := 5; m_height := 5 |} /\
    load_vals_info (snd d') 3 = None /\ load_vals_info (snd d') 1 = Some (1, Some 1) /\
    xaudit 4 d' = (0, 0).
Proof.
  assert (HK : 0 < 4) by lia.
  assert (Hg : genesis_state (xst 0 1 1 1 8 1)) by (unfold genesis_state; cbn; repeat split; lia).
  pose proof (XR_genesis 4 2 _ [] Hg) as R0.
  pose proof (XR_full_block' 4 2 _ _ (xst 1 1 1 1 9 2) _ _ _ (xblk 1 11 1 8 (cm (-1) 0)) (cm 11 1) HK R0
                eq_refl eq_refl eq_refl eq_refl ltac:(vm_compute; reflexivity) ltac:(succ_tac)) as R1.
  vm_compute in R1.
  pose proof (XR_full_block' 4 2 _ _ (xst 2 1 2 4 9 2) _ _ _ (xblk 2 12 1 9 (cm 11 2)) (cm 12 3) HK R1
                eq_refl eq_refl eq_refl eq_refl ltac:(vm_compute; reflexivity) ltac:(succ_tac)) as R2.
  vm_compute in R2.
  pose proof (XR_full_block' 4 2 _ _ (xst 3 2 2 4 9 2) _ _ _ (xblk 3 13 1 9 (cm 12 4)) (cm 13 5) HK R2
                eq_refl eq_refl eq_refl eq_refl ltac:(vm_compute; reflexivity) ltac:(succ_tac)) as R3.
  vm_compute in R3.
  pose proof (XR_full_block' 4 2 _ _ (xst 4 2 2 4 9 2) _ _ _ (xblk 4 14 2 9 (cm 13 6)) (cm 14 7) HK R3
                eq_refl eq_refl eq_refl eq_refl ltac:(vm_compute; reflexivity) ltac:(succ_tac)) as R4.
  vm_compute in R4.
  pose proof (XR_full_block' 4 2 _ _ (xst 5 2 2 4 9 2) _ _ _ (xblk 5 15 2 9 (cm 14 8)) (cm 15 9) HK R4
                eq_refl eq_refl eq_refl eq_refl ltac:(vm_compute; reflexivity) ltac:(succ_tac)) as R5.
  vm_compute in R5.
  eexists. eexists. split; [exact R5|]. split; [reflexivity|]. split; [reflexivity|].
  cbv zeta. split.
  - apply (XR_prune' 4 2 _ _ _ _ _ 5 7 R5). reflexivity.
  - vm_compute. repeat split; reflexivity.
Qed.

(* ------------------------------------------------------------------ a caller of Save outside these histories: Rollback (finding F73)

   state/rollback.go Rollback (the `tendermint rollback` command) saves a state that is NOT a
   successor of the last saved one: LastBlockHeight - 1, NextValidators = the Validators of the
   state it undoes, and LastHeightValidatorsChanged clamped by

       if valChangeHeight > rollbackHeight { valChangeHeight = rollbackHeight + 1 }

   save() then rewrites the validator record of height rollbackHeight + 2 with that change height,
   which is one too low whenever the validators of rollbackHeight + 2 differ from those of
   rollbackHeight + 1 or the undone block changed them: the record no longer carries its set and
   points at a record that has none.  The resulting database does not have the shape, and
   LoadValidators fails for that height (and, after the node goes on, for every later height up
   to the next change).  Replayed on the real code: "couldn't find validators at height 4
   (height 5 was originally requested)".  With the clamp at rollbackHeight + 2
   (fixes/F73-rollback-validators-change-height.diff; [off] = 2) the lookup succeeds. *)
Definition rollback_state (off : Z) (d : sdb) (st : sstate) (last_vals : Z) : sstate :=
  let rb := s_last st - 1 in
  {| s_last := rb; s_initial := s_initial st; s_vals := last_vals; s_next_vals := s_vals st;
     s_lhvc := if s_lhvc st >? rb + (off - 1) then rb + off else s_lhvc st;
     s_params := match load_consensus_params d (rb + 1) with Some (Some p) => p | _ => 0 end;
     s_lhpc := if s_lhpc st >? rb then rb + 1 else s_lhpc st |}.

Definition rst (last vals nvals lhvc : Z) : sstate :=
  {| s_last := last; s_initial := 1; s_vals := vals; s_next_vals := nvals; s_lhvc := lhvc;
     s_params := 8; s_lhpc := 1 |}.

(* initial height 1, checkpoint interval 100; block 3 changes the validators (hash 1 -> 2 from
   height 5); after block 4 the state is rolled back to height 3 *)
Theorem C18_rollback_save_refuted :
  exists hist st d,
    SReach 100 1000 hist st 1 d /\ s_last st = 4 /\
    load_validators 100 d 5 = Some 2 /\
    (let rb := rollback_state 1 d st 1 in
     rb = rst 3 1 2 4 /\
     load_vals_info (sreplay (fst (state_save 100 rb)) d) 5 = Some (4, None) /\
     load_vals_info (sreplay (fst (state_save 100 rb)) d) 4 = Some (1, None) /\
     load_validators 100 (sreplay (fst (state_save 100 rb)) d) 5 = None) /\
    (let rb := rollback_state 2 d st 1 in
     rb = rst 3 1 2 5 /\
     load_validators 100 (sreplay (fst (state_save 100 rb)) d) 5 = Some 2).
Proof.
  assert (Hg : genesis_state (rst 0 1 1 1)) by (unfold genesis_state; cbn; repeat split; lia).
  pose proof (SR_genesis 100 1000 _ [] Hg) as R0.
  assert (S1 : successor (rst 0 1 1 1) (rst 1 1 1 1)) by succ_tac.
  pose proof (SR_save 100 1000 _ _ _ _ _ R0 S1) as R1.
  assert (S2 : successor (rst 1 1 1 1) (rst 2 1 1 1)) by succ_tac.
  pose proof (SR_save 100 1000 _ _ _ _ _ R1 S2) as R2.
  assert (S3 : successor (rst 2 1 1 1) (rst 3 1 2 5)) by succ_tac.
  pose proof (SR_save 100 1000 _ _ _ _ _ R2 S3) as R3.
  assert (S4 : successor (rst 3 1 2 5) (rst 4 2 2 5)) by succ_tac.
  pose proof (SR_save 100 1000 _ _ _ _ _ R3 S4) as R4.
  eexists. eexists. eexists. split; [exact R4|]. vm_compute. repeat split; reflexivity.
Qed.
Print Assumptions C18_rollback_save_refuted.
