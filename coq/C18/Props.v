From Coq Require Import List ZArith Bool.
From TM Require Import Generated.Consts C18.Model C18.Proofs.
Import ListNotations.
Open Scope Z_scope.

Theorem C18_audit_empty : audit [] = (0, 0).
Proof. exact audit_empty. Qed.
Print Assumptions C18_audit_empty.
