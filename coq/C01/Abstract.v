(* C01 — Agreement, at the level of signing events.
   A history is the global, time-ordered list of the messages CORRECT validators signed, each
   with the (verified) votes its signer had received before signing.  The local rules R1-R4 are
   what C02 proves for the code's state machine (C02_one_signed_message_per_step,
   C02_precommit_justified, C02_lock_discipline, C02_signed_keys_strictly_increase); the only
   assumption about the network and the faulty validators is unforgeability: a verified vote
   attributed to a correct validator was signed by it earlier.  Faulty validators (less than
   one third of the power) may sign anything, any number of times; messages may be delayed,
   duplicated, reordered or lost — none of that is constrained here. *)
From Coq Require Import List ZArith NArith Bool Lia Arith Wf_nat.
From TM Require Import C02.Model C02.ProofsLock C01.Weights.
Import ListNotations.
Open Scope Z_scope.

Definition vkey := (N * Z * Z * blockid * nat)%type.     (* type, height, round, value, signer *)

Record sev := { se_who : nat; se_ty : N; se_h : Z; se_r : Z; se_x : blockid; se_seen : list vkey }.

Lemma option_eq_dec_N (a b : option N) : {a = b} + {a <> b}.
Proof. decide equality. apply N.eq_dec. Qed.

Section Agreement.
Variable ps : list Z.                      (* voting power by validator index *)
Hypothesis ps_nonneg : nonneg ps.
Variable correct : nat -> bool.
Variable faulty : list nat.
Hypothesis faulty_nodup : NoDup faulty.
Hypothesis faulty_bound : forall i, In i faulty -> (i < length ps)%nat.
Hypothesis faulty_complete : forall i, (i < length ps)%nat -> correct i = false -> In i faulty.
Hypothesis less_than_third : 3 * pw ps faulty < total ps.

(* +2/3 of the power has a vote of type ty for (h, r, x) in D *)
Definition QuorumIn (D : list vkey) (ty : N) (h r : Z) (x : blockid) : Prop :=
  exists voters, NoDup voters /\ (forall i, In i voters -> (i < length ps)%nat) /\
    (forall i, In i voters -> In (ty, h, r, x, i) D) /\ 3 * pw ps voters > 2 * total ps.

Variable evs : list sev.                   (* signing events of correct validators, in time order *)

Definition signed_at (t : nat) (who : nat) (ty : N) (h r : Z) (x : blockid) : Prop :=
  exists e, nth_error evs t = Some e /\ se_who e = who /\ se_ty e = ty /\ se_h e = h /\ se_r e = r /\ se_x e = x.

(* unforgeability + causality: what a signer had received from a correct validator was signed
   by that validator earlier *)
Hypothesis causal : forall t e, nth_error evs t = Some e ->
  forall ty h r x j, In (ty, h, r, x, j) (se_seen e) -> correct j = true ->
    exists t', (t' < t)%nat /\ signed_at t' j ty h r x.

(* R1: one signed message per (type, height, round) *)
Hypothesis one_per_step : forall t1 t2 who ty h r x1 x2,
  signed_at t1 who ty h r x1 -> signed_at t2 who ty h r x2 -> x1 = x2.

(* R4: a validator's signing order follows (height, round, step) *)
Hypothesis signing_order : forall t1 t2 who h r r' x1 x2,
  signed_at t1 who PRECOMMIT h r x1 -> signed_at t2 who PREVOTE h r' x2 -> r < r' -> (t1 < t2)%nat.

(* R2: a precommit for a block needs the polka for it among what the signer had received *)
Hypothesis precommit_justified : forall t e b,
  nth_error evs t = Some e -> se_ty e = PRECOMMIT -> se_x e = Some b ->
  QuorumIn (se_seen e) PREVOTE (se_h e) (se_r e) (Some b).

(* R3: the lock *)
Hypothesis lock_rule : forall t1 t2 e2 who h r b r',
  signed_at t1 who PRECOMMIT h r (Some b) ->
  nth_error evs t2 = Some e2 -> se_who e2 = who -> se_ty e2 = PREVOTE -> se_h e2 = h -> se_r e2 = r' ->
  (t1 < t2)%nat -> r < r' -> bhash (se_x e2) <> Some (fst b) ->
  exists r'' y, r < r'' <= r' /\ bhash y <> Some (fst b) /\ QuorumIn (se_seen e2) PREVOTE h r'' y.

(* a decision: +2/3 precommits for the block in one round among the votes the decider received;
   those of correct validators were signed by them *)
Definition Decision (h r : Z) (b : bid) (D : list vkey) : Prop :=
  QuorumIn D PRECOMMIT h r (Some b) /\
  (forall ty h' r' x j, In (ty, h', r', x, j) D -> correct j = true -> exists t, signed_at t j ty h' r' x).

(* ---------------------------------------------------------------- *)

Lemma third_has_correct l :
  NoDup l -> (forall i, In i l -> (i < length ps)%nat) -> 3 * pw ps l > total ps ->
  exists i, In i l /\ correct i = true.
Proof.
  intros ND Hb Hq. apply (heavy_has_correct ps correct faulty l ps_nonneg ND faulty_nodup faulty_bound).
  - intros i Hi Hc. apply faulty_complete; [apply Hb; exact Hi | exact Hc].
  - lia.
Qed.

Lemma quorums_share_correct D1 ty1 h1 r1 x1 D2 ty2 h2 r2 x2 :
  QuorumIn D1 ty1 h1 r1 x1 -> QuorumIn D2 ty2 h2 r2 x2 ->
  exists k, correct k = true /\ In (ty1, h1, r1, x1, k) D1 /\ In (ty2, h2, r2, x2, k) D2.
Proof.
  intros (v1 & N1 & B1 & I1 & Q1) (v2 & N2 & B2 & I2 & Q2).
  pose proof (quorum_intersection ps v1 v2 ps_nonneg N1 N2 B1 B2 Q1 Q2) as Hi.
  destruct (third_has_correct (inter v1 v2)) as (k & Hk & Hc).
  - apply NoDup_filter. exact N1.
  - intros i Hin. apply in_inter in Hin. apply B1. tauto.
  - exact Hi.
  - apply in_inter in Hk as [K1 K2]. exists k. auto.
Qed.

Lemma quorum_has_correct D ty h r x :
  QuorumIn D ty h r x -> exists k, correct k = true /\ In (ty, h, r, x, k) D.
Proof. intro Q. destruct (quorums_share_correct _ _ _ _ _ _ _ _ _ _ Q Q) as (k & A & B & _). eauto. Qed.

(* same round: the two decided block ids are equal *)
Lemma same_round_agree h r b D b' D' : Decision h r b D -> Decision h r b' D' -> b = b'.
Proof.
  intros [Q C] [Q' C'].
  destruct (quorums_share_correct _ _ _ _ _ _ _ _ _ _ Q Q') as (k & Hc & I1 & I2).
  destruct (C _ _ _ _ _ I1 Hc) as (t1 & S1). destruct (C' _ _ _ _ _ I2 Hc) as (t2 & S2).
  pose proof (one_per_step _ _ _ _ _ _ _ _ S1 S2) as E. injection E as ->. reflexivity.
Qed.

(* after a decision for b in round r, members of the correct precommitters never prevote a
   value with another block hash in a later round *)
Section AfterDecision.
Variable h r : Z.
Variable b : bid.
Variable D : list vkey.
Hypothesis dec : Decision h r b D.

Definition in_Sc (k : nat) : Prop := correct k = true /\ exists t, signed_at t k PRECOMMIT h r (Some b).

Lemma quorum_meets_Sc D2 ty2 h2 r2 x2 :
  QuorumIn D2 ty2 h2 r2 x2 -> exists k, in_Sc k /\ In (ty2, h2, r2, x2, k) D2.
Proof.
  intro Q2. destruct dec as [Q C].
  destruct (quorums_share_correct _ _ _ _ _ _ _ _ _ _ Q Q2) as (k & Hc & I1 & I2).
  exists k. split; [|exact I2]. split; [exact Hc | exact (C _ _ _ _ _ I1 Hc)].
Qed.

Lemma locked_forever : forall (n : nat) (rho : Z), rho - r = Z.of_nat n -> 0 < rho - r ->
  forall t k x, in_Sc k -> signed_at t k PREVOTE h rho x -> bhash x = Some (fst b).
Proof.
  induction n as [n IHn] using lt_wf_ind. intros rho Hn Hpos.
  induction t as [t IHt] using lt_wf_ind. intros k x [Hc (t1 & S1)] S2.
  destruct (option_eq_dec_N (bhash x) (Some (fst b))) as [E|NE]; [exact E|]. exfalso.
  destruct S2 as (e2 & E2 & W2 & T2 & H2 & R2 & X2).
  assert (NE' : bhash (se_x e2) <> Some (fst b)) by (rewrite X2; exact NE).
  assert (Lt12 : (t1 < t)%nat).
  { apply (signing_order t1 t k h r rho (Some b) (se_x e2) S1); [|lia].
    exists e2. repeat split; assumption. }
  destruct (lock_rule t1 t e2 k h r b rho S1 E2 W2 T2 H2 R2 Lt12 ltac:(lia) NE') as (r'' & y & Hr'' & Hy & Qy).
  destruct (quorum_meets_Sc _ _ _ _ _ Qy) as (k' & Sk' & Ik').
  destruct (causal t e2 E2 _ _ _ _ _ Ik' (proj1 Sk')) as (t' & Lt & S').
  destruct (Z.eq_dec r'' rho) as [->|Hne].
  - apply Hy. exact (IHt t' Lt k' y Sk' S').
  - apply Hy. apply (IHn (Z.to_nat (r'' - r)) ltac:(lia) r'' ltac:(lia) ltac:(lia) t' k' y Sk' S').
Qed.

End AfterDecision.

Theorem agreement h r b D r' b' D' :
  Decision h r b D -> Decision h r' b' D' -> fst b = fst b'.
Proof.
  (* wlog r <= r' *)
  assert (Main : forall r b D r' b' D', r <= r' -> Decision h r b D -> Decision h r' b' D' -> fst b = fst b').
  { clear r b D r' b' D'. intros r b D r' b' D' Hle Dc Dc'.
    destruct (Z.eq_dec r r') as [<-|Hne].
    - rewrite (same_round_agree h r b D b' D' Dc Dc'). reflexivity.
    - (* a correct precommitter for b' in round r' had the polka for b' in r' *)
      destruct Dc' as [Q' C'].
      destruct (quorum_has_correct _ _ _ _ _ Q') as (k1 & Hc1 & I1).
      destruct (C' _ _ _ _ _ I1 Hc1) as (t1 & e1 & E1 & W1 & T1 & H1 & R1 & X1).
      pose proof (precommit_justified t1 e1 b' E1 T1 X1) as Pol. rewrite H1, R1 in Pol.
      destruct (quorum_meets_Sc h r b D Dc _ _ _ _ _ Pol) as (k2 & Sk2 & I2).
      destruct (causal t1 e1 E1 _ _ _ _ _ I2 (proj1 Sk2)) as (t2 & _ & S2).
      pose proof (locked_forever h r b D Dc (Z.to_nat (r' - r)) r' ltac:(lia) ltac:(lia) t2 k2 (Some b') Sk2 S2) as E.
      destruct b' as [hb' pb']. cbn in E. injection E as E. cbn. congruence. }
  intros Dc Dc'. destruct (Z.le_ge_cases r r') as [L|L].
  - eapply Main; eassumption.
  - symmetry. eapply Main; eassumption.
Qed.

End Agreement.
