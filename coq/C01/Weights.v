(* C01 — voting-power arithmetic: quorum intersection and "more than a third contains a
   correct validator".  Validators are indices into a list of powers. *)
From Coq Require Import List ZArith Bool Lia Arith.
Import ListNotations.
Open Scope Z_scope.

Definition pw_at (ps : list Z) (i : nat) : Z := nth i ps 0.
Fixpoint pw (ps : list Z) (l : list nat) : Z := match l with [] => 0 | i :: r => pw_at ps i + pw ps r end.
Definition total (ps : list Z) : Z := fold_right Z.add 0 ps.
Definition nonneg (ps : list Z) : Prop := Forall (fun p => 0 <= p) ps.

Lemma pw_at_nonneg ps i : nonneg ps -> 0 <= pw_at ps i.
Proof.
  intro H. unfold pw_at. destruct (Nat.lt_ge_cases i (length ps)) as [Hl|Hg].
  - unfold nonneg in H. rewrite Forall_forall in H. apply H. apply nth_In. exact Hl.
  - rewrite nth_overflow by exact Hg. lia.
Qed.

Lemma pw_nonneg ps l : nonneg ps -> 0 <= pw ps l.
Proof. intro H. induction l as [|i l IH]; cbn [pw]; [lia|]. pose proof (pw_at_nonneg ps i H). lia. Qed.

Lemma pw_app ps a b : pw ps (a ++ b) = pw ps a + pw ps b.
Proof. induction a as [|i a IH]; cbn [pw app]; [reflexivity | rewrite IH; lia]. Qed.

(* removing one occurrence *)
Lemma pw_remove ps i l : In i l -> NoDup l -> pw ps l = pw_at ps i + pw ps (remove Nat.eq_dec i l).
Proof.
  induction l as [|j l IH]; intros Hin ND; [destruct Hin|].
  inversion ND as [|? ? Hnin ND']; subst. cbn [remove].
  destruct (Nat.eq_dec i j) as [->|Hne].
  - rewrite notin_remove by exact Hnin. reflexivity.
  - destruct Hin as [->|Hin]; [contradiction|]. cbn [pw]. rewrite (IH Hin ND'). lia.
Qed.

Lemma NoDup_remove' (i : nat) l : NoDup l -> NoDup (remove Nat.eq_dec i l).
Proof.
  induction l as [|j l IH]; intro ND; cbn; [constructor|].
  inversion ND as [|? ? Hnin ND']; subst. destruct (Nat.eq_dec i j); [apply IH; exact ND'|].
  constructor; [|apply IH; exact ND']. intro H. apply in_remove in H as [H _]. contradiction.
Qed.

(* a duplicate-free list of indices below the length weighs at most the total *)
Lemma pw_le_total : forall ps l, nonneg ps -> NoDup l -> (forall i, In i l -> (i < length ps)%nat) ->
  pw ps l <= total ps.
Proof.
  induction ps as [|p ps IH] using rev_ind; intros l Hnn ND Hb.
  - destruct l as [|i l]; [cbn; lia|]. specialize (Hb i (or_introl eq_refl)). cbn in Hb. lia.
  - assert (Hnn' : nonneg ps /\ 0 <= p).
    { unfold nonneg in *. rewrite Forall_app in Hnn. destruct Hnn as [A B]. inversion B; subst. auto. }
    destruct Hnn' as [Hnn' Hp].
    assert (Ht : total (ps ++ [p]) = total ps + p).
    { unfold total. rewrite fold_right_app. cbn. clear. induction ps as [|q ps IH]; cbn; lia. }
    rewrite Ht.
    set (n := length ps).
    assert (Hat : forall i, (i < n)%nat -> pw_at (ps ++ [p]) i = pw_at ps i).
    { intros i Hi. unfold pw_at. rewrite app_nth1 by exact Hi. reflexivity. }
    assert (Hpw : forall l', (forall i, In i l' -> (i < n)%nat) -> pw (ps ++ [p]) l' = pw ps l').
    { induction l' as [|j l' IHl]; intros Hl; cbn [pw]; [reflexivity|].
      rewrite Hat by (apply Hl; left; reflexivity). rewrite IHl by (intros i Hi; apply Hl; right; exact Hi). reflexivity. }
    destruct (in_dec Nat.eq_dec n l) as [Hin|Hnin].
    + rewrite (pw_remove _ n l Hin ND).
      assert (Hn : pw_at (ps ++ [p]) n = p).
      { unfold pw_at. rewrite app_nth2 by (subst n; lia). subst n. rewrite Nat.sub_diag. reflexivity. }
      rewrite Hn.
      assert (Hrest : forall i, In i (remove Nat.eq_dec n l) -> (i < n)%nat).
      { intros i Hi. apply in_remove in Hi as [Hi Hne]. specialize (Hb i Hi). rewrite app_length in Hb. cbn in Hb. subst n. lia. }
      rewrite Hpw by exact Hrest.
      pose proof (IH (remove Nat.eq_dec n l) Hnn' (NoDup_remove' n l ND) Hrest). lia.
    + assert (Hall : forall i, In i l -> (i < n)%nat).
      { intros i Hi. specialize (Hb i Hi). rewrite app_length in Hb. cbn in Hb.
        assert (i <> n) by (intro; subst; contradiction). subst n. lia. }
      rewrite Hpw by exact Hall. pose proof (IH l Hnn' ND Hall). lia.
Qed.

(* intersection and union of duplicate-free lists *)
Definition inter (a b : list nat) : list nat := filter (fun i => if in_dec Nat.eq_dec i b then true else false) a.
Definition diff (a b : list nat) : list nat := filter (fun i => if in_dec Nat.eq_dec i b then false else true) a.

Lemma pw_split ps a b : pw ps a = pw ps (inter a b) + pw ps (diff a b).
Proof.
  induction a as [|i a IH]; [reflexivity|]. cbn [pw inter diff filter].
  destruct (in_dec Nat.eq_dec i b); cbn [pw]; fold (inter a b); fold (diff a b); rewrite IH; lia.
Qed.

Lemma in_inter i a b : In i (inter a b) <-> In i a /\ In i b.
Proof. unfold inter. rewrite filter_In. destruct (in_dec Nat.eq_dec i b); intuition discriminate. Qed.
Lemma in_diff i a b : In i (diff a b) <-> In i a /\ ~ In i b.
Proof. unfold diff. rewrite filter_In. destruct (in_dec Nat.eq_dec i b); intuition discriminate. Qed.

Lemma NoDup_app_disjoint {A} (a b : list A) :
  NoDup a -> NoDup b -> (forall x, In x a -> ~ In x b) -> NoDup (a ++ b).
Proof.
  induction a as [|x a IH]; intros Na Nb Hd; cbn; [exact Nb|].
  inversion Na as [|? ? Hnin Na']; subst. constructor.
  - intro H. apply in_app_or in H as [H|H]; [contradiction | exact (Hd x (or_introl eq_refl) H)].
  - apply IH; [exact Na' | exact Nb | intros y Hy; apply Hd; right; exact Hy].
Qed.

Lemma quorum_intersection ps a b :
  nonneg ps -> NoDup a -> NoDup b ->
  (forall i, In i a -> (i < length ps)%nat) -> (forall i, In i b -> (i < length ps)%nat) ->
  3 * pw ps a > 2 * total ps -> 3 * pw ps b > 2 * total ps ->
  3 * pw ps (inter a b) > total ps.
Proof.
  intros Hnn NDa NDb Ba Bb Qa Qb.
  assert (ND : NoDup (diff a b ++ b)).
  { apply NoDup_app_disjoint; [apply NoDup_filter; exact NDa | exact NDb |].
    intros x Hx. apply in_diff in Hx. tauto. }
  assert (Hb : forall i, In i (diff a b ++ b) -> (i < length ps)%nat).
  { intros i Hi. apply in_app_or in Hi as [Hi|Hi]; [apply in_diff in Hi; apply Ba; tauto | apply Bb; exact Hi]. }
  pose proof (pw_le_total ps _ Hnn ND Hb) as Hle. rewrite pw_app in Hle.
  pose proof (pw_split ps a b). lia.
Qed.

(* a set heavier than the faulty validators contains a correct one *)
Lemma heavy_has_correct ps (correct : nat -> bool) (faulty l : list nat) :
  nonneg ps -> NoDup l -> NoDup faulty ->
  (forall i, In i faulty -> (i < length ps)%nat) ->
  (forall i, In i l -> correct i = false -> In i faulty) ->
  pw ps l > pw ps faulty ->
  exists i, In i l /\ correct i = true.
Proof.
  intros Hnn NDl NDf Bf Hf Hgt.
  destruct (existsb correct l) eqn:Ex.
  - apply existsb_exists in Ex. exact Ex.
  - exfalso.
    assert (Hall : forall i, In i l -> In i faulty).
    { intros i Hi. apply Hf; [exact Hi|]. destruct (correct i) eqn:Ci; [|reflexivity].
      assert (existsb correct l = true) by (apply existsb_exists; exists i; auto). congruence. }
    (* l is a duplicate-free sublist of faulty: weighs no more *)
    assert (Hle : pw ps l <= pw ps faulty).
    { clear Hgt Hf Ex. revert faulty NDf Bf Hall. induction l as [|i l IH]; intros faulty NDf Bf Hall.
      - cbn [pw]. apply pw_nonneg. exact Hnn.
      - inversion NDl as [|? ? Hnin NDl']; subst. cbn [pw].
        assert (Hi : In i faulty) by (apply Hall; left; reflexivity).
        rewrite (pw_remove ps i faulty Hi NDf).
        assert (IHl : pw ps l <= pw ps (remove Nat.eq_dec i faulty)).
        { apply IH; [exact NDl' | apply NoDup_remove'; exact NDf | |].
          - intros j Hj. apply in_remove in Hj as [Hj _]. apply Bf. exact Hj.
          - intros j Hj. apply in_in_remove; [intro; subst; contradiction | apply Hall; right; exact Hj]. }
        lia. }
    lia.
Qed.
