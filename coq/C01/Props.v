(* C01 — Agreement: correct nodes never commit different blocks at one height.
   Statements only.

   Layering.  C02 proves, for the code's single-validator state machine and EVERY input
   sequence, the local rules a correct validator obeys (one signed message per step, signing
   order, precommit only with a polka, the lock).  [C01_agreement] below proves agreement for
   ANY global history of signing events of correct validators that obeys those rules, assuming
   only (a) unforgeability: a verified vote attributed to a correct validator was signed by it
   earlier, and (b) the faulty validators hold less than one third of the power.  Nothing is
   assumed about delivery order, delay, duplication, loss, partitions or what the faulty
   validators sign.  [C01_decide_backed] is the second sentence of the property, proved for the
   state-machine model directly. *)
From Coq Require Import List ZArith NArith Bool Lia.
From TM Require Import C02.Model C02.ProofsVoteSet C02.ProofsHVS C02.ProofsLock C01.Weights C01.Abstract C01.Compose C01.Exec.
Import ListNotations.
Open Scope Z_scope.

Theorem C01_agreement :
  forall (ps : list Z), nonneg ps ->
  forall (correct : nat -> bool) (faulty : list nat),
    NoDup faulty -> (forall i, In i faulty -> (i < length ps)%nat) ->
    (forall i, (i < length ps)%nat -> correct i = false -> In i faulty) ->
    3 * pw ps faulty < total ps ->
  forall (evs : list sev),
    (* unforgeability / causality *)
    (forall t e, nth_error evs t = Some e ->
       forall ty h r x j, In (ty, h, r, x, j) (se_seen e) -> correct j = true ->
         exists t', (t' < t)%nat /\ signed_at evs t' j ty h r x) ->
    (* R1: one signed message per step (C02_one_signed_message_per_step) *)
    (forall t1 t2 who ty h r x1 x2,
       signed_at evs t1 who ty h r x1 -> signed_at evs t2 who ty h r x2 -> x1 = x2) ->
    (* R4: signing order (C02_signed_keys_strictly_increase) *)
    (forall t1 t2 who h r r' x1 x2,
       signed_at evs t1 who PRECOMMIT h r x1 -> signed_at evs t2 who PREVOTE h r' x2 -> r < r' -> (t1 < t2)%nat) ->
    (* R2: precommit only with the polka (C02_precommit_justified) *)
    (forall t e b, nth_error evs t = Some e -> se_ty e = PRECOMMIT -> se_x e = Some b ->
       QuorumIn ps (se_seen e) PREVOTE (se_h e) (se_r e) (Some b)) ->
    (* R3: the lock (C02_lock_discipline; the precommit was signed before the prevote) *)
    (forall t1 t2 e2 who h r b r',
       signed_at evs t1 who PRECOMMIT h r (Some b) ->
       nth_error evs t2 = Some e2 -> se_who e2 = who -> se_ty e2 = PREVOTE -> se_h e2 = h -> se_r e2 = r' ->
       (t1 < t2)%nat -> r < r' -> bhash (se_x e2) <> Some (fst b) ->
       exists r'' y, r < r'' <= r' /\ bhash y <> Some (fst b) /\ QuorumIn ps (se_seen e2) PREVOTE h r'' y) ->
  forall h r b D r' b' D',
    Decision ps correct evs h r b D -> Decision ps correct evs h r' b' D' -> fst b = fst b'.
Proof. exact agreement. Qed.
Print Assumptions C01_agreement.

(* Agreement for the network of state machines (the composition, mechanised in Compose.v).
   [steps] is ANY global schedule: a list of (validator, input) pairs; each pair is one call of
   the code's handler (C02/Model.v [handle]) by that validator's state machine on its current
   state.  Inputs are arbitrary — proposals, parts, votes of any signer (valid, invalid,
   equivocating), timeouts, peer claims — in any order, with any delays, repetitions and losses.
   The only hypotheses: the faulty validators hold less than a third of the power, and
   unforgeability — a vote that verifies under a correct validator's key and is delivered at
   step g was signed by that validator's state machine in an earlier step of the schedule.
   Then two decisions for one height, by any two state machines, are for the same block hash.
   (All validators start at the same height with the same validator set; the set does not
   change during the run — validator-set changes are C08's subject.) *)
Theorem C01_network_agreement :
  forall (vals : valset), powers_nonneg vals ->
  forall (E : nat -> env), (forall j, e_vals (E j) = vals) ->
  forall (height0 : Z) (lc0 : nat -> option voteset) (steps : sched)
         (correct : nat -> bool) (faulty : list nat),
    NoDup faulty -> (forall i, In i faulty -> (i < length (powers vals))%nat) ->
    (forall i, (i < length (powers vals))%nat -> correct i = false -> In i faulty) ->
    3 * pw (powers vals) faulty < total (powers vals) ->
    (forall g k v peer,
       nth_error steps g = Some (k, IVote v peer) -> v_ok v = true -> 0 <= v_idx v ->
       correct (Z.to_nat (v_idx v)) = true ->
       exists e, In e (gevents E height0 lc0 [] (firstn g steps)) /\ se_who e = Z.to_nat (v_idx v) /\
                 se_ty e = v_type v /\ se_h e = v_height v /\ se_r e = v_round v /\ se_x e = v_bid v) ->
  forall g1 k1 i1 g2 k2 i2 h r1 r2 bh1 bh2,
    nth_error steps g1 = Some (k1, i1) -> nth_error steps g2 = Some (k2, i2) ->
    In (ODecide h r1 bh1)
       (snd (handle (E k1) (fst (run (E k1) (init E height0 lc0 k1) (proj k1 (firstn g1 steps)))) i1)) ->
    In (ODecide h r2 bh2)
       (snd (handle (E k2) (fst (run (E k2) (init E height0 lc0 k2) (proj k2 (firstn g2 steps)))) i2)) ->
    bh1 = bh2.
Proof. exact network_agreement. Qed.
Print Assumptions C01_network_agreement.

(* Every block a node decides passed validation, its complete part set was delivered, and it is
   backed by precommits for exactly that block id, in one round, from distinct validators with
   more than two thirds of the power, among the votes delivered to the node. *)
Theorem C01_decide_backed :
  forall (E : env) (height : Z) (lc : option voteset) (ins : list input) (h r : Z) (bh : N),
    powers_nonneg (e_vals E) ->
    In (ODecide h r bh) (concat (snd (run E (init_state E height lc) ins))) ->
    exists ph blk, Quorum (votes_of ins) (e_vals E) PRECOMMIT h r (Some (bh, ph)) /\
                   In blk (blocks_of ins) /\ b_hash blk = bh /\ b_valid blk = true.
Proof. exact decide_backed. Qed.
Print Assumptions C01_decide_backed.

(* quorum arithmetic used by the agreement proof, stated on its own *)
Theorem C01_quorum_intersection :
  forall (ps : list Z) (a b : list nat),
    nonneg ps -> NoDup a -> NoDup b ->
    (forall i, In i a -> (i < length ps)%nat) -> (forall i, In i b -> (i < length ps)%nat) ->
    3 * pw ps a > 2 * total ps -> 3 * pw ps b > 2 * total ps ->
    3 * pw ps (inter a b) > total ps.
Proof. exact quorum_intersection. Qed.
Print Assumptions C01_quorum_intersection.

(* non-vacuity: a history in which validators 0,1,2 (of 4 equal ones, 3 faulty) prevote and
   precommit block 7 in round 0 and a decision for it exists satisfies every hypothesis *)
Definition ex_ps : list Z := [10; 10; 10; 10].
Definition ex_b : bid := (7%N, (1%N, 9%N)).
Definition ex_pv (i : nat) : Abstract.vkey := (PREVOTE, 1, 0, Some ex_b, i).
Definition ex_pc (i : nat) : Abstract.vkey := (PRECOMMIT, 1, 0, Some ex_b, i).
Definition ex_evs : list sev :=
  [ {| se_who := 0; se_ty := PREVOTE; se_h := 1; se_r := 0; se_x := Some ex_b; se_seen := [] |};
    {| se_who := 1; se_ty := PREVOTE; se_h := 1; se_r := 0; se_x := Some ex_b; se_seen := [] |};
    {| se_who := 2; se_ty := PREVOTE; se_h := 1; se_r := 0; se_x := Some ex_b; se_seen := [] |};
    {| se_who := 0; se_ty := PRECOMMIT; se_h := 1; se_r := 0; se_x := Some ex_b; se_seen := [ex_pv 0; ex_pv 1; ex_pv 2] |};
    {| se_who := 1; se_ty := PRECOMMIT; se_h := 1; se_r := 0; se_x := Some ex_b; se_seen := [ex_pv 0; ex_pv 1; ex_pv 2] |};
    {| se_who := 2; se_ty := PRECOMMIT; se_h := 1; se_r := 0; se_x := Some ex_b; se_seen := [ex_pv 0; ex_pv 1; ex_pv 2] |} ].

Example C01_decision_nonvacuous :
  QuorumIn ex_ps [ex_pc 0; ex_pc 1; ex_pc 2] PRECOMMIT 1 0 (Some ex_b) /\
  3 * pw ex_ps [3%nat] < total ex_ps.
Proof.
  split; [|vm_compute; reflexivity].
  exists [0%nat; 1%nat; 2%nat]. split; [repeat constructor; cbn; intuition lia|].
  split; [intros i Hi; cbn in *; intuition lia|].
  split; [|vm_compute; reflexivity].
  intros i Hi. cbn in Hi. cbn. intuition (subst; auto).
Qed.

(* non-vacuity of C01_network_agreement: validators 0,1,2 (of 4 equal ones; 3 is faulty and
   silent) each run the state machine; every one receives the proposal and the block, then the
   three prevotes, then the three precommits.  The schedule meets the unforgeability hypothesis
   (decided by computation) and validators 0 and 2 both decide — block 7. *)
Definition nx_vals : valset := [(1%N, 10); (2%N, 10); (3%N, 10); (4%N, 10)].
Definition nx_env (j : nat) : env :=
  {| e_vals := nx_vals; e_me := Some (Z.of_nat j); e_proposer := fun _ r => (r + 1) mod 4;
     e_skip_timeout_commit := false; e_initial_height := 1 |}.
Definition nx_vote ty i : input :=
  IVote {| v_type := ty; v_height := 1; v_round := 0; v_bid := Some ex_b; v_idx := i;
           v_addr := N.of_nat (Z.to_nat i + 1); v_sig := N.of_nat (Z.to_nat i + 100 * N.to_nat ty); v_ok := true |} 5%N.
Definition nx_nodes : list nat := [0; 1; 2]%nat.
Definition nx_steps : sched :=
  map (fun k => (k, ITimeout {| ti_height := 1; ti_round := 0; ti_step := SNewHeight |})) nx_nodes
  ++ flat_map (fun k => [(k, IProposal {| pr_height := 1; pr_round := 0; pr_polr := -1; pr_bid := ex_b;
                                           pr_signer := 1; pr_sigvalid := true |});
                         (k, IPart 1 (1%N, 9%N) 0%N (Some {| b_hash := 7%N; b_valid := true |}))]) nx_nodes
  ++ flat_map (fun k => map (fun i => (k, nx_vote PREVOTE i)) [0; 1; 2]) nx_nodes
  ++ flat_map (fun k => map (fun i => (k, nx_vote PRECOMMIT i)) [0; 1; 2]) nx_nodes.
Definition nx_correct (j : nat) : bool := Nat.ltb j 3.

Example C01_network_nonvacuous :
  unforgeable_b nx_env 1 (fun _ => None) nx_correct nx_steps = true /\
  3 * pw (powers nx_vals) [3%nat] < total (powers nx_vals) /\
  (exists i, nth_error nx_steps 20 = Some (0%nat, i) /\
     In (ODecide 1 0 7%N)
        (snd (handle (nx_env 0) (fst (run (nx_env 0) (init nx_env 1 (fun _ => None) 0) (proj 0 (firstn 20 nx_steps)))) i))) /\
  (exists i, nth_error nx_steps 26 = Some (2%nat, i) /\
     In (ODecide 1 0 7%N)
        (snd (handle (nx_env 2) (fst (run (nx_env 2) (init nx_env 1 (fun _ => None) 2) (proj 2 (firstn 26 nx_steps)))) i))).
Proof.
  split; [vm_compute; reflexivity|]. split; [vm_compute; reflexivity|].
  split; eexists; (split; [vm_compute; reflexivity|]); vm_compute; tauto.
Qed.
