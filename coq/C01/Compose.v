(* C01 — composition: a global interleaving of correct validators, each running the code's
   state machine (C02/Model.v) on whatever it is delivered, satisfies the hypotheses of the
   abstract agreement theorem (C01/Abstract.v), given only unforgeability of the votes
   attributed to correct validators.  Hence: agreement for every such execution. *)
From Coq Require Import List ZArith NArith Bool Lia Arith.
From TM Require Import C02.Model C02.ProofsVoteSet C02.ProofsHVS C02.ProofsOrder C02.ProofsLock
                       C01.Weights C01.Abstract.
Import ListNotations.
Open Scope Z_scope.

(* ---------------------------------------------------------------- list helpers *)

(* position of the element at index t of l inside (filter p l) *)
Definition rank {A} (p : A -> bool) (l : list A) (t : nat) : nat := length (filter p (firstn t l)).

Lemma rank_nth {A} (p : A -> bool) : forall (l : list A) t e,
  nth_error l t = Some e -> p e = true -> nth_error (filter p l) (rank p l t) = Some e.
Proof.
  induction l as [|x l IH]; intros t e Hn Hp; [destruct t; discriminate|].
  destruct t as [|t]; cbn in Hn.
  - injection Hn as ->. unfold rank. cbn. rewrite Hp. reflexivity.
  - unfold rank. cbn [firstn filter]. destruct (p x) eqn:Px; cbn [length nth_error]; apply (IH t e Hn Hp).
Qed.

Lemma rank_mono {A} (p : A -> bool) (l : list A) t1 t2 : (t1 <= t2)%nat -> (rank p l t1 <= rank p l t2)%nat.
Proof.
  intro H. unfold rank. replace t2 with (t1 + (t2 - t1))%nat by lia.
  generalize (t2 - t1)%nat as d. clear H t2. intro d.
  revert l. induction t1 as [|t1 IH]; intro l; cbn [firstn filter length Nat.add]; [lia|].
  destruct l as [|x l]; cbn [firstn filter length]; [lia|]. destruct (p x); cbn [length]; specialize (IH l); lia.
Qed.

Lemma rank_strict {A} (p : A -> bool) : forall (l : list A) t1 t2 e1,
  nth_error l t1 = Some e1 -> p e1 = true -> (t1 < t2)%nat -> (rank p l t1 < rank p l t2)%nat.
Proof.
  intros l t1 t2 e1 Hn Hp Hlt.
  apply Nat.lt_le_trans with (rank p l (S t1)); [|apply rank_mono; lia].
  clear Hlt t2. unfold rank. revert l Hn. induction t1 as [|t1 IH]; intros l Hn; destruct l as [|x l]; try discriminate; cbn in Hn.
  - injection Hn as ->. cbn. rewrite Hp. cbn. lia.
  - cbn [firstn filter]. specialize (IH l Hn). destruct (p x); cbn [length]; cbn [firstn] in IH; lia.
Qed.

(* index a < b in a flat_map with at most one image per element: the source splits *)
Lemma flat_map_two {A B} (f : A -> list B) :
  (forall x, (length (f x) <= 1)%nat) ->
  forall (l : list A) a b ea eb, (a < b)%nat ->
  nth_error (flat_map f l) a = Some ea -> nth_error (flat_map f l) b = Some eb ->
  exists l1 x1 l2 x2 l3, l = l1 ++ x1 :: l2 ++ x2 :: l3 /\ f x1 = [ea] /\ f x2 = [eb].
Proof.
  intros Hone. induction l as [|x l IH]; intros a b ea eb Hlt Ha Hb; [destruct a; discriminate|].
  cbn [flat_map] in Ha, Hb. pose proof (Hone x) as Hx.
  destruct (f x) as [|y [|z r]] eqn:Efx; cbn in Hx; try lia.
  - cbn [app] in Ha, Hb. destruct (IH a b ea eb Hlt Ha Hb) as (l1 & x1 & l2 & x2 & l3 & E & F1 & F2).
    exists (x :: l1), x1, l2, x2, l3. subst l. auto.
  - cbn [app] in Ha, Hb. destruct a as [|a].
    + cbn in Ha. injection Ha as ->. destruct b as [|b]; [lia|]. cbn in Hb.
      (* find eb's source in l *)
      assert (Src : forall (l : list A) b eb, nth_error (flat_map f l) b = Some eb ->
                exists l2 x2 l3, l = l2 ++ x2 :: l3 /\ f x2 = [eb]).
      { clear - Hone. induction l as [|x l IH]; intros b eb Hb; [destruct b; discriminate|].
        cbn [flat_map] in Hb. pose proof (Hone x) as Hx. destruct (f x) as [|y [|z r]] eqn:Efx; cbn in Hx; try lia.
        - destruct (IH b eb Hb) as (l2 & x2 & l3 & E & F). exists (x :: l2), x2, l3. subst l. auto.
        - destruct b as [|b]; cbn in Hb.
          + injection Hb as ->. exists [], x, l. auto.
          + destruct (IH b eb Hb) as (l2 & x2 & l3 & E & F). exists (x :: l2), x2, l3. subst l. auto. }
      destruct (Src l b eb Hb) as (l2 & x2 & l3 & E & F). exists [], x, l2, x2, l3. subst l. auto.
    + destruct b as [|b]; [lia|]. cbn in Ha, Hb.
      destruct (IH a b ea eb ltac:(lia) Ha Hb) as (l1 & x1 & l2 & x2 & l3 & E & F1 & F2).
      exists (x :: l1), x1, l2, x2, l3. subst l. auto.
Qed.

(* ---------------------------------------------------------------- strictly increasing keys *)

Lemma Incr_drop_mid lo a k b hi : Incr lo (a ++ k :: b) hi -> Incr lo (a ++ b) hi.
Proof.
  revert lo; induction a as [|x a IH]; intros lo H; cbn in *.
  - destruct H as [H1 H2]. eapply Incr_weaken_lo; [apply lt3_le3; exact H1 | exact H2].
  - destruct H as [H1 H2]. split; [exact H1 | apply IH; exact H2].
Qed.

Lemma Incr_sublist (keep : key -> bool) : forall ks lo hi, Incr lo ks hi -> Incr lo (filter keep ks) hi.
Proof.
  induction ks as [|k ks IH]; intros lo hi H; [exact H|].
  cbn [filter]. destruct (keep k).
  - cbn in H |- *. destruct H as [H1 H2]. split; [exact H1 | apply IH; exact H2].
  - apply IH. apply (Incr_drop_mid lo [] k ks hi). exact H.
Qed.

Lemma Incr_index_order : forall ks lo hi a b ka kb,
  Incr lo ks hi -> nth_error ks a = Some ka -> nth_error ks b = Some kb -> lt3 ka kb -> (a < b)%nat.
Proof.
  induction ks as [|k ks IH]; intros lo hi a b ka kb H Ha Hb Hlt; [destruct a; discriminate|].
  cbn in H. destruct H as [H1 H2].
  destruct a as [|a], b as [|b]; cbn in Ha, Hb.
  - injection Ha as <-. injection Hb as <-. exfalso. exact (lt3_irrefl _ Hlt).
  - lia.
  - injection Hb as <-. exfalso.
    destruct (Incr_all_above k ks hi ka H2 (nth_error_In _ _ Ha)) as [A _].
    exact (lt3_irrefl _ (lt3_trans _ _ _ A Hlt)).
  - specialize (IH k hi a b ka kb H2 Ha Hb Hlt). lia.
Qed.

Lemma Incr_index_eq : forall ks lo hi a b k,
  Incr lo ks hi -> nth_error ks a = Some k -> nth_error ks b = Some k -> a = b.
Proof.
  intros ks lo hi a b k H Ha Hb. pose proof (Incr_NoDup lo ks hi H) as ND.
  rewrite NoDup_nth_error in ND. apply ND; [apply nth_error_Some; rewrite Ha; discriminate | congruence].
Qed.

(* ---------------------------------------------------------------- run helpers *)

Lemma run_fst_app E : forall a s b, fst (run E s (a ++ b)) = fst (run E (fst (run E s a)) b).
Proof.
  induction a as [|i a IH]; intros s b; [reflexivity|].
  cbn [run app]. destruct (handle E s i) as [s1 o1]. specialize (IH s1 b).
  destruct (run E s1 (a ++ b)) as [s2 os2]. destruct (run E s1 a) as [s3 os3]. cbn [fst snd] in *. exact IH.
Qed.

Lemma run_snoc_fst E s pre i : fst (run E s (pre ++ [i])) = fst (handle E (fst (run E s pre)) i).
Proof.
  rewrite run_fst_app. cbn [run]. destruct (handle E (fst (run E s pre)) i) as [s1 o1]. reflexivity.
Qed.

Lemma run_snoc_snd E s pre i :
  concat (snd (run E s (pre ++ [i]))) = concat (snd (run E s pre)) ++ snd (handle E (fst (run E s pre)) i).
Proof.
  rewrite run_app. rewrite concat_app. f_equal. cbn [run].
  destruct (handle E (fst (run E s pre)) i) as [s1 o1]. cbn. apply app_nil_r.
Qed.

Lemma votes_of_app a b : votes_of (a ++ b) = votes_of a ++ votes_of b.
Proof. unfold votes_of. apply flat_map_app. Qed.

(* ---------------------------------------------------------------- from delivered votes to keys *)

Definition vkey_of (v : vote) : list Abstract.vkey :=
  if v_ok v && (0 <=? v_idx v) then [(v_type v, v_height v, v_round v, v_bid v, Z.to_nat (v_idx v))] else [].
Definition vkeys (D : list vote) : list Abstract.vkey := flat_map vkey_of D.

Lemma vkeys_in D ty h r x j :
  In (ty, h, r, x, j) (vkeys D) <->
  exists v, In v D /\ v_ok v = true /\ 0 <= v_idx v /\ v_type v = ty /\ v_height v = h /\ v_round v = r /\
            v_bid v = x /\ Z.to_nat (v_idx v) = j.
Proof.
  unfold vkeys. rewrite in_flat_map. split.
  - intros (v & Hin & Hk). unfold vkey_of in Hk.
    destruct (v_ok v) eqn:Ok; [|destruct Hk]. destruct (0 <=? v_idx v) eqn:Ix; [|destruct Hk].
    cbn in Hk. destruct Hk as [Hk|[]]. injection Hk as <- <- <- <- <-.
    exists v. apply Z.leb_le in Ix. repeat split; auto.
  - intros (v & Hin & Ok & Ix & <- & <- & <- & <- & <-). exists v. split; [exact Hin|].
    unfold vkey_of. rewrite Ok. apply Z.leb_le in Ix. rewrite Ix. left. reflexivity.
Qed.

Definition powers (vals : valset) : list Z := map snd vals.

Lemma pw_at_powers vals i : pw_at (powers vals) i = power_at vals i.
Proof.
  unfold pw_at, powers, power_at. revert i. induction vals as [|[a p] vals IH]; intro i; destruct i; cbn; auto.
Qed.

Lemma pw_powers vals l : pw (powers vals) l = fold_right (fun i acc => power_at vals i + acc) 0 l.
Proof. induction l as [|i l IH]; cbn [pw fold_right]; [reflexivity | rewrite pw_at_powers, IH; reflexivity]. Qed.

Lemma total_powers vals : total (powers vals) = total_power vals.
Proof. unfold total, powers, total_power. induction vals as [|[a p] vals IH]; cbn; [reflexivity | rewrite IH; reflexivity]. Qed.

Lemma nonneg_powers vals : powers_nonneg vals -> nonneg (powers vals).
Proof. unfold powers_nonneg, nonneg, powers. intro H. apply Forall_map. exact H. Qed.

Lemma Quorum_QuorumIn D vals ty h r x :
  Quorum D vals ty h r x -> QuorumIn (powers vals) (vkeys D) ty h r x.
Proof.
  intros (voters & ND & Hv & Hq). exists voters. split; [exact ND|]. split; [|split].
  - intros i Hi. destruct (Hv i Hi) as (v & _ & _ & _ & _ & _ & _ & _ & a & p & Hn & _).
    unfold powers. rewrite map_length. apply nth_error_Some. rewrite Hn. discriminate.
  - intros i Hi. destruct (Hv i Hi) as (v & Hin & Ok & Ty & Hh & Hr & Hb & Hi' & _).
    apply vkeys_in. exists v. repeat split; auto; rewrite Hi'; [lia | apply Nat2Z.id].
  - rewrite pw_powers, total_powers. exact Hq.
Qed.

(* ---------------------------------------------------------------- one node's signing events *)

Definition tagged_out := (output * list Abstract.vkey)%type.
Definition tag (seen : list Abstract.vkey) (outs : list output) : list tagged_out := map (fun o => (o, seen)) outs.

Definition ev_of (who : nat) (t : tagged_out) : list sev :=
  match fst t with
  | OSignVote ty h r x => [{| se_who := who; se_ty := ty; se_h := h; se_r := r; se_x := x; se_seen := snd t |}]
  | _ => []
  end.

Lemma ev_of_le1 who t : (length (ev_of who t) <= 1)%nat.
Proof. unfold ev_of. destruct (fst t); cbn; lia. Qed.

Section Node.
Variable E : env.
Variable s0 : cstate.

(* the outputs of the steps for [ins], after [pre] was handled, each tagged with the verified
   votes delivered up to and including the step that produced it *)
Fixpoint tagged (pre ins : list input) : list tagged_out :=
  match ins with
  | [] => []
  | i :: rest => tag (vkeys (votes_of (pre ++ [i]))) (snd (handle E (fst (run E s0 pre)) i))
                 ++ tagged (pre ++ [i]) rest
  end.

Lemma tagged_app : forall a pre b, tagged pre (a ++ b) = tagged pre a ++ tagged (pre ++ a) b.
Proof.
  induction a as [|i a IH]; intros pre b; cbn [tagged app]; [rewrite app_nil_r; reflexivity|].
  rewrite IH, <- !app_assoc. reflexivity.
Qed.

Lemma tagged_outputs : forall ins pre,
  map fst (tagged pre ins) = concat (snd (run E (fst (run E s0 pre)) ins)).
Proof.
  induction ins as [|i ins IH]; intro pre; [reflexivity|].
  cbn [tagged]. rewrite map_app, IH, run_snoc_fst. cbn [run].
  destruct (handle E (fst (run E s0 pre)) i) as [s1 o1]. cbn [fst snd].
  destruct (run E s1 ins) as [s2 os2]. cbn [snd concat]. f_equal.
  unfold tag. rewrite map_map. cbn. apply map_id.
Qed.

(* an output in the tagged list was produced by a definite step; everything up to it lies in the
   run over the inputs up to that step, and its tag is what had been delivered by then *)
Lemma tagged_split : forall ins pre l o seen l',
  tagged pre ins = l ++ (o, seen) :: l' ->
  exists ins1 i ins2 rest, ins = ins1 ++ i :: ins2 /\
    seen = vkeys (votes_of (pre ++ ins1 ++ [i])) /\
    map fst l ++ o :: rest = concat (snd (run E (fst (run E s0 pre)) (ins1 ++ [i]))).
Proof.
  induction ins as [|i ins IH]; intros pre l o seen l' Eq; [destruct l; discriminate|].
  cbn [tagged] in Eq.
  set (outs := snd (handle E (fst (run E s0 pre)) i)) in *.
  set (sn := vkeys (votes_of (pre ++ [i]))) in *.
  destruct (Nat.lt_ge_cases (length l) (length (tag sn outs))) as [Hlt|Hge].
  - (* produced by this step *)
    assert (Hsp : exists m, tag sn outs = l ++ (o, seen) :: m).
    { clear IH. revert l Eq Hlt. generalize (tag sn outs) as T. generalize (tagged (pre ++ [i]) ins) as R.
      intros R T. induction T as [|t T IHT]; intros l Eq Hlt; [cbn in Hlt; lia|].
      destruct l as [|x l]; cbn in Eq.
      - injection Eq as -> _. exists T. reflexivity.
      - injection Eq as -> Eq. cbn in Hlt. destruct (IHT l Eq ltac:(lia)) as (m & ->). exists m. reflexivity. }
    destruct Hsp as (m & Em).
    exists [], i, ins, (map fst m). split; [reflexivity|]. split.
    + assert (Hin : In (o, seen) (tag sn outs)) by (rewrite Em; apply in_elt).
      unfold tag in Hin. apply in_map_iff in Hin as (o' & Eo & _). injection Eo as _ <-. reflexivity.
    + cbn [app run]. fold outs. destruct (handle E (fst (run E s0 pre)) i) as [s1 o1] eqn:Eh. cbn [snd concat].
      rewrite app_nil_r. subst outs. cbn [snd] in Em.
      assert (Ef : map fst (tag sn o1) = o1) by (unfold tag; rewrite map_map; apply map_id).
      rewrite <- Ef, Em, map_app. reflexivity.
  - (* produced later *)
    assert (Hsp : exists l2, l = tag sn outs ++ l2 /\ tagged (pre ++ [i]) ins = l2 ++ (o, seen) :: l').
    { clear IH. revert l Eq Hge. generalize (tag sn outs) as T. generalize (tagged (pre ++ [i]) ins) as R.
      intros R T. induction T as [|t T IHT]; intros l Eq Hge.
      - exists l. auto.
      - destruct l as [|x l]; [cbn in Hge; lia|]. cbn in Eq. injection Eq as <- Eq. cbn in Hge.
        destruct (IHT l Eq ltac:(lia)) as (l2 & -> & E2). exists l2. auto. }
    destruct Hsp as (l2 & -> & E2).
    destruct (IH (pre ++ [i]) l2 o seen l' E2) as (ins1 & j & ins2 & rest & -> & Hs & Hr).
    exists (i :: ins1), j, ins2, rest. split; [reflexivity|]. split.
    + rewrite Hs, <- !app_assoc. reflexivity.
    + rewrite run_snoc_fst in Hr. cbn [app run]. subst outs.
      destruct (handle E (fst (run E s0 pre)) i) as [s1 o1]. cbn [fst snd] in *.
      destruct (run E s1 (ins1 ++ [j])) as [s2 os2]. cbn [snd concat] in *.
      rewrite map_app, <- app_assoc. apply (f_equal2 (@app output)); [|exact Hr].
      unfold tag. rewrite map_map. apply map_id.
Qed.

Definition nevents (who : nat) (pre ins : list input) : list sev := flat_map (ev_of who) (tagged pre ins).

End Node.

(* ---------------------------------------------------------------- the network *)

Section Network.
Variable vals : valset.
Hypothesis vals_nonneg : powers_nonneg vals.
(* node j is the correct validator with index j; it runs the code's state machine in its own
   environment (same validator set), from its own initial state *)
Variable E : nat -> env.
Hypothesis E_vals : forall j, e_vals (E j) = vals.
Variable height0 : Z.
Variable lc0 : nat -> option voteset.
Definition init (j : nat) : cstate := init_state (E j) height0 (lc0 j).

Definition sched := list (nat * input).      (* who handles what, in global time order *)
Definition proj (j : nat) (st : sched) : list input :=
  map snd (filter (fun x => Nat.eqb (fst x) j) st).

Lemma proj_app j a b : proj j (a ++ b) = proj j a ++ proj j b.
Proof. unfold proj. rewrite filter_app, map_app. reflexivity. Qed.

(* the global list of signing events: every step is one [handle] call of the node it is
   addressed to, on that node's current state *)
Fixpoint gevents (past steps : sched) : list sev :=
  match steps with
  | [] => []
  | (j, i) :: rest =>
      flat_map (ev_of j)
        (tag (vkeys (votes_of (proj j past ++ [i])))
             (snd (handle (E j) (fst (run (E j) (init j) (proj j past))) i)))
      ++ gevents (past ++ [(j, i)]) rest
  end.

Lemma gevents_app : forall a past b, gevents past (a ++ b) = gevents past a ++ gevents (past ++ a) b.
Proof.
  induction a as [|[j i] a IH]; intros past b; cbn [gevents app]; [rewrite app_nil_r; reflexivity|].
  rewrite IH, <- !app_assoc. reflexivity.
Qed.

Lemma ev_of_who who t e : In e (ev_of who t) -> se_who e = who.
Proof. unfold ev_of. destruct (fst t); cbn; try tauto. intros [<-|[]]. reflexivity. Qed.

Definition by_node (j : nat) (e : sev) : bool := Nat.eqb (se_who e) j.

Lemma filter_all {A} (p : A -> bool) l : (forall x, In x l -> p x = true) -> filter p l = l.
Proof.
  induction l as [|x l IH]; intro H; [reflexivity|]. cbn. rewrite (H x (or_introl eq_refl)).
  f_equal. apply IH. intros y Hy. apply H. right. exact Hy.
Qed.
Lemma filter_none {A} (p : A -> bool) l : (forall x, In x l -> p x = false) -> filter p l = [].
Proof.
  induction l as [|x l IH]; intro H; [reflexivity|]. cbn. rewrite (H x (or_introl eq_refl)).
  apply IH. intros y Hy. apply H. right. exact Hy.
Qed.

Lemma proj_cons_same j i st : proj j ((j, i) :: st) = i :: proj j st.
Proof. unfold proj. cbn [filter fst]. rewrite Nat.eqb_refl. reflexivity. Qed.
Lemma proj_cons_other j k i st : Nat.eqb k j = false -> proj j ((k, i) :: st) = proj j st.
Proof. intro H. unfold proj. cbn [filter fst]. rewrite H. reflexivity. Qed.

(* projection: the events of node j in the global list are exactly its own run's events *)
Lemma gevents_proj j : forall steps past,
  filter (by_node j) (gevents past steps) = nevents (E j) (init j) j (proj j past) (proj j steps).
Proof.
  induction steps as [|[k i] steps IH]; intro past; [reflexivity|].
  cbn [gevents]. rewrite filter_app, IH, proj_app.
  destruct (Nat.eqb k j) eqn:Ek.
  - apply Nat.eqb_eq in Ek. subst k. rewrite !proj_cons_same. cbn [proj filter map].
    unfold nevents. cbn [tagged flat_map]. rewrite flat_map_app. f_equal.
    apply filter_all. intros e He. apply in_flat_map in He as (t & _ & He).
    unfold by_node. rewrite (ev_of_who _ _ _ He). apply Nat.eqb_refl.
  - rewrite !(proj_cons_other j k i _ Ek). cbn [proj filter map]. rewrite app_nil_r.
    rewrite filter_none; [reflexivity|]. intros e He. apply in_flat_map in He as (t & _ & He).
    unfold by_node. rewrite (ev_of_who _ _ _ He). exact Ek.
Qed.

(* ---------------------------------------------------------------- what C02 gives for one node *)

Definition evkey (e : sev) : key := (se_h e, se_r e, vote_rank (se_ty e)).
Definition is_vote_key (k : key) : bool := negb (snd k =? 3).

Lemma ev_of_inv who t e : In e (ev_of who t) ->
  fst t = OSignVote (se_ty e) (se_h e) (se_r e) (se_x e) /\ snd t = se_seen e /\ se_who e = who.
Proof.
  unfold ev_of. destruct (fst t) eqn:Ef; cbn; try tauto. intros [<-|[]]. cbn. auto.
Qed.

Lemma evkeys_filter who : forall T : list tagged_out,
  map evkey (flat_map (ev_of who) T) = filter is_vote_key (keys (map fst T)).
Proof.
  induction T as [|[o seen] T IH]; [reflexivity|].
  cbn [flat_map map fst]. unfold keys in *. cbn [flat_map]. rewrite map_app, filter_app, IH. f_equal.
  unfold ev_of. cbn [fst snd]. destruct o; cbn; try reflexivity.
  unfold evkey, is_vote_key. cbn [se_h se_r se_ty snd]. unfold vote_rank. destruct (ty =? PREVOTE)%N; reflexivity.
Qed.

Section OneNode.
Variable j : nat.
Variable ins : list input.
Let evs_j := nevents (E j) (init j) j [] ins.

Lemma node_keys_incr : exists hi, Incr (pos (init j)) (map evkey evs_j) hi.
Proof.
  subst evs_j. unfold nevents. rewrite evkeys_filter, tagged_outputs. cbn [run fst].
  pose proof (signed_keys_increasing (E j) height0 (lc0 j) ins) as H. fold (init j) in H.
  destruct (run (E j) (init j) ins) as [s' os]. cbn [snd]. exists (pos s'). apply Incr_sublist. exact H.
Qed.

Lemma node_one_per_step a b e1 e2 :
  nth_error evs_j a = Some e1 -> nth_error evs_j b = Some e2 ->
  se_ty e1 = se_ty e2 -> se_h e1 = se_h e2 -> se_r e1 = se_r e2 -> a = b.
Proof.
  intros Ha Hb Et Eh Er. destruct node_keys_incr as (hi & HI).
  apply (Incr_index_eq _ _ _ a b (evkey e1) HI).
  - rewrite nth_error_map, Ha. reflexivity.
  - rewrite nth_error_map, Hb. unfold evkey. rewrite Et, Eh, Er. reflexivity.
Qed.

Lemma node_signing_order a b e1 e2 :
  nth_error evs_j a = Some e1 -> nth_error evs_j b = Some e2 ->
  se_ty e1 = PRECOMMIT -> se_ty e2 = PREVOTE -> se_h e1 = se_h e2 -> se_r e1 < se_r e2 -> (a < b)%nat.
Proof.
  intros Ha Hb T1 T2 Eh Lr. destruct node_keys_incr as (hi & HI).
  apply (Incr_index_order _ _ _ a b (evkey e1) (evkey e2) HI).
  - rewrite nth_error_map, Ha. reflexivity.
  - rewrite nth_error_map, Hb. reflexivity.
  - unfold evkey, lt3. rewrite Eh. right. split; [reflexivity|]. left. exact Lr.
Qed.

Lemma node_precommit_justified e b :
  In e evs_j -> se_ty e = PRECOMMIT -> se_x e = Some b ->
  QuorumIn (powers vals) (se_seen e) PREVOTE (se_h e) (se_r e) (Some b).
Proof.
  intros He Ty Ex. subst evs_j. unfold nevents in He. apply in_flat_map in He as ([o seen] & Ht & He).
  destruct (ev_of_inv _ _ _ He) as (Eo & Es & _). cbn [fst snd] in Eo, Es.
  apply in_split in Ht as (l & l' & Eq).
  destruct (tagged_split (E j) (init j) ins [] l o seen l' Eq) as (ins1 & i & ins2 & rest & _ & Hs & Hr).
  cbn [app run fst] in Hs, Hr.
  assert (Hin : In o (concat (snd (run (E j) (init j) (ins1 ++ [i]))))) by (rewrite <- Hr; apply in_elt).
  rewrite Eo, Ty, Ex in Hin.
  assert (Hnn : powers_nonneg (e_vals (E j))) by (rewrite E_vals; exact vals_nonneg).
  destruct (precommit_justified (E j) height0 (lc0 j) (ins1 ++ [i]) _ _ _ Hnn Hin) as [Pol _].
  unfold Polka in Pol. rewrite E_vals in Pol. rewrite <- Es, Hs. apply Quorum_QuorumIn. exact Pol.
Qed.

Lemma node_lock_rule a b e1 e2 bb :
  (a < b)%nat -> nth_error evs_j a = Some e1 -> nth_error evs_j b = Some e2 ->
  se_ty e1 = PRECOMMIT -> se_x e1 = Some bb -> se_ty e2 = PREVOTE -> se_h e2 = se_h e1 ->
  se_r e1 < se_r e2 -> bhash (se_x e2) <> Some (fst bb) ->
  exists r'' y, se_r e1 < r'' <= se_r e2 /\ bhash y <> Some (fst bb) /\
                QuorumIn (powers vals) (se_seen e2) PREVOTE (se_h e1) r'' y.
Proof.
  intros Hab Ha Hb T1 X1 T2 Eh Lr Nb. subst evs_j. unfold nevents in Ha, Hb.
  destruct (flat_map_two (ev_of j) (ev_of_le1 j) _ a b e1 e2 Hab Ha Hb) as (l1 & x1 & l2 & x2 & l3 & Eq & F1 & F2).
  destruct x1 as [o1 seen1], x2 as [o2 seen2].
  destruct (ev_of_inv j (o1, seen1) e1) as (Eo1 & _ & _); [rewrite F1; left; reflexivity|].
  destruct (ev_of_inv j (o2, seen2) e2) as (Eo2 & Es2 & _); [rewrite F2; left; reflexivity|].
  cbn [fst snd] in Eo1, Eo2, Es2.
  assert (Eq' : tagged (E j) (init j) [] ins = (l1 ++ (o1, seen1) :: l2) ++ (o2, seen2) :: l3)
    by (rewrite Eq, <- app_assoc; reflexivity).
  destruct (tagged_split (E j) (init j) ins [] _ o2 seen2 l3 Eq') as (ins1 & i & ins2 & rest & _ & Hs & Hr).
  cbn [app run fst] in Hs, Hr.
  rewrite map_app in Hr. cbn [map fst] in Hr. rewrite <- app_assoc in Hr. cbn [app] in Hr.
  rewrite Eo1, Eo2, T1, X1, T2, Eh in Hr.
  assert (Hnn : powers_nonneg (e_vals (E j))) by (rewrite E_vals; exact vals_nonneg).
  destruct (lock_discipline (E j) height0 (lc0 j) (ins1 ++ [i]) _ _ _ _ _ _ _ _ Hnn (eq_sym Hr) Lr Nb)
    as (r'' & y & Hr'' & Hy & Pol).
  exists r'', y. split; [exact Hr''|]. split; [exact Hy|].
  unfold Polka in Pol. rewrite E_vals in Pol. rewrite <- Es2, Hs. apply Quorum_QuorumIn. exact Pol.
Qed.

End OneNode.

(* ---------------------------------------------------------------- locating events in the schedule *)

Lemma firstn_snoc {A} : forall (l : list A) g x, nth_error l g = Some x -> firstn (S g) l = firstn g l ++ [x].
Proof.
  induction l as [|y l IH]; intros g x H; [destruct g; discriminate|].
  destruct g as [|g]; cbn in H |- *; [injection H as ->; reflexivity|]. f_equal. apply IH. exact H.
Qed.

Lemma gevents_prefix past st g :
  gevents past st = gevents past (firstn g st) ++ gevents (past ++ firstn g st) (skipn g st).
Proof. rewrite <- gevents_app, firstn_skipn. reflexivity. Qed.

Lemma gevents_prefix_len past st g0 g : (g0 <= g)%nat ->
  (length (gevents past (firstn g0 st)) <= length (gevents past (firstn g st)))%nat.
Proof.
  intro H. rewrite (gevents_prefix past (firstn g st) g0), firstn_firstn, Nat.min_l by exact H.
  rewrite app_length. lia.
Qed.

Lemma flat_tag_seen who seen outs e : In e (flat_map (ev_of who) (tag seen outs)) -> se_who e = who /\ se_seen e = seen.
Proof.
  intro H. apply in_flat_map in H as (t & Ht & He). destruct (ev_of_inv _ _ _ He) as (_ & Es & Ew).
  unfold tag in Ht. apply in_map_iff in Ht as (o & <- & _). cbn in Es. auto.
Qed.

(* every event was produced by a definite step of the schedule *)
Lemma event_step : forall st past t e, nth_error (gevents past st) t = Some e ->
  exists g i, nth_error st g = Some (se_who e, i) /\
    (length (gevents past (firstn g st)) <= t)%nat /\
    se_seen e = vkeys (votes_of (proj (se_who e) (past ++ firstn (S g) st))).
Proof.
  induction st as [|[k i] st IH]; intros past t e H; [destruct t; discriminate|].
  cbn [gevents] in H.
  set (F := flat_map (ev_of k) (tag (vkeys (votes_of (proj k past ++ [i])))
              (snd (handle (E k) (fst (run (E k) (init k) (proj k past))) i)))) in *.
  destruct (Nat.lt_ge_cases t (length F)) as [Hlt|Hge].
  - rewrite nth_error_app1 in H by exact Hlt. apply nth_error_In in H.
    destruct (flat_tag_seen _ _ _ _ H) as [Ew Es]. exists 0%nat, i. rewrite Ew. split; [reflexivity|].
    split; [cbn; lia|]. rewrite Es. cbn [firstn]. rewrite proj_app, proj_cons_same. reflexivity.
  - rewrite nth_error_app2 in H by exact Hge.
    destruct (IH (past ++ [(k, i)]) (t - length F)%nat e H) as (g & i' & Hn & Hl & Hs).
    exists (S g), i'. split; [exact Hn|]. split.
    + cbn [firstn gevents]. fold F. rewrite app_length. lia.
    + rewrite Hs, <- app_assoc. reflexivity.
Qed.

Lemma votes_of_proj_in k v : forall st n, In v (votes_of (proj k (firstn n st))) ->
  exists g peer, (g < n)%nat /\ nth_error st g = Some (k, IVote v peer).
Proof.
  induction st as [|[k' i] st IH]; intros n H; [rewrite firstn_nil in H; destruct H|].
  destruct n as [|n]; [destruct H|]. cbn [firstn] in H.
  destruct (Nat.eqb k' k) eqn:Ek.
  - apply Nat.eqb_eq in Ek. subst k'. rewrite proj_cons_same in H.
    change (i :: proj k (firstn n st)) with ([i] ++ proj k (firstn n st)) in H.
    rewrite votes_of_app in H. apply in_app_or in H as [H|H].
    + destruct i; cbn in H; try tauto. destruct H as [<-|[]]. exists 0%nat, peer. split; [lia | reflexivity].
    + destruct (IH n H) as (g & peer & Hg & Hn). exists (S g), peer. split; [lia | exact Hn].
  - rewrite (proj_cons_other k k' i _ Ek) in H.
    destruct (IH n H) as (g & peer & Hg & Hn). exists (S g), peer. split; [lia | exact Hn].
Qed.

(* ---------------------------------------------------------------- agreement for the network *)

Variable steps : sched.
Let evs := gevents [] steps.
Let ps := powers vals.

Variable correct : nat -> bool.
Variable faulty : list nat.
Hypothesis faulty_nodup : NoDup faulty.
Hypothesis faulty_bound : forall i, In i faulty -> (i < length ps)%nat.
Hypothesis faulty_complete : forall i, (i < length ps)%nat -> correct i = false -> In i faulty.
Hypothesis less_than_third : 3 * pw ps faulty < total ps.

(* Unforgeability — the only assumption on the network and on the faulty validators: a vote
   that verifies under the key of a correct validator and is delivered at step g was signed by
   that validator's state machine in an earlier step. *)
Hypothesis unforgeable : forall g k v peer,
  nth_error steps g = Some (k, IVote v peer) -> v_ok v = true -> 0 <= v_idx v ->
  correct (Z.to_nat (v_idx v)) = true ->
  exists e, In e (gevents [] (firstn g steps)) /\ se_who e = Z.to_nat (v_idx v) /\
            se_ty e = v_type v /\ se_h e = v_height v /\ se_r e = v_round v /\ se_x e = v_bid v.

Lemma delivered_was_signed k n ty h r x j :
  In (ty, h, r, x, j) (vkeys (votes_of (proj k (firstn n steps)))) -> correct j = true ->
  exists t', (t' < length (gevents [] (firstn n steps)))%nat /\ signed_at evs t' j ty h r x.
Proof.
  intros Hin Hc. apply vkeys_in in Hin as (v & Hv & Ok & Ix & <- & <- & <- & <- & <-).
  destruct (votes_of_proj_in k v steps n Hv) as (g & peer & Hg & Hn).
  destruct (unforgeable g k v peer Hn Ok Ix Hc) as (e & He & Ew & Et & Eh & Er & Ex).
  apply In_nth_error in He as (t' & Ht').
  assert (Hlt : (t' < length (gevents [] (firstn g steps)))%nat) by (apply nth_error_Some; rewrite Ht'; discriminate).
  exists t'. split.
  - pose proof (gevents_prefix_len [] steps g n ltac:(lia)). lia.
  - exists e. split; [|auto]. subst evs. rewrite (gevents_prefix [] steps g). rewrite nth_error_app1 by exact Hlt. exact Ht'.
Qed.

Lemma net_causal : forall t e, nth_error evs t = Some e ->
  forall ty h r x j, In (ty, h, r, x, j) (se_seen e) -> correct j = true ->
    exists t', (t' < t)%nat /\ signed_at evs t' j ty h r x.
Proof.
  intros t e He ty h r x j Hin Hc. subst evs.
  destruct (event_step steps [] t e He) as (g & i & Hn & Hl & Hs). cbn [app] in Hs.
  rewrite Hs in Hin.
  (* the vote was delivered at a step g0 <= g; the signer signed before g0 *)
  apply vkeys_in in Hin as (v & Hv & Ok & Ix & <- & <- & <- & <- & <-).
  destruct (votes_of_proj_in _ v steps (S g) Hv) as (g0 & peer & Hg0 & Hn0).
  destruct (unforgeable g0 _ v peer Hn0 Ok Ix Hc) as (e' & He' & Ew & Et & Eh & Er & Ex).
  apply In_nth_error in He' as (t' & Ht').
  assert (Hlt : (t' < length (gevents [] (firstn g0 steps)))%nat) by (apply nth_error_Some; rewrite Ht'; discriminate).
  exists t'. split.
  - pose proof (gevents_prefix_len [] steps g0 g ltac:(lia)). lia.
  - exists e'. split; [|auto]. rewrite (gevents_prefix [] steps g0). rewrite nth_error_app1 by exact Hlt. exact Ht'.
Qed.

(* the events of one node inside the global list *)
Lemma evs_of_node who : filter (by_node who) evs = nevents (E who) (init who) who [] (proj who steps).
Proof. subst evs. apply (gevents_proj who steps []). Qed.

Lemma node_index t e : nth_error evs t = Some e ->
  nth_error (nevents (E (se_who e)) (init (se_who e)) (se_who e) [] (proj (se_who e) steps))
            (rank (by_node (se_who e)) evs t) = Some e.
Proof.
  intro H. rewrite <- evs_of_node. apply rank_nth; [exact H|]. unfold by_node. apply Nat.eqb_refl.
Qed.

Lemma net_one_per_step : forall t1 t2 who ty h r x1 x2,
  signed_at evs t1 who ty h r x1 -> signed_at evs t2 who ty h r x2 -> x1 = x2.
Proof.
  intros t1 t2 who ty h r x1 x2 (e1 & E1 & W1 & T1 & H1 & R1 & X1) (e2 & E2 & W2 & T2 & H2 & R2 & X2).
  pose proof (node_index t1 e1 E1) as N1. pose proof (node_index t2 e2 E2) as N2.
  rewrite W1 in N1. rewrite W2 in N2.
  assert (Eab := node_one_per_step who (proj who steps) _ _ e1 e2 N1 N2 ltac:(congruence) ltac:(congruence) ltac:(congruence)).
  rewrite Eab in N1. rewrite N1 in N2. injection N2 as ->. congruence.
Qed.

Lemma net_signing_order : forall t1 t2 who h r r' x1 x2,
  signed_at evs t1 who PRECOMMIT h r x1 -> signed_at evs t2 who PREVOTE h r' x2 -> r < r' -> (t1 < t2)%nat.
Proof.
  intros t1 t2 who h r r' x1 x2 (e1 & E1 & W1 & T1 & H1 & R1 & X1) (e2 & E2 & W2 & T2 & H2 & R2 & X2) Lr.
  pose proof (node_index t1 e1 E1) as N1. pose proof (node_index t2 e2 E2) as N2.
  rewrite W1 in N1. rewrite W2 in N2.
  pose proof (node_signing_order who (proj who steps) _ _ e1 e2 N1 N2 T1 T2 ltac:(congruence) ltac:(lia)) as Hab.
  destruct (Nat.lt_ge_cases t1 t2) as [L|G]; [exact L|].
  pose proof (rank_mono (by_node who) evs t2 t1 G). lia.
Qed.

Lemma net_precommit_justified : forall t e b,
  nth_error evs t = Some e -> se_ty e = PRECOMMIT -> se_x e = Some b ->
  QuorumIn ps (se_seen e) PREVOTE (se_h e) (se_r e) (Some b).
Proof.
  intros t e b He Ty Ex. pose proof (node_index t e He) as N. apply nth_error_In in N.
  exact (node_precommit_justified (se_who e) (proj (se_who e) steps) e b N Ty Ex).
Qed.

Lemma net_lock_rule : forall t1 t2 e2 who h r b r',
  signed_at evs t1 who PRECOMMIT h r (Some b) ->
  nth_error evs t2 = Some e2 -> se_who e2 = who -> se_ty e2 = PREVOTE -> se_h e2 = h -> se_r e2 = r' ->
  (t1 < t2)%nat -> r < r' -> bhash (se_x e2) <> Some (fst b) ->
  exists r'' y, r < r'' <= r' /\ bhash y <> Some (fst b) /\ QuorumIn ps (se_seen e2) PREVOTE h r'' y.
Proof.
  intros t1 t2 e2 who h r b r' (e1 & E1 & W1 & T1 & H1 & R1 & X1) E2 W2 T2 H2 R2 Lt Lr Nb.
  pose proof (node_index t1 e1 E1) as N1. pose proof (node_index t2 e2 E2) as N2.
  rewrite W1 in N1. rewrite W2 in N2.
  assert (Hab : (rank (by_node who) evs t1 < rank (by_node who) evs t2)%nat).
  { apply (rank_strict (by_node who) evs t1 t2 e1 E1); [unfold by_node; rewrite W1; apply Nat.eqb_refl | exact Lt]. }
  destruct (node_lock_rule who (proj who steps) _ _ e1 e2 b Hab N1 N2 T1 X1 T2 ltac:(congruence) ltac:(lia) Nb)
    as (r'' & y & Hr & Hy & Q).
  exists r'', y. rewrite R1, R2, H1 in *. auto.
Qed.

(* a node's decision, as an abstract Decision *)
Lemma net_decision g k i h r bh :
  nth_error steps g = Some (k, i) ->
  In (ODecide h r bh) (snd (handle (E k) (fst (run (E k) (init k) (proj k (firstn g steps)))) i)) ->
  exists ph, Decision ps correct evs h r (bh, ph) (vkeys (votes_of (proj k (firstn (S g) steps)))).
Proof.
  intros Hn Hin.
  assert (Hnn : powers_nonneg (e_vals (E k))) by (rewrite E_vals; exact vals_nonneg).
  assert (Hc : In (ODecide h r bh) (concat (snd (run (E k) (init k) (proj k (firstn g steps) ++ [i])))))
    by (rewrite run_snoc_snd; apply in_or_app; right; exact Hin).
  destruct (decide_backed (E k) height0 (lc0 k) _ h r bh Hnn Hc) as (ph & blk & Q & _).
  exists ph. rewrite E_vals in Q.
  assert (Epre : proj k (firstn (S g) steps) = proj k (firstn g steps) ++ [i]).
  { rewrite (firstn_snoc steps g _ Hn), proj_app, proj_cons_same. reflexivity. }
  rewrite Epre. split; [apply Quorum_QuorumIn; exact Q|].
  intros ty h' r' x j Hk Hcj. rewrite <- Epre in Hk.
  destruct (delivered_was_signed k (S g) ty h' r' x j Hk Hcj) as (t' & _ & S). exists t'. exact S.
Qed.

(* Agreement: in every execution of the network — any interleaving, any delays, losses,
   duplications, any behaviour of validators holding less than a third of the power — two
   decisions for the same height are for the same block. *)
Theorem network_agreement g1 k1 i1 g2 k2 i2 h r1 r2 bh1 bh2 :
  nth_error steps g1 = Some (k1, i1) -> nth_error steps g2 = Some (k2, i2) ->
  In (ODecide h r1 bh1) (snd (handle (E k1) (fst (run (E k1) (init k1) (proj k1 (firstn g1 steps)))) i1)) ->
  In (ODecide h r2 bh2) (snd (handle (E k2) (fst (run (E k2) (init k2) (proj k2 (firstn g2 steps)))) i2)) ->
  bh1 = bh2.
Proof.
  intros N1 N2 D1 D2.
  destruct (net_decision g1 k1 i1 h r1 bh1 N1 D1) as (ph1 & Dec1).
  destruct (net_decision g2 k2 i2 h r2 bh2 N2 D2) as (ph2 & Dec2).
  exact (agreement ps (nonneg_powers vals vals_nonneg) correct faulty faulty_nodup faulty_bound faulty_complete
           less_than_third evs net_causal net_one_per_step net_signing_order net_precommit_justified net_lock_rule
           h r1 (bh1, ph1) _ r2 (bh2, ph2) _ Dec1 Dec2).
Qed.

End Network.

(* ---------------------------------------------------------------- a decidable form of unforgeability
   (used to show that concrete schedules meet the hypothesis of [network_agreement]) *)

Definition ev_matches (v : vote) (e : sev) : bool :=
  Nat.eqb (se_who e) (Z.to_nat (v_idx v)) && (se_ty e =? v_type v)%N && (se_h e =? v_height v)
  && (se_r e =? v_round v) && blockid_eqb (se_x e) (v_bid v).

Definition unforgeable_b (E : nat -> env) (height0 : Z) (lc0 : nat -> option voteset)
           (correct : nat -> bool) (steps : sched) : bool :=
  forallb (fun g =>
    match nth_error steps g with
    | Some (_, IVote v _) =>
        if v_ok v && (0 <=? v_idx v) && correct (Z.to_nat (v_idx v))
        then existsb (ev_matches v) (gevents E height0 lc0 [] (firstn g steps)) else true
    | _ => true
    end) (List.seq 0 (length steps)).

Lemma unforgeable_b_ok E height0 lc0 correct steps :
  unforgeable_b E height0 lc0 correct steps = true ->
  forall g k v peer,
    nth_error steps g = Some (k, IVote v peer) -> v_ok v = true -> 0 <= v_idx v ->
    correct (Z.to_nat (v_idx v)) = true ->
    exists e, In e (gevents E height0 lc0 [] (firstn g steps)) /\ se_who e = Z.to_nat (v_idx v) /\
              se_ty e = v_type v /\ se_h e = v_height v /\ se_r e = v_round v /\ se_x e = v_bid v.
Proof.
  intros H g k v peer Hn Ok Ix Hc. unfold unforgeable_b in H. rewrite forallb_forall in H.
  assert (Hg : In g (List.seq 0 (length steps))).
  { apply in_seq. split; [lia|]. cbn. apply nth_error_Some. rewrite Hn. discriminate. }
  specialize (H g Hg). rewrite Hn, Ok, Hc in H. apply Z.leb_le in Ix. rewrite Ix in H. cbn in H.
  apply existsb_exists in H as (e & He & Hm). exists e. split; [exact He|].
  unfold ev_matches in Hm. repeat (apply andb_prop in Hm as [Hm ?]).
  apply Nat.eqb_eq in Hm.
  repeat match goal with
         | X : (_ =? _)%N = true |- _ => apply N.eqb_eq in X
         | X : (_ =? _) = true |- _ => apply Z.eqb_eq in X
         | X : blockid_eqb _ _ = true |- _ => apply blockid_eqb_eq in X
         end.
  auto.
Qed.
