(* C01 — executable side: the multi-node simulation harness
   (harness/overlay/consensus/verif_c01_test.go) wires real consensus.State objects of the
   correct validators through an adversarial scheduler with faulty validators (< 1/3 of the
   power).  Each node's trace is replayed through the C02 model (comparison) and the monitors
   check, on the implementation's own outputs: agreement across nodes, decision backing, and
   the C02 clauses for every node. *)
From Coq Require Import List ZArith NArith Bool.
From TM Require Import Common.Hex.
From TM Require Export C02.Exec.
Import ListNotations.
Open Scope Z_scope.

Inductive case :=
| CNet (vals : valset) (skip : bool) (initial_height : Z) (proposers : list (Z * list Z))
       (nodes : list (Z * list (input * obs))).

Definition decisions (steps : list (input * obs)) : list (Z * N) :=
  flat_map (fun io => flat_map (fun o => match o with ODecide h _ b => [(h, b)] | _ => [] end)
                               (o_outs (snd io))) steps.

(* no two decisions (of any nodes) for one height name different blocks *)
Fixpoint agree (ds : list (Z * N)) : bool :=
  match ds with
  | [] => true
  | (h, b) :: r => forallb (fun d => negb (fst d =? h) || (snd d =? b)%N) r && agree r
  end.

Definition node_verdict (vals : valset) (skip : bool) (ih : Z) (props : list (Z * list Z))
           (nd : Z * list (input * obs)) : list verdict :=
  let '(me, steps) := nd in
  let E := mk_env vals (if me <? 0 then None else Some me) skip ih props in
  let '(k, code) := replay E (init_state E ih None) steps 0%N in
  [ viol (mon_one_per_step steps) 11;
    viol (mon_precommit_justified vals [] steps) 12;
    viol (mon_lock vals [] [] steps) 13;
    viol (mon_decide vals [] steps) 2;
    (if (code =? 0)%N then V_ok else V_mismatch (1000 * k + code)) ].

Definition check (c : case) : verdict :=
  match c with
  | CNet vals skip ih props nodes =>
    first_of (viol (agree (flat_map (fun nd => decisions (snd nd)) nodes)) 1
              :: flat_map (node_verdict vals skip ih props) nodes)
  end.
